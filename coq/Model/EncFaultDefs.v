(* Model/EncFaultDefs.v — vocabulary of Proofs/CombineEncFault.v (fault classification on the encrypt side).
   Definitions only. *)
From Kestrel Require Import Bytes Outcome IO IOFacts Prims.
From Kestrel.Model Require Import AeadWrap Chunks ChunksRobustDefs.
Local Open Scope N_scope.

(* ---- fault classification on the ENCRYPT side (property C10; Proofs/CombineEncFault.v) ----
   how a run that stopped at the non-benign event e must have ended *)
Definition efault_result {A} (e : event) (res : outcome eerr A) : Prop :=
  match e with
  | EvReadErr _ ie => ie <> Interrupted /\ res = Err (EIORead ie)     (* the error kind of the failed call *)
  | EvWrite _ _ | EvWriteErr _ _ | EvFlush _ => exists ie, res = Err (EIOWrite ie)
  | _ => False
  end.

(* The new events d (newest first) of an encrypt run.  Either all are benign — then the result is not a
   write error, and it is a read error only if the newest event is an Interrupted raw read (the encryptor's
   read(buf) calls are not retried) — or exactly the newest one is a fault and the result is the matching
   I/O error. *)
Definition efault_shape {A} (d : list event) (res : outcome eerr A) : Prop :=
  (Forall benign d /\ (forall ie, res <> Err (EIOWrite ie)) /\
   (forall ie, res = Err (EIORead ie) -> ie = Interrupted /\ exists n d', d = EvReadErr n Interrupted :: d')) \/
  exists e d', d = e :: d' /\ Forall benign d' /\ ~ benign e /\ efault_result e res.

(* a computation all of whose runs have that shape *)
Definition efstop {A} (m : M eerr A) : Prop :=
  forall s r s', m s = (r, s') -> exists d, log s' = d ++ log s /\ efault_shape d r.

(* the error value of a result, if any *)
Definition eerrview {A} (r : outcome eerr A) : option eerr := match r with Err e => Some e | _ => None end.

(* The statement of the property for one run.  d = the new events of the run, newest first.
   (1) a successful run had no failing call; (2) a failing (non-benign) call is the NEWEST event — nothing
   happens after it — everything before it is benign, and it determines the result: a failed read gives the
   read error with that call's error kind, a failed / zero-length write or a failed flush gives a write error;
   (3) a read-error result comes from a failed read as newest event, with exactly that kind (Interrupted
   included: the encryptor's raw reads are not retried); (4) a write-error result comes from a failing write
   or flush as newest event. *)
Definition enc_fault_statement {A} (d : list event) (res : outcome eerr A) : Prop :=
  ((exists a, res = Ok a) -> Forall benign d) /\
  (forall e, In e d -> ~ benign e ->
     (exists d', d = e :: d' /\ Forall benign d') /\
     (is_read_ev e -> exists n ie, e = EvReadErr n ie /\ ie <> Interrupted /\ res = Err (EIORead ie)) /\
     (is_write_ev e \/ is_flush_event e -> exists ie, res = Err (EIOWrite ie))) /\
  (forall ie, res = Err (EIORead ie) -> exists n d', d = EvReadErr n ie :: d' /\ Forall benign d') /\
  (forall ie, res = Err (EIOWrite ie) ->
     exists e d', d = e :: d' /\ Forall benign d' /\ ~ benign e /\ (is_write_ev e \/ is_flush_event e)).


(* ---- the prefix statement on the encrypt side ---- *)
(* the successive read results up to (not including) the first empty one *)
Fixpoint reads_until_empty (l : list bytes) : list bytes :=
  match l with
  | [] => []
  | c :: r => match c with [] => [] | _ :: _ => c :: reads_until_empty r end
  end.
(* some read returned 0 bytes: the encryptor saw end of input *)
Definition saw_eof (l : list bytes) : bool := existsb (fun c => match c with [] => true | _ => false end) l.
