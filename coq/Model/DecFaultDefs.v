(* Model/DecFaultDefs.v — the fault statement of property C10 for a decrypt run with any result type
   (file level: key_decrypt returns the sender key).  Definitions only. *)
From Kestrel Require Import Bytes Outcome IO IOFacts Prims.
From Kestrel.Model Require Import AeadWrap Chunks ChunksRobustDefs.
Local Open Scope N_scope.

(* d = the new events of the run, newest first.
   (1) a successful run had no failing call; (2) a failing (non-benign) call is the NEWEST event, everything
   before it is benign, and it determines the result: read side -> DIORead (not Interrupted), write or flush
   side -> DIOWrite; (3) the result DIORead Interrupted arises only from the (unretried) one-byte end-of-file
   probe as newest event. *)
Definition dec_fault_statement {A} (d : list event) (res : outcome derr A) : Prop :=
  ((exists a, res = Ok a) -> Forall benign d) /\
  (forall e, In e d -> ~ benign e ->
     (exists d', d = e :: d' /\ Forall benign d') /\
     (is_read_ev e -> exists ie, ie <> Interrupted /\ res = Err (DIORead ie)) /\
     (is_write_ev e \/ is_flush_event e -> exists ie, res = Err (DIOWrite ie))) /\
  (res = Err (DIORead Interrupted) -> exists d', d = EvReadErr 1 Interrupted :: d' /\ Forall benign d').
