(* Model/EventPreds.v — event classes used by Proofs/ChunksOpen.v and Proofs/FilesFacts.v. *)
From Kestrel Require Import Bytes Outcome IO.

(* an event that does not touch the sink: no Write::write call, no flush *)
Definition no_out_ev (e : event) : Prop :=
  match e with EvWrite _ _ | EvWriteErr _ _ | EvFlush _ => False | _ => True end.

(* a successful AEAD open under [key] *)
Definition is_open_ok (key : bytes) (e : event) : Prop :=
  exists m ad ct pt, e = EvOpen key m ad ct (Some pt).

(* an event of the sink: Write::write call or flush *)
Definition is_out_ev (e : event) : Prop :=
  match e with EvWrite _ _ | EvWriteErr _ _ | EvFlush _ => True | _ => False end.
