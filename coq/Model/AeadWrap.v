(* Model/AeadWrap.v — lib.rs wrappers around the primitives: chapoly_{en,de}crypt_{ietf,noise},
   x25519, x25519_derive_public, sha256, hmac_sha256, hkdf_noise, hkdf_sha256, scrypt.
   Each Rust panic site is an explicit [Panic]. *)
From Kestrel Require Import Bytes Outcome Prims.
Local Open Scope N_scope.

Section Wrap.
Variable P : prims.

Inductive chapoly_err := ChaPolyDecryptError.
Inductive dh_err := DhError.
Inductive noise_err := NDecrypt | NDh | NOther.

(* repaired code (fix F1): a ciphertext shorter than the tag is an error value, not a panic.
   [short_ct_panics] = true models the code before the repair (usize underflow in
   `ciphertext.len() - TAG_SIZE`), kept to exhibit the refutation. *)
Definition chapoly_decrypt_ietf_gen (short_ct_panics : bool)
    (key nonce ct ad : bytes) : outcome chapoly_err bytes :=
  if negb (Nat.eqb (length nonce) 12) then Panic PUnwrap      (* expect("Nonce must be 12 bytes") *)
  else if negb (Nat.eqb (length key) 32) then Panic PUnwrap   (* expect("Key must be 32 bytes") *)
  else if Nat.ltb (length ct) 16 then
    (if short_ct_panics then Panic PArith else Err ChaPolyDecryptError)
  else match p_open P key nonce ad ct with
       | Some pt => Ok pt
       | None => Err ChaPolyDecryptError
       end.
Definition chapoly_decrypt_ietf := chapoly_decrypt_ietf_gen false.

Definition chapoly_encrypt_ietf (key nonce pt ad : bytes) : outcome chapoly_err bytes :=
  if negb (Nat.eqb (length nonce) 12) then Panic PUnwrap
  else if negb (Nat.eqb (length key) 32) then Panic PUnwrap
  else Ok (p_seal P key nonce ad pt).

(* nonce: u64 counter -> 4 zero bytes ++ little-endian 8 bytes *)
Definition noise_nonce (n : N) : bytes := zeros 4 ++ le64 n.

Definition chapoly_encrypt_noise (key : bytes) (n : N) (ad pt : bytes) : outcome chapoly_err bytes :=
  chapoly_encrypt_ietf key (noise_nonce n) pt ad.

Definition chapoly_decrypt_noise (key : bytes) (n : N) (ad ct : bytes) : outcome chapoly_err bytes :=
  if negb (Nat.eqb (length key) 32) then Panic PAssert       (* assert_eq!(key.len(), 32) *)
  else chapoly_decrypt_ietf key (noise_nonce n) ct ad.

(* x25519(k, u): both must be 32 bytes (expect); all-zero shared secret is DhError *)
Definition x25519 (k u : bytes) : outcome dh_err bytes :=
  if negb (Nat.eqb (length k) 32) then Panic PUnwrap
  else if negb (Nat.eqb (length u) 32) then Panic PUnwrap
  else let r := p_dh P k u in
       if all_zero r then Err DhError else Ok r.

Definition x25519_derive_public (sk : bytes) : outcome dh_err bytes :=
  if negb (Nat.eqb (length sk) 32) then Panic PUnwrap else Ok (dh_pub P sk).

Definition hkdf_noise (ck ikm : bytes) : bytes * bytes :=
  let temp := p_hmac P ck ikm in
  let o1 := p_hmac P temp [1] in
  let o2 := p_hmac P temp (o1 ++ [2]) in     (* counter2[..32] = output1 (32 bytes); counter2[32] = 2 *)
  (o1, o2).

End Wrap.
