(* Model/AeadWrap.v — lib.rs wrappers around the primitives.  Defined here, each Rust panic site an explicit
   [Panic]: chapoly_{en,de}crypt_{ietf,noise}, x25519, x25519_derive_public, hkdf_noise, hkdf_sha256.
   NOT wrapped: sha256 and hmac_sha256 (the models use [p_hash] / [p_hmac] directly; their `unwrap`s can fail
   only for inputs beyond 2^61 bytes) and scrypt ([p_scrypt] in the file-level models; the function itself with
   all its asserts and arithmetic panics is Model/ScryptImpl.v).  Model/Files.v calls [p_hkdf] directly at
   kestrel's own length 32, where [hkdf_sha256] cannot panic (PrimFacts.hkdf_sha256_own_calls). *)
From Kestrel Require Import Bytes Outcome Prims.
Local Open Scope N_scope.

Section Wrap.
Variable P : prims.

Inductive chapoly_err := ChaPolyDecryptError.
Inductive dh_err := DhError.
Inductive noise_err := NDecrypt | NDh | NOther.

(* repaired code (fix F1): a ciphertext shorter than the tag is an error value, not a panic.
   [short_ct_panics] = true models the code before the repair (usize underflow in
   `ciphertext.len() - TAG_SIZE`), kept to exhibit the refutation. *)
Definition chapoly_decrypt_ietf_gen (short_ct_panics : bool)
    (key nonce ct ad : bytes) : outcome chapoly_err bytes :=
  if negb (Nat.eqb (length nonce) 12) then Panic PUnwrap      (* expect("Nonce must be 12 bytes") *)
  else if negb (Nat.eqb (length key) 32) then Panic PUnwrap   (* expect("Key must be 32 bytes") *)
  else if Nat.ltb (length ct) 16 then
    (if short_ct_panics then Panic PArith else Err ChaPolyDecryptError)
  else match p_open P key nonce ad ct with
       | Some pt => Ok pt
       | None => Err ChaPolyDecryptError
       end.
Definition chapoly_decrypt_ietf := chapoly_decrypt_ietf_gen false.

Definition chapoly_encrypt_ietf (key nonce pt ad : bytes) : outcome chapoly_err bytes :=
  if negb (Nat.eqb (length nonce) 12) then Panic PUnwrap
  else if negb (Nat.eqb (length key) 32) then Panic PUnwrap
  else Ok (p_seal P key nonce ad pt).

(* nonce: u64 counter -> 4 zero bytes ++ little-endian 8 bytes *)
Definition noise_nonce (n : N) : bytes := zeros 4 ++ le64 n.

Definition chapoly_encrypt_noise (key : bytes) (n : N) (ad pt : bytes) : outcome chapoly_err bytes :=
  chapoly_encrypt_ietf key (noise_nonce n) pt ad.

Definition chapoly_decrypt_noise (key : bytes) (n : N) (ad ct : bytes) : outcome chapoly_err bytes :=
  if negb (Nat.eqb (length key) 32) then Panic PAssert       (* assert_eq!(key.len(), 32) *)
  else chapoly_decrypt_ietf key (noise_nonce n) ct ad.

(* x25519(k, u): both must be 32 bytes (expect); all-zero shared secret is DhError *)
Definition x25519 (k u : bytes) : outcome dh_err bytes :=
  if negb (Nat.eqb (length k) 32) then Panic PUnwrap
  else if negb (Nat.eqb (length u) 32) then Panic PUnwrap
  else let r := p_dh P k u in
       if all_zero r then Err DhError else Ok r.

Definition x25519_derive_public (sk : bytes) : outcome dh_err bytes :=
  if negb (Nat.eqb (length sk) 32) then Panic PUnwrap else Ok (dh_pub P sk).

Definition hkdf_noise (ck ikm : bytes) : bytes * bytes :=
  let temp := p_hmac P ck ikm in
  let o1 := p_hmac P temp [1] in
  let o2 := p_hmac P temp (o1 ++ [2]) in     (* counter2[..32] = output1 (32 bytes); counter2[32] = 2 *)
  (o1, o2).

(* hkdf_sha256(salt, ikm, info, len): `orion::hazardous::kdf::hkdf::sha256::derive_key(..).unwrap()` into a
   `vec![0u8; len]`.  orion refuses an empty destination and one longer than 255 * 32 = 8160 bytes, so the
   `unwrap` panics exactly for len = 0 and len > 8160; there is no error value (the Rust function returns the
   Vec), hence the empty error type.  kestrel's own calls pass len = 32 (Files.file_key calls [p_hkdf]
   directly; PrimFacts.hkdf_sha256_own_calls shows the wrapper is [Ok] of the same value there). *)
Definition hkdf_max_len : nat := 255 * 32.
Definition hkdf_sha256 (salt ikm info : bytes) (len : nat) : outcome Empty_set bytes :=
  if Nat.eqb len 0 || Nat.ltb hkdf_max_len len then Panic PUnwrap
  else Ok (p_hkdf P salt ikm info len).

End Wrap.
