(* Model/KeyringKeysKat.v — known-answer tests for Model/Keyring.v, by vm_compute, on the concrete
   RFC instance [rfc_prims] (SHA-256, ChaCha20-Poly1305, X25519 from Spec/).

   scrypt with N = 32768 cannot be evaluated inside Coq.  [kat_scrypt] is a TABLE: for the four
   (password, salt) pairs that the tests module of keyring.rs exercises it returns the 32-byte
   key computed OUTSIDE Coq (Python hashlib.scrypt = OpenSSL EVP_PBE_scrypt, n=32768, r=8, p=1,
   dklen=32); for every other input it is a STUB, SHA-256(password ++ salt) (32 bytes, depends on
   both inputs, NOT scrypt).  The examples that
   use a table entry therefore check layout, AEAD and base64 against the Rust test vectors GIVEN
   those four scrypt values; the public-key examples use no scrypt at all. *)
From Coq Require Import String Ascii.
From Kestrel Require Import Bytes Outcome Prims.
From Kestrel.gen Require Import Extracted.
From Kestrel.Spec Require Import Hex Base64 Sha256 Concrete.
From Kestrel.Model Require Import AeadWrap KeyringText KeyringKat Keyring.
Local Open Scope N_scope.

Definition kat_table : list (bytes * bytes * bytes) := [
  (* test_lock_private_key: "alice", salt 7329ff6c.. *)
  (str "alice", hx "7329ff6c9e9d5eb8ace7c02663065915466c9b9401587339e45847034faa776e",
   hx "4d7e14788c759f55546cec45e0407018859ee9a9f694a0ac2123d651e16d255c");
  (* test_unlock_private_key: the salt embedded in KEYRING_INI's alice key, "alice" and "badpass" *)
  (str "alice", hx "f129d3db4a377ac0bad083413b21acdaa887430b3e71044510a6e4a171bd7713",
   hx "dcbb48baf243c4411f28dc4506324c1faf88834f6b96b74ea58255b97061cdfd");
  (str "badpass", hx "f129d3db4a377ac0bad083413b21acdaa887430b3e71044510a6e4a171bd7713",
   hx "8adc6c40fa19d23ed98587bc3f31c17bb0c8b348fa6f4455d2ade03f8e81ec6d");
  (* bad_sk2: two salt characters changed *)
  (str "alice", hx "f129d7cb4a377ac0bad083413b21acdaa887430b3e71044510a6e4a171bd7713",
   hx "b42f41d7823e456145f11f15f3d1fff08a5a2cf4201794a1f7d40c08d46addb7") ].

Fixpoint kat_lookup (t : list (bytes * bytes * bytes)) (pw salt : bytes) : option bytes :=
  match t with
  | [] => None
  | (p, s, k) :: r => if bytes_eqb p pw && bytes_eqb s salt then Some k else kat_lookup r pw salt
  end.
Definition kat_scrypt (pw salt : bytes) (n r p : N) (l : nat) : bytes :=
  if (n =? 32768) && (r =? 8) && (p =? 1) && Nat.eqb l 32 then
    match kat_lookup kat_table pw salt with Some k => k | None => sha256 (pw ++ salt) end
  else repeat 171 l.
Definition KP : prims := rfc_prims kat_scrypt.

(* ---------- constants ---------- *)
Example k_version : x_kr_private_key_version = T"egk0".  Proof. reflexivity. Qed.
Example k_lens : (x_kr_private_key_ct_len, x_kr_public_key_len, x_kr_encoded_pk_len) = (84, 32, 36).
Proof. reflexivity. Qed.
Example k_scrypt : (x_kr_scrypt_n, x_kr_scrypt_r, x_kr_scrypt_p, x_kr_lock_scrypt_len, x_kr_unlock_scrypt_len)
                   = (32768, 8, 1, 32, 32).
Proof. reflexivity. Qed.
Example k_max_name : x_kr_max_name_size = MAX_NAME_SIZE.  Proof. reflexivity. Qed.

(* ---------- test_encode_public_key / test_decode_public_key (real SHA-256, no scrypt) ---------- *)
Definition t_pk := hx "3ad53dc25581b18af543a1e8cf4edc2b4e4e483df5a7e0d5ada53e7e4bb86374".
Definition t_epk := T"OtU9wlWBsYr1Q6Hoz07cK05OSD31p+DVraU+fku4Y3R62CZl".
Definition t_bad_epk := T"PtU9wlWBsYr1Q6Hoz07cK05OSD31p+DVraU+fku4Y3R62CZl".

Example kat_encode_public_key : encode_public_key KP t_pk = Ok t_epk.
Proof. vm_compute. reflexivity. Qed.
Example kat_decode_public_key : decode_public_key KP t_epk = Ok t_pk.
Proof. vm_compute. reflexivity. Qed.
Example kat_decode_public_key_bad : decode_public_key KP t_bad_epk = Err PublicKeyChecksum.
Proof. vm_compute. reflexivity. Qed.
Example kat_pk_strings_ok : map pk_string_ok [t_epk; t_bad_epk; pk_alice; pk_bob] = [true; true; true; true].
Proof. vm_compute. reflexivity. Qed.
(* the two public keys of KEYRING_INI carry a correct checksum *)
Example kat_ini_pks_decode : map (fun e => is_ok (decode_public_key KP e)) [pk_alice; pk_bob] = [true; true].
Proof. vm_compute. reflexivity. Qed.

(* try_from: wrong length, padding, white space, non-alphabet characters, non-canonical last sextet *)
Example kat_pk_string_rejects :
  map pk_string_ok [ []; T"OtU9"; t_epk ++ T"AAAA"; removelast t_epk; t_epk ++ T"=";
                     T" " ++ t_epk; t_epk ++ [10]; T"OtU9wlWBsYr1Q6Hoz07cK05OSD31p-DVraU_fku4Y3R62CZl" ]
  = [false; false; false; false; false; false; false; false].
Proof. vm_compute. reflexivity. Qed.

(* panic sites of the public-key functions, reached only outside the types' invariants *)
Example kat_encode_pk_31 : encode_public_key KP (removelast t_pk) = Panic PSliceIndex.   (* copy_from_slice *)
Proof. vm_compute. reflexivity. Qed.
Example kat_decode_pk_undecodable : decode_public_key KP T"not base64!" = Panic PUnwrap. (* expect *)
Proof. vm_compute. reflexivity. Qed.
(* EncodedPk(..) built without try_from: fewer than 32 bytes / exactly 32 bytes (empty checksum) *)
Example kat_decode_pk_short : decode_public_key KP T"AAAA" = Err PublicKeyLength.
Proof. vm_compute. reflexivity. Qed.
Example kat_decode_pk_32 : decode_public_key KP (b64_encode t_pk) = Err PublicKeyChecksum.
Proof. vm_compute. reflexivity. Qed.

(* ---------- test_lock_private_key (scrypt value from the table) ---------- *)
Definition t_sk := hx "42d010ed1797fb3187351423f164caee1ce15eb5a462cf6194457b7a736938f5".
Definition t_salt := hx "7329ff6c9e9d5eb8ace7c02663065915466c9b9401587339e45847034faa776e".
Definition t_locked := T"ZWdrMHMp/2yenV64rOfAJmMGWRVGbJuUAVhzOeRYRwNPqndu4Pfkg4YXzIna9Eg58JwreHA37o49xCS0x8CWd3yRe+D2ytRXFLb67WNIwxqHJ9Fw".

Example kat_lock_private_key : lock_private_key KP t_sk (str "alice") t_salt = Ok t_locked.
Proof. vm_compute. reflexivity. Qed.
Example kat_unlock_locked : unlock_private_key KP t_locked (str "alice") = Ok t_sk.
Proof. vm_compute. reflexivity. Qed.

(* ---------- test_unlock_private_key ---------- *)
Definition t_bad_sk := T"ZWdrMPEtKN3rAutCDQTshrNqoh0MLPnEERRCm5KFxvXcTo+s/Sf2ze0fKebVsQilImvLzfIHRcJuX8kGetyAQL1VchvzHR28vFhdKeq+NY2KT".
Definition t_bad_sk2 := T"ZWdrMPEp18tKN3rAutCDQTshrNqoh0MLPnEERRCm5KFxvXcTo+s/Sf2ze0fKebVsQilImvLzfIHRcJuX8kGetyAQL1VchvzHR28vFhdKeq+NY2KT".

Example kat_unlock_alice : is_ok (unlock_private_key KP sk_alice (str "alice")) = true.
Proof. vm_compute. reflexivity. Qed.
Example kat_unlock_badpass : unlock_private_key KP sk_alice (str "badpass") = Err PrivateKeyDecrypt.
Proof. vm_compute. reflexivity. Qed.
Example kat_bad_sk_refused : sk_string_ok t_bad_sk = false.          (* EncodedSk::try_from(bad_sk).is_err() *)
Proof. vm_compute. reflexivity. Qed.
Example kat_bad_sk2_accepted : sk_string_ok t_bad_sk2 = true.        (* bad_sk2.try_into().unwrap() *)
Proof. vm_compute. reflexivity. Qed.
Example kat_unlock_bad_sk2 : unlock_private_key KP t_bad_sk2 (str "alice") = Err PrivateKeyDecrypt.
Proof. vm_compute. reflexivity. Qed.
(* EncodedSk(..) built without try_from on an undecodable string: as_bytes' expect *)
Example kat_unlock_undecodable : unlock_private_key KP t_bad_sk (str "alice") = Panic PUnwrap.
Proof. vm_compute. reflexivity. Qed.
(* a version byte changed ("egk1"): refused before any key derivation *)
Example kat_unlock_version :
  unlock_private_key KP (T"ZWdrMfEp" ++ skipn 8 sk_alice) (str "alice") = Err PrivateKeyFormat.
Proof. vm_compute. reflexivity. Qed.

(* ---------- the whole chain on the repository's test keyring ----------
   KEYRING_INI parses with the REAL validators, alice's private key unlocks with "alice", and
   extract-pub prints exactly the PublicKey line of that keyring entry. *)
Example kat_keyring_ini_real : parse_config pk_string_ok sk_string_ok KEYRING_INI = Ok [alice; bob].
Proof. vm_compute. reflexivity. Qed.
Example kat_extract_pub_alice : extract_pub KP sk_alice (str "alice") = Ok (T"PublicKey = " ++ pk_alice).
Proof. vm_compute. reflexivity. Qed.
Example kat_extract_pub_badpass : extract_pub KP sk_alice (str "badpass") = Err (CKeyring PrivateKeyDecrypt).
Proof. vm_compute. reflexivity. Qed.
Example kat_extract_pub_bad_string : extract_pub KP t_bad_sk (str "alice") = Err CBadPrivateKey.
Proof. vm_compute. reflexivity. Qed.

(* ---------- gen-key / change-pass (new passwords hit the stub scrypt) ---------- *)
Definition t_salt2 := hx "000102030405060708090a0b0c0d0e0f101112131415161718191a1b1c1d1e1f".

Example kat_gen_key :
  gen_key_text KP T"carol" t_sk (str "alice") t_salt =
  Ok (unlines [T"[Key]"; T"Name = carol"; T"PublicKey = " ++ b64_encode (pk_blob KP (dh_pub KP t_sk));
               T"PrivateKey = " ++ t_locked]).
Proof. vm_compute. reflexivity. Qed.
Example kat_gen_key_bad_name : gen_key_text KP (T"a" ++ [9] ++ T"b") t_sk (str "alice") t_salt = Err CInvalidName.
Proof. vm_compute. reflexivity. Qed.
(* append to the test keyring, parse, look the key up, unlock it *)
Example kat_gen_key_append :
  match gen_key_text KP T"carol" t_sk (str "alice") t_salt with
  | Ok txt =>
    match parse_config pk_string_ok sk_string_ok (KEYRING_INI ++ [10] ++ txt) with
    | Ok ks => match get_key ks T"carol" with
               | Some k => match k_priv k with
                           | Some esk => (length ks, unlock_private_key KP esk (str "alice"),
                                          decode_public_key KP (k_pub k))
                           | None => (0%nat, Panic PAssert, Panic PAssert)
                           end
               | None => (0%nat, Panic PAssert, Panic PAssert)
               end
    | _ => (0%nat, Panic PAssert, Panic PAssert)
    end
  | _ => (0%nat, Panic PAssert, Panic PAssert)
  end = (3%nat, Ok t_sk, Ok (dh_pub KP t_sk)).
Proof. vm_compute. reflexivity. Qed.

Example kat_change_pass :
  match change_pass_str KP t_locked (str "alice") (str "new password") t_salt2 with
  | Ok s => (sk_string_ok s, Nat.eqb (length s) 112, text_eqb s t_locked,
             unlock_private_key KP s (str "new password"),
             option_map (fun b => firstn 32 (skipn 4 b)) (b64_decode s))
  | _ => (false, false, false, Panic PAssert, None)
  end = (true, true, false, Ok t_sk, Some t_salt2).
Proof. vm_compute. reflexivity. Qed.
Example kat_change_pass_line :
  option_map (firstn 13) (match change_pass KP t_locked (str "alice") (str "x") t_salt2 with Ok l => Some l | _ => None end)
  = Some T"PrivateKey = ".
Proof. vm_compute. reflexivity. Qed.
Example kat_change_pass_wrong_old :
  change_pass KP sk_alice (str "badpass") (str "x") t_salt2 = Err (CKeyring PrivateKeyDecrypt).
Proof. vm_compute. reflexivity. Qed.
Example kat_change_pass_seq :
  match change_pass_seq KP t_locked (str "alice") [(str "p1", t_salt2); (str "p2", t_salt); (str "p3", t_salt2)] with
  | Ok outs => (length outs, unlock_private_key KP (last outs []) (str "p3"),
                unlock_private_key KP (last outs []) (str "p2") )
  | _ => (0%nat, Panic PAssert, Panic PAssert)
  end = (3%nat, Ok t_sk, Err PrivateKeyDecrypt).
Proof. vm_compute. reflexivity. Qed.
