(* KeyringSpec.v — declarative specification of the texts accepted by Keyring::parse_config.
   Definitions only.  [parse_refines_spec] in Proofs/KeyringRefine.v proves
        parse_config t = Ok ks  <->  accepts t ks.

   It shares with the model only the text primitives [lines], [clean] (= trim after removing
   TABs), [starts_with], [split_once_eq], [trim], [valid_key_name]; these are characterised
   independently in Proofs/KeyringRefine.v (section "primitives"). *)
From Kestrel Require Import Bytes Outcome.
From Kestrel.Model Require Import KeyringText.
Local Open Scope N_scope.

(* What one cleaned line is. *)
Inductive lclass :=
| LHeader                 (* starts with "[Key]" (anything may follow) *)
| LName (v : text)        (* starts with "Name", has an '='; v = trimmed text after the first '=' *)
| LPub  (v : text)        (* starts with "PublicKey", likewise *)
| LPriv (v : text)        (* starts with "PrivateKey", likewise *)
| LSkip                   (* empty, or a comment starting with '#' *)
| LNameNoEq | LPubNoEq | LPrivNoEq   (* a field keyword without any '=' : malformed *)
| LJunk.                  (* anything else *)

Definition field_value (cl : text) : option text :=
  match split_once_eq cl with Some (_, v) => Some (trim v) | None => None end.

Definition classify (cl : text) : lclass :=
  if starts_with s_hdr cl then LHeader
  else if starts_with s_name cl then
    match field_value cl with Some v => LName v | None => LNameNoEq end
  else if starts_with s_pub cl then
    match field_value cl with Some v => LPub v | None => LPubNoEq end
  else if starts_with s_priv cl then
    match field_value cl with Some v => LPriv v | None => LPrivNoEq end
  else if starts_with [c_hash] cl || is_empty cl then LSkip
  else LJunk.

(* the classified lines of a text *)
Definition classes (t : text) : list lclass := map (fun l => classify (clean l)) (lines t).

(* the values of the Name / PublicKey / PrivateKey lines among [b], in order *)
Definition names (b : list lclass) : list text :=
  flat_map (fun c => match c with LName v => [v] | _ => [] end) b.
Definition pubs (b : list lclass) : list text :=
  flat_map (fun c => match c with LPub v => [v] | _ => [] end) b.
Definition privs (b : list lclass) : list text :=
  flat_map (fun c => match c with LPriv v => [v] | _ => [] end) b.

(* a line that may occur inside a section body: a well-formed field, a blank or a comment *)
Definition body_line (c : lclass) : Prop :=
  match c with LName _ | LPub _ | LPriv _ | LSkip => True | _ => False end.

Definition opt_list {A} (o : option A) : list A := match o with Some a => [a] | None => [] end.

Section Spec.
  Variable pk_ok : text -> bool.
  Variable sk_ok : text -> bool.

  (* [body] = the lines between one "[Key]" header and the next (or the end); it describes [e] *)
  Definition section_ok (body : list lclass) (e : entry) : Prop :=
    Forall body_line body
    /\ names body = [k_name e] /\ valid_key_name (k_name e) = true   (* exactly one Name, valid *)
    /\ pubs body = [k_pub e] /\ pk_ok (k_pub e) = true               (* exactly one PublicKey, valid *)
    /\ privs body = opt_list (k_priv e)                              (* at most one PrivateKey ... *)
    /\ (forall s, k_priv e = Some s -> sk_ok s = true).              (* ... valid if present *)

  Definition accepts (t : text) (ks : list entry) : Prop :=
    exists (pre : list lclass) (secs : list (list lclass)),
      (* the text is: blank/comment lines, then one or more sections "[Key]" body *)
      classes t = pre ++ flat_map (fun body => LHeader :: body) secs
      /\ Forall (fun c => c = LSkip) pre
      /\ secs <> []
      (* the keys are exactly the sections, in order *)
      /\ Forall2 section_ok secs ks
      (* names pairwise distinct, public keys pairwise distinct *)
      /\ NoDup (map k_name ks) /\ NoDup (map k_pub ks).
End Spec.
