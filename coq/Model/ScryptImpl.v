(* Model/ScryptImpl.v — Gallina transcription of scrypt.rs (a port of Go's x/crypto/scrypt).
   Definitions only; no proofs.

   Conventions
   - u32 values and usize values are [N]; a [&[u32]] / [&mut [u32]] is a [list N]; a function taking
     [&mut] slices returns their new contents.
   - usize is 64 bits.  usize +, -, * are the overflow-checked (debug-build) operations: overflow
     gives [Panic PArith]; so does division by zero.
   - every indexing / slicing operation that Rust bounds-checks gives [Panic PSliceIndex] when out of
     range; a violated [assert!] gives [Panic PAssert]; [unwrap] on [Err] gives [Panic PUnwrap].
   - [vec![0; n]] panics ("capacity overflow") when the byte size exceeds isize::MAX: [Panic PArith].
   - loops run over an iteration count computed from the range, by structural recursion: no fuel,
     hence no [OutOfFuel].
   - u32 [wrapping_add] and [rotate_left] are [add32] and [rotl32] of Spec/Salsa.v. *)
From Kestrel Require Import Bytes Outcome.
From Kestrel.Spec Require Import Salsa.
Local Open Scope N_scope.

Definition res (A : Type) : Type := outcome unit A.

Notation "'let*' x ':=' c1 'in' c2" := (obind c1 (fun x => c2))
  (at level 61, x pattern, c1 at next level, right associativity).

(* ---------- usize ---------- *)
Definition usize_max : N := 18446744073709551615.   (* 2^64 - 1 *)
Definition isize_max : N := 9223372036854775807.    (* 2^63 - 1 *)
Definition u64_max : N := 18446744073709551615.

Definition uadd (a b : N) : res N := if a + b <=? usize_max then Ok (a + b) else Panic PArith.
Definition usub (a b : N) : res N := if b <=? a then Ok (a - b) else Panic PArith.
Definition umul (a b : N) : res N := if a * b <=? usize_max then Ok (a * b) else Panic PArith.
Definition udiv (a b : N) : res N := if b =? 0 then Panic PArith else Ok (a / b).

Definition assert (c : bool) : res unit := if c then Ok tt else Panic PAssert.

(* ---------- slices ---------- *)
Definition len {A} (l : list A) : N := N.of_nat (length l).

(* l[i] *)
Definition idx {A} (l : list A) (i : N) : res A :=
  match nth_error l (N.to_nat i) with Some x => Ok x | None => Panic PSliceIndex end.

Fixpoint lupd {A} (l : list A) (i : nat) (v : A) : list A :=
  match l, i with
  | [], _ => []
  | _ :: t, O => v :: t
  | h :: t, S i' => h :: lupd t i' v
  end.
(* l[i] = v *)
Definition set_idx {A} (l : list A) (i : N) (v : A) : res (list A) :=
  if i <? len l then Ok (lupd l (N.to_nat i) v) else Panic PSliceIndex.

(* &l[a..] *)
Definition slice_from {A} (l : list A) (a : N) : res (list A) :=
  if a <=? len l then Ok (skipn (N.to_nat a) l) else Panic PSliceIndex.
(* &l[..n] *)
Definition slice_to {A} (l : list A) (n : N) : res (list A) :=
  if n <=? len l then Ok (firstn (N.to_nat n) l) else Panic PSliceIndex.
(* &l[a..b] *)
Definition slice {A} (l : list A) (a b : N) : res (list A) :=
  if (a <=? b) && (b <=? len l)
  then Ok (firstn (N.to_nat (b - a)) (skipn (N.to_nat a) l)) else Panic PSliceIndex.

(* l with the sub-slice l[a..] replaced by s (the write-back of a [&mut l[a..]] borrow) *)
Definition put_from {A} (l : list A) (a : N) (s : list A) : list A := firstn (N.to_nat a) l ++ s.

(* dst.copy_from_slice(src): panics on a length mismatch *)
Definition copy_from_slice {A} (dst src : list A) : res (list A) :=
  if len dst =? len src then Ok src else Panic PSliceIndex.

(* vec![0; n] of elements of the given byte size *)
Definition vec_zero (elem_size n : N) : res (list N) :=
  if elem_size * n <=? isize_max then Ok (repeat 0 (N.to_nat n)) else Panic PArith.

(* ---------- loops ---------- *)
(* cnt iterations, loop variable i, i+step, ... *)
Fixpoint for_loop {S} (cnt : nat) (i step : N) (body : N -> S -> res S) (s : S) : res S :=
  match cnt with
  | O => Ok s
  | S c => let* s' := body i s in for_loop c (i + step) step body s'
  end.
(* for i in 0..n *)
Definition for_range {S} (n : N) (body : N -> S -> res S) (s : S) : res S :=
  for_loop (N.to_nat n) 0 1 body s.
(* for i in (0..n).step_by(2): ceil(n/2) iterations *)
Definition for_step2 {S} (n : N) (body : N -> S -> res S) (s : S) : res S :=
  for_loop (N.to_nat ((n + 1) / 2)) 0 2 body s.
(* for e in l.iter() *)
Fixpoint for_each {A S} (l : list A) (body : A -> S -> res S) (s : S) : res S :=
  match l with
  | [] => Ok s
  | e :: l' => let* s' := body e s in for_each l' body s'
  end.

(* ---------- fn block_copy(dst: &mut [u32], src: &[u32], n: usize) ----------
     dst[..n].copy_from_slice(&src[..n]);                                                  *)
Definition block_copy (dst src : list N) (n : N) : res (list N) :=
  let* d := slice_to dst n in
  let* s := slice_to src n in
  let* d' := copy_from_slice d s in
  Ok (d' ++ skipn (N.to_nat n) dst).

(* ---------- fn block_xor(dst: &mut [u32], src: &[u32], n: usize) ----------
     for (i, elem) in src[..n].iter().enumerate() { dst[i] ^= elem; }                      *)
Definition block_xor (dst src : list N) (n : N) : res (list N) :=
  let* s := slice_to src n in
  let* (dst, _) :=
    for_each s (fun elem '(dst, i) =>
      let* d := idx dst i in
      let* dst := set_idx dst i (N.lxor d elem) in
      Ok (dst, i + 1)) (dst, 0) in
  Ok dst.

(* ---------- fn salsa_xor(tmp: &mut [u32], inn: &[u32], out: &mut [u32]) ---------- *)
Definition st16 : Type := (N * N * N * N * N * N * N * N * N * N * N * N * N * N * N * N)%type.

(* let w0 = tmp[0] ^ inn[0]; ... let w15 = tmp[15] ^ inn[15]; *)
Definition rd (tmp inn : list N) (i : N) : res N :=
  let* a := idx tmp i in let* b := idx inn i in Ok (N.lxor a b).
Definition read16 (tmp inn : list N) : res st16 :=
  let* w0 := rd tmp inn 0 in
  let* w1 := rd tmp inn 1 in
  let* w2 := rd tmp inn 2 in
  let* w3 := rd tmp inn 3 in
  let* w4 := rd tmp inn 4 in
  let* w5 := rd tmp inn 5 in
  let* w6 := rd tmp inn 6 in
  let* w7 := rd tmp inn 7 in
  let* w8 := rd tmp inn 8 in
  let* w9 := rd tmp inn 9 in
  let* w10 := rd tmp inn 10 in
  let* w11 := rd tmp inn 11 in
  let* w12 := rd tmp inn 12 in
  let* w13 := rd tmp inn 13 in
  let* w14 := rd tmp inn 14 in
  let* w15 := rd tmp inn 15 in
  Ok (w0, w1, w2, w3, w4, w5, w6, w7, w8, w9, w10, w11, w12, w13, w14, w15).

(* the body of  for _ in (0..8).step_by(2)  *)
Definition dround (s : st16) : st16 :=
  let '(x0, x1, x2, x3, x4, x5, x6, x7, x8, x9, x10, x11, x12, x13, x14, x15) := s in
  let x4 := N.lxor x4 (rotl32 (add32 x0 x12) 7) in
  let x8 := N.lxor x8 (rotl32 (add32 x4 x0) 9) in
  let x12 := N.lxor x12 (rotl32 (add32 x8 x4) 13) in
  let x0 := N.lxor x0 (rotl32 (add32 x12 x8) 18) in

  let x9 := N.lxor x9 (rotl32 (add32 x5 x1) 7) in
  let x13 := N.lxor x13 (rotl32 (add32 x9 x5) 9) in
  let x1 := N.lxor x1 (rotl32 (add32 x13 x9) 13) in
  let x5 := N.lxor x5 (rotl32 (add32 x1 x13) 18) in

  let x14 := N.lxor x14 (rotl32 (add32 x10 x6) 7) in
  let x2 := N.lxor x2 (rotl32 (add32 x14 x10) 9) in
  let x6 := N.lxor x6 (rotl32 (add32 x2 x14) 13) in
  let x10 := N.lxor x10 (rotl32 (add32 x6 x2) 18) in

  let x3 := N.lxor x3 (rotl32 (add32 x15 x11) 7) in
  let x7 := N.lxor x7 (rotl32 (add32 x3 x15) 9) in
  let x11 := N.lxor x11 (rotl32 (add32 x7 x3) 13) in
  let x15 := N.lxor x15 (rotl32 (add32 x11 x7) 18) in

  let x1 := N.lxor x1 (rotl32 (add32 x0 x3) 7) in
  let x2 := N.lxor x2 (rotl32 (add32 x1 x0) 9) in
  let x3 := N.lxor x3 (rotl32 (add32 x2 x1) 13) in
  let x0 := N.lxor x0 (rotl32 (add32 x3 x2) 18) in

  let x6 := N.lxor x6 (rotl32 (add32 x5 x4) 7) in
  let x7 := N.lxor x7 (rotl32 (add32 x6 x5) 9) in
  let x4 := N.lxor x4 (rotl32 (add32 x7 x6) 13) in
  let x5 := N.lxor x5 (rotl32 (add32 x4 x7) 18) in

  let x11 := N.lxor x11 (rotl32 (add32 x10 x9) 7) in
  let x8 := N.lxor x8 (rotl32 (add32 x11 x10) 9) in
  let x9 := N.lxor x9 (rotl32 (add32 x8 x11) 13) in
  let x10 := N.lxor x10 (rotl32 (add32 x9 x8) 18) in

  let x12 := N.lxor x12 (rotl32 (add32 x15 x14) 7) in
  let x13 := N.lxor x13 (rotl32 (add32 x12 x15) 9) in
  let x14 := N.lxor x14 (rotl32 (add32 x13 x12) 13) in
  let x15 := N.lxor x15 (rotl32 (add32 x14 x13) 18) in
  (x0, x1, x2, x3, x4, x5, x6, x7, x8, x9, x10, x11, x12, x13, x14, x15).

(* x0 = x0.wrapping_add(w0); ... *)
Definition feed_forward (x w : st16) : st16 :=
  let '(x0, x1, x2, x3, x4, x5, x6, x7, x8, x9, x10, x11, x12, x13, x14, x15) := x in
  let '(w0, w1, w2, w3, w4, w5, w6, w7, w8, w9, w10, w11, w12, w13, w14, w15) := w in
  (add32 x0 w0, add32 x1 w1, add32 x2 w2, add32 x3 w3,
   add32 x4 w4, add32 x5 w5, add32 x6 w6, add32 x7 w7,
   add32 x8 w8, add32 x9 w9, add32 x10 w10, add32 x11 w11,
   add32 x12 w12, add32 x13 w13, add32 x14 w14, add32 x15 w15).

(* out[i] = xi; tmp[i] = xi; *)
Definition wr (ot : list N * list N) (i : N) (v : N) : res (list N * list N) :=
  let '(out, tmp) := ot in
  let* out := set_idx out i v in
  let* tmp := set_idx tmp i v in
  Ok (out, tmp).
Definition write16 (out tmp : list N) (x : st16) : res (list N * list N) :=
  let '(x0, x1, x2, x3, x4, x5, x6, x7, x8, x9, x10, x11, x12, x13, x14, x15) := x in
  let* ot := wr (out, tmp) 0 x0 in
  let* ot := wr ot 1 x1 in
  let* ot := wr ot 2 x2 in
  let* ot := wr ot 3 x3 in
  let* ot := wr ot 4 x4 in
  let* ot := wr ot 5 x5 in
  let* ot := wr ot 6 x6 in
  let* ot := wr ot 7 x7 in
  let* ot := wr ot 8 x8 in
  let* ot := wr ot 9 x9 in
  let* ot := wr ot 10 x10 in
  let* ot := wr ot 11 x11 in
  let* ot := wr ot 12 x12 in
  let* ot := wr ot 13 x13 in
  let* ot := wr ot 14 x14 in
  wr ot 15 x15.

(* returns (tmp, out) *)
Definition salsa_xor (tmp inn out : list N) : res (list N * list N) :=
  let* w := read16 tmp inn in
  (* for _ in (0..8).step_by(2): four iterations *)
  let x := dround (dround (dround (dround w))) in
  let x := feed_forward x w in
  let* (out, tmp) := write16 out tmp x in
  Ok (tmp, out).

(* ---------- fn block_mix(tmp: &mut [u32], inn: &[u32], out: &mut [u32], r: usize) ----------
     block_copy(tmp, &inn[(2*r-1)*16..], 16);
     for i in (0..2*r).step_by(2) {
         salsa_xor(tmp, &inn[i*16..], &mut out[i*8..]);
         salsa_xor(tmp, &inn[i*16+16..], &mut out[i*8+r*16..]);
     }
   returns (tmp, out) *)
Definition block_mix_body (inn : list N) (r : N) (i : N) (st : list N * list N)
  : res (list N * list N) :=
  let '(tmp, out) := st in
  let* a := umul i 16 in
  let* inn1 := slice_from inn a in
  let* o1 := umul i 8 in
  let* out1 := slice_from out o1 in
  let* (tmp, out1) := salsa_xor tmp inn1 out1 in
  let out := put_from out o1 out1 in
  let* a := umul i 16 in
  let* a := uadd a 16 in
  let* inn2 := slice_from inn a in
  let* o2 := umul i 8 in
  let* r16 := umul r 16 in
  let* o2 := uadd o2 r16 in
  let* out2 := slice_from out o2 in
  let* (tmp, out2) := salsa_xor tmp inn2 out2 in
  let out := put_from out o2 out2 in
  Ok (tmp, out).

Definition block_mix (tmp inn out : list N) (r : N) : res (list N * list N) :=
  let* a := umul 2 r in
  let* a := usub a 1 in
  let* a := umul a 16 in
  let* src := slice_from inn a in
  let* tmp := block_copy tmp src 16 in
  let* n2 := umul 2 r in
  for_step2 n2 (block_mix_body inn r) (tmp, out).

(* ---------- fn integer(b: &[u32], r: usize) -> u64 ----------
     let j = (2 * r - 1) * 16;
     u64::from(b[j]) | u64::from(b[j + 1]) << 32                                          *)
Definition integer (b : list N) (r : N) : res N :=
  let* j := umul 2 r in
  let* j := usub j 1 in
  let* j := umul j 16 in
  let* lo := idx b j in
  let* j1 := uadd j 1 in
  let* hi := idx b j1 in
  Ok (N.lor lo (N.land (N.shiftl hi 32) u64_max)).

(* ---------- fn smix(b: &mut [u8], r, N, v: &mut [u32], x: &mut [u32], y: &mut [u32]) ----------
   returns (b, v, x, y) *)
(* u32::from_le_bytes(s.try_into().unwrap()) *)
Definition from_le_bytes4 (s : bytes) : res N :=
  match s with [_; _; _; _] => Ok (dle32 s) | _ => Panic PUnwrap end.

Definition smix_load_body (b : bytes) (i : N) (st : list N * N) : res (list N * N) :=
  let '(x, j) := st in
  let* j4 := uadd j 4 in
  let* s := slice b j j4 in
  let* w := from_le_bytes4 s in
  let* x := set_idx x i w in
  let* j := uadd j 4 in
  Ok (x, j).

Definition smix_fill_body (r R : N) (i : N) (st : list N * list N * list N * list N)
  : res (list N * list N * list N * list N) :=
  let '(tmp, v, x, y) := st in
  (* block_copy(&mut v[i * R..], x, R); *)
  let* o := umul i R in
  let* vs := slice_from v o in
  let* vs := block_copy vs x R in
  let v := put_from v o vs in
  (* block_mix(&mut tmp, x, y, r); *)
  let* (tmp, y) := block_mix tmp x y r in
  (* block_copy(&mut v[(i + 1) * R..], y, R); *)
  let* i1 := uadd i 1 in
  let* o := umul i1 R in
  let* vs := slice_from v o in
  let* vs := block_copy vs y R in
  let v := put_from v o vs in
  (* block_mix(&mut tmp, y, x, r); *)
  let* (tmp, x) := block_mix tmp y x r in
  Ok (tmp, v, x, y).

Definition smix_mix_body (r R n : N) (v : list N) (i : N) (st : list N * list N * list N)
  : res (list N * list N * list N) :=
  let '(tmp, x, y) := st in
  (* let j = (integer(x, r) & u64::from((N - 1) as u64)) as usize; *)
  let* jj := integer x r in
  let* n1 := usub n 1 in
  let j := N.land jj n1 in
  (* block_xor(x, &v[j * R..], R); *)
  let* o := umul j R in
  let* vs := slice_from v o in
  let* x := block_xor x vs R in
  let* (tmp, y) := block_mix tmp x y r in
  let* jj := integer y r in
  let* n1 := usub n 1 in
  let j := N.land jj n1 in
  let* o := umul j R in
  let* vs := slice_from v o in
  let* y := block_xor y vs R in
  let* (tmp, x) := block_mix tmp y x r in
  Ok (tmp, x, y).

Definition smix_store_body (w : N) (st : bytes * N) : res (bytes * N) :=
  let '(b, j) := st in
  (* b[j..j + 4].copy_from_slice(&v.to_le_bytes()); *)
  let* j4 := uadd j 4 in
  let* d := slice b j j4 in
  let* d := copy_from_slice d (le32 w) in
  let b := firstn (N.to_nat j) b ++ d ++ skipn (N.to_nat j4) b in
  let* j := uadd j 4 in
  Ok (b, j).

Definition smix (b : bytes) (r n : N) (v x y : list N)
  : res (bytes * list N * list N * list N) :=
  let tmp := repeat 0 16 in
  let* R := umul 32 r in
  let* (x, _) := for_range R (smix_load_body b) (x, 0) in
  let* (tmp, v, x, y) := for_step2 n (smix_fill_body r R) (tmp, v, x, y) in
  let* (tmp, x, y) := for_step2 n (smix_mix_body r R n v) (tmp, x, y) in
  let* xs := slice_to x R in
  let* (b, _) := for_each xs smix_store_body (b, 0) in
  Ok (b, v, x, y).

(* ---------- pub(crate) fn scrypt(password, salt, n, r, p, dk_len) -> Vec<u8> ---------- *)
Section WithPBKDF2.
  (* PBKDF2-HMAC-SHA256, one iteration: password, salt, output length *)
  Variable pbkdf2 : bytes -> bytes -> nat -> bytes.

  (* orion: derive_key(..).unwrap().  derive_key returns Err on an empty destination, and its
     32-bit block counter [1u32.checked_add(idx as u32).unwrap()] panics once the destination
     has more than 2^32 - 1 blocks of 32 bytes. *)
  Definition pbkdf2_max_len : N := 137438953440.   (* (2^32 - 1) * 32 *)
  Definition derive_key (pw salt : bytes) (dst_len : N) : res bytes :=
    if dst_len =? 0 then Panic PUnwrap
    else if pbkdf2_max_len <? dst_len then Panic PUnwrap
    else Ok (pbkdf2 pw salt (N.to_nat dst_len)).

  Definition scrypt_body (r n : N) (i : N) (st : bytes * list N * list N * list N)
    : res (bytes * list N * list N * list N) :=
    let '(b, v, x, y) := st in
    (* smix(&mut b[i * 128 * r..], r, n, &mut v, &mut x, &mut y); *)
    let* o := umul i 128 in
    let* o := umul o r in
    let* bs := slice_from b o in
    let* (bs, v, x, y) := smix bs r n v x y in
    Ok (put_from b o bs, v, x, y).

  Definition scrypt (password salt : bytes) (n r p dk_len : N) : res bytes :=
    (* debug_assert!(usize::BITS >= 32): 64 >= 32 *)
    let* _ := assert (1 <? n) in
    let* n1 := usub n 1 in
    let* _ := assert (N.land n n1 =? 0) in
    let* rp := umul r p in
    let* _ := assert (rp <? 1073741824) in
    let* q := udiv usize_max 128 in
    let* q := udiv q p in
    let* _ := assert (r <=? q) in
    let* q := udiv usize_max 256 in
    let* _ := assert (r <=? q) in
    let* q := udiv usize_max 128 in
    let* q := udiv q r in
    let* _ := assert (n <=? q) in
    (* let vlen: usize = 32 * n * r; *)
    let* vlen := umul 32 n in
    let* vlen := umul vlen r in
    let* xl := umul 32 r in
    let* x := vec_zero 4 xl in
    let* yl := umul 32 r in
    let* y := vec_zero 4 yl in
    let* v := vec_zero 4 vlen in
    (* Password::from_slice(password).unwrap() does not fail for an HMAC key *)
    let* blen := umul p 128 in
    let* blen := umul blen r in
    let* _ := vec_zero 1 blen in
    let* b := derive_key password salt blen in
    let* (b, _, _, _) := for_range p (scrypt_body r n) (b, v, x, y) in
    let* _ := vec_zero 1 dk_len in
    derive_key password b dk_len.
End WithPBKDF2.
