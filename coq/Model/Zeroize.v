(* Model/Zeroize.v — abstract machine for key containers that zeroize on drop.
   Definitions only (all executable); the facts are in Proofs/ZeroizeFacts.v.

   What is modelled.  The Rust library has
       PrivateKey { key: Vec<u8> }      PayloadKey { key: [u8; 32] }   (boxed by the harness)
   both #[derive(Clone)], both with  impl Drop { fn drop(&mut self) { self.zeroize() } }.
   Each container owns exactly one heap block.  [Clone] allocates a NEW block with equal
   contents.  [drop] overwrites the block with zeros of the same length; after [drop] returns
   the allocator releases the block.  The machine below is a model of that behaviour, not the
   Rust code itself: it has a heap of blocks, a list of live containers, and three operations.
   The heap keeps a journal of released blocks with their contents AT THE MOMENT OF RELEASE —
   this is what an instrumented allocator observes. *)
From Kestrel Require Import Bytes.

(* ---------- heap ---------- *)

Record heap := {
  next    : nat;                  (* next fresh block id; ids are never reused *)
  live    : list (nat * bytes);   (* block id, contents *)
  journal : list (nat * bytes)    (* released blocks, contents AT RELEASE, oldest first *)
}.

(* first entry with key [id] *)
Fixpoint lookup (id : nat) (l : list (nat * bytes)) : option bytes :=
  match l with
  | [] => None
  | (k, c) :: r => if Nat.eqb k id then Some c else lookup id r
  end.

(* overwrite the contents of the first entry with key [id] *)
Fixpoint update (id : nat) (c : bytes) (l : list (nat * bytes)) : list (nat * bytes) :=
  match l with
  | [] => []
  | (k, c0) :: r => if Nat.eqb k id then (k, c) :: r else (k, c0) :: update id c r
  end.

(* remove the first entry with key [id] *)
Fixpoint remove_block (id : nat) (l : list (nat * bytes)) : list (nat * bytes) :=
  match l with
  | [] => []
  | (k, c) :: r => if Nat.eqb k id then r else (k, c) :: remove_block id r
  end.

(* remove the i-th element (no-op when out of range) *)
Fixpoint remove_nth {A} (i : nat) (l : list A) {struct l} : list A :=
  match l with
  | [] => []
  | x :: r => match i with O => r | S i' => x :: remove_nth i' r end
  end.

(* allocate a fresh block holding [b]; returns its id *)
Definition alloc (b : bytes) (h : heap) : nat * heap :=
  (next h, {| next := S (next h); live := live h ++ [(next h, b)]; journal := journal h |}).

(* Zeroize::zeroize on the block: same length, all zeros *)
Definition zeroize (id : nat) (h : heap) : heap :=
  match lookup id (live h) with
  | Some c => {| next := next h; live := update id (zeros (length c)) (live h); journal := journal h |}
  | None => h
  end.

(* the allocator releases the block: it leaves [live]; the journal records what it held *)
Definition release (id : nat) (h : heap) : heap :=
  match lookup id (live h) with
  | Some c => {| next := next h; live := remove_block id (live h); journal := journal h ++ [(id, c)] |}
  | None => h
  end.

(* ---------- machine state ---------- *)

Record state := {
  heap_of : heap;
  conts   : list nat     (* live containers; the i-th entry is the block id owned by handle i *)
}.

Definition init : state :=
  {| heap_of := {| next := 0; live := []; journal := [] |}; conts := [] |}.

Inductive op :=
| ONew (b : bytes)   (* Generate / FromBytes / PayloadKey::new: allocate a block holding b *)
| OClone (i : nat)   (* clone the i-th live container: new block, same contents, new container appended *)
| ODrop (i : nat).   (* drop the i-th live container: zeroize its block, release it, remove the container *)

Definition new_container (b : bytes) (s : state) : state :=
  let (id, h') := alloc b (heap_of s) in
  {| heap_of := h'; conts := conts s ++ [id] |}.

(* [zeroize_on_drop = true] is the real code.  [false] is a broken variant (Drop without the
   zeroize call) that exists only so that the theorems can be shown not to be vacuous. *)
Definition step (zeroize_on_drop : bool) (s : state) (o : op) : state :=
  match o with
  | ONew b => new_container b s
  | OClone i =>
      match nth_error (conts s) i with
      | Some id =>
          match lookup id (live (heap_of s)) with
          | Some c => new_container c s
          | None => s
          end
      | None => s
      end
  | ODrop i =>
      match nth_error (conts s) i with
      | Some id =>
          let h1 := if zeroize_on_drop then zeroize id (heap_of s) else heap_of s in
          {| heap_of := release id h1; conts := remove_nth i (conts s) |}
      | None => s
      end
  end.

Definition run_from (zeroize_on_drop : bool) (s : state) (ops : list op) : state :=
  fold_left (step zeroize_on_drop) ops s.

Definition run (zeroize_on_drop : bool) (ops : list op) : state :=
  run_from zeroize_on_drop init ops.

(* what an instrumented allocator reports: contents of each released block, in release order *)
Definition observe (s : state) : list (list N) := map snd (journal (heap_of s)).

(* ---------- ghost instrumentation (not part of the machine; used only to STATE facts) ---------- *)

(* Does [o] allocate a block when executed in [s]?  ONew always; OClone iff its handle is in range. *)
Definition op_allocates (s : state) (o : op) : bool :=
  match o with
  | ONew _ => true
  | OClone i => Nat.ltb i (length (conts s))
  | ODrop _ => false
  end.

(* number of ONew plus successful OClone in a history executed from [s] *)
Fixpoint allocs_from (zeroize_on_drop : bool) (s : state) (ops : list op) : nat :=
  match ops with
  | [] => O
  | o :: r => (if op_allocates s o then 1 else 0) + allocs_from zeroize_on_drop (step zeroize_on_drop s o) r
  end.

Definition allocs (zeroize_on_drop : bool) (ops : list op) : nat := allocs_from zeroize_on_drop init ops.

(* Origin table: for every block id ever allocated, the argument of the ONew it descends from
   (a clone descends from whatever its source descends from). *)
Definition origin_upd (s : state) (g : list (nat * bytes)) (o : op) : list (nat * bytes) :=
  match o with
  | ONew b => g ++ [(next (heap_of s), b)]
  | OClone i =>
      match nth_error (conts s) i with
      | Some id =>
          match lookup id (live (heap_of s)), lookup id g with
          | Some _, Some b => g ++ [(next (heap_of s), b)]
          | _, _ => g
          end
      | None => g
      end
  | ODrop _ => g
  end.

Definition gstep (zeroize_on_drop : bool) (sg : state * list (nat * bytes)) (o : op)
  : state * list (nat * bytes) :=
  (step zeroize_on_drop (fst sg) o, origin_upd (fst sg) (snd sg) o).

Definition grun (zeroize_on_drop : bool) (ops : list op) : state * list (nat * bytes) :=
  fold_left (gstep zeroize_on_drop) ops (init, []).

(* [origin z ops id] = the ONew argument block [id] descends from in history [ops] *)
Definition origin (zeroize_on_drop : bool) (ops : list op) (id : nat) : option bytes :=
  lookup id (snd (grun zeroize_on_drop ops)).

(* the concrete history used for the non-vacuity examples: new, clone, drop both *)
Definition demo_key : bytes := repeat 7%N 32.
Definition demo_ops : list op := [ONew demo_key; OClone 0; ODrop 0; ODrop 0].
