(* Model/CliGlue.v — glue between three models that were written independently:
     Model/CliParse.v  (main.rs: argument parsing, over Model/Getopts.v),
     Model/Cli.v       (commands.rs: the command layer over an explicit world),
     Model/Keyring.v   (keyring.rs: lock/unlock/encode/decode of keys).
   Definitions only; proofs are in Proofs/Combine2Main.v and Proofs/Combine2Gen.v.

   1. the obvious conversions between the option records of CliParse and Cli (same fields, same order);
   2. the keyring functions of Model/Keyring.v in the shape Model/Cli.v's parameters have;
   3. main.rs::main / try_main: parse, then dispatch to the Cli.cmd_* functions.

   Randomness: the CSPRNG blocks a command draws are explicit arguments, in the order they are drawn
   (encrypt: payload key, ephemeral key; password encrypt: salt; key generate: private key, salt;
   key change-pass: salt). *)
From Kestrel Require Import Bytes Outcome IO Prims.
From Kestrel.Model Require Import KeyringText Getopts CliParse Cli.
From Kestrel.Model Require Keyring.
Local Open Scope N_scope.

(* ---------- 1. option records ---------- *)
Definition enc_opts_of (o : encrypt_opts) : enc_opts :=
  {| eo_infile := e_infile o; eo_to := e_to o; eo_from := e_from o;
     eo_outfile := e_outfile o; eo_keyring := e_keyring o; eo_env_pass := e_env_pass o |}.
Definition dec_opts_of (o : decrypt_opts) : dec_opts :=
  {| do_infile := d_infile o; do_to := d_to o;
     do_outfile := d_outfile o; do_keyring := d_keyring o; do_env_pass := d_env_pass o |}.
Definition pw_opts_of (o : password_opts) : pw_opts :=
  {| po_infile := p_infile o; po_outfile := p_outfile o; po_env_pass := p_env_pass o |}.
Definition gen_opts_of (outfile : option text) (env_pass : bool) : gen_opts :=
  {| go_outfile := outfile; go_env_pass := env_pass |}.

(* ---------- 2. the keyring functions, in the shape of Cli.v's parameters ---------- *)
(* errors.rs::KeyringError is modelled twice (Keyring.kerr without ParseConfig, Cli.kerr with it) *)
Definition kerr_of (e : Keyring.kerr) : Cli.kerr :=
  match e with
  | Keyring.PublicKeyChecksum => KPublicKeyChecksum
  | Keyring.PublicKeyLength => KPublicKeyLength
  | Keyring.PrivateKeyDecrypt => KPrivateKeyDecrypt
  | Keyring.PrivateKeyLength => KPrivateKeyLength
  | Keyring.PrivateKeyFormat => KPrivateKeyFormat
  end.

Section Kr.
Variable P : prims.

Definition k_unlock (locked : text) (pw : bytes) : outcome Cli.kerr bytes :=
  omap_err kerr_of (Keyring.unlock_private_key P locked pw).
Definition k_decode_pk (e : text) : outcome Cli.kerr bytes :=
  omap_err kerr_of (Keyring.decode_public_key P e).

(* Cli.v takes lock / encode_public_key as TOTAL functions (in the Rust they return the string, not a Result).
   Keyring.lock_private_key is always Ok (KeyringFacts.lock_private_key_eq); Keyring.encode_public_key is Ok for a
   32-byte key and the Rust type PublicKey is 32 bytes.  The [] branch is therefore unreachable in the CLI
   (every public key passed comes from x25519_derive_public); it only makes the function total. *)
Definition k_lock (sk pw salt : bytes) : text :=
  match Keyring.lock_private_key P sk pw salt with Ok t => t | _ => [] end.
Definition k_encode_pk (pk : bytes) : text :=
  match Keyring.encode_public_key P pk with Ok t => t | _ => [] end.
End Kr.

(* ---------- 3. main ---------- *)
Inductive main_status :=
| MHelp                         (* print_help(); Ok(()) *)
| MVersion                      (* print_version(); Ok(()) *)
| MUsage (m : usage_msg)        (* print_usage_error(msg): Err => "Error: {msg}\nFor more info use '--help'", exit 1 *)
| MCmd (st : cmd_status)        (* a command of commands.rs ran *)
| MParsePanic (w : panic_tag)   (* a panic inside the argument parsing (excluded by cli_parse_no_panic) *)
| MParseOutOfFuel.              (* model artefact (cli_parse has no fuel; excluded by cli_parse_no_panic) *)

Record main_result := {
  m_exit : N;
  m_fs : fsys;
  m_stdout : bytes;
  m_status : main_status
}.

Definition of_cmd (r : cmd_result) : main_result :=
  {| m_exit := exit_code r; m_fs := new_fs r; m_stdout := stdout r; m_status := MCmd (status r) |}.

Section Main.
Variable P : prims.
Variable pk_ok sk_ok : text -> bool.
Variable unlock : text -> bytes -> outcome kerr bytes.
Variable lock : bytes -> bytes -> bytes -> text.
Variable decode_pk : text -> outcome kerr bytes.
Variable encode_pk : bytes -> text.
Variable sk_string_ok : text -> bool.
Variable utf8_decode : bytes -> option text.
Variable utf8_encode : text -> bytes.
Variable help_text version_text : bytes.    (* println!("{}", USAGE) / println!("v{}", VERSION) *)

(* the commands of commands.rs on a parsed command *)
Definition run_command (w : world) (c : command) (rnd1 rnd2 : bytes) : main_result :=
  match c with
  | CHelp => {| m_exit := 0; m_fs := fs w; m_stdout := help_text; m_status := MHelp |}
  | CVersion => {| m_exit := 0; m_fs := fs w; m_stdout := version_text; m_status := MVersion |}
  | CUsageError m => {| m_exit := 1; m_fs := fs w; m_stdout := []; m_status := MUsage m |}
  | CEncrypt o => of_cmd (cmd_encrypt P pk_ok sk_ok unlock decode_pk utf8_decode w (enc_opts_of o) rnd1 rnd2)
  | CDecrypt o => of_cmd (cmd_decrypt P pk_ok sk_ok unlock decode_pk encode_pk utf8_decode w (dec_opts_of o))
  | CPassEnc o => of_cmd (cmd_pass_encrypt P w (pw_opts_of o) rnd1)
  | CPassDec o => of_cmd (cmd_pass_decrypt P w (pw_opts_of o))
  | CKey (Generate outfile env_pass) =>
      of_cmd (cmd_gen_key P lock encode_pk utf8_decode utf8_encode w (gen_opts_of outfile env_pass) rnd1 rnd2)
  | CKey (ChangePass key env_pass) =>
      of_cmd (cmd_change_pass unlock lock sk_string_ok utf8_encode w key env_pass rnd1)
  | CKey (ExtractPub key env_pass) =>
      of_cmd (cmd_extract_pub P unlock encode_pk sk_string_ok utf8_encode w key env_pass)
  end.

(* main.rs::main on an argv of valid UTF-8 arguments (element 0 = program name) *)
Definition cli_main (w : world) (argv : list text) (rnd1 rnd2 : bytes) : main_result :=
  match cli_parse argv with
  | Ok c => run_command w c rnd1 rnd2
  | Err _ => {| m_exit := 1; m_fs := fs w; m_stdout := []; m_status := MUsage InvalidCommand |}   (* cli_parse's error type is unit: never produced *)
  | Panic t => {| m_exit := 101; m_fs := fs w; m_stdout := []; m_status := MParsePanic t |}
  | OutOfFuel => {| m_exit := 102; m_fs := fs w; m_stdout := []; m_status := MParseOutOfFuel |}
  end.

(* a status that stands for a Rust panic *)
Definition is_panic_status (st : main_status) : bool :=
  match st with MCmd (SPanic _) | MParsePanic _ => true | _ => false end.
(* the model artefact (an exhausted model loop in the library model) *)
Definition is_fuel_status (st : main_status) : bool :=
  match st with MCmd SOutOfFuel | MParseOutOfFuel => true | _ => false end.
End Main.

(* the CLI with the keyring functions of Model/Keyring.v plugged in (the UTF-8 codec stays a parameter) *)
Definition real_cli_main (P : prims) (utf8_decode : bytes -> option text) (utf8_encode : text -> bytes)
    (help_text version_text : bytes) : world -> list text -> bytes -> bytes -> main_result :=
  cli_main P Keyring.pk_string_ok Keyring.sk_string_ok (k_unlock P) (k_lock P) (k_decode_pk P) (k_encode_pk P)
    Keyring.sk_string_ok utf8_decode utf8_encode help_text version_text.
