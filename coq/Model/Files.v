(* Model/Files.v — encrypt.rs::{key_encrypt, pass_encrypt} and decrypt.rs::{key_decrypt, pass_decrypt,
   valid_file_format} over scripted I/O.  Constants come from gen/Extracted.v. *)
From Kestrel Require Import Bytes Outcome IO Prims.
From Kestrel.gen Require Import Extracted.
From Kestrel.Model Require Import AeadWrap Chunks Noise.
Local Open Scope N_scope.

Inductive file_format := AsymV1 | PassV1.

Definition list_N_eqb (a b : list N) : bool :=
  Nat.eqb (length a) (length b) && forallb (fun p => fst p =? snd p) (combine a b).

(* decrypt.rs::valid_file_format: `header == asym_v1` compares slice with array: length and contents *)
Definition valid_file_format (hdr : bytes) : option file_format :=
  if list_N_eqb hdr x_dec_asym_v1 then Some AsymV1
  else if list_N_eqb hdr x_dec_pass_v1 then Some PassV1
  else None.

Section Files.
Variable P : prims.

Notation "x <- m ;; k" := (bind m (fun x => k)) (at level 61, m at next level, right associativity).
Notation "m ;;; k" := (bind m (fun _ => k)) (at level 61, right associativity).

Definition cs_const : N := x_lib_chunk_size.

Definition file_key (payload hh : bytes) : bytes := p_hkdf P [] payload hh (N.to_nat x_enc_hkdf_len).

(* key_encrypt.  fresh_pk / fresh_e: the 32 random bytes drawn (in this order) when payload key /
   ephemeral key are not injected. *)
Definition key_encrypt (fresh_pk fresh_e s spk r : bytes) (e epk pk : option bytes) : M eerr unit :=
  let payload := match pk with Some p => p | None => fresh_pk end in
  if negb (Nat.eqb (length payload) 32) then lift (Panic PUnwrap) else   (* PayloadKey::new *)
  match noise_encrypt P fresh_e s spk r e epk x_prologue payload with
  | Ok (msg, hh) =>
    m_write_all EIOWrite x_prologue ;;;
    m_write_all EIOWrite msg ;;;
    m_flush EIOWrite ;;;
    encrypt_chunks P (file_key payload hh) [] cs_const
  | Err _ => fail EOther                         (* "Key exchange failed" *)
  | Panic w => lift (Panic w)
  | OutOfFuel => lift OutOfFuel
  end.

Definition kdf (pw salt : bytes) : bytes :=
  p_scrypt P pw salt x_lib_scrypt_n x_lib_scrypt_r x_lib_scrypt_p (N.to_nat x_enc_scrypt_len).

Definition pass_encrypt (pw salt : bytes) : M eerr unit :=
  let key := kdf pw salt in
  emit (EvKdf pw salt x_lib_scrypt_n x_lib_scrypt_r x_lib_scrypt_p) ;;;
  m_write_all EIOWrite x_pass_file_magic ;;;
  m_write_all EIOWrite salt ;;;
  m_flush EIOWrite ;;;
  encrypt_chunks P key x_pass_file_magic cs_const.

Definition key_decrypt (r rpk : bytes) : M derr bytes :=
  prologue <- m_read_exact d_read_err (N.to_nat x_dec_prologue_len) ;;
  match valid_file_format prologue with
  | None => fail DOtherFormat
  | Some PassV1 => fail DOtherWrongMode
  | Some AsymV1 =>
    hm <- m_read_exact d_read_err (N.to_nat x_dec_handshake_len) ;;
    match noise_decrypt P r rpk prologue hm with
    | Ok (payload, spk, hh) =>
      decrypt_chunks P (p_hkdf P [] payload hh (N.to_nat x_dec_hkdf_len)) [] cs_const ;;;
      ret spk
    | Err e => fail (DOtherNoise e)
    | Panic w => lift (Panic w)
    | OutOfFuel => lift OutOfFuel
    end
  end.

Definition pass_decrypt (pw : bytes) : M derr unit :=
  magic <- m_read_exact d_read_err (N.to_nat x_dec_magic_len) ;;
  match valid_file_format magic with
  | None => fail DOtherFormat
  | Some AsymV1 => fail DOtherWrongMode
  | Some PassV1 =>
    salt <- m_read_exact d_read_err (N.to_nat x_dec_salt_len) ;;
    let key := p_scrypt P pw salt x_lib_scrypt_n x_lib_scrypt_r x_lib_scrypt_p (N.to_nat x_dec_scrypt_len) in
    emit (EvKdf pw salt x_lib_scrypt_n x_lib_scrypt_r x_lib_scrypt_p) ;;;
    decrypt_chunks P key magic cs_const
  end.

End Files.
