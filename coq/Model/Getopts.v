(* Getopts.v — executable transcription of the crate getopts 0.2.21 (src/lib.rs), restricted to what
   the kestrel command line uses: the option builders, [Options::parse], [find_opt], [is_arg],
   [Name::from_str], [OptGroup::long_to_short], [Matches::{opt_vals,opt_val,opt_present,opt_str}] and
   the [Display] of [Fail].  Definitions only; proofs are in Proofs/CliParseFacts.v, known answers
   (checked against the real crate) in Model/CliParseKat.v.

   Representation.  A Rust [&str]/[String] is a [text] = [list N] of Unicode scalar values, one N
   per [char] (as in KeyringText.v; nothing restricts the N's to scalar values).  getopts mixes
   char-level and byte-level operations ([as_bytes()[1]], [&cur[2..]], [nm.len() == 1]); the
   byte-level ones are modelled through the UTF-8 encoding [as_bytes] below, and a byte index that is
   out of range or not on a char boundary is an explicit [Panic PSliceIndex].

   Every Rust indexing / [unwrap] / [assert!] / [panic!] in the transcribed code is an explicit
   [Panic]; an explicit [panic!(..)] is tagged [PAssert].  The [while let Some(cur) = args.next()]
   loop is driven by a fuel ([OutOfFuel] when exhausted); [parse] supplies [length args], which is
   enough (CliParseFacts.parse_no_panic).

   Not transcribed: usage/short_usage formatting (hint and desc fields are dropped from OptGroup),
   opt_count/opt_positions/opts_str/opt_strs/opt_get/opt_default (not used by kestrel).
   The conversion [OsStr -> &str] at the head of [parse] cannot fail here: the arguments handed to
   [parse] by kestrel are already [&str]. *)
From Kestrel Require Import Bytes Outcome.
From Kestrel.Model Require Import KeyringText.   (* text, text_eqb, split_once_eq *)
Local Open Scope N_scope.

(* ---------- UTF-8 view of a text ---------- *)
Definition utf8_encode_char (c : N) : bytes :=
  if c <? 128 then [c]
  else if c <? 2048 then [192 + c / 64; 128 + c mod 64]
  else if c <? 65536 then [224 + c / 4096; 128 + (c / 64) mod 64; 128 + c mod 64]
  else [240 + c / 262144; 128 + (c / 4096) mod 64; 128 + (c / 64) mod 64; 128 + c mod 64].

(* str::as_bytes *)
Definition as_bytes (s : text) : bytes := flat_map utf8_encode_char s.
(* str::len : length in bytes *)
Definition str_len (s : text) : nat := length (as_bytes s).

(* s.as_bytes()[i] *)
Definition byte_at {E} (s : text) (i : nat) : outcome E N :=
  match nth_error (as_bytes s) i with Some b => Ok b | None => Panic PSliceIndex end.

(* &s[n..] : n is a BYTE offset; panics when beyond the end or inside a char *)
Fixpoint str_from {E} (s : text) (n : nat) : outcome E text :=
  match n with
  | O => Ok s
  | S _ =>
      match s with
      | [] => Panic PSliceIndex
      | c :: s' =>
          let k := length (utf8_encode_char c) in
          if (k <=? n)%nat then str_from s' (n - k) else Panic PSliceIndex
      end
  end.

Definition c_dash : N := 45.   (* '-' *)
Definition s_dashdash : text := [45; 45].   (* "--" *)

(* ---------- Name, HasArg, Occur, Opt, OptGroup, Optval, Matches, Fail ---------- *)
Inductive name := Long (s : text) | Short (c : N).
Inductive hasarg := Yes | No | Maybe.
Inductive occur := Req | Optional | Multi.

Inductive opt := mk_opt {
  o_name : name;
  o_hasarg : hasarg;
  o_occur : occur;
  o_aliases : list opt }.

Record optgroup := mk_group {
  g_short : text;
  g_long : text;
  g_hasarg : hasarg;
  g_occur : occur }.

Inductive parsing_style := FloatingFrees | StopAtFirstFree.

Record options := mk_options {
  grps : list optgroup;
  style : parsing_style;
  long_only : bool }.

Inductive optval := Val (s : text) | Given.

Record matches := mk_matches {
  m_opts : list opt;
  m_vals : list (list (nat * optval));
  m_free : list text }.

Inductive fail :=
| ArgumentMissing (nm : text)
| UnrecognizedOption (nm : text)
| OptionMissing (nm : text)
| OptionDuplicated (nm : text)
| UnexpectedArgument (nm : text).

Definition name_eqb (a b : name) : bool :=
  match a, b with
  | Long x, Long y => text_eqb x y
  | Short x, Short y => x =? y
  | _, _ => false
  end.

Definition occur_eqb (a b : occur) : bool :=
  match a, b with Req, Req | Optional, Optional | Multi, Multi => true | _, _ => false end.

(* Name::from_str : if nm.len() == 1 { Short(nm.as_bytes()[0] as char) } else { Long(nm) } *)
Definition name_from_str {E} (nm : text) : outcome E name :=
  if (str_len nm =? 1)%nat then obind (byte_at nm 0) (fun b => Ok (Short b))
  else Ok (Long nm).

(* Name::to_string *)
Definition name_to_string (n : name) : text :=
  match n with Short ch => [ch] | Long s => s end.

(* ---------- building Options ---------- *)
Definition options_new : options := mk_options [] FloatingFrees false.
Definition set_long_only (b : bool) (o : options) : options := mk_options (grps o) (style o) b.
Definition set_parsing_style (st : parsing_style) (o : options) : options :=
  mk_options (grps o) st (long_only o).

(* validate_names: two assert!s *)
Definition validate_names {E} (short_name long_name : text) : outcome E unit :=
  let len := str_len short_name in
  if ((len =? 1) || (len =? 0))%nat then
    let len := str_len long_name in
    if ((len =? 0) || (1 <? len))%nat then Ok tt else Panic PAssert
  else Panic PAssert.

Definition push_group {E} (sn ln : text) (ha : hasarg) (oc : occur) (o : options)
  : outcome E options :=
  obind (validate_names sn ln) (fun _ =>
  Ok (mk_options (grps o ++ [mk_group sn ln ha oc]) (style o) (long_only o))).

Definition optflag {E} sn ln := @push_group E sn ln No Optional.
Definition optflagmulti {E} sn ln := @push_group E sn ln No Multi.
Definition optflagopt {E} sn ln := @push_group E sn ln Maybe Optional.
Definition optmulti {E} sn ln := @push_group E sn ln Yes Multi.
Definition optopt {E} sn ln := @push_group E sn ln Yes Optional.
Definition reqopt {E} sn ln := @push_group E sn ln Yes Req.

(* OptGroup::long_to_short *)
Definition long_to_short {E} (g : optgroup) : outcome E opt :=
  let ha := g_hasarg g in
  let oc := g_occur g in
  match str_len (g_short g), str_len (g_long g) with
  | O, O => Panic PAssert                           (* panic!("this long-format option was given no name") *)
  | O, _ => Ok (mk_opt (Long (g_long g)) ha oc [])
  | 1%nat, O => obind (byte_at (g_short g) 0) (fun b => Ok (mk_opt (Short b) ha oc []))
  | 1%nat, _ => obind (byte_at (g_short g) 0) (fun b =>
                Ok (mk_opt (Long (g_long g)) ha oc [mk_opt (Short b) ha oc []]))
  | _, _ => Panic PAssert                           (* panic!("something is wrong with the long-form opt") *)
  end.

Fixpoint map_m {E A B} (f : A -> outcome E B) (l : list A) : outcome E (list B) :=
  match l with
  | [] => Ok []
  | x :: r => obind (f x) (fun y => obind (map_m f r) (fun ys => Ok (y :: ys)))
  end.

(* ---------- find_opt ---------- *)
(* Iterator::position *)
Fixpoint position {A} (p : A -> bool) (l : list A) : option nat :=
  match l with
  | [] => None
  | x :: r => if p x then Some O else option_map S (position p r)
  end.

(* the "Search in aliases" loop; [all] is the whole slice, [cands] what remains to visit *)
Fixpoint find_alias (all cands : list opt) (nm : name) : option nat :=
  match cands with
  | [] => None
  | candidate :: r =>
      if existsb (fun o => name_eqb (o_name o) nm) (o_aliases candidate)
      then position (fun o => name_eqb (o_name o) (o_name candidate)) all
      else find_alias all r nm
  end.

Definition find_opt (opts : list opt) (nm : name) : option nat :=
  match position (fun o => name_eqb (o_name o) nm) opts with
  | Some i => Some i
  | None => find_alias opts opts nm
  end.

(* is_arg : arg.as_bytes().get(0) == Some(&b'-') && arg.len() > 1 *)
Definition is_arg (arg : text) : bool :=
  match nth_error (as_bytes arg) 0 with Some b => b =? c_dash | None => false end
  && (1 <? str_len arg)%nat.

(* ---------- Options::parse ---------- *)
Definition vals_t := list (list (nat * optval)).

(* vals[i].push(x) *)
Fixpoint push_at (vals : vals_t) (i : nat) (x : nat * optval) : option vals_t :=
  match vals, i with
  | [], _ => None
  | v :: r, O => Some ((v ++ [x]) :: r)
  | v :: r, S i' => option_map (cons v) (push_at r i' x)
  end.
Definition push_val {E} (vals : vals_t) (i : nat) (x : nat * optval) : outcome E vals_t :=
  match push_at vals i x with Some v => Ok v | None => Panic PSliceIndex end.

Definition is_some {A} (o : option A) : bool := match o with Some _ => true | None => false end.

(* tail.splitn(2, '=') collected: one or two parts *)
Definition splitn2_eq (tail : text) : list text :=
  match split_once_eq tail with
  | None => [tail]
  | Some (a, b) => [a; b]
  end.

(* The loop [for (j, ch) in cur.char_indices().skip(1)] of the short-cluster branch (only reached
   when long_only is false).  [chars] are the chars not yet visited; "next < cur.len()" holds iff
   chars remain after [ch], and then [cur[next..]] is exactly those chars.
   Result: (names, i_arg). *)
Fixpoint cluster_loop (opts : list opt) (chars : text) (names : list name)
  : outcome fail (list name * option text) :=
  match chars with
  | [] => Ok (names, None)
  | ch :: rest =>
      let o := Short ch in
      match find_opt opts o with
      | None => Err (UnrecognizedOption (name_to_string o))
      | Some opt_id =>
          let names := names ++ [o] in
          match nth_error opts opt_id with
          | None => Panic PSliceIndex                              (* opts[opt_id] *)
          | Some od =>
              let arg_follows := match o_hasarg od with Yes | Maybe => true | No => false end in
              if arg_follows then
                match rest with
                | [] => cluster_loop opts rest names
                | _ :: _ => Ok (names, Some rest)                   (* break *)
                end
              else cluster_loop opts rest names
          end
      end
  end.

(* The loop [for nm in names.iter()].  [nlen] = names.len(), [name_pos] counts the names already
   visited.  Result: the updated (vals, args). *)
Fixpoint names_loop (opts : list opt) (was_long : bool) (nlen arg_pos : nat)
    (names : list name) (name_pos : nat) (i_arg : option text) (vals : vals_t) (args : list text)
  : outcome fail (vals_t * list text) :=
  match names with
  | [] => Ok (vals, args)
  | nm :: names' =>
      let name_pos := S name_pos in
      match find_opt opts nm with
      | None => Err (UnrecognizedOption (name_to_string nm))
      | Some optid =>
          match nth_error opts optid with
          | None => Panic PSliceIndex                               (* opts[optid] *)
          | Some od =>
              match o_hasarg od with
              | No =>
                  if (name_pos =? nlen)%nat && is_some i_arg
                  then Err (UnexpectedArgument (name_to_string nm))
                  else obind (push_val vals optid (arg_pos, Given)) (fun vals' =>
                       names_loop opts was_long nlen arg_pos names' name_pos i_arg vals' args)
              | Maybe =>
                  match i_arg with
                  | Some a =>
                      obind (push_val vals optid (arg_pos, Val a)) (fun vals' =>
                      names_loop opts was_long nlen arg_pos names' name_pos None vals' args)
                  | None =>
                      if was_long || (name_pos <? nlen)%nat
                         || match args with [] => true | n :: _ => is_arg n end
                      then obind (push_val vals optid (arg_pos, Given)) (fun vals' =>
                           names_loop opts was_long nlen arg_pos names' name_pos None vals' args)
                      else
                        match push_at vals optid (arg_pos, Given) with   (* vals[optid] evaluated first *)
                        | None => Panic PSliceIndex
                        | Some _ =>
                            match args with
                            | [] => Panic PUnwrap                         (* args.next().unwrap() *)
                            | n :: args' =>
                                obind (push_val vals optid (arg_pos, Val n)) (fun vals' =>
                                names_loop opts was_long nlen arg_pos names' name_pos None vals' args')
                            end
                        end
                  end
              | Yes =>
                  match i_arg with
                  | Some a =>
                      obind (push_val vals optid (arg_pos, Val a)) (fun vals' =>
                      names_loop opts was_long nlen arg_pos names' name_pos None vals' args)
                  | None =>
                      match args with
                      | n :: args' =>
                          obind (push_val vals optid (arg_pos, Val n)) (fun vals' =>
                          names_loop opts was_long nlen arg_pos names' name_pos None vals' args')
                      | [] => Err (ArgumentMissing (name_to_string nm))
                      end
                  end
              end
          end
      end
  end.

(* Decoding of one option argument [cur] (is_arg cur, cur != "--"): (was_long, names, i_arg). *)
Definition decode_arg (o : options) (opts : list opt) (cur : text)
  : outcome fail (bool * list name * option text) :=
  obind (byte_at cur 1) (fun b1 =>
  if (b1 =? c_dash) || long_only o then
    obind (if b1 =? c_dash then str_from cur 2
           else if long_only o then str_from cur 1    (* assert!(self.long_only) *)
           else Panic PAssert) (fun tail =>
    match splitn2_eq tail with
    | [] => Panic PUnwrap                                             (* parts.next().unwrap() *)
    | p :: parts =>
        obind (name_from_str p) (fun nm =>
        Ok (true, [nm], match parts with r :: _ => Some r | [] => None end))
    end)
  else
    obind (cluster_loop opts (match cur with [] => [] | _ :: t => t end) []) (fun r =>
    Ok (false, fst r, snd r))).

(* The [while let Some(cur) = args.next()] loop.  Result: (vals, free). *)
Fixpoint parse_loop (fuel : nat) (o : options) (opts : list opt) (vals : vals_t)
    (free : list text) (args : list text) (arg_pos : nat) : outcome fail (vals_t * list text) :=
  match args with
  | [] => Ok (vals, free)
  | cur :: args =>
      match fuel with
      | O => OutOfFuel
      | S fuel' =>
          if negb (is_arg cur) then
            let free := free ++ [cur] in
            match style o with
            | FloatingFrees => parse_loop fuel' o opts vals free args (S arg_pos)
            | StopAtFirstFree => Ok (vals, free ++ args)
            end
          else if text_eqb cur s_dashdash then Ok (vals, free ++ args)
          else
            obind (decode_arg o opts cur) (fun d =>
            let '(was_long, names, i_arg) := d in
            obind (names_loop opts was_long (length names) arg_pos names 0 i_arg vals args) (fun r =>
            parse_loop fuel' o opts (fst r) free (snd r) (S arg_pos)))
      end
  end.

(* the final [for (vals, opt) in vals.iter().zip(opts.iter())] *)
Fixpoint check_occur (vals : vals_t) (opts : list opt) : outcome fail unit :=
  match vals, opts with
  | v :: vs, od :: os =>
      if occur_eqb (o_occur od) Req && (length v =? 0)%nat
      then Err (OptionMissing (name_to_string (o_name od)))
      else if negb (occur_eqb (o_occur od) Multi) && (1 <? length v)%nat
      then Err (OptionDuplicated (name_to_string (o_name od)))
      else check_occur vs os
  | _, _ => Ok tt
  end.

Definition parse (o : options) (args : list text) : outcome fail matches :=
  obind (map_m long_to_short (grps o)) (fun opts =>
  let vals : vals_t := map (fun _ => []) opts in
  obind (parse_loop (length args) o opts vals [] args 0) (fun r =>
  let '(vals, free) := r in
  if negb (length vals =? length opts)%nat then Panic PAssert        (* debug_assert_eq! *)
  else
    obind (check_occur vals opts) (fun _ =>
    Ok (mk_matches opts vals free)))).

(* ---------- Matches ---------- *)
Definition opt_vals {E} (m : matches) (nm : text) : outcome E (list (nat * optval)) :=
  obind (name_from_str nm) (fun n =>
  match find_opt (m_opts m) n with
  | Some id =>
      match nth_error (m_vals m) id with
      | Some v => Ok v
      | None => Panic PSliceIndex                                     (* self.vals[id] *)
      end
  | None => Panic PAssert                                             (* panic!("No option '{}' defined") *)
  end).

Definition opt_val {E} (m : matches) (nm : text) : outcome E (option optval) :=
  obind (opt_vals m nm) (fun vs =>
  Ok (match vs with [] => None | (_, ov) :: _ => Some ov end)).

Definition opt_present {E} (m : matches) (nm : text) : outcome E bool :=
  obind (opt_vals m nm) (fun vs => Ok (negb (length vs =? 0)%nat)).

Definition opt_str {E} (m : matches) (nm : text) : outcome E (option text) :=
  obind (opt_val m nm) (fun ov =>
  Ok (match ov with Some (Val s) => Some s | _ => None end)).

(* ---------- Display for Fail ---------- *)
Definition s_quote : text := [39].
Definition fail_to_string (f : fail) : text :=
  match f with
  | ArgumentMissing nm =>
      (* "Argument to option '" *)
      [65;114;103;117;109;101;110;116;32;116;111;32;111;112;116;105;111;110;32;39] ++ nm ++
      (* "' missing" *) [39;32;109;105;115;115;105;110;103]
  | UnrecognizedOption nm =>
      (* "Unrecognized option: '" *)
      [85;110;114;101;99;111;103;110;105;122;101;100;32;111;112;116;105;111;110;58;32;39] ++ nm ++ [39]
  | OptionMissing nm =>
      (* "Required option '" *)
      [82;101;113;117;105;114;101;100;32;111;112;116;105;111;110;32;39] ++ nm ++
      (* "' missing" *) [39;32;109;105;115;115;105;110;103]
  | OptionDuplicated nm =>
      (* "Option '" *) [79;112;116;105;111;110;32;39] ++ nm ++
      (* "' given more than once" *)
      [39;32;103;105;118;101;110;32;109;111;114;101;32;116;104;97;110;32;111;110;99;101]
  | UnexpectedArgument nm =>
      (* "Option '" *) [79;112;116;105;111;110;32;39] ++ nm ++
      (* "' does not take an argument" *)
      [39;32;100;111;101;115;32;110;111;116;32;116;97;107;101;32;97;110;32;97;114;103;117;109;101;110;116]
  end.
