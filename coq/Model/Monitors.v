(* Model/Monitors.v — executable monitors over the event trace ([trace s = rev (log s)], chronological).
   A monitor is a state plus a step function [state -> event -> option state]; [None] = the property is
   violated by this event.  A run of a monitor over a trace is a left fold that stops at the first [None],
   so "the monitor accepts the whole trace" means "no prefix of the trace violates the property", i.e. the
   property holds at every intermediate moment of the run (Proofs/MonitorFacts.v: [*_fold_prefix]).
   Definitions only; every monitor computes with [vm_compute]. *)
From Kestrel Require Import Bytes Outcome IO Prims.

(* boolean equality of byte strings *)
Fixpoint beq (a b : bytes) : bool :=
  match a, b with
  | [], [] => true
  | x :: a', y :: b' => (x =? y)%N && beq a' b'
  | _, _ => false
  end.

(* the associated data of a chunk is  aad ++ flag4 ++ len4 : the flag is the first 4 of the last 8 bytes *)
Definition ad_flag (ad : bytes) : bytes := firstn 4 (skipn (length ad - 8) ad).
Definition ad_final (ad : bytes) : bool := (de32 (ad_flag ad) =? 1)%N.

(* generic run of a monitor: stop at the first violation *)
Section Fold.
Context {St : Type}.
Variable step : St -> event -> option St.
Fixpoint mon_fold (m : St) (evs : list event) : option St :=
  match evs with
  | [] => Some m
  | e :: rest => match step m e with Some m' => mon_fold m' rest | None => None end
  end.
End Fold.

(* ================================================================================================
   A. release-after-authentication monitor for decrypt_chunks
   ================================================================================================ *)
Record dmon := {
  authed : list bytes;   (* plaintexts of the successful opens so far, oldest first *)
  written : bytes;       (* bytes accepted by the sink so far *)
  last_seen : bool;      (* an open whose ad carries flag 1 has succeeded *)
  probed_eof : bool;     (* after that open, the 1-byte probe returned 0 bytes *)
  dead : bool;           (* an event that determines an error has occurred *)
}.

Definition dmon_init : dmon :=
  {| authed := []; written := []; last_seen := false; probed_eof := false; dead := false |}.

Definition dm_kill (m : dmon) : dmon :=
  {| authed := authed m; written := written m; last_seen := last_seen m; probed_eof := probed_eof m;
     dead := true |}.
Definition dm_written (m : dmon) (w : bytes) : dmon :=
  {| authed := authed m; written := w; last_seen := last_seen m; probed_eof := probed_eof m;
     dead := dead m |}.
Definition dm_probed (m : dmon) : dmon :=
  {| authed := authed m; written := written m; last_seen := last_seen m; probed_eof := true;
     dead := dead m |}.
Definition dm_open (m : dmon) (pt : bytes) (fin : bool) : dmon :=
  {| authed := authed m ++ [pt]; written := written m; last_seen := fin; probed_eof := false;
     dead := false |}.

(* everything authenticated so far has been accepted by the sink *)
Definition dm_all_out (m : dmon) : bool := beq (written m) (concat (authed m)).
(* the sink may be touched: either the last open was not final, or the end-of-input probe has succeeded *)
Definition dm_may_write (m : dmon) : bool := negb (last_seen m) || probed_eof m.
(* what is offered to the sink is exactly the not yet written rest of the authenticated plaintext *)
Definition dm_offer_ok (m : dmon) (off : bytes) : bool := beq (written m ++ off) (concat (authed m)).

Definition dmon_step (m : dmon) (e : event) : option dmon :=
  if dead m then None else                      (* the error-determining event is the last event *)
  match e with
  | EvOpen _ _ ad _ res =>
      if last_seen m then None                  (* no chunk after the final one *)
      else if negb (dm_all_out m) then None     (* the previous chunk is completely out first *)
      else match res with
           | None => Some (dm_kill m)
           | Some pt => Some (dm_open m pt (ad_final ad))
           end
  | EvRead req got =>
      if last_seen m then
        if probed_eof m then None               (* nothing is read after the probe *)
        else if Nat.eqb req 1
             then match got with [] => Some (dm_probed m) | _ :: _ => Some (dm_kill m) end
             else None
      else if dm_all_out m
           then match got with [] => Some (dm_kill m) | _ :: _ => Some m end
           else None                            (* no input is consumed while authenticated bytes are held back *)
  | EvReadErr req err =>
      if last_seen m then
        if probed_eof m then None
        else if Nat.eqb req 1 then Some (dm_kill m) else None
      else if dm_all_out m
           then match err with Interrupted => Some m | _ => Some (dm_kill m) end
           else None
  | EvWrite off took =>
      if negb (dm_may_write m) then None        (* final chunk released before the probe *)
      else if negb (dm_offer_ok m off) then None (* unauthenticated / out-of-order bytes offered *)
      else if negb (took <=? length off)%nat then None
      else let m' := dm_written m (written m ++ firstn took off) in
           match took with O => Some (dm_kill m') | S _ => Some m' end
  | EvWriteErr off err =>
      if negb (dm_may_write m) then None
      else if negb (dm_offer_ok m off) then None
      else match err with Interrupted => Some m | _ => Some (dm_kill m) end
  | EvFlush res =>
      if negb (dm_may_write m) then None
      else if negb (dm_all_out m) then None     (* flush only after the whole chunk was accepted *)
      else match res with None => Some m | Some _ => Some (dm_kill m) end
  | EvSeal _ _ _ _ | EvKdf _ _ _ _ _ => None
  end.

Definition dmon_fold := mon_fold dmon_step.
Definition dmon_run (evs : list event) : option dmon := dmon_fold dmon_init evs.

(* ================================================================================================
   B1. look-ahead monitor for encrypt_chunks
   ================================================================================================ *)
Record emon := {
  e_pend : list bytes;   (* results of the raw read calls whose data has not been flushed out, oldest first
                            (a failed read counts as a call that returned nothing) *)
  e_sealed : bool;       (* the oldest pending read has been sealed; its record is being written *)
  e_owed : nat;          (* bytes of that record the sink has not accepted yet *)
}.
Definition emon_init : emon := {| e_pend := []; e_sealed := false; e_owed := 0 |}.
Definition emon_bound : nat := 2.   (* the chunk being held + the look-ahead *)

Definition emon_step (m : emon) (e : event) : option emon :=
  match e with
  | EvRead _ got =>
      let p := e_pend m ++ [got] in
      if (length p <=? emon_bound)%nat
      then Some {| e_pend := p; e_sealed := e_sealed m; e_owed := e_owed m |} else None
  | EvReadErr _ _ =>
      let p := e_pend m ++ [[]] in
      if (length p <=? emon_bound)%nat
      then Some {| e_pend := p; e_sealed := e_sealed m; e_owed := e_owed m |} else None
  | EvSeal _ _ _ pt =>
      match e_pend m with
      | h :: _ => if beq h pt && negb (e_sealed m)     (* the chunk sealed is the oldest pending read *)
                  then Some {| e_pend := e_pend m; e_sealed := true; e_owed := 16 + (length pt + 16) |}
                  else None
      | [] => None
      end
  | EvWrite _ took =>
      if e_sealed m && (took <=? e_owed m)%nat
      then Some {| e_pend := e_pend m; e_sealed := true; e_owed := e_owed m - took |} else None
  | EvWriteErr _ _ => if e_sealed m then Some m else None
  | EvFlush None =>                                     (* record complete: the oldest pending read is out *)
      if e_sealed m && Nat.eqb (e_owed m) 0
      then Some {| e_pend := tl (e_pend m); e_sealed := false; e_owed := 0 |} else None
  | EvFlush (Some _) => if e_sealed m && Nat.eqb (e_owed m) 0 then Some m else None
  | EvOpen _ _ _ _ _ | EvKdf _ _ _ _ _ => None
  end.

Definition emon_fold := mon_fold emon_step.
Definition emon_run (evs : list event) : option emon := emon_fold emon_init evs.

(* trace-level reading of the monitor: counts used to state what acceptance means *)
Definition is_read_evb (e : event) : bool :=
  match e with EvRead _ _ | EvReadErr _ _ => true | _ => false end.
Definition is_flush_okb (e : event) : bool :=
  match e with EvFlush None => true | _ => false end.
Definition count_ev (f : event -> bool) (d : list event) : nat := length (filter f d).

(* ================================================================================================
   B2. look-ahead monitor for decrypt_chunks: once a chunk has been authenticated, nothing but the
   1-byte end-of-input probe is read until the chunk has been accepted by the sink and flushed
   ================================================================================================ *)
Record lmon := {
  l_owed : option nat;   (* Some k: a chunk was opened, k of its bytes are not accepted yet / not flushed *)
  l_probe : bool;        (* the 1-byte probe is still to come (final chunk) *)
}.
Definition lmon_init : lmon := {| l_owed := None; l_probe := false |}.

Definition lmon_read (m : lmon) (req : nat) : option lmon :=
  match l_owed m with
  | None => Some m
  | Some _ => if l_probe m && Nat.eqb req 1 then Some {| l_owed := l_owed m; l_probe := false |} else None
  end.

Definition lmon_step (m : lmon) (e : event) : option lmon :=
  match e with
  | EvRead req _ => lmon_read m req
  | EvReadErr req _ => lmon_read m req
  | EvOpen _ _ ad _ res =>
      match l_owed m with
      | Some _ => None                                   (* previous chunk not flushed out *)
      | None => match res with
                | Some pt => Some {| l_owed := Some (length pt); l_probe := ad_final ad |}
                | None => Some m
                end
      end
  | EvWrite _ took =>
      match l_owed m with
      | Some k => if negb (l_probe m) && (took <=? k)%nat
                  then Some {| l_owed := Some (k - took); l_probe := false |} else None
      | None => None
      end
  | EvWriteErr _ _ =>
      match l_owed m with Some _ => if l_probe m then None else Some m | None => None end
  | EvFlush res =>
      match l_owed m with
      | Some O => if l_probe m then None
                  else match res with
                       | None => Some {| l_owed := None; l_probe := false |}
                       | Some _ => Some m
                       end
      | _ => None
      end
  | EvSeal _ _ _ _ | EvKdf _ _ _ _ _ => None
  end.

Definition lmon_fold := mon_fold lmon_step.
Definition lmon_run (evs : list event) : option lmon := lmon_fold lmon_init evs.

(* ================================================================================================
   B3. buffer-size bounds, as per-event boolean tests ([c] = the chunk size in bytes)
   ================================================================================================ *)
Definition enc_ev_ok (c : nat) (e : event) : bool :=
  match e with
  | EvRead req got => (req <=? c)%nat && (length got <=? req)%nat
  | EvReadErr req _ => (req <=? c)%nat
  | EvWrite off _ | EvWriteErr off _ => (length off <=? c + 16)%nat
  | EvSeal _ _ _ pt => (length pt <=? c)%nat
  | EvFlush _ => true
  | EvOpen _ _ _ _ _ | EvKdf _ _ _ _ _ => false
  end.

Definition dec_ev_ok (c : nat) (e : event) : bool :=
  match e with
  | EvRead req got => (req <=? c + 16)%nat && (length got <=? req)%nat
  | EvReadErr req _ => (req <=? c + 16)%nat
  | EvWrite off _ | EvWriteErr off _ => (length off <=? c)%nat
  | EvOpen _ _ _ ct res =>
      (length ct <=? c + 16)%nat && match res with Some pt => (length pt <=? c)%nat | None => true end
  | EvFlush _ => true
  | EvSeal _ _ _ _ | EvKdf _ _ _ _ _ => false
  end.

(* the 1-byte end-of-input probe of decrypt_chunks *)
Definition is_probe_evb (e : event) : bool :=
  match e with EvRead 1 _ | EvReadErr 1 _ => true | _ => false end.

(* ================================================================================================
   test fixture: a toy AEAD (tag = 16 zero bytes) so that the loops can be RUN with [vm_compute] and the
   monitors applied to the traces they really produce (Examples in Proofs/MonitorFacts.v)
   ================================================================================================ *)
Definition toy_prims : prims := {|
  p_hash := fun _ => [];
  p_hmac := fun _ _ => [];
  p_hkdf := fun _ _ _ _ => [];
  p_dh := fun _ _ => [];
  p_seal := fun _ _ _ pt => pt ++ zeros 16;
  p_open := fun _ _ _ ct =>
    if (16 <=? length ct)%nat && beq (skipn (length ct - 16) ct) (zeros 16)
    then Some (firstn (length ct - 16) ct) else None;
  p_scrypt := fun _ _ _ _ _ _ => [];
|}.
