(* Model/Rand.v — a tiny executable model of the randomness consumed by a history of operations
   (property C07).  One stream of 32-byte blocks [stream : nat -> bytes] (block i = the i-th 32 bytes
   the OS generator returns to this process), consumed through a counter.  Which operation draws what,
   and in which order, is transcribed from the code:
     key_encrypt           : payload key (`PayloadKey::new(secure_random(32).as_slice())`, only when none is
                             injected), then the ephemeral private key (`PrivateKey::generate()` in noise
                             write_message, token e, unless BOTH halves of an ephemeral pair are injected)
                                                                           [encrypt.rs, noise.rs]
     pass encrypt (CLI)    : the 32-byte file salt                         [cli/commands.rs]
     key generate (CLI)    : the private key, then the 32-byte lock salt   [cli/commands.rs, keyring.rs]
     change-pass (CLI)     : the new 32-byte lock salt                     [cli/commands.rs, keyring.rs]
   Definitions only; the proofs are in Proofs/CombineRand.v.  [op_roles] is no longer a free-standing
   transcription: Model/RandRun.v runs Files.key_encrypt and the Cli.cmd_* commands on such a stream, drawing
   where the program draws, and Proofs/RandRoles.v proves that a run that reaches its end journals exactly
   [draw_roles .. (op_roles o)], a run that fails early a prefix of it, and that the run equals the
   explicit-argument model function on the blocks drawn (C07_command_draws, C07_history_draws_are_run_history).
   Draws skipped by an early failure and the half-injected ephemeral pair are covered there.
   NOT modelled: a failing getrandom (`expect` panic); that the OS generator's
   blocks are unpredictable or distinct — that is a premise ([NoDup] of the blocks) where needed. *)
From Kestrel Require Import Bytes.

Inductive op := OpKeyEncrypt | OpPassEncryptCli | OpKeyGenerate | OpChangePass.
Inductive role := RPayloadKey | REphemeralKey | RFileSalt | RPrivateKey | RLockSalt.

(* the draws of one operation, in program order *)
Definition op_roles (o : op) : list role :=
  match o with
  | OpKeyEncrypt => [RPayloadKey; REphemeralKey]
  | OpPassEncryptCli => [RFileSalt]
  | OpKeyGenerate => [RPrivateKey; RLockSalt]
  | OpChangePass => [RLockSalt]
  end.

(* one draw record: what it is for, which block of the stream it consumed, the 32 bytes obtained *)
Record draw := { d_role : role; d_index : nat; d_value : bytes }.

(* draw one block per role, advancing the counter *)
Fixpoint draw_roles (stream : nat -> bytes) (c : nat) (rs : list role) : list draw * nat :=
  match rs with
  | [] => ([], c)
  | r :: rest =>
    let '(ds, c') := draw_roles stream (S c) rest in
    ({| d_role := r; d_index := c; d_value := stream c |} :: ds, c')
  end.

(* run a history from counter c: per operation its draws, and the final counter *)
Fixpoint run_history (stream : nat -> bytes) (c : nat) (ops : list op) : list (op * list draw) * nat :=
  match ops with
  | [] => ([], c)
  | o :: rest =>
    let '(ds, c1) := draw_roles stream c (op_roles o) in
    let '(hs, c2) := run_history stream c1 rest in
    ((o, ds) :: hs, c2)
  end.

Definition all_draws (h : list (op * list draw)) : list draw := flat_map snd h.
Definition total_draws (ops : list op) : nat := list_sum (map (fun o => length (op_roles o)) ops).
