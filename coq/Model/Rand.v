(* Model/Rand.v — a tiny executable model of the randomness consumed by a history of operations
   (property C07).  One stream of 32-byte blocks [stream : nat -> bytes] (block i = the i-th 32 bytes
   the OS generator returns to this process), consumed through a counter.  Which operation draws what,
   and in which order, is transcribed from the code:
     key_encrypt           : payload key (PayloadKey::generate), then the ephemeral private key
                             (noise write_message, token e)               [encrypt.rs, noise.rs]
     pass encrypt (CLI)    : the 32-byte file salt                         [cli/commands.rs]
     key generate (CLI)    : the private key, then the 32-byte lock salt   [cli/commands.rs, keyring.rs]
     change-pass (CLI)     : the new 32-byte lock salt                     [cli/commands.rs, keyring.rs]
   Definitions only; the proofs are in Proofs/CombineRand.v.  NOT modelled: that the OS generator's
   blocks are unpredictable or distinct — that is a premise ([NoDup] of the blocks) where needed. *)
From Kestrel Require Import Bytes.

Inductive op := OpKeyEncrypt | OpPassEncryptCli | OpKeyGenerate | OpChangePass.
Inductive role := RPayloadKey | REphemeralKey | RFileSalt | RPrivateKey | RLockSalt.

(* the draws of one operation, in program order *)
Definition op_roles (o : op) : list role :=
  match o with
  | OpKeyEncrypt => [RPayloadKey; REphemeralKey]
  | OpPassEncryptCli => [RFileSalt]
  | OpKeyGenerate => [RPrivateKey; RLockSalt]
  | OpChangePass => [RLockSalt]
  end.

(* one draw record: what it is for, which block of the stream it consumed, the 32 bytes obtained *)
Record draw := { d_role : role; d_index : nat; d_value : bytes }.

(* draw one block per role, advancing the counter *)
Fixpoint draw_roles (stream : nat -> bytes) (c : nat) (rs : list role) : list draw * nat :=
  match rs with
  | [] => ([], c)
  | r :: rest =>
    let '(ds, c') := draw_roles stream (S c) rest in
    ({| d_role := r; d_index := c; d_value := stream c |} :: ds, c')
  end.

(* run a history from counter c: per operation its draws, and the final counter *)
Fixpoint run_history (stream : nat -> bytes) (c : nat) (ops : list op) : list (op * list draw) * nat :=
  match ops with
  | [] => ([], c)
  | o :: rest =>
    let '(ds, c1) := draw_roles stream c (op_roles o) in
    let '(hs, c2) := run_history stream c1 rest in
    ((o, ds) :: hs, c2)
  end.

Definition all_draws (h : list (op * list draw)) : list draw := flat_map snd h.
Definition total_draws (ops : list op) : nat := list_sum (map (fun o => length (op_roles o)) ops).
