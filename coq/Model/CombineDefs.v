(* Model/CombineDefs.v — vocabulary of the combination theorems (Proofs/Combine*.v). Definitions only. *)
From Kestrel Require Import Bytes Outcome IO IOFacts Prims.
From Kestrel.gen Require Import Extracted.
From Kestrel.Model Require Import AeadWrap Chunks Noise NoiseSpec Files ChunksSpec.
Local Open Scope N_scope.

(* the scrypt calls recorded in an event list *)
Definition is_kdf_evb (e : event) : bool := match e with EvKdf _ _ _ _ _ => true | _ => false end.
Definition kdf_events (d : list event) : list event := filter is_kdf_evb d.
Definition not_kdf_ev (e : event) : Prop := match e with EvKdf _ _ _ _ _ => False | _ => True end.

(* the events a decrypt_chunks run can emit: reads, writes, flushes, AEAD opens *)
Definition dec_ev (e : event) : Prop :=
  match e with EvSeal _ _ _ _ | EvKdf _ _ _ _ _ => False | _ => True end.

(* ---- the documented file formats as functions (docs/file-format.txt) ---- *)
(* password file: magic, salt, chunk stream under scrypt(pw, salt) with the magic as associated data *)
Definition spec_pass_file (P : prims) (pw salt : bytes) (chunks : list bytes) : bytes :=
  x_pass_file_magic ++ salt ++ spec_chunks P (kdf P pw salt) x_pass_file_magic chunks.

(* key file: prologue, 128-byte Noise X handshake message, chunk stream under
   HKDF(salt = "", ikm = payload key, info = handshake hash) with empty associated data *)
Definition spec_key_file (P : prims) (msg hh payload : bytes) (chunks : list bytes) : bytes :=
  x_prologue ++ msg ++ spec_chunks P (file_key P payload hh) [] chunks.

(* ---- the values of the Noise X handshake (initiator side), named ---- *)
Section Hs.
Variable P : prims.
(* h after MixHash(prologue), MixHash(rs), MixHash(e) *)
Definition hs_h3 (prologue rpk epk : bytes) : bytes := mixh P (mixh P (mixh P nx_h0 prologue) rpk) epk.
(* key after the es token, from the DH output dh1 *)
Definition hs_k1 (dh1 : bytes) : bytes := hk_k P nx_h0 dh1.
(* key after the ss token, from both DH outputs *)
Definition hs_k2 (dh1 dh2 : bytes) : bytes := hk_k P (hk_ck P nx_h0 dh1) dh2.
(* the encrypted static key and the encrypted payload *)
Definition hs_c1 (prologue rpk epk spk dh1 : bytes) : bytes :=
  p_seal P (hs_k1 dh1) (noise_nonce 0) (hs_h3 prologue rpk epk) spk.
Definition hs_c2 (prologue rpk epk spk dh1 dh2 payload : bytes) : bytes :=
  p_seal P (hs_k2 dh1 dh2) (noise_nonce 0) (mixh P (hs_h3 prologue rpk epk) (hs_c1 prologue rpk epk spk dh1)) payload.
End Hs.


(* ---- authenticity with several honest files (property C03) ----
   [files] lists honest chunk streams as (key, chunks).  An event is an honest open if, when it is a
   SUCCESSFUL AEAD open, it opened one of the seals of an honest stream under that stream's key.
   "Every event of the run is an honest open" is the no-forgery idealisation of the AEAD (including key
   separation): it is a premise of the authenticity theorems, never proved. *)
Definition honest_open (P : prims) (files : list (bytes * list bytes)) (aad : bytes) (e : event) : Prop :=
  match e with
  | EvOpen key n ad ct (Some _) =>
      exists chunks, In (key, chunks) files /\ In (n, ad, ct) (seal_log_from P key aad 0 chunks)
  | _ => True
  end.

(* honest password files (password, salt, chunks) as keyed chunk streams *)
Definition pass_keyed (P : prims) (files : list (bytes * bytes * list bytes)) : list (bytes * list bytes) :=
  map (fun f => (kdf P (fst (fst f)) (snd (fst f)), snd f)) files.

(* what a decrypt run released, relative to one honest plaintext: a prefix, and all of it if Ok *)
Definition released_prefix (s s' : io) (res : outcome derr unit) (chunks : list bytes) : Prop :=
  (exists written rest, w_out (wtr s') = w_out (wtr s) ++ written /\ written ++ rest = concat chunks) /\
  (res = Ok tt -> w_out (wtr s') = w_out (wtr s) ++ concat chunks).

(* ---- header inversion vocabulary (Proofs/CombineHeader.v) ---- *)
Definition kdf_ev (pw salt : bytes) : event := EvKdf pw salt x_lib_scrypt_n x_lib_scrypt_r x_lib_scrypt_p.

(* the errors a decryptor can report before the chunk stream is entered *)
Definition header_err (e : derr) : Prop :=
  match e with
  | DIORead _ | DOtherFormat | DOtherWrongMode | DOtherNoise _ => True
  | _ => False
  end.

(* the errors key_decrypt can report before the handshake message has been read *)
Definition pre_hs_err (e : derr) : Prop :=
  match e with DIORead _ | DOtherFormat | DOtherWrongMode => True | _ => False end.

(* result of key_decrypt from the result of its chunk phase *)
Definition with_sender (spk : bytes) (r : outcome derr unit) : outcome derr bytes :=
  match r with Ok _ => Ok spk | Err e => Err e | Panic w => Panic w | OutOfFuel => OutOfFuel end.

(* result of key_decrypt from a handshake result that is not Ok *)
Definition noise_fail (rn : outcome noise_err (bytes * bytes * bytes)) : outcome derr bytes :=
  match rn with
  | Ok _ => OutOfFuel   (* not used: noise_fail is only applied to non-Ok results *)
  | Err ne => Err (DOtherNoise ne) | Panic w => Panic w | OutOfFuel => OutOfFuel
  end.

(* ---- nonce discipline of one file encryption (Proofs/CombineNonce.v) ----
   [tr] = the new chronological events of the run: its logged seals are all under K, carry the counters
   0..m-1 in order, each once; with at most 2^64 of them their 12-byte nonces are pairwise distinct *)
Definition file_seals_ok (K : bytes) (tr : list event) : Prop :=
  exists m, map seal_nonce (filter_seals tr) = map N.of_nat (seq 0 m) /\
    Forall (fun q => seal_key q = K) (filter_seals tr) /\
    NoDup (map seal_nonce (filter_seals tr)) /\
    (N.of_nat m <= 18446744073709551616 ->
     NoDup (map (fun q => noise_nonce (seal_nonce q)) (filter_seals tr))).

(* the two parts of one record of the chunk format: 16-byte header, AEAD output *)
Definition rec_hdr (n : N) (b : bool) (c : bytes) : bytes :=
  be64 n ++ be32 (flag b) ++ be32 (N.of_nat (length c)).
Definition rec_ct (P : prims) (key aad : bytes) (n : N) (b : bool) (c : bytes) : bytes :=
  p_seal P key (noise_nonce n) (rec_ad aad b c) c.

(* ---- the cleartext view of a chunk stream (property C08) ----
   the 16-byte record headers (counter, last flag, length: functions of the chunk LENGTHS and positions only)
   and the AEAD outputs, separately; [stream_of] interleaves them again *)
Fixpoint chunk_headers_from (n : N) (chunks : list bytes) : list bytes :=
  match chunks with
  | [] => []
  | [c] => [rec_hdr n true c]
  | c :: rest => rec_hdr n false c :: chunk_headers_from (n + 1) rest
  end.
Fixpoint chunk_cts_from (P : prims) (key aad : bytes) (n : N) (chunks : list bytes) : list bytes :=
  match chunks with
  | [] => []
  | [c] => [rec_ct P key aad n true c]
  | c :: rest => rec_ct P key aad n false c :: chunk_cts_from P key aad (n + 1) rest
  end.
Definition stream_of (hdrs cts : list bytes) : bytes :=
  concat (map (fun p => fst p ++ snd p) (combine hdrs cts)).
