(* Model/CliStubs.v — trivial, executable stand-ins for the dependencies of Model/Cli.v, used ONLY by the
   vm_compute examples at the end of Proofs/CliFacts.v (and by gen_key_legacy_refuted).  They are not
   cryptography: the "AEAD" appends the first 16 key bytes as a tag and checks it, the "KDF" pads the
   password, the "DH" is constant.  open (seal m) = m holds, a wrong key is detected. *)
From Kestrel Require Import Bytes Outcome IO Prims.
From Kestrel.Model Require Import AeadWrap Chunks Noise Files KeyringText Cli.
Local Open Scope N_scope.

Definition stub_prims : prims := {|
  p_hash := fun _ => zeros 32;
  p_hmac := fun _ _ => zeros 32;
  p_hkdf := fun _ _ _ n => zeros n;
  p_dh := fun _ _ => 1 :: zeros 31;
  p_seal := fun k _ _ pt => pt ++ firstn 16 k;
  p_open := fun k _ _ ct =>
    let n := (length ct - 16)%nat in
    if list_N_eqb (skipn n ct) (firstn 16 k) then Some (firstn n ct) else None;
  p_scrypt := fun pw _ _ _ _ l => firstn l (pw ++ zeros l)
|}.

Definition stub_ok (t : text) : bool := true.
(* the password "p" unlocks every key *)
Definition stub_unlock (sk : text) (pw : bytes) : outcome kerr bytes :=
  if list_N_eqb pw [112] then Ok (2 :: zeros 31) else Err KPrivateKeyDecrypt.
Definition stub_lock (sk pw salt : bytes) : text := [83].                 (* "S" *)
Definition stub_decode_pk (t : text) : outcome kerr bytes := Ok (1 :: zeros 31).
Definition stub_encode_pk (pk : bytes) : text := [80].                    (* "P" *)
Definition stub_utf8_decode (b : bytes) : option text := Some b.
Definition stub_utf8_encode (t : text) : bytes := t.

Definition s_cmd_encrypt := cmd_encrypt stub_prims stub_ok stub_ok stub_unlock stub_decode_pk stub_utf8_decode.
Definition s_cmd_decrypt := cmd_decrypt stub_prims stub_ok stub_ok stub_unlock stub_decode_pk stub_encode_pk stub_utf8_decode.
Definition s_cmd_pass_encrypt := cmd_pass_encrypt stub_prims.
Definition s_cmd_pass_decrypt := cmd_pass_decrypt stub_prims.
Definition s_cmd_gen_key := cmd_gen_key stub_prims stub_lock stub_encode_pk stub_utf8_decode stub_utf8_encode.
Definition s_gen_key_legacy := gen_key_legacy stub_prims stub_lock stub_encode_pk stub_utf8_decode stub_utf8_encode.

(* paths *)
Definition p_in : text := [105; 110].            (* "in" *)
Definition p_out : text := [111; 117; 116].      (* "out" *)
Definition p_ct : text := [99; 116].             (* "ct" *)
Definition p_kr : text := [107; 114].            (* "kr" *)

Definition old_content : bytes := [9; 9; 9].
Definition plain : bytes := [1; 2; 3].

(* a keyring with one key "a" (public "P", private "S") *)
Definition kr_text : text := serialize_key [97] [80] [83].

(* a flat tree: regular files in the root directory, which is also the current directory *)
Definition flat_fs (files : list (text * bytes)) : fsys :=
  {| nodes := map (fun f => ([fst f], NFile (snd f))) files; cwd := [] |}.

Definition ex_world (pw : option bytes) : world := {|
  fs := flat_fs [(p_in, plain); (p_out, old_content); (p_kr, kr_text)];
  env_password := pw; env_new_password := None; env_keyring := Some p_kr; stdin := [] |}.

(* the world after `password encrypt in -o ct` with password "p" *)
Definition ex_world_ct (pw : option bytes) : world := {|
  fs := new_fs (s_cmd_pass_encrypt (ex_world (Some [112]))
                  {| po_infile := Some p_in; po_outfile := Some p_ct; po_env_pass := true |} (zeros 32));
  env_password := pw; env_new_password := None; env_keyring := Some p_kr; stdin := [] |}.

(* the world after `encrypt in -t a -f a -o ct` *)
Definition ex_world_kct : world := {|
  fs := new_fs (s_cmd_encrypt (ex_world (Some [112]))
                  {| eo_infile := Some p_in; eo_to := [97]; eo_from := [97]; eo_outfile := Some p_ct;
                     eo_keyring := None; eo_env_pass := true |} (zeros 32) (3 :: zeros 31));
  env_password := Some [112]; env_new_password := None; env_keyring := Some p_kr; stdin := [] |}.

(* key generate: name "bob\n" on stdin *)
Definition kr_text_q : text := serialize_key [97] [81] [83].     (* key "a" with public "Q" *)
Definition ex_gen_world : world := {|
  fs := flat_fs [(p_kr, kr_text_q)]; env_password := Some [112]; env_new_password := None; env_keyring := None;
  stdin := [98; 111; 98; 10] |}.
Definition ex_gen_opts : gen_opts := {| go_outfile := Some p_kr; go_env_pass := true |}.
