(* Model/NoiseSpec.v — closed forms of the Noise X handshake of Model/Noise.v for the concrete
   token list [TE; TES; TS; TSS]: what write_message / read_message compute once the token loop is
   unfolded.  Definitions only; Proofs/NoiseFacts.v proves the model equal to these forms. *)
From Kestrel Require Import Bytes Outcome Prims.
From Kestrel.gen Require Import Extracted.
From Kestrel.Model Require Import AeadWrap Noise.
Local Open Scope N_scope.

Section NoiseSpec.
Variable P : prims.

(* h = ck after SymmetricState::new: the 31-byte protocol name padded with one zero byte *)
Definition nx_h0 : bytes := x_noise_protocol_name ++ zeros 1.

Definition mixh (h d : bytes) : bytes := p_hash P (h ++ d).
Definition hk_ck (c ikm : bytes) : bytes := fst (hkdf_noise P c ikm).
Definition hk_k (c ikm : bytes) : bytes := snd (hkdf_noise P c ikm).

(* the ephemeral pair write_message ends up using *)
Definition eph_of (fresh_e : bytes) (e epk : option bytes) : bytes * bytes :=
  match e, epk with
  | Some a, Some b => (a, b)
  | _, _ => (fresh_e, dh_pub P fresh_e)
  end.

(* the same, read off a handshake state (the pair the E token uses) *)
Definition ep_of (fresh_e : bytes) (st : hs) : bytes * bytes :=
  match e_pair st with Some p => p | None => (fresh_e, dh_pub P fresh_e) end.

(* sender side: e/epk ephemeral pair, s/spk static pair, rpk recipient public key *)
Definition noise_encrypt_spec (e epk s spk rpk prologue payload : bytes) : NM (bytes * bytes) :=
  let h2 := mixh (mixh nx_h0 prologue) rpk in
  let h3 := mixh h2 epk in
  let dh1 := p_dh P e rpk in
  if all_zero dh1 then Err NDh else
  let ck1 := hk_ck nx_h0 dh1 in
  let k1 := hk_k nx_h0 dh1 in
  let ct1 := p_seal P k1 (noise_nonce 0) h3 spk in
  let h4 := mixh h3 ct1 in
  let dh2 := p_dh P s rpk in
  if all_zero dh2 then Err NDh else
  let k2 := hk_k ck1 dh2 in
  let ct2 := p_seal P k2 (noise_nonce 0) h4 payload in
  Ok (epk ++ ct1 ++ ct2, mixh h4 ct2).

(* recipient side, for a message that passed the length guard *)
Definition noise_decrypt_spec (r rpk prologue msg : bytes) : NM (bytes * bytes * bytes) :=
  let re := firstn 32 msg in
  let c1 := firstn 48 (skipn 32 msg) in
  let c2 := skipn 80 msg in
  let h3 := mixh (mixh (mixh nx_h0 prologue) rpk) re in
  let dh1 := p_dh P r re in
  if all_zero dh1 then Err NDh else
  let ck1 := hk_ck nx_h0 dh1 in
  let k1 := hk_k nx_h0 dh1 in
  match p_open P k1 (noise_nonce 0) h3 c1 with
  | None => Err NDecrypt
  | Some rs =>
    if negb (Nat.eqb (length rs) 32) then Err NOther else
    let h4 := mixh h3 c1 in
    let dh2 := p_dh P r rs in
    if all_zero dh2 then Err NDh else
    let k2 := hk_k ck1 dh2 in
    match p_open P k2 (noise_nonce 0) h4 c2 with
    | None => Err NDecrypt
    | Some payload =>
      if negb (Nat.eqb (length payload) 32) then Err NOther else
      Ok (payload, rs, mixh h4 c2)
    end
  end.

(* the repaired length guard as a boolean; the two bounds are the literals of noise.rs::read_message,
   read from the sources (Noise.guard_min = x_noise_guard_min, Noise.guard_max = x_noise_guard_max) *)
Definition noise_len_ok (len : nat) : bool := Nat.leb guard_min len && (N.of_nat len <=? guard_max).

End NoiseSpec.
