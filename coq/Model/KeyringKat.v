(* KeyringKat.v — known-answer tests for the keyring parser model, by vm_compute.
   pk_ok / sk_ok are instantiated with length tests (48 / 112 characters: the base64 lengths
   of 36 and 84 bytes), which is all these examples need. *)
From Coq Require Import String Ascii.
From Kestrel Require Import Bytes Outcome.
From Kestrel.Model Require Import KeyringText KeyringSpec.
Local Open Scope N_scope.

(* ASCII string literal -> text (one N per byte; only used with ASCII literals) *)
Fixpoint text_of_string (s : string) : text :=
  match s with
  | EmptyString => []
  | String a r => N_of_ascii a :: text_of_string r
  end.
Notation "'T' s" := (text_of_string s%string) (at level 9, s at level 0, only parsing).

(* each string followed by '\n' *)
Definition unlines (ss : list text) : text := flat_map (fun s => s ++ [10]) ss.
Definition unlines_crlf (ss : list text) : text := flat_map (fun s => s ++ [13; 10]) ss.

Definition pk48 (s : text) : bool := Nat.eqb (length s) 48.
Definition sk112 (s : text) : bool := Nat.eqb (length s) 112.
Definition parse := parse_config pk48 sk112.
Definition E {A} (k : perr_kind) : outcome perr A := Err (ParseConfig k).

(* ---------- the constants of KeyringText.v are the intended strings ---------- *)
Example k_hdr  : s_hdr  = T"[Key]".       Proof. reflexivity. Qed.
Example k_name_ : s_name = T"Name".       Proof. reflexivity. Qed.
Example k_pub_ : s_pub  = T"PublicKey".   Proof. reflexivity. Qed.
Example k_priv_ : s_priv = T"PrivateKey". Proof. reflexivity. Qed.
Example k_chars : [c_nl; c_cr; c_tab; c_eq; c_hash] = [10; 13; 9] ++ T"=#".
Proof. reflexivity. Qed.
Example k_serialize :
  serialize_key T"n" T"p" T"s" =
  T"[Key]" ++ [10] ++ T"Name = n" ++ [10] ++ T"PublicKey = p" ++ [10] ++ T"PrivateKey = s" ++ [10].
Proof. reflexivity. Qed.

(* ---------- str::lines ---------- *)
Example lines_empty : lines [] = [].  Proof. reflexivity. Qed.
Example lines_1 : lines (T"a" ++ [10] ++ T"b") = [T"a"; T"b"].  Proof. reflexivity. Qed.
Example lines_trailing_nl : lines (T"a" ++ [10] ++ T"b" ++ [10]) = [T"a"; T"b"].
Proof. reflexivity. Qed.
Example lines_blank : lines [10; 10] = [[]; []].  Proof. reflexivity. Qed.
Example lines_crlf : lines (T"a" ++ [13; 10] ++ T"b" ++ [13; 10]) = [T"a"; T"b"].
Proof. reflexivity. Qed.
(* a bare '\r' is preserved: in the middle, before "\r\n" (only one is stripped), and at the end *)
Example lines_bare_cr :
  lines (T"a" ++ [13] ++ T"b" ++ [13; 13; 10] ++ T"c" ++ [13]) = [T"a" ++ [13] ++ T"b" ++ [13]; T"c" ++ [13]].
Proof. reflexivity. Qed.

(* ---------- trim / remove_tabs / split_once / utf8_len ---------- *)
Example trim_1 : trim ([32; 160; 8195; 12288] ++ T"a b" ++ [13; 10; 8232; 133]) = T"a b".
Proof. reflexivity. Qed.
Example trim_all_ws : trim [32; 9; 10; 11; 12; 13; 5760; 8192; 8202; 8233; 8239; 8287] = [].
Proof. reflexivity. Qed.
(* U+200B ZERO WIDTH SPACE, U+FEFF, U+001C..U+001F are NOT White_Space *)
Example trim_not_ws : trim [8203; 65279; 28; 31; 8] = [8203; 65279; 28; 31; 8].
Proof. reflexivity. Qed.
Example split_1 : split_once_eq T"a=b=c" = Some (T"a", T"b=c").  Proof. reflexivity. Qed.
Example split_none : split_once_eq T"abc" = None.  Proof. reflexivity. Qed.
Example utf8_1 : utf8_len [65; 127; 128; 2047; 2048; 65535; 65536; 1114111] = 20.
Proof. reflexivity. Qed.
Example name_128 : valid_key_name (repeat 97 128) = true.  Proof. reflexivity. Qed.
Example name_129 : valid_key_name (repeat 97 129) = false.  Proof. reflexivity. Qed.
(* 64 two-byte characters fit, 43 three-byte ones (129 bytes) do not *)
Example name_64x2 : valid_key_name (repeat 233 64) = true.  Proof. reflexivity. Qed.
Example name_65x2 : valid_key_name (repeat 233 65) = false.  Proof. reflexivity. Qed.
Example name_43x3 : valid_key_name (repeat 8364 43) = false.  Proof. reflexivity. Qed.
Example name_tab : valid_key_name (T"a" ++ [9] ++ T"b") = false.  Proof. reflexivity. Qed.
Example name_empty : valid_key_name [] = false.  Proof. reflexivity. Qed.

(* ---------- the keyring of the tests module of keyring.rs ---------- *)
Definition pk_alice := T"D7ZZstGYF6okKKEV2rwoUza/tK3iUa8IMY+l5tuirmzzkEog".
Definition sk_alice := T"ZWdrMPEp09tKN3rAutCDQTshrNqoh0MLPnEERRCm5KFxvXcTo+s/Sf2ze0fKebVsQilImvLzfIHRcJuX8kGetyAQL1VchvzHR28vFhdKeq+NY2KT".
Definition pk_bob := T"CT/e0R9tbBjTYUhDNnNxltT3LLWZLHwW4DCY/WHxBA8am9vP".

Definition alice := mk_entry T"alice" pk_alice (Some sk_alice).
Definition bob := mk_entry T"Bobby Bobertson" pk_bob None.

Definition KEYRING_INI : text := unlines [
  T"";
  T"[Key]";
  T"# comment lines are fine.";
  T"Name = alice";
  T"PublicKey = " ++ pk_alice;
  T"PrivateKey = " ++ sk_alice;
  T"";
  T"[Key]";
  T"Name = Bobby Bobertson";
  T"PublicKey = " ++ pk_bob ].

Example kat_keyring_ini : parse KEYRING_INI = Ok [alice; bob].
Proof. vm_compute. reflexivity. Qed.

Example kat_get_key : get_key [alice; bob] T"Bobby Bobertson" = Some bob.
Proof. vm_compute. reflexivity. Qed.
Example kat_get_key_none : get_key [alice; bob] T"bob" = None.
Proof. vm_compute. reflexivity. Qed.
Example kat_get_name : get_name_from_key [alice; bob] pk_alice = Some T"alice".
Proof. vm_compute. reflexivity. Qed.
Example kat_get_name_none : get_name_from_key [alice; bob] sk_alice = None.
Proof. vm_compute. reflexivity. Qed.

(* serialize_key output, and the file the tool writes (later keys are preceded by "\n"), parse back *)
Definition alice2 := mk_entry T"al" pk_bob (Some sk_alice).
Example kat_serialize_parse :
  parse (serialize_key T"alice" pk_alice sk_alice ++ [10] ++ serialize_key T"al" pk_bob sk_alice)
  = Ok [alice; alice2].
Proof. vm_compute. reflexivity. Qed.

(* ---------- accepted oddities ---------- *)
(* TABs are removed anywhere in the line, also inside the value *)
Example kat_tabs :
  parse (unlines [T"[Key]"; T"Name" ++ [9] ++ T"=" ++ [9] ++ T"ali" ++ [9] ++ T"ce"; [9] ++ T"PublicKey=" ++ pk_bob])
  = Ok [mk_entry T"alice" pk_bob None].
Proof. vm_compute. reflexivity. Qed.
(* only the prefix "Name" is tested *)
Example kat_named :
  parse (unlines [T"[Key]junk"; T"Named = x"; T"PublicKeyring=" ++ pk_bob; T"PrivateKeys = " ++ sk_alice])
  = Ok [mk_entry T"x" pk_bob (Some sk_alice)].
Proof. vm_compute. reflexivity. Qed.
(* the value starts after the FIRST '=' *)
Example kat_eq_in_value :
  parse (unlines [T"[Key]"; T"Name = a = b"; T"PublicKey = " ++ pk_bob])
  = Ok [mk_entry T"a = b" pk_bob None].
Proof. vm_compute. reflexivity. Qed.
(* fields in any order, private key optional, comment and blank lines anywhere *)
Example kat_order :
  parse (unlines [T"# c"; T"  "; T"[Key]"; T"PrivateKey = " ++ sk_alice; T"#"; T"PublicKey = " ++ pk_bob; T""; T"Name=n"])
  = Ok [mk_entry T"n" pk_bob (Some sk_alice)].
Proof. vm_compute. reflexivity. Qed.
(* CRLF line endings *)
Example kat_crlf :
  parse (unlines_crlf [T"[Key]"; T"Name = alice"; T"PublicKey = " ++ pk_alice; T""; T"[Key]"; T"Name = b"; T"PublicKey = " ++ pk_bob])
  = Ok [mk_entry T"alice" pk_alice None; mk_entry T"b" pk_bob None].
Proof. vm_compute. reflexivity. Qed.
(* no trailing newline; and a final bare '\r' (kept by lines(), removed by trim()) *)
Example kat_no_trailing_nl :
  parse (T"[Key]" ++ [10] ++ T"Name = alice" ++ [10] ++ T"PublicKey = " ++ pk_alice)
  = Ok [mk_entry T"alice" pk_alice None].
Proof. vm_compute. reflexivity. Qed.
Example kat_trailing_cr :
  parse (T"[Key]" ++ [10] ++ T"Name = alice" ++ [10] ++ T"PublicKey = " ++ pk_alice ++ [13])
  = Ok [mk_entry T"alice" pk_alice None].
Proof. vm_compute. reflexivity. Qed.
(* U+00A0 (and other White_Space) around a value and around the line is trimmed *)
Example kat_nbsp :
  parse (unlines [[160] ++ T"[Key]"; [8195] ++ T"Name =" ++ [160] ++ T"alice" ++ [160; 12288]; T"PublicKey =" ++ [160; 160] ++ pk_alice ++ [160]])
  = Ok [mk_entry T"alice" pk_alice None].
Proof. vm_compute. reflexivity. Qed.
(* ... but not inside: U+00A0 in the middle of a name stays *)
Example kat_nbsp_inside :
  parse (unlines [T"[Key]"; T"Name = a" ++ [160] ++ T"b"; T"PublicKey = " ++ pk_alice])
  = Ok [mk_entry (T"a" ++ [160] ++ T"b") pk_alice None].
Proof. vm_compute. reflexivity. Qed.
(* a name of exactly 128 bytes *)
Example kat_name_128 :
  parse (unlines [T"[Key]"; T"Name = " ++ repeat 97 128; T"PublicKey = " ++ pk_alice])
  = Ok [mk_entry (repeat 97 128) pk_alice None].
Proof. vm_compute. reflexivity. Qed.

(* ---------- rejections, one (or more) per error message ---------- *)
Definition sec (n p : text) : list text := [T"[Key]"; T"Name = " ++ n; T"PublicKey = " ++ p].

Example rej_no_keys_empty : parse [] = E NoKeysFound.
Proof. vm_compute. reflexivity. Qed.
Example rej_no_keys_comment : parse (unlines [T"# nothing"; T""]) = E NoKeysFound.
Proof. vm_compute. reflexivity. Qed.
Example rej_invalid_data : parse (unlines [T"[Key]"; T"Nam = x"]) = E InvalidData.
Proof. vm_compute. reflexivity. Qed.
Example rej_invalid_data_case : parse (unlines [T"[key]"]) = E InvalidData.
Proof. vm_compute. reflexivity. Qed.
Example rej_invalid_data_before : parse (unlines (T"x" :: sec T"a" pk_alice)) = E InvalidData.
Proof. vm_compute. reflexivity. Qed.

Example rej_must_have_name_hdr :
  parse (unlines ([T"[Key]"; T"PublicKey = " ++ pk_alice] ++ sec T"b" pk_bob)) = E KeyMustHaveName.
Proof. vm_compute. reflexivity. Qed.
Example rej_must_have_name_hdr2 : parse (unlines [T"[Key]"; T"[Key]"]) = E KeyMustHaveName.
Proof. vm_compute. reflexivity. Qed.
Example rej_must_have_name_end :
  parse (unlines [T"[Key]"; T"PublicKey = " ++ pk_alice]) = E KeyMustHaveName.
Proof. vm_compute. reflexivity. Qed.
Example rej_must_have_pub_hdr :
  parse (unlines ([T"[Key]"; T"Name = a"] ++ sec T"b" pk_bob)) = E KeyMustHavePublicKey.
Proof. vm_compute. reflexivity. Qed.
Example rej_must_have_pub_end :
  parse (unlines (sec T"b" pk_bob ++ [T"[Key]"; T"Name = a"])) = E KeyMustHavePublicKey.
Proof. vm_compute. reflexivity. Qed.
Example rej_must_have_both : parse (unlines [T"[Key]"; T"PrivateKey = " ++ sk_alice]) = E KeyMustHaveNameAndPublicKey.
Proof. vm_compute. reflexivity. Qed.
Example rej_must_have_both2 : parse T"[Key]" = E KeyMustHaveNameAndPublicKey.
Proof. vm_compute. reflexivity. Qed.

Example rej_name_outside : parse (unlines (T"Name = a" :: sec T"a" pk_alice)) = E NameOutsideSection.
Proof. vm_compute. reflexivity. Qed.
(* the outside-section test comes before the '=' test *)
Example rej_name_outside_noeq : parse T"Name" = E NameOutsideSection.
Proof. vm_compute. reflexivity. Qed.
Example rej_dup_name : parse (unlines (sec T"a" pk_alice ++ [T"Name = b"])) = E DuplicateName.
Proof. vm_compute. reflexivity. Qed.
(* the duplicate test comes before the '=' and validity tests *)
Example rej_dup_name_noeq : parse (unlines (sec T"a" pk_alice ++ [T"Name"])) = E DuplicateName.
Proof. vm_compute. reflexivity. Qed.
Example rej_name_must_be_set : parse (unlines [T"[Key]"; T"Name alice"]) = E NameMustBeSet.
Proof. vm_compute. reflexivity. Qed.
Example rej_invalid_name_empty : parse (unlines [T"[Key]"; T"Name =  "]) = E InvalidName.
Proof. vm_compute. reflexivity. Qed.
Example rej_invalid_name_long : parse (unlines [T"[Key]"; T"Name = " ++ repeat 97 129]) = E InvalidName.
Proof. vm_compute. reflexivity. Qed.

Example rej_pub_outside : parse (T"PublicKey = " ++ pk_alice) = E PublicKeyOutsideSection.
Proof. vm_compute. reflexivity. Qed.
Example rej_dup_pub : parse (unlines (sec T"a" pk_alice ++ [T"PublicKey = " ++ pk_bob])) = E DuplicatePublicKey.
Proof. vm_compute. reflexivity. Qed.
Example rej_pub_must_be_set : parse (unlines [T"[Key]"; T"PublicKey"]) = E PublicKeyMustBeSet.
Proof. vm_compute. reflexivity. Qed.
Example rej_malformed_pub : parse (unlines [T"[Key]"; T"PublicKey = AAAA"]) = E MalformedPublicKey.
Proof. vm_compute. reflexivity. Qed.
(* white space inside a value is not removed (only TABs are) *)
Example rej_malformed_pub_space :
  parse (unlines [T"[Key]"; T"PublicKey = D7ZZstGYF6okKKEV2rwoUza/ tK3iUa8IMY+l5tuirmzzkEog"]) = E MalformedPublicKey.
Proof. vm_compute. reflexivity. Qed.

Example rej_priv_outside : parse (T"PrivateKey = " ++ sk_alice) = E PrivateKeyOutsideSection.
Proof. vm_compute. reflexivity. Qed.
Example rej_dup_priv :
  parse (unlines [T"[Key]"; T"PrivateKey = " ++ sk_alice; T"PrivateKey = " ++ sk_alice]) = E DuplicatePrivateKey.
Proof. vm_compute. reflexivity. Qed.
Example rej_priv_must_be_set : parse (unlines [T"[Key]"; T"PrivateKey: x"]) = E PrivateKeyMustBeSet.
Proof. vm_compute. reflexivity. Qed.
Example rej_malformed_priv : parse (unlines [T"[Key]"; T"PrivateKey = " ++ pk_alice]) = E MalformedPrivateKey.
Proof. vm_compute. reflexivity. Qed.

Example rej_found_dup_name : parse (unlines (sec T"a" pk_alice ++ sec T"a" pk_bob)) = E FoundDuplicateName.
Proof. vm_compute. reflexivity. Qed.
Example rej_found_dup_pub : parse (unlines (sec T"a" pk_alice ++ sec T"b" pk_alice)) = E FoundDuplicatePublicKey.
Proof. vm_compute. reflexivity. Qed.
(* the duplicate is detected when the next header is seen, before later errors *)
Example rej_found_dup_name_early :
  parse (unlines (sec T"a" pk_alice ++ sec T"a" pk_bob ++ [T"[Key]"; T"junk"])) = E FoundDuplicateName.
Proof. vm_compute. reflexivity. Qed.
(* same key duplicates both: the name is reported *)
Example rej_found_dup_both : parse (unlines (sec T"a" pk_alice ++ sec T"a" pk_alice)) = E FoundDuplicateName.
Proof. vm_compute. reflexivity. Qed.
(* per existing key in order: key 1 has the same public key, key 2 the same name *)
Example rej_found_dup_order :
  parse (unlines (sec T"a" pk_alice ++ sec T"b" pk_bob ++ sec T"b" pk_alice)) = E FoundDuplicatePublicKey.
Proof. vm_compute. reflexivity. Qed.
(* names differing only by a TAB collide, since TABs are removed *)
Example rej_found_dup_name_tab :
  parse (unlines (sec T"ab" pk_alice ++ sec (T"a" ++ [9] ++ T"b") pk_bob)) = E FoundDuplicateName.
Proof. vm_compute. reflexivity. Qed.

(* ---------- classification ---------- *)
Example cls_1 :
  map classify [T"[Key] x"; T"Name=a "; T"PublicKeyX = p"; T"PrivateKey== s"; T"#c"; T""; T"Name"; T"PublicKey"; T"PrivateKey"; T"x"]
  = [LHeader; LName T"a"; LPub T"p"; LPriv T"= s"; LSkip; LSkip; LNameNoEq; LPubNoEq; LPrivNoEq; LJunk].
Proof. vm_compute. reflexivity. Qed.
