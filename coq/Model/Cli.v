(* Model/Cli.v — the COMMAND layer of the kestrel CLI (src/cli/src/commands.rs, and main.rs::main for
   the exit code) as pure functions over an explicit world.  Definitions only; proofs are in
   Proofs/CliFacts.v (commands) and Proofs/CliFs.v (the file system).

   Scope.  Argument parsing (the parse_ functions of main.rs) is not modelled: every command takes an already parsed
   option record.  Only ONE terminal configuration is modelled, the one a test harness can create:
     isatty(Stdin) = isatty(Stdout) = false   and   passterm::prompt_password_tty fails.
   Consequences, all visible in the definitions below:
     - ask_pass(prompt, env_pass)  = read_env_pass() if env_pass, else the prompt_password_tty error;
       confirm_password / confirm_new_pass likewise (confirm_loop's first ask_pass fails);
     - the unlock loops of encrypt/decrypt never retry: a failed unlock is "Key unlock failed.";
     - open_input(None) = stdin,  open_output(None, _) = stdout (never "Please specify ...");
     - gen_key / change_pass print without the leading "\n".

   The file system of the world is a TREE: a node is a regular file (bytes) or a directory, stored under its
   canonical absolute path (the list of component names from the root; the root always exists and is a
   directory); the world has a current directory.  A path STRING is resolved component by component the way
   Linux does it without symbolic links (path_resolution(7)): the empty string does not resolve; a leading '/'
   starts at the root, otherwise at the current directory (which must be a directory of the world); empty
   components and "." stay, ".." goes to the parent (the root's parent is the root); every component but the
   last must name an existing directory; a trailing '/' requires a directory.  [resolve] gives the canonical
   path and the node there, or the canonical path of a name that is ABSENT in an existing directory (what
   File::create can create), or nothing.
     - File::create (OnDemandFile, at the FIRST write or flush call) succeeds iff the path resolves to a
       regular file (truncated) or to an absent name in an existing directory (created).  Otherwise EVERY
       write / flush call of the sink fails (missing parent directory, a directory at the path, a file used
       as a directory, the empty string, a trailing slash) and nothing is created: the library run is made
       on a sink whose first write call and first flush call fail (the library stops at the first failing
       call: Proofs/CombineEncFault.v, CombineDecFault.v) and the file system stays as it was.
     - Path::exists = the path resolves to a node.  File::open on a directory SUCCEEDS and every read
       fails (EISDIR): the library run is made on a reader whose first read call fails.  What the command
       has written by then (the header of the two encryptors: they write before they read) stays.
     - the identity of a file is its CANONICAL path; the same-file test of commands.rs compares the two
       argument STRINGS.  When the strings differ but input and output are one file, the output's
       File::create truncates the input while it is being read: [alias_input] computes what the reader then
       sees from the run's own trace (the bytes consumed before the first sink call, then whatever the sink
       holds beyond that offset when the reader is next called), and the library is run on that.
   Out of scope (cannot be expressed in this world, or belongs to another configuration):
     - VarError::NotUnicode for KESTREL_PASSWORD / KESTREL_NEW_PASSWORD / KESTREL_KEYRING
       (environment values are byte strings / texts already known to be valid UTF-8);
     - symbolic and hard links, devices, FIFOs, permissions ("Could not open input file"), a full disk, name and
       path length limits (ENAMETOOLONG), a NUL inside a path, other processes changing the tree during the run;
     - cfg!(target_os = "windows"); the usage errors of main.rs (they come from the parser);
     - stderr (progress messages, prompts, the "Error: ..." line): only the exit code, the file
       system, stdout and a status naming the message are observable here.

   Library calls run the functions of Model/Files.v on the io state [job_io input dir bad]: script-free
   (= mk_io input [] [] []: every read and every write succeeds in full, which is how regular files and pipes
   behave) unless the input is a directory (the first read fails) or the sink cannot be created (the first
   write and the first flush fail).  The output sink given with `-o F` is commands.rs::OnDemandFile: the file is
   created (File::create: truncated) by the FIRST `write` or `flush` CALL, whether or not that call
   carries bytes; so F is untouched iff the run's log holds no EvWrite / EvWriteErr / EvFlush event,
   and otherwise F's content becomes exactly [w_out] of the final state.  With stdout as the sink,
   the stdout bytes are [w_out]. *)
From Kestrel Require Import Bytes Outcome IO Prims.
From Kestrel.Model Require Import AeadWrap Chunks Noise Files KeyringText.
Local Open Scope N_scope.

(* ---------- cli/src/errors.rs::KeyringError ---------- *)
Inductive kerr :=
| KParseConfig (k : perr_kind)   (* "Failed to parse list of keys: {}" *)
| KPublicKeyChecksum             (* "Public key checksum did not match." *)
| KPublicKeyLength               (* "Invalid public key length." *)
| KPrivateKeyDecrypt             (* "Failed to unlock the private key.\nMake sure the password provided is correct." *)
| KPrivateKeyLength              (* "Invalid private key length." *)
| KPrivateKeyFormat.             (* "Unsupported private key file format." *)

(* ---------- the world: a tree of files and directories ---------- *)
Inductive node := NFile (c : bytes) | NDir.

(* canonical absolute path: the component names from the root; [] is "/" *)
Definition cpath := list text.

Fixpoint cpath_eqb (a b : cpath) : bool :=
  match a, b with
  | [], [] => true
  | x :: a', y :: b' => text_eqb x y && cpath_eqb a' b'
  | _, _ => false
  end.

(* canonical path -> node; the FIRST pair with the path counts *)
Definition ntab := list (cpath * node).

Fixpoint nt_get (l : ntab) (p : cpath) : option node :=
  match l with
  | [] => None
  | (q, n) :: r => if cpath_eqb q p then Some n else nt_get r p
  end.

(* an existing entry keeps its place in the list, a new one is added at the end *)
Fixpoint nt_set (l : ntab) (p : cpath) (n : node) : ntab :=
  match l with
  | [] => [(p, n)]
  | (q, m) :: r => if cpath_eqb q p then (q, n) :: r else (q, m) :: nt_set r p n
  end.

Record fsys := { nodes : ntab; cwd : cpath }.

(* the node at a canonical path; the root is always there and is a directory *)
Definition node_at (l : fsys) (p : cpath) : option node :=
  match p with [] => Some NDir | _ :: _ => nt_get (nodes l) p end.

(* the regular file at canonical path [p] gets content [c] (File::create + writes, OpenOptions::append + writes) *)
Definition set_file (l : fsys) (p : cpath) (c : bytes) : fsys :=
  {| nodes := nt_set (nodes l) p (NFile c); cwd := cwd l |}.

(* ---- path strings ---- *)
Definition c_slash : N := 47.
Definition s_dot : text := [46].
Definition s_dotdot : text := [46; 46].

(* the pieces between the '/' characters, empty ones included: "a//b/" -> ["a"; ""; "b"; ""] *)
Fixpoint split_slash (p : text) (cur : text) : list text :=
  match p with
  | [] => [rev cur]
  | c :: r => if c =? c_slash then rev cur :: split_slash r [] else split_slash r (c :: cur)
  end.
Definition nonempty (t : text) : bool := match t with [] => false | _ :: _ => true end.
Definition path_components (p : text) : list text := filter nonempty (split_slash p []).
Definition path_absolute (p : text) : bool := match p with c :: _ => c =? c_slash | [] => false end.
Definition path_trailing_slash (p : text) : bool := match rev p with c :: _ => c =? c_slash | [] => false end.

Definition parent (d : cpath) : cpath := removelast d.

(* walk the components [cs] from the node at canonical path [d].  Some (p, Some n): the path names the existing
   node n at p; Some (p, None): the last component is a name that is absent in the existing directory
   (parent p); None: the path does not resolve (ENOENT / ENOTDIR).  [must_dir]: the string ended in '/'. *)
Fixpoint walk (l : fsys) (d : cpath) (cs : list text) (must_dir : bool) : option (cpath * option node) :=
  match cs with
  | [] => match node_at l d with Some NDir => Some (d, Some NDir) | _ => None end
  | c :: rest =>
      if text_eqb c s_dot then walk l d rest must_dir
      else if text_eqb c s_dotdot then walk l (parent d) rest must_dir
      else
        let p := d ++ [c] in
        match node_at l d with
        | Some NDir =>
            match rest with
            | [] =>
                match node_at l p with
                | Some NDir => Some (p, Some NDir)
                | Some (NFile x) => if must_dir then None else Some (p, Some (NFile x))
                | None => if must_dir then None else Some (p, None)
                end
            | _ :: _ => match node_at l p with Some NDir => walk l p rest must_dir | _ => None end
            end
        | _ => None
        end
  end.

Definition resolve (l : fsys) (p : text) : option (cpath * option node) :=
  match p with
  | [] => None
  | _ :: _ =>
      let start := if path_absolute p then [] else cwd l in
      match node_at l start with
      | Some NDir => walk l start (path_components p) (path_trailing_slash p)
      | _ => None
      end
  end.

(* the regular file seen through a path string (std::fs::read, File::open + reads) *)
Definition fs_get (l : fsys) (p : text) : option bytes :=
  match resolve l p with Some (_, Some (NFile c)) => Some c | _ => None end.
(* Path::exists *)
Definition fs_exists (l : fsys) (p : text) : bool :=
  match resolve l p with Some (_, Some _) => true | _ => false end.
(* the canonical path a string denotes: an existing node, or a name that can be created *)
Definition fs_target (l : fsys) (p : text) : option cpath := option_map fst (resolve l p).
(* where File::create(p) puts its file: an existing regular file (truncated) or a new name in an existing directory *)
Definition fs_create_target (l : fsys) (p : text) : option cpath :=
  match resolve l p with
  | Some (cp, Some (NFile _)) => Some cp
  | Some (cp, None) => Some cp
  | _ => None
  end.

Record world := {
  fs : fsys;
  env_password : option bytes;       (* KESTREL_PASSWORD, as_bytes() *)
  env_new_password : option bytes;   (* KESTREL_NEW_PASSWORD *)
  env_keyring : option text;         (* KESTREL_KEYRING *)
  stdin : bytes
}.

(* ---------- outcome of a command ---------- *)
(* one constructor per distinct error message / success path of commands.rs (messages quoted) *)
Inductive cmd_status :=
| SInputOutputSame        (* "Input and output files must be different." *)
| SInputMissing           (* "Input file '{}' does not exist." *)
| SKeyringUnspecified     (* "Specify a keyring with -k or set the KESTREL_KEYRING env var" *)
| SKeyringUnreadable      (* "Could not open keyring: {}" *)
| SKeyringNotUtf8         (* "Invalid keyinrg encoding. Expected UTF-8" *)
| SKeyringParse (e : perr)(* "Failed to parse list of keys: {}" *)
| SRecipientNotFound      (* encrypt: "Recipient key '{}' not found." *)
| SSenderNotFound         (* encrypt: "Sender key '{}' not found." *)
| SSenderNoPrivate        (* encrypt: "Sender '{}' needs a private key." *)
| SKeyNotFound            (* decrypt: "Key '{}' not found." *)
| SKeyNoPrivate           (* decrypt: "Key '{}' needs a private key." *)
| SPublicKeyBad (k : kerr)(* Keyring::decode_public_key(..)? : the KeyringError text *)
| SEnvPassUnset           (* "--env-pass requires setting the KESTREL_PASSWORD environment variable" *)
| SEnvNewPassUnset        (* "--env-pass with change-pass requires setting the KESTREL_NEW_PASSWORD environment variable" *)
| SNoTerminal             (* the prompt_password_tty error, passed on by ask_pass *)
| SUnlockFailed           (* encrypt / decrypt: "Key unlock failed." *)
| SUnlockError (k : kerr) (* change-pass / extract-pub: Keyring::unlock_private_key(..)? : the KeyringError text *)
| SDhError                (* to_public()? *)
| SEncryptFailed (e : eerr)   (* anyhow!(e) of the library's EncryptError *)
| SDecryptFailed (e : derr)   (* anyhow!(e) of the library's DecryptError, other than ChaPolyDecrypt *)
| SDecryptAuth            (* decrypt: "Decrypt failed. Check key used." *)
| SPassDecryptAuth        (* pass decrypt: "Decrypt failed. Check password used. File may have been modified." *)
| SStdinNotUtf8           (* gen_key: stdin().read_line(..)? on a first line that is not UTF-8 *)
| SNameInvalid            (* "Name must be between 1 and 128 characters." *)
| SPrivateKeyStringBad    (* EncodedSk::try_from: "Invalid Private Key length" / "Could not decode private key" *)
| SOutputOpenFailed       (* gen_key, -o names an existing directory: "Could not open output file: {}" *)
| SOutputWriteFailed      (* gen_key, the file cannot be created: keyring.write_all(..)? : the bare io::Error text *)
| SPanic (w : panic_tag)  (* a Rust panic: the process aborts with code 101 *)
| SOutOfFuel              (* model artefact (an exhausted model loop); excluded by the library theorems *)
| SOk                     (* Ok(()) *)
| SOkFrom (name : text)   (* decrypt: "Success. File from: {}" *)
| SOkUnknownSender (encoded : text).  (* decrypt: "Caution. File is from an unknown key." "Unknown key: {}" *)

Definition is_success (st : cmd_status) : bool :=
  match st with SOk | SOkFrom _ | SOkUnknownSender _ => true | _ => false end.

(* main.rs::main: Ok => return (0); Err => eprintln "Error: ..." and exit(1).  A panic ends the
   process with 101.  (102 marks the model artefact.) *)
Definition code_of (st : cmd_status) : N :=
  if is_success st then 0
  else match st with SPanic _ => 101 | SOutOfFuel => 102 | _ => 1 end.

(* the failures that happen before the library is called (key generate: before or while the file is opened) *)
Definition early_failure (st : cmd_status) : bool :=
  match st with
  | SInputOutputSame | SInputMissing
  | SKeyringUnspecified | SKeyringUnreadable | SKeyringNotUtf8 | SKeyringParse _
  | SRecipientNotFound | SSenderNotFound | SSenderNoPrivate | SKeyNotFound | SKeyNoPrivate
  | SPublicKeyBad _ | SEnvPassUnset | SEnvNewPassUnset | SNoTerminal | SUnlockFailed | SUnlockError _
  | SDhError | SStdinNotUtf8 | SNameInvalid | SPrivateKeyStringBad
  | SOutputOpenFailed | SOutputWriteFailed => true
  | _ => false
  end.

Record cmd_result := {
  exit_code : N;
  new_fs : fsys;
  stdout : bytes;
  status : cmd_status
}.

(* the ONLY way results are built: the exit code is a function of the status *)
Definition mk_result (l : fsys) (out : bytes) (st : cmd_status) : cmd_result :=
  {| exit_code := code_of st; new_fs := l; stdout := out; status := st |}.

Definition fail_result (w : world) (st : cmd_status) : cmd_result := mk_result (fs w) [] st.

(* ---------- option records (commands.rs::{EncryptOptions, DecryptOptions, PasswordOptions}) ---------- *)
Record enc_opts := {
  eo_infile : option text; eo_to : text; eo_from : text;
  eo_outfile : option text; eo_keyring : option text; eo_env_pass : bool }.
Record dec_opts := {
  do_infile : option text; do_to : text;
  do_outfile : option text; do_keyring : option text; do_env_pass : bool }.
Record pw_opts := { po_infile : option text; po_outfile : option text; po_env_pass : bool }.
Record gen_opts := { go_outfile : option text; go_env_pass : bool }.   (* KeyCommand::Generate *)

(* ---------- the steps before the library call: a status, or a value ---------- *)
Definition pre (A : Type) : Type := (cmd_status + A)%type.
Definition pbind {A B} (m : pre A) (k : A -> pre B) : pre B :=
  match m with inl st => inl st | inr a => k a end.
Notation "x <-- m ;; k" := (pbind m (fun x => k)) (at level 61, m at next level, right associativity).

Definition of_outcome {E A} (f : E -> cmd_status) (o : outcome E A) : pre A :=
  match o with Ok a => inr a | Err e => inl (f e) | Panic t => inl (SPanic t) | OutOfFuel => inl SOutOfFuel end.
Definition opt_or {A} (st : cmd_status) (o : option A) : pre A :=
  match o with Some a => inr a | None => inl st end.

(* [u8; 32] from secure_random(32).try_into().unwrap(): the drawn block is an explicit argument *)
Definition check32 (b : bytes) : pre unit :=
  if Nat.eqb (length b) 32 then inr tt else inl (SPanic PUnwrap).

(* ---------- the io state of a library call, and the OnDemandFile / stdout sink ---------- *)
(* the script-free state: a regular file or a pipe on both sides *)
Definition io0 (input : bytes) : io := mk_io input [] [] [].

(* [dir]: the input handle is a directory (every read fails with EISDIR: the first one ends the run);
   [bad]: File::create fails (every write / flush call fails: the first one ends the run) *)
Definition job_io (input : bytes) (dir bad : bool) : io :=
  mk_io input (if dir then [RFail OtherErr] else [])
        (if bad then [WFail OtherErr] else []) (if bad then [FFail OtherErr] else []).

Definition sink_ev (e : event) : bool :=
  match e with EvWrite _ _ | EvWriteErr _ _ | EvFlush _ => true | _ => false end.
(* some write or flush CALL was made on the sink during the run *)
Definition sink_touched (s : io) : bool := existsb sink_ev (log s).

(* where the output goes *)
Inductive sink := SkStdout | SkFile (cp : cpath) | SkBad.
Definition open_sink (l : fsys) (outfile : option text) : sink :=
  match outfile with
  | None => SkStdout
  | Some p => match fs_create_target l p with Some cp => SkFile cp | None => SkBad end
  end.
Definition sink_bad (k : sink) : bool := match k with SkBad => true | _ => false end.

(* deliver_output: what the run leaves in the file system and on stdout *)
Definition out_fs (l : fsys) (outfile : option text) (s : io) : fsys :=
  match open_sink l outfile with
  | SkFile cp => if sink_touched s then set_file l cp (w_out (wtr s)) else l
  | _ => l
  end.
Definition out_stdout (outfile : option text) (s : io) : bytes :=
  match outfile with Some _ => [] | None => w_out (wtr s) end.

Definition stream_result {E A} (w : world) (outfile : option text)
    (r : outcome E A * io) (fin : outcome E A -> cmd_status) : cmd_result :=
  mk_result (out_fs (fs w) outfile (snd r)) (out_stdout outfile (snd r)) (fin (fst r)).

(* the common shape of the four streaming commands *)
Definition stream_cmd {J E A} (w : world) (outfile : option text) (plan : pre J)
    (run : J -> outcome E A * io) (fin : J -> outcome E A -> cmd_status) : cmd_result :=
  match plan with
  | inl st => fail_result w st
  | inr j => stream_result w outfile (run j) (fin j)
  end.

(* ---------- input and output are ONE file (the strings differ, the canonical paths do not) ----------
   Until the first sink call the reader sees the file's content.  That call truncates the file; from then on the
   file holds what the sink has accepted, and the reader (whose offset is the number of bytes it has consumed)
   sees what lies beyond its offset.  [tr] is the chronological trace of the run on the untouched content. *)
Definition read_ev (e : event) : bool :=
  match e with EvRead _ _ | EvReadErr _ _ => true | _ => false end.
(* the bytes consumed before the first sink call, and the trace from that call on *)
Fixpoint consumed_before_sink (tr : list event) (k : nat) : option (nat * list event) :=
  match tr with
  | [] => None
  | e :: r =>
      if sink_ev e then Some (k, tr)
      else consumed_before_sink r (match e with EvRead _ got => k + length got | _ => k end)%nat
  end.
(* what the sink accepts before the reader is called again *)
Fixpoint accepted_before_read (tr : list event) : bytes :=
  match tr with
  | [] => []
  | e :: r =>
      if read_ev e then []
      else match e with
           | EvWrite offered took => firstn took offered ++ accepted_before_read r
           | _ => accepted_before_read r
           end
  end.
Definition alias_input (tr : list event) (content : bytes) : bytes :=
  match consumed_before_sink tr 0 with
  | None => content                      (* no sink call: the file is never truncated *)
  | Some (k, rest) => firstn k content ++ skipn k (accepted_before_read rest)
  end.
(* the bytes the library reads, and the run *)
Definition alias_fed {R} (alias : bool) (input : bytes) (f : bytes -> R * io) : bytes :=
  if alias then alias_input (trace (snd (f input))) input else input.
Definition alias_run {R} (alias : bool) (input : bytes) (f : bytes -> R * io) : R * io :=
  f (alias_fed alias input f).

(* ---------- pieces shared by the commands ---------- *)
(* if infile.is_some() && outfile.is_some() { if infile == outfile { Err } } *)
Definition same_path (a b : option text) : bool :=
  match a, b with Some x, Some y => text_eqb x y | _, _ => false end.

(* open_input: `exists()`, then File::open — which also opens a directory.  (content, is a directory, canonical path) *)
Definition open_input (w : world) (infile : option text) : pre (bytes * bool * option cpath) :=
  match infile with
  | Some p =>
      match resolve (fs w) p with
      | Some (cp, Some (NFile c)) => inr (c, false, Some cp)
      | Some (cp, Some NDir) => inr ([], true, Some cp)
      | _ => inl SInputMissing
      end
  | None => inr (stdin w, false, None)
  end.
(* the bytes of the input (none for a directory) *)
Definition resolve_input (w : world) (infile : option text) : pre bytes :=
  x <-- open_input w infile ;; inr (fst (fst x)).

(* what a streaming command knows about its two ends when the library is called *)
Record iojob := {
  ij_input : bytes;     (* content of the input file / stdin *)
  ij_dir : bool;        (* the input path is a directory *)
  ij_bad : bool;        (* the file named by -o cannot be created *)
  ij_alias : bool       (* input and output are the same regular file *)
}.
Definition same_file (a : option cpath) (k : sink) : bool :=
  match a, k with Some x, SkFile y => cpath_eqb x y | _, _ => false end.

(* the same-path test, open_input, open_output (which cannot fail in this configuration and touches nothing) *)
Definition open_io (w : world) (infile outfile : option text) : pre iojob :=
  if same_path infile outfile then inl SInputOutputSame else
  x <-- open_input w infile ;;
  let k := open_sink (fs w) outfile in
  inr {| ij_input := fst (fst x); ij_dir := snd (fst x); ij_bad := sink_bad k; ij_alias := same_file (snd x) k |}.

(* read_env_pass / read_env_new_pass *)
Definition read_env_pass (w : world) : pre bytes := opt_or SEnvPassUnset (env_password w).
Definition read_env_new_pass (w : world) : pre bytes := opt_or SEnvNewPassUnset (env_new_password w).
(* ask_pass, confirm_password, confirm_new_pass without a terminal *)
Definition ask_pass (w : world) (env_pass : bool) : pre bytes :=
  if env_pass then read_env_pass w else inl SNoTerminal.
Definition confirm_password (w : world) (env_pass : bool) : pre bytes :=
  if env_pass then read_env_pass w else inl SNoTerminal.
Definition confirm_new_pass (w : world) (env_pass : bool) : pre bytes :=
  if env_pass then read_env_new_pass w else inl SNoTerminal.

(* BufRead::read_line: the bytes up to and including the first '\n' (or all of them) *)
Fixpoint take_line (b : bytes) : bytes :=
  match b with
  | [] => []
  | c :: r => if c =? 10 then [c] else c :: take_line r
  end.

Section Cli.
Variable P : prims.
Variable pk_ok sk_ok : text -> bool.                    (* EncodedPk::try_from / EncodedSk::try_from, inside the parser *)
Variable unlock : text -> bytes -> outcome kerr bytes.  (* Keyring::unlock_private_key(encoded sk, password) *)
Variable lock : bytes -> bytes -> bytes -> text.        (* Keyring::lock_private_key(private key, password, salt) *)
Variable decode_pk : text -> outcome kerr bytes.        (* Keyring::decode_public_key *)
Variable encode_pk : bytes -> text.                     (* Keyring::encode_public_key *)
Variable sk_string_ok : text -> bool.                   (* EncodedSk::try_from(&str).is_ok() *)
Variable utf8_decode : bytes -> option text.            (* String::from_utf8 *)
Variable utf8_encode : text -> bytes.                   (* str::as_bytes *)

Definition parse_keyring : text -> outcome perr (list entry) := parse_config pk_ok sk_ok.

(* open_keyring: std::fs::read(path) — a directory, a missing file, a file used as a directory all give
   "Could not open keyring: {}" *)
Definition keyring_path (w : world) (k : option text) : pre text :=
  match k with
  | Some loc => inr loc
  | None => opt_or SKeyringUnspecified (env_keyring w)
  end.
Definition resolve_keyring (w : world) (k : option text) : pre (list entry) :=
  path <-- keyring_path w k ;;
  data <-- opt_or SKeyringUnreadable (fs_get (fs w) path) ;;
  txt <-- opt_or SKeyringNotUtf8 (utf8_decode data) ;;
  of_outcome SKeyringParse (parse_keyring txt).

(* the unlock loop of encrypt / decrypt: one attempt, any KeyringError is "Key unlock failed." *)
Definition unlock_key (locked : text) (pw : bytes) : pre bytes :=
  of_outcome (fun _ => SUnlockFailed) (unlock locked pw).

(* PrivateKey::to_public()? *)
Definition to_public (sk : bytes) : pre bytes :=
  of_outcome (fun _ => SDhError) (x25519_derive_public P sk).

(* ======================= encrypt ======================= *)
Record enc_job := { ej_input : bytes; ej_s : bytes; ej_spk : bytes; ej_r : bytes;
                    ej_dir : bool; ej_bad : bool; ej_alias : bool }.

Definition encrypt_plan (w : world) (o : enc_opts) : pre enc_job :=
  io <-- open_io w (eo_infile o) (eo_outfile o) ;;
  keys <-- resolve_keyring w (eo_keyring o) ;;
  rk <-- opt_or SRecipientNotFound (get_key keys (eo_to o)) ;;
  rpub <-- of_outcome SPublicKeyBad (decode_pk (k_pub rk)) ;;
  sk <-- opt_or SSenderNotFound (get_key keys (eo_from o)) ;;
  spub <-- of_outcome SPublicKeyBad (decode_pk (k_pub sk)) ;;
  locked <-- opt_or SSenderNoPrivate (k_priv sk) ;;
  pw <-- ask_pass w (eo_env_pass o) ;;
  spriv <-- unlock_key locked pw ;;
  inr {| ej_input := ij_input io; ej_s := spriv; ej_spk := spub; ej_r := rpub;
         ej_dir := ij_dir io; ej_bad := ij_bad io; ej_alias := ij_alias io |}.

(* fresh_pk, fresh_e: the two 32-byte blocks the library draws (payload key, then ephemeral key) *)
Definition lib_enc (fresh_pk fresh_e : bytes) (j : enc_job) (input : bytes) : outcome eerr unit * io :=
  key_encrypt P fresh_pk fresh_e (ej_s j) (ej_spk j) (ej_r j) None None None (job_io input (ej_dir j) (ej_bad j)).
Definition enc_fed (fresh_pk fresh_e : bytes) (j : enc_job) : bytes :=
  alias_fed (ej_alias j) (ej_input j) (lib_enc fresh_pk fresh_e j).
Definition run_enc (fresh_pk fresh_e : bytes) (j : enc_job) : outcome eerr unit * io :=
  alias_run (ej_alias j) (ej_input j) (lib_enc fresh_pk fresh_e j).

Definition fin_enc (r : outcome eerr unit) : cmd_status :=
  match r with
  | Ok _ => SOk
  | Err e => SEncryptFailed e
  | Panic t => SPanic t
  | OutOfFuel => SOutOfFuel
  end.

Definition cmd_encrypt (w : world) (o : enc_opts) (fresh_pk fresh_e : bytes) : cmd_result :=
  stream_cmd w (eo_outfile o) (encrypt_plan w o) (run_enc fresh_pk fresh_e) (fun _ => fin_enc).

(* ======================= decrypt ======================= *)
Record dec_job := { dj_input : bytes; dj_r : bytes; dj_rpk : bytes; dj_keys : list entry;
                    dj_dir : bool; dj_bad : bool; dj_alias : bool }.

Definition decrypt_plan (w : world) (o : dec_opts) : pre dec_job :=
  io <-- open_io w (do_infile o) (do_outfile o) ;;
  keys <-- resolve_keyring w (do_keyring o) ;;
  rk <-- opt_or SKeyNotFound (get_key keys (do_to o)) ;;
  rpub <-- of_outcome SPublicKeyBad (decode_pk (k_pub rk)) ;;
  locked <-- opt_or SKeyNoPrivate (k_priv rk) ;;
  pw <-- ask_pass w (do_env_pass o) ;;
  rpriv <-- unlock_key locked pw ;;
  inr {| dj_input := ij_input io; dj_r := rpriv; dj_rpk := rpub; dj_keys := keys;
         dj_dir := ij_dir io; dj_bad := ij_bad io; dj_alias := ij_alias io |}.

Definition lib_dec (j : dec_job) (input : bytes) : outcome derr bytes * io :=
  key_decrypt P (dj_r j) (dj_rpk j) (job_io input (dj_dir j) (dj_bad j)).
Definition dec_fed (j : dec_job) : bytes := alias_fed (dj_alias j) (dj_input j) (lib_dec j).
Definition run_dec (j : dec_job) : outcome derr bytes * io :=
  alias_run (dj_alias j) (dj_input j) (lib_dec j).

(* the sender line printed after a successful decryption *)
Definition sender_status (keys : list entry) (sender : bytes) : cmd_status :=
  let enc := encode_pk sender in
  match get_name_from_key keys enc with
  | Some name => SOkFrom name
  | None => SOkUnknownSender enc
  end.

Definition fin_dec (keys : list entry) (r : outcome derr bytes) : cmd_status :=
  match r with
  | Ok sender => sender_status keys sender
  | Err DChaPolyDecrypt => SDecryptAuth
  | Err e => SDecryptFailed e
  | Panic t => SPanic t
  | OutOfFuel => SOutOfFuel
  end.

Definition cmd_decrypt (w : world) (o : dec_opts) : cmd_result :=
  stream_cmd w (do_outfile o) (decrypt_plan w o) run_dec (fun j => fin_dec (dj_keys j)).

(* ======================= password encrypt / decrypt ======================= *)
Record pw_job := { pj_input : bytes; pj_pw : bytes; pj_dir : bool; pj_bad : bool; pj_alias : bool }.

Definition pass_encrypt_plan (w : world) (o : pw_opts) (salt : bytes) : pre pw_job :=
  io <-- open_io w (po_infile o) (po_outfile o) ;;
  pw <-- confirm_password w (po_env_pass o) ;;
  u <-- check32 salt ;;
  inr {| pj_input := ij_input io; pj_pw := pw; pj_dir := ij_dir io; pj_bad := ij_bad io; pj_alias := ij_alias io |}.

Definition lib_penc (salt : bytes) (j : pw_job) (input : bytes) : outcome eerr unit * io :=
  pass_encrypt P (pj_pw j) salt (job_io input (pj_dir j) (pj_bad j)).
Definition penc_fed (salt : bytes) (j : pw_job) : bytes := alias_fed (pj_alias j) (pj_input j) (lib_penc salt j).
Definition run_penc (salt : bytes) (j : pw_job) : outcome eerr unit * io :=
  alias_run (pj_alias j) (pj_input j) (lib_penc salt j).

Definition cmd_pass_encrypt (w : world) (o : pw_opts) (salt : bytes) : cmd_result :=
  stream_cmd w (po_outfile o) (pass_encrypt_plan w o salt) (run_penc salt) (fun _ => fin_enc).

Definition pass_decrypt_plan (w : world) (o : pw_opts) : pre pw_job :=
  io <-- open_io w (po_infile o) (po_outfile o) ;;
  pw <-- ask_pass w (po_env_pass o) ;;
  inr {| pj_input := ij_input io; pj_pw := pw; pj_dir := ij_dir io; pj_bad := ij_bad io; pj_alias := ij_alias io |}.

Definition lib_pdec (j : pw_job) (input : bytes) : outcome derr unit * io :=
  pass_decrypt P (pj_pw j) (job_io input (pj_dir j) (pj_bad j)).
Definition pdec_fed (j : pw_job) : bytes := alias_fed (pj_alias j) (pj_input j) (lib_pdec j).
Definition run_pdec (j : pw_job) : outcome derr unit * io :=
  alias_run (pj_alias j) (pj_input j) (lib_pdec j).

Definition fin_pdec (r : outcome derr unit) : cmd_status :=
  match r with
  | Ok _ => SOk
  | Err DChaPolyDecrypt => SPassDecryptAuth
  | Err e => SDecryptFailed e
  | Panic t => SPanic t
  | OutOfFuel => SOutOfFuel
  end.

Definition cmd_pass_decrypt (w : world) (o : pw_opts) : cmd_result :=
  stream_cmd w (po_outfile o) (pass_decrypt_plan w o) run_pdec (fun _ => fin_pdec).

(* ======================= key generate ======================= *)
(* ask_user_stderr: read_line from stdin (must be UTF-8), then trim *)
Definition ask_user_stdin (w : world) : pre text :=
  line <-- opt_or SStdinNotUtf8 (utf8_decode (take_line (stdin w))) ;;
  inr (trim line).

(* everything up to key_config; sk, salt: the two 32-byte blocks drawn, in this order *)
Definition gen_plan (w : world) (o : gen_opts) (sk salt : bytes) : pre text :=
  name <-- ask_user_stdin w ;;
  if negb (valid_key_name name) then inl SNameInvalid else
  pw <-- confirm_password w (go_env_pass o) ;;
  pk <-- to_public sk ;;
  u <-- check32 salt ;;
  inr (serialize_key name (encode_pk pk) (lock sk pw salt)).

(* what is written for a key: format!("\n{}", key_config) when appending to an existing file *)
Definition key_bytes (key_config : text) : bytes := utf8_encode key_config.
Definition key_bytes_nl (key_config : text) : bytes := utf8_encode (c_nl :: key_config).

(* REPAIRED code.  Path::new(F).exists(): an existing regular file is opened with OpenOptions::append (content
   kept, "\n" ++ key added at the end); an existing DIRECTORY cannot be opened for appending ("Could not open
   output file"); otherwise F goes through OnDemandFile: write_all(key) then flush() create it with the key text
   (the flush call creates it even if no write call was made) — when it can be created (an absent name in an
   existing directory), else write_all fails and nothing is created; without -o the text goes to stdout
   (not a terminal: no leading "\n") *)
Definition gen_write (w : world) (outfile : option text) (key_config : text) : cmd_result :=
  match outfile with
  | Some f =>
      match resolve (fs w) f with
      | Some (cp, Some (NFile c0)) => mk_result (set_file (fs w) cp (c0 ++ key_bytes_nl key_config)) [] SOk
      | Some (cp, Some NDir) => fail_result w SOutputOpenFailed
      | Some (cp, None) => mk_result (set_file (fs w) cp (key_bytes key_config)) [] SOk
      | None => fail_result w SOutputWriteFailed
      end
  | None => mk_result (fs w) (key_bytes key_config) SOk
  end.

Definition cmd_gen_key (w : world) (o : gen_opts) (sk salt : bytes) : cmd_result :=
  match gen_plan w o sk salt with
  | inl st => fail_result w st
  | inr key_config => gen_write w (go_outfile o) key_config
  end.

(* the code BEFORE the repair: the same text ("\n" ++ key when F exists) sent through the truncating
   OnDemandFile *)
Definition gen_write_legacy (w : world) (outfile : option text) (key_config : text) : cmd_result :=
  match outfile with
  | Some f =>
      match resolve (fs w) f with
      | Some (cp, Some (NFile _)) => mk_result (set_file (fs w) cp (key_bytes_nl key_config)) [] SOk
      | Some (cp, Some NDir) => fail_result w SOutputWriteFailed
      | Some (cp, None) => mk_result (set_file (fs w) cp (key_bytes key_config)) [] SOk
      | None => fail_result w SOutputWriteFailed
      end
  | None => mk_result (fs w) (key_bytes key_config) SOk
  end.

Definition gen_key_legacy (w : world) (o : gen_opts) (sk salt : bytes) : cmd_result :=
  match gen_plan w o sk salt with
  | inl st => fail_result w st
  | inr key_config => gen_write_legacy w (go_outfile o) key_config
  end.

(* a HISTORY of key generations into the same file F: what each run is given *)
Record gen_input := {
  gi_stdin : bytes; gi_env_password : option bytes; gi_env_pass : bool; gi_sk : bytes; gi_salt : bytes }.

Definition gen_world (l : fsys) (i : gen_input) : world :=
  {| fs := l; env_password := gi_env_password i; env_new_password := None; env_keyring := None;
     stdin := gi_stdin i |}.
Definition gen_run (F : text) (l : fsys) (i : gen_input) : cmd_result :=
  cmd_gen_key (gen_world l i) {| go_outfile := Some F; go_env_pass := gi_env_pass i |} (gi_sk i) (gi_salt i).
Definition gen_key_text (l : fsys) (i : gen_input) : pre text :=
  gen_plan (gen_world l i) {| go_outfile := None; go_env_pass := gi_env_pass i |} (gi_sk i) (gi_salt i).

(* run the commands one after the other, threading the file system; None as soon as one fails;
   otherwise the final file system and the key texts written, oldest first *)
Fixpoint gen_history (F : text) (l : fsys) (ins : list gen_input) : option (fsys * list text) :=
  match ins with
  | [] => Some (l, [])
  | i :: rest =>
      let r := gen_run F l i in
      if is_success (status r) then
        match gen_key_text l i with
        | inr k =>
            match gen_history F (new_fs r) rest with
            | Some (l', ks) => Some (l', k :: ks)
            | None => None
            end
        | inl _ => None
        end
      else None
  end.

(* the content of F after a successful history, from its prior state and the key texts written *)
Definition history_content (c0 : option bytes) (ks : list text) : option bytes :=
  match c0 with
  | Some c => Some (c ++ flat_map key_bytes_nl ks)
  | None => match ks with
            | [] => None
            | k :: rest => Some (key_bytes k ++ flat_map key_bytes_nl rest)
            end
  end.

(* ======================= key change-pass / extract-pub ======================= *)
(* println!("{}", format!("PrivateKey = {}", new_sk)) *)
Definition cmd_change_pass (w : world) (private_key : text) (env_pass : bool) (salt : bytes) : cmd_result :=
  match (old_pass <-- ask_pass w env_pass ;;
         new_pass <-- confirm_new_pass w env_pass ;;
         if negb (sk_string_ok private_key) then inl SPrivateKeyStringBad else
         sk <-- of_outcome SUnlockError (unlock private_key old_pass) ;;
         u <-- check32 salt ;;
         inr (lock sk new_pass salt)) with
  | inl st => fail_result w st
  | inr new_sk => mk_result (fs w) (utf8_encode (s_priv ++ s_sp_eq_sp ++ new_sk ++ [c_nl])) SOk
  end.

(* println!("PublicKey = {}", epk) *)
Definition cmd_extract_pub (w : world) (private_key : text) (env_pass : bool) : cmd_result :=
  match (pass <-- ask_pass w env_pass ;;
         if negb (sk_string_ok private_key) then inl SPrivateKeyStringBad else
         sk <-- of_outcome SUnlockError (unlock private_key pass) ;;
         pk <-- to_public sk ;;
         inr (encode_pk pk)) with
  | inl st => fail_result w st
  | inr epk => mk_result (fs w) (utf8_encode (s_pub ++ s_sp_eq_sp ++ epk ++ [c_nl])) SOk
  end.

End Cli.

(* byte-string prefix *)
Definition bprefix (a b : bytes) : Prop := exists t, b = a ++ t.
