(* CliParse.v — executable model of the command-line argument parsing of src/cli/src/main.rs:
   try_main's dispatch, convert_args, slice_args, parse_encrypt, parse_decrypt,
   format_parse_decrypt_error, parse_key, parse_password, parse_pass_encrypt, parse_pass_decrypt,
   over the getopts transcription Model/Getopts.v.  Definitions only; proofs are in
   Proofs/CliParseFacts.v, known answers in Model/CliParseKat.v.

   An argv is a [list text]; element 0 is the program name.  [convert_args] (OsString -> String) is
   the identity here: the model starts after it succeeded, i.e. all arguments are valid UTF-8
   (otherwise try_main returns the error "Arguments must be valid UTF-8" before any parsing).

   The parsers return [outcome usage_msg _]: [Err m] is Rust's [Err(String)] with the message kept
   symbolic ([usage_msg_to_string] renders it); [cli_parse] turns it into the command
   [CUsageError m] (try_main then calls print_usage_error).  Every indexing / unwrap of the Rust is
   an explicit [Panic]; CliParseFacts.cli_parse_no_panic shows none is reachable. *)
From Kestrel Require Import Bytes Outcome.
From Kestrel.Model Require Import KeyringText Getopts.
Local Open Scope N_scope.

(* ---------- string constants (checked against string literals in CliParseKat.v) ---------- *)
Definition s_help_long : text := [45;45;104;101;108;112]. (* "--help" *)
Definition s_help_short : text := [45;104]. (* "-h" *)
Definition s_version_short : text := [45;118]. (* "-v" *)
Definition s_version_long : text := [45;45;118;101;114;115;105;111;110]. (* "--version" *)
Definition s_enc : text := [101;110;99]. (* "enc" *)
Definition s_encrypt : text := [101;110;99;114;121;112;116]. (* "encrypt" *)
Definition s_dec : text := [100;101;99]. (* "dec" *)
Definition s_decrypt : text := [100;101;99;114;121;112;116]. (* "decrypt" *)
Definition s_key : text := [107;101;121]. (* "key" *)
Definition s_pass : text := [112;97;115;115]. (* "pass" *)
Definition s_password : text := [112;97;115;115;119;111;114;100]. (* "password" *)
Definition s_gen : text := [103;101;110]. (* "gen" *)
Definition s_generate : text := [103;101;110;101;114;97;116;101]. (* "generate" *)
Definition s_change_pass : text := [99;104;97;110;103;101;45;112;97;115;115]. (* "change-pass" *)
Definition s_extract_pub : text := [101;120;116;114;97;99;116;45;112;117;98]. (* "extract-pub" *)
Definition s_t : text := [116]. (* "t" *)
Definition s_to : text := [116;111]. (* "to" *)
Definition s_f : text := [102]. (* "f" *)
Definition s_from : text := [102;114;111;109]. (* "from" *)
Definition s_o : text := [111]. (* "o" *)
Definition s_output : text := [111;117;116;112;117;116]. (* "output" *)
Definition s_k : text := [107]. (* "k" *)
Definition s_keyring : text := [107;101;121;114;105;110;103]. (* "keyring" *)
Definition s_env_pass : text := [101;110;118;45;112;97;115;115]. (* "env-pass" *)
Definition s_empty : text := []. (* "" *)
Definition m_invalid_command : text := [73;110;118;97;108;105;100;32;99;111;109;109;97;110;100]. (* "Invalid command" *)
Definition m_invalid_usage : text := [73;110;118;97;108;105;100;32;117;115;97;103;101]. (* "Invalid usage" *)
Definition m_provide_key : text := [80;114;111;118;105;100;101;32;97;32;112;114;105;118;97;116;101;32;107;101;121]. (* "Provide a private key" *)
Definition m_from_hint : text := [46;32;39;45;45;102;114;111;109;39;32;105;115;32;110;111;116;32;114;101;113;117;105;114;101;100;32;102;111;114;32;100;101;99;114;121;112;116;105;111;110;46]. (* ". '--from' is not required for decryption." *)
Definition m_more_info : text := [70;111;114;32;109;111;114;101;32;105;110;102;111;32;117;115;101;32;39;45;45;104;101;108;112;39]. (* "For more info use '--help'" *)

(* ---------- option records, commands ---------- *)
Record encrypt_opts := mk_encrypt_opts {
  e_infile : option text; e_to : text; e_from : text;
  e_outfile : option text; e_keyring : option text; e_env_pass : bool }.

Record decrypt_opts := mk_decrypt_opts {
  d_infile : option text; d_to : text;
  d_outfile : option text; d_keyring : option text; d_env_pass : bool }.

Record password_opts := mk_password_opts {
  p_infile : option text; p_outfile : option text; p_env_pass : bool }.

Inductive key_command :=
| Generate (outfile : option text) (env_pass : bool)
| ChangePass (key : text) (env_pass : bool)
| ExtractPub (key : text) (env_pass : bool).

Inductive password_command :=
| PassEncrypt (o : password_opts)
| PassDecrypt (o : password_opts).

(* one constructor per distinct source of a usage-error message *)
Inductive usage_msg :=
| InvalidCommand                                   (* "Invalid command" *)
| InvalidUsage                                     (* "Invalid usage" *)
| ProvideAPrivateKey                               (* "Provide a private key" *)
| GetoptsFail (f : fail) (with_from_hint : bool).  (* e.to_string(), plus the --from hint *)

Inductive command :=
| CHelp
| CVersion
| CEncrypt (o : encrypt_opts)
| CDecrypt (o : decrypt_opts)
| CKey (k : key_command)
| CPassEnc (o : password_opts)
| CPassDec (o : password_opts)
| CUsageError (msg : usage_msg).

(* the msg handed to print_usage_error *)
Definition usage_msg_to_string (m : usage_msg) : text :=
  match m with
  | InvalidCommand => m_invalid_command
  | InvalidUsage => m_invalid_usage
  | ProvideAPrivateKey => m_provide_key
  | GetoptsFail f hint => fail_to_string f ++ (if hint then m_from_hint else [])
  end.
(* what main prints on stderr after "Error: " : "{msg}\nFor more info use '--help'" *)
Definition usage_error_text (m : usage_msg) : text := usage_msg_to_string m ++ [10] ++ m_more_info.

(* ---------- helpers ---------- *)
(* slice_args: if args.len() > idx { &args[idx..] } else { &[] } *)
Definition slice_args {E} (args : list text) (idx : nat) : outcome E (list text) :=
  if (idx <? length args)%nat then
    (if (idx <=? length args)%nat then Ok (skipn idx args) else Panic PSliceIndex)   (* &args[idx..] *)
  else Ok [].

(* args.contains(&s) *)
Definition contains (args : list text) (s : text) : bool := existsb (fun a => text_eqb a s) args.

(* Option::unwrap *)
Definition unwrap {E A} (o : option A) : outcome E A :=
  match o with Some a => Ok a | None => Panic PUnwrap end.

(* matches.free[0].clone() *)
Definition free0 {E} (m : matches) : outcome E text :=
  match nth_error (m_free m) 0 with Some f => Ok f | None => Panic PSliceIndex end.

(* if free.len() > 1 { return Err("Invalid usage") }
   let infile = if free.len() == 1 { Some(free[0].clone()) } else { None }; *)
Definition infile_of (m : matches) : outcome usage_msg (option text) :=
  if (1 <? length (m_free m))%nat then Err InvalidUsage
  else if (length (m_free m) =? 1)%nat then obind (free0 m) (fun f => Ok (Some f))
  else Ok None.

Definition plain_fail (f : fail) : usage_msg := GetoptsFail f false.

(* ---------- parse_encrypt ---------- *)
Definition encrypt_options : outcome usage_msg options :=
  obind (reqopt s_t s_to (set_long_only true options_new)) (fun o =>
  obind (reqopt s_f s_from o) (fun o =>
  obind (optopt s_o s_output o) (fun o =>
  obind (optopt s_k s_keyring o) (fun o =>
  optflag s_empty s_env_pass o)))).

Definition parse_encrypt (args : list text) : outcome usage_msg encrypt_opts :=
  obind encrypt_options (fun encrypt_opts =>
  obind (omap_err plain_fail (parse encrypt_opts args)) (fun m =>
  obind (infile_of m) (fun infile =>
  obind (obind (opt_str m s_t) unwrap) (fun to =>
  obind (obind (opt_str m s_f) unwrap) (fun from =>
  obind (opt_str m s_o) (fun outfile =>
  obind (opt_str m s_k) (fun keyring =>
  obind (opt_present m s_env_pass) (fun env_pass =>
  Ok (mk_encrypt_opts infile to from outfile keyring env_pass))))))))).

(* ---------- parse_decrypt ---------- *)
Definition decrypt_options : outcome usage_msg options :=
  obind (reqopt s_t s_to (set_long_only true options_new)) (fun o =>
  obind (optopt s_o s_output o) (fun o =>
  obind (optopt s_k s_keyring o) (fun o =>
  optflag s_empty s_env_pass o))).

Definition format_parse_decrypt_error (err : fail) : usage_msg :=
  match err with
  | UnrecognizedOption o =>
      if text_eqb o s_f || text_eqb o s_from then GetoptsFail err true
      else GetoptsFail err false
  | _ => GetoptsFail err false
  end.

Definition parse_decrypt (args : list text) : outcome usage_msg decrypt_opts :=
  obind decrypt_options (fun decrypt_opts =>
  obind (omap_err format_parse_decrypt_error (parse decrypt_opts args)) (fun m =>
  obind (infile_of m) (fun infile =>
  obind (obind (opt_str m s_t) unwrap) (fun to =>
  obind (opt_str m s_o) (fun outfile =>
  obind (opt_str m s_k) (fun keyring =>
  obind (opt_present m s_env_pass) (fun env_pass =>
  Ok (mk_decrypt_opts infile to outfile keyring env_pass)))))))).

(* ---------- parse_key ---------- *)
Definition gen_options : outcome usage_msg options :=
  obind (optopt s_o s_output (set_long_only true options_new)) (fun o =>
  optflag s_empty s_env_pass o).

Definition envpass_options : outcome usage_msg options :=      (* change_opts and extract_opts *)
  optflag s_empty s_env_pass (set_long_only true options_new).

(* the common body of "change-pass" and "extract-pub": (private_key, env_pass) *)
Definition parse_key_arg (args : list text) : outcome usage_msg (text * bool) :=
  obind envpass_options (fun opts =>
  obind (slice_args args 1) (fun args =>
  obind (omap_err plain_fail (parse opts args)) (fun m =>
  obind (opt_present m s_env_pass) (fun env_pass =>
  if negb (length (m_free m) =? 1)%nat then Err ProvideAPrivateKey
  else obind (free0 m) (fun private_key => Ok (private_key, env_pass)))))).

Definition parse_key (args : list text) : outcome usage_msg key_command :=
  match args with
  | [] => Err InvalidUsage                                   (* args.is_empty() *)
  | a0 :: _ =>                                               (* args[0] *)
      if text_eqb a0 s_gen || text_eqb a0 s_generate then
        obind gen_options (fun gen_opts =>
        obind (slice_args args 1) (fun args =>
        obind (omap_err plain_fail (parse gen_opts args)) (fun m =>
        obind (opt_str m s_o) (fun outfile =>
        obind (opt_present m s_env_pass) (fun env_pass =>
        Ok (Generate outfile env_pass))))))
      else if text_eqb a0 s_change_pass then
        obind (parse_key_arg args) (fun r => Ok (ChangePass (fst r) (snd r)))
      else if text_eqb a0 s_extract_pub then
        obind (parse_key_arg args) (fun r => Ok (ExtractPub (fst r) (snd r)))
      else Err InvalidCommand
  end.

(* ---------- parse_password ---------- *)
Definition pass_options : outcome usage_msg options :=         (* pass_encrypt_opts and pass_decrypt_opts *)
  obind (optopt s_o s_output (set_long_only true options_new)) (fun o =>
  optflag s_empty s_env_pass o).

Definition parse_pass_common (args : list text) : outcome usage_msg password_opts :=
  obind pass_options (fun opts =>
  obind (omap_err plain_fail (parse opts args)) (fun m =>
  obind (infile_of m) (fun infile =>
  obind (opt_str m s_o) (fun outfile =>
  obind (opt_present m s_env_pass) (fun env_pass =>
  Ok (mk_password_opts infile outfile env_pass)))))).

Definition parse_pass_encrypt := parse_pass_common.   (* the two Rust functions have the same body *)
Definition parse_pass_decrypt := parse_pass_common.

Definition parse_password (args : list text) : outcome usage_msg password_command :=
  match args with
  | [] => Err InvalidUsage
  | a0 :: _ =>
      if text_eqb a0 s_encrypt || text_eqb a0 s_enc then
        obind (slice_args args 1) (fun args =>
        obind (parse_pass_encrypt args) (fun o => Ok (PassEncrypt o)))
      else if text_eqb a0 s_decrypt || text_eqb a0 s_dec then
        obind (slice_args args 1) (fun args =>
        obind (parse_pass_decrypt args) (fun o => Ok (PassDecrypt o)))
      else Err InvalidCommand
  end.

(* ---------- try_main ---------- *)
(* match parse_x(args) { Ok(o) => commands::x(o)?, Err(e) => print_usage_error(&e)? } *)
Definition run_parser {A} (r : outcome usage_msg A) (k : A -> command) : outcome unit command :=
  match r with
  | Ok a => Ok (k a)
  | Err e => Ok (CUsageError e)
  | Panic w => Panic w
  | OutOfFuel => OutOfFuel
  end.

(* the [match args[1]] of try_main; [args] is the whole argv *)
Definition dispatch (a1 : text) (args : list text) : outcome unit command :=
  if text_eqb a1 s_help_short || text_eqb a1 s_help_long then Ok CHelp
  else if text_eqb a1 s_version_short || text_eqb a1 s_version_long then Ok CVersion
  else if text_eqb a1 s_enc || text_eqb a1 s_encrypt then
    run_parser (obind (slice_args args 2) parse_encrypt) CEncrypt
  else if text_eqb a1 s_dec || text_eqb a1 s_decrypt then
    run_parser (obind (slice_args args 2) parse_decrypt) CDecrypt
  else if text_eqb a1 s_key then
    run_parser (obind (slice_args args 2) parse_key) CKey
  else if text_eqb a1 s_pass || text_eqb a1 s_password then
    run_parser (obind (slice_args args 2) parse_password)
      (fun pc => match pc with PassEncrypt o => CPassEnc o | PassDecrypt o => CPassDec o end)
  else Ok (CUsageError InvalidCommand).

Definition cli_parse (argv : list text) : outcome unit command :=
  if (length argv <=? 1)%nat || contains argv s_help_long || contains argv s_help_short
  then Ok CHelp
  else
    match nth_error argv 1 with                              (* args[1] *)
    | None => Panic PSliceIndex
    | Some a1 => dispatch a1 argv
    end.
