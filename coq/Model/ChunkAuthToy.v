(* Model/ChunkAuthToy.v — concrete data for the non-vacuity examples of the chunk-layer authenticity theorem
   (Props/C03.v::C03_chunks_authentic, premise [no_forgery]): the RFC ChaCha20-Poly1305 specification as the AEAD
   (Spec/Concrete.v::rfc_prims — the toy AEAD of Model/Monitors.v ignores key, nonce and associated data, so a
   reordered file would open under it and the premise would be FALSE there), chunk size 2, a 3-chunk honest file,
   and a boolean checker of the premise.  Definitions only; Proofs/ChunkAuthExamples.v. *)
From Kestrel Require Import Bytes Outcome IO Prims.
From Kestrel.Model Require Import AeadWrap Chunks Files.
From Kestrel.Spec Require Import Concrete.
Local Open Scope N_scope.

(* ---------- a boolean checker of  no_forgery P key aad chunks lg  (Proofs/ChunksAuth.v) ---------- *)
Definition seal_eqb (a b : N * bytes * bytes) : bool :=
  let '(n, ad, ct) := a in let '(n', ad', ct') := b in
  (n =? n') && list_N_eqb ad ad' && list_N_eqb ct ct'.

(* every open event of the log that succeeded under [key] is one of the honest seals *)
Definition no_forgery_b (P : prims) (key aad : bytes) (chunks : list bytes) (lg : list event) : bool :=
  forallb (fun e =>
    match e with
    | EvOpen k n ad ct (Some _) =>
        negb (list_N_eqb k key) || existsb (seal_eqb (n, ad, ct)) (seal_log_from P key aad 0 chunks)
    | _ => true
    end) lg.

(* ---------- the instance ---------- *)
Definition ca_prims : prims := rfc_prims (fun _ _ _ _ _ l => repeat 0 l).   (* scrypt is not used by the chunk layer *)
Definition ca_key : bytes := repeat 7 32.
Definition ca_aad : bytes := [9].
Definition ca_cs : N := 2.
Definition ca_chunks : list bytes := [[1; 2]; [3; 4]; [5]].

(* the three records of the honest file *)
Definition ca_rec0 : bytes := record ca_prims ca_key ca_aad 0 false [1; 2].
Definition ca_rec1 : bytes := record ca_prims ca_key ca_aad 1 false [3; 4].
Definition ca_rec2 : bytes := record ca_prims ca_key ca_aad 2 true [5].

Definition ca_honest : bytes := spec_chunks ca_prims ca_key ca_aad ca_chunks.   (* = rec0 ++ rec1 ++ rec2 *)
Definition ca_swapped : bytes := ca_rec0 ++ ca_rec2 ++ ca_rec1.                 (* records 1 and 2 exchanged *)
Definition ca_truncated : bytes := ca_rec0 ++ ca_rec1.                          (* cut after record 1 *)

(* fault-free reader and writer (empty scripts) *)
Definition ca_run (offered : bytes) : outcome derr unit * io :=
  decrypt_chunks ca_prims ca_key ca_aad ca_cs (mk_io offered [] [] []).
