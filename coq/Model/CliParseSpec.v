(* CliParseSpec.v — the vocabulary in which the theorems of Proofs/CliParseFacts.v are stated.
   Definitions only (no proofs).  Contents, in the order of that file:
   A. total forms and invariants: [nfs] (Name::from_str without its unreachable panic), [val_ok]/[vinv]
      (what the value lists of a parse contain), [arg_ok], [occ_ok], [minv] (invariants of a
      successful parse), [first_str], the concrete option sets of kestrel ([dec_o], [dec_opts], ...);
   B. well-formed invocations for long_only option sets: items with their spelling ([gitem]),
      their rendering as arguments ([render]), their meaning ([aitem], [item_abs]), and what
      [Options::parse] makes of a list of meanings ([apply_items], [sel], [parse_abs]);
   C. the same for each kestrel command: decrypt ([ditem], [dkind], [dsem]), encrypt ([eitem], [ekind],
      [esem]), password enc/dec and key gen ([pitem], [pkind], [psem], [gsem]), key change-pass /
      extract-pub ([qitem], [qsem]).  [dsem] etc. are the SPECIFICATION of the parsers on
      well-formed invocations: they do not mention spelling or order;
   D. respelling arbitrary vectors at option positions ([same_opt], [resp]) and equality of results up
      to the name recorded in an error ([result_sim], [msg_sim]);
   E. [val_src]: a text is given in an argument vector as an option value. *)
From Kestrel Require Import Bytes Outcome.
From Kestrel.Model Require Import KeyringText Getopts CliParse.
Local Open Scope N_scope.

(* ====================================================================================== *)
(* A. total forms, invariants, the concrete option sets                                   *)
(* ====================================================================================== *)
Definition nfs (nm : text) : name :=
  match nm with
  | [c] => if c <? 128 then Short c else Long nm
  | _ => Long nm
  end.

Definition val_ok (P : text -> Prop) (od : opt) (pv : nat * optval) : Prop :=
  match snd pv with Val s => P s | Given => o_hasarg od <> Yes end.

Definition vinv (P : text -> Prop) (opts : list opt) (vals : vals_t) : Prop :=
  Forall2 (fun od vs => Forall (val_ok P od) vs) opts vals.

Definition long_tail (c : N) (r : text) : text := if c =? c_dash then r else c :: r.

Definition arg_ok (P Q : text -> Prop) (o : options) (opts : list opt) (a : text) : Prop :=
  P a /\ Q a /\ forall wl nms v, decode_arg o opts a = Ok (wl, nms, Some v) -> P v.

Definition occ_ok (od : opt) (vs : list (nat * optval)) : Prop :=
  (o_occur od = Req -> vs <> []) /\ (o_occur od <> Multi -> (length vs <= 1)%nat).

Definition minv (P Q : text -> Prop) (opts : list opt) (m : matches) : Prop :=
  m_opts m = opts
  /\ Forall2 (fun od vs => Forall (val_ok P od) vs /\ occ_ok od vs) opts (m_vals m)
  /\ Forall Q (m_free m).

Definition first_str (vs : list (nat * optval)) : option text :=
  match vs with (_, Val s) :: _ => Some s | _ => None end.

Definition get_ok {E A} (d : A) (r : outcome E A) : A := match r with Ok a => a | _ => d end.

Definition enc_o : options := Eval vm_compute in get_ok options_new encrypt_options.

Definition dec_o : options := Eval vm_compute in get_ok options_new decrypt_options.

Definition gen_o : options := Eval vm_compute in get_ok options_new gen_options.

Definition env_o : options := Eval vm_compute in get_ok options_new envpass_options.

Definition enc_opts : list opt := Eval vm_compute in get_ok [] (@map_m fail _ _ long_to_short (grps enc_o)).

Definition dec_opts : list opt := Eval vm_compute in get_ok [] (@map_m fail _ _ long_to_short (grps dec_o)).

Definition gen_opts : list opt := Eval vm_compute in get_ok [] (@map_m fail _ _ long_to_short (grps gen_o)).

Definition env_opts : list opt := Eval vm_compute in get_ok [] (@map_m fail _ _ long_to_short (grps env_o)).

(* ====================================================================================== *)
(* B. well-formed invocations of a long_only option set *)
(* ====================================================================================== *)
(* an option without value, with its value in the next argument, with its value after '=', each with
   one or two dashes ([dd]) and any name [nm]; or a free argument *)
Inductive gitem :=
| GFlag (dd : bool) (nm : text)
| GSep (dd : bool) (nm : text) (v : text)
| GEq (dd : bool) (nm : text) (v : text)
| GFree (f : text).

Definition dashes (dd : bool) : text := if dd then [c_dash; c_dash] else [c_dash].

Definition render (it : gitem) : list text :=
  match it with
  | GFlag dd nm => [dashes dd ++ nm]
  | GSep dd nm v => [dashes dd ++ nm; v]
  | GEq dd nm v => [dashes dd ++ nm ++ c_eq :: v]
  | GFree f => [f]
  end.

Definition render_all (its : list gitem) : list text := flat_map render its.

Inductive aitem := AOpt (id : nat) (ov : optval) | AFree (f : text).

(* an option name as it can be written after the dashes *)
Definition name_ok (nm : text) : Prop :=
  nm <> [] /\ ~ In c_eq nm /\ hd 0 nm <> c_dash.

Inductive item_abs (opts : list opt) : gitem -> aitem -> Prop :=
| IA_flag dd nm id od :
    name_ok nm -> find_opt opts (nfs nm) = Some id -> nth_error opts id = Some od ->
    o_hasarg od <> Yes -> item_abs opts (GFlag dd nm) (AOpt id Given)
| IA_sep dd nm v id od :
    name_ok nm -> find_opt opts (nfs nm) = Some id -> nth_error opts id = Some od ->
    o_hasarg od = Yes -> item_abs opts (GSep dd nm v) (AOpt id (Val v))
| IA_eq dd nm v id od :
    name_ok nm -> find_opt opts (nfs nm) = Some id -> nth_error opts id = Some od ->
    o_hasarg od <> No -> item_abs opts (GEq dd nm v) (AOpt id (Val v))
| IA_free f :
    is_arg f = false -> item_abs opts (GFree f) (AFree f).

(* vals[i].push(x), total *)
Fixpoint push_tot (vals : vals_t) (i : nat) (x : nat * optval) : vals_t :=
  match vals, i with
  | [], _ => []
  | v :: r, O => (v ++ [x]) :: r
  | v :: r, S i' => v :: push_tot r i' x
  end.

(* what the main loop does on abstract items *)
Fixpoint apply_items (its : list aitem) (vals : vals_t) (free : list text) (pos : nat)
  : vals_t * list text :=
  match its with
  | [] => (vals, free)
  | AOpt id ov :: r => apply_items r (push_tot vals id (pos, ov)) free (S pos)
  | AFree f :: r => apply_items r vals (free ++ [f]) (S pos)
  end.

Fixpoint sel (id : nat) (its : list aitem) (pos : nat) : list (nat * optval) :=
  match its with
  | [] => []
  | AOpt i ov :: r => (if (i =? id)%nat then [(pos, ov)] else []) ++ sel id r (S pos)
  | AFree _ :: r => sel id r (S pos)
  end.

Fixpoint frees (its : list aitem) : list text :=
  match its with
  | [] => []
  | AFree f :: r => f :: frees r
  | AOpt _ _ :: r => frees r
  end.

Fixpoint add_sel (its : list aitem) (pos : nat) (i : nat) (vals : vals_t) : vals_t :=
  match vals with
  | [] => []
  | v :: r => (v ++ sel i its pos) :: add_sel its pos (S i) r
  end.

Definition parse_abs (opts : list opt) (aits : list aitem) : outcome fail matches :=
  let vals := add_sel aits 0 0 (map (fun _ => []) opts) in
  obind (check_occur vals opts) (fun _ => Ok (mk_matches opts vals (frees aits))).

Definition vals_of (id : nat) (aits : list aitem) : list optval :=
  flat_map (fun a => match a with
                     | AOpt i ov => if (i =? id)%nat then [ov] else []
                     | AFree _ => []
                     end) aits.

(* ====================================================================================== *)
(* C. kestrel's commands.  [long] = long name rather than short, [dd] = two dashes rather than one,
   [eq] = value after '=' rather than in the next argument *)
(* ====================================================================================== *)
(* --- decrypt --- *)
Inductive ditem :=
| DTo (long dd eq : bool) (v : text)
| DOut (long dd eq : bool) (v : text)
| DKeyring (long dd eq : bool) (v : text)
| DEnvPass (dd : bool)
| DFile (f : text).

Inductive dkind := KTo (v : text) | KOut (v : text) | KKeyring (v : text) | KEnvPass | KFile (f : text).

Definition dmean (it : ditem) : dkind :=
  match it with
  | DTo _ _ _ v => KTo v | DOut _ _ _ v => KOut v | DKeyring _ _ _ v => KKeyring v
  | DEnvPass _ => KEnvPass | DFile f => KFile f
  end.

Definition opt_item (long dd eq : bool) (sn ln v : text) : gitem :=
  if eq then GEq dd (if long then ln else sn) v else GSep dd (if long then ln else sn) v.

Definition d2g (it : ditem) : gitem :=
  match it with
  | DTo l d e v => opt_item l d e s_t s_to v
  | DOut l d e v => opt_item l d e s_o s_output v
  | DKeyring l d e v => opt_item l d e s_k s_keyring v
  | DEnvPass d => GFlag d s_env_pass
  | DFile f => GFree f
  end.

(* the argument vector (after "kestrel decrypt") *)
Definition drender (its : list ditem) : list text := render_all (map d2g its).

(* a file argument must not look like an option: not ('-' followed by something); "-" alone is fine *)
Definition ditem_ok (it : ditem) : Prop :=
  match it with DFile f => is_arg f = false | _ => True end.

Definition d2a (k : dkind) : aitem :=
  match k with
  | KTo v => AOpt 0 (Val v) | KOut v => AOpt 1 (Val v) | KKeyring v => AOpt 2 (Val v)
  | KEnvPass => AOpt 3 Given | KFile f => AFree f
  end.

Definition tos (ks : list dkind) : list text := flat_map (fun k => match k with KTo v => [v] | _ => [] end) ks.

Definition outs (ks : list dkind) : list text := flat_map (fun k => match k with KOut v => [v] | _ => [] end) ks.

Definition keyrings (ks : list dkind) : list text := flat_map (fun k => match k with KKeyring v => [v] | _ => [] end) ks.

Definition envs (ks : list dkind) : list unit := flat_map (fun k => match k with KEnvPass => [tt] | _ => [] end) ks.

Definition files (ks : list dkind) : list text := flat_map (fun k => match k with KFile f => [f] | _ => [] end) ks.

Definition dfail (f : fail) : outcome usage_msg decrypt_opts := Err (GetoptsFail f false).

Definition dsem (ks : list dkind) : outcome usage_msg decrypt_opts :=
  if (length (tos ks) =? 0)%nat then dfail (OptionMissing s_to)
  else if (1 <? length (tos ks))%nat then dfail (OptionDuplicated s_to)
  else if (1 <? length (outs ks))%nat then dfail (OptionDuplicated s_output)
  else if (1 <? length (keyrings ks))%nat then dfail (OptionDuplicated s_keyring)
  else if (1 <? length (envs ks))%nat then dfail (OptionDuplicated s_env_pass)
  else if (1 <? length (files ks))%nat then Err InvalidUsage
  else Ok (mk_decrypt_opts (hd_error (files ks)) (hd [] (tos ks)) (hd_error (outs ks))
                           (hd_error (keyrings ks)) (negb (length (envs ks) =? 0)%nat)).

(* --- encrypt --- *)
Inductive eitem :=
| ETo (long dd eq : bool) (v : text)
| EFrom (long dd eq : bool) (v : text)
| EOut (long dd eq : bool) (v : text)
| EKeyring (long dd eq : bool) (v : text)
| EEnvPass (dd : bool)
| EFile (f : text).

Inductive ekind :=
| XTo (v : text) | XFrom (v : text) | XOut (v : text) | XKeyring (v : text) | XEnvPass | XFile (f : text).

Definition emean (it : eitem) : ekind :=
  match it with
  | ETo _ _ _ v => XTo v | EFrom _ _ _ v => XFrom v | EOut _ _ _ v => XOut v
  | EKeyring _ _ _ v => XKeyring v | EEnvPass _ => XEnvPass | EFile f => XFile f
  end.

Definition e2g (it : eitem) : gitem :=
  match it with
  | ETo l d e v => opt_item l d e s_t s_to v
  | EFrom l d e v => opt_item l d e s_f s_from v
  | EOut l d e v => opt_item l d e s_o s_output v
  | EKeyring l d e v => opt_item l d e s_k s_keyring v
  | EEnvPass d => GFlag d s_env_pass
  | EFile f => GFree f
  end.

Definition erender (its : list eitem) : list text := render_all (map e2g its).

Definition eitem_ok (it : eitem) : Prop := match it with EFile f => is_arg f = false | _ => True end.

Definition e2a (k : ekind) : aitem :=
  match k with
  | XTo v => AOpt 0 (Val v) | XFrom v => AOpt 1 (Val v) | XOut v => AOpt 2 (Val v)
  | XKeyring v => AOpt 3 (Val v) | XEnvPass => AOpt 4 Given | XFile f => AFree f
  end.

Definition xtos (ks : list ekind) : list text := flat_map (fun k => match k with XTo v => [v] | _ => [] end) ks.

Definition xfroms (ks : list ekind) : list text := flat_map (fun k => match k with XFrom v => [v] | _ => [] end) ks.

Definition xouts (ks : list ekind) : list text := flat_map (fun k => match k with XOut v => [v] | _ => [] end) ks.

Definition xkeyrings (ks : list ekind) : list text := flat_map (fun k => match k with XKeyring v => [v] | _ => [] end) ks.

Definition xenvs (ks : list ekind) : list unit := flat_map (fun k => match k with XEnvPass => [tt] | _ => [] end) ks.

Definition xfiles (ks : list ekind) : list text := flat_map (fun k => match k with XFile f => [f] | _ => [] end) ks.

Definition efail (f : fail) : outcome usage_msg encrypt_opts := Err (GetoptsFail f false).

Definition esem (ks : list ekind) : outcome usage_msg encrypt_opts :=
  if (length (xtos ks) =? 0)%nat then efail (OptionMissing s_to)
  else if (1 <? length (xtos ks))%nat then efail (OptionDuplicated s_to)
  else if (length (xfroms ks) =? 0)%nat then efail (OptionMissing s_from)
  else if (1 <? length (xfroms ks))%nat then efail (OptionDuplicated s_from)
  else if (1 <? length (xouts ks))%nat then efail (OptionDuplicated s_output)
  else if (1 <? length (xkeyrings ks))%nat then efail (OptionDuplicated s_keyring)
  else if (1 <? length (xenvs ks))%nat then efail (OptionDuplicated s_env_pass)
  else if (1 <? length (xfiles ks))%nat then Err InvalidUsage
  else Ok (mk_encrypt_opts (hd_error (xfiles ks)) (hd [] (xtos ks)) (hd [] (xfroms ks)) (hd_error (xouts ks))
                           (hd_error (xkeyrings ks)) (negb (length (xenvs ks) =? 0)%nat)).

(* --- password enc|dec, key gen --- *)
Inductive pitem :=
| POut (long dd eq : bool) (v : text)
| PEnvPass (dd : bool)
| PFile (f : text).

Inductive pkind := YOut (v : text) | YEnvPass | YFile (f : text).

Definition pmean (it : pitem) : pkind :=
  match it with POut _ _ _ v => YOut v | PEnvPass _ => YEnvPass | PFile f => YFile f end.

Definition p2g (it : pitem) : gitem :=
  match it with
  | POut l d e v => opt_item l d e s_o s_output v
  | PEnvPass d => GFlag d s_env_pass
  | PFile f => GFree f
  end.

Definition prender (its : list pitem) : list text := render_all (map p2g its).

Definition pitem_ok (it : pitem) : Prop := match it with PFile f => is_arg f = false | _ => True end.

Definition p2a (k : pkind) : aitem :=
  match k with YOut v => AOpt 0 (Val v) | YEnvPass => AOpt 1 Given | YFile f => AFree f end.

Definition youts (ks : list pkind) : list text := flat_map (fun k => match k with YOut v => [v] | _ => [] end) ks.

Definition yenvs (ks : list pkind) : list unit := flat_map (fun k => match k with YEnvPass => [tt] | _ => [] end) ks.

Definition yfiles (ks : list pkind) : list text := flat_map (fun k => match k with YFile f => [f] | _ => [] end) ks.

(* the getopts part, common to both commands: (outfile, env_pass, free arguments) *)
Definition ysem (ks : list pkind) : outcome usage_msg (option text * bool * list text) :=
  if (1 <? length (youts ks))%nat then Err (GetoptsFail (OptionDuplicated s_output) false)
  else if (1 <? length (yenvs ks))%nat then Err (GetoptsFail (OptionDuplicated s_env_pass) false)
  else Ok (hd_error (youts ks), negb (length (yenvs ks) =? 0)%nat, yfiles ks).

Definition psem (ks : list pkind) : outcome usage_msg password_opts :=
  obind (ysem ks) (fun r => let '(outfile, env_pass, fs) := r in
  if (1 <? length fs)%nat then Err InvalidUsage else Ok (mk_password_opts (hd_error fs) outfile env_pass)).

Definition gsem (ks : list pkind) : outcome usage_msg key_command :=
  obind (ysem ks) (fun r => let '(outfile, env_pass, _) := r in Ok (Generate outfile env_pass)).

(* --- key change-pass|extract-pub --- *)
Inductive qitem := QEnvPass (dd : bool) | QKey (f : text).

Definition q2g (it : qitem) : gitem := match it with QEnvPass d => GFlag d s_env_pass | QKey f => GFree f end.

Definition q2a (it : qitem) : aitem := match it with QEnvPass _ => AOpt 0 Given | QKey f => AFree f end.

Definition qrender (its : list qitem) : list text := render_all (map q2g its).

Definition qitem_ok (it : qitem) : Prop := match it with QKey f => is_arg f = false | _ => True end.

Definition qenvs (its : list qitem) : list unit := flat_map (fun k => match k with QEnvPass _ => [tt] | _ => [] end) its.

Definition qkeys (its : list qitem) : list text := flat_map (fun k => match k with QKey f => [f] | _ => [] end) its.

Definition qsem (its : list qitem) : outcome usage_msg (text * bool) :=
  if (1 <? length (qenvs its))%nat then Err (GetoptsFail (OptionDuplicated s_env_pass) false)
  else match qkeys its with
       | [f] => Ok (f, negb (length (qenvs its) =? 0)%nat)
       | _ => Err ProvideAPrivateKey
       end.

(* ====================================================================================== *)
(* D. respelling at option positions; results up to error names *)
(* ====================================================================================== *)
(* decode_arg under long_only, total: (name, inline value) *)
Definition ldecode (a : text) : name * option text :=
  match a with
  | _ :: c :: r =>
      match split_once_eq (long_tail c r) with
      | None => (nfs (long_tail c r), None)
      | Some (x, y) => (nfs x, Some y)
      end
  | _ => (Long [], None)
  end.

Definition same_opt (opts : list opt) (a1 a2 : text) : Prop :=
  is_arg a1 = true /\ is_arg a2 = true
  /\ text_eqb a1 s_dashdash = false /\ text_eqb a2 s_dashdash = false
  /\ find_opt opts (fst (ldecode a1)) = find_opt opts (fst (ldecode a2))
  /\ snd (ldecode a1) = snd (ldecode a2).

(* does the option argument [a] consume the next argument as its value? *)
Definition takes_next (opts : list opt) (a : text) : bool :=
  match snd (ldecode a), find_opt opts (fst (ldecode a)) with
  | None, Some id =>
      match nth_error opts id with
      | Some od => match o_hasarg od with Yes => true | _ => false end
      | None => false
      end
  | _, _ => false
  end.

Inductive resp (opts : list opt) : list text -> list text -> Prop :=
| R_nil : resp opts [] []
| R_free f r1 r2 : is_arg f = false -> resp opts r1 r2 -> resp opts (f :: r1) (f :: r2)
| R_dd r : resp opts (s_dashdash :: r) (s_dashdash :: r)
| R_opt a1 a2 r1 r2 :
    same_opt opts a1 a2 -> takes_next opts a1 = false -> resp opts r1 r2 ->
    resp opts (a1 :: r1) (a2 :: r2)
| R_optv a1 a2 v r1 r2 :
    same_opt opts a1 a2 -> takes_next opts a1 = true -> resp opts r1 r2 ->
    resp opts (a1 :: v :: r1) (a2 :: v :: r2)
| R_optend a1 a2 :
    same_opt opts a1 a2 -> takes_next opts a1 = true -> resp opts [a1] [a2].

Definition fail_kind (f : fail) : nat :=
  match f with
  | ArgumentMissing _ => 0 | UnrecognizedOption _ => 1 | OptionMissing _ => 2
  | OptionDuplicated _ => 3 | UnexpectedArgument _ => 4
  end%nat.

(* equal results, up to the name recorded in an error *)
Definition result_sim {A} (r1 r2 : outcome fail A) : Prop :=
  match r1, r2 with
  | Ok x, Ok y => x = y
  | Err f1, Err f2 => fail_kind f1 = fail_kind f2
  | _, _ => False
  end.

Definition msg_sim {A} (r1 r2 : outcome usage_msg A) : Prop :=
  match r1, r2 with
  | Ok x, Ok y => x = y
  | Err (GetoptsFail f1 _), Err (GetoptsFail f2 _) => fail_kind f1 = fail_kind f2
  | Err m1, Err m2 => m1 = m2
  | Panic w1, Panic w2 => w1 = w2
  | OutOfFuel, OutOfFuel => True
  | _, _ => False
  end.

(* ====================================================================================== *)
(* E. provenance of option values *)
(* ====================================================================================== *)
Definition val_src (args : list text) (v : text) : Prop :=
  exists a, In a args /\ (a = v \/ exists pre, a = pre ++ c_eq :: v).
