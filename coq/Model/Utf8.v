(* Model/Utf8.v — the UTF-8 codec of the Rust standard library as far as kestrel uses it:
     utf8_encode = str::as_bytes / String::into_bytes   (a text is a list of scalar values, one N per char)
     utf8_decode = String::from_utf8                    (strict: shortest form only, no surrogates
                                                         U+D800..U+DFFF, nothing above U+10FFFF, no truncated
                                                         sequence, no stray continuation byte)
   Definitions only; the codec laws are proved in Proofs/Utf8Facts.v.  The same functions as the executable ones of
   Run/RunKeyring.v (utf8_char, utf8) and Run/RunCli.v (utf8_dec with fuel, utf8_decode): Proofs/Utf8Run.v.
   The decoder here needs no fuel: every recursive call is on a strict sub-list of the argument. *)
From Kestrel Require Import Bytes.
From Kestrel.Model Require Import KeyringText.
Local Open Scope N_scope.

(* a Unicode scalar value (what a Rust char can hold) *)
Definition scalar_ok (c : N) : Prop := c < 55296 \/ (57344 <= c /\ c <= 1114111).     (* 0xD800, 0xE000, 0x10FFFF *)
Definition scalar_okb (c : N) : bool := (c <? 55296) || ((57344 <=? c) && (c <=? 1114111)).

(* ---------- encoding ---------- *)
Definition utf8_char (c : N) : bytes :=
  if c <? 128 then [c]
  else if c <? 2048 then [192 + c / 64; 128 + c mod 64]
  else if c <? 65536 then [224 + c / 4096; 128 + (c / 64) mod 64; 128 + c mod 64]
  else [240 + c / 262144; 128 + (c / 4096) mod 64; 128 + (c / 64) mod 64; 128 + c mod 64].
Definition utf8_encode (t : text) : bytes := flat_map utf8_char t.

(* ---------- strict decoding ---------- *)
Definition cont (b : N) : bool := (128 <=? b) && (b <=? 191).      (* a continuation byte 10xxxxxx *)

Fixpoint utf8_decode (b : bytes) : option text :=
  match b with
  | [] => Some []
  | b0 :: r =>
    if b0 <? 128 then option_map (cons b0) (utf8_decode r)
    else if (194 <=? b0) && (b0 <=? 223) then
      match r with
      | b1 :: r' => if cont b1 then option_map (cons ((b0 - 192) * 64 + (b1 - 128))) (utf8_decode r') else None
      | _ => None
      end
    else if (224 <=? b0) && (b0 <=? 239) then
      match r with
      | b1 :: b2 :: r' =>
        let c := (b0 - 224) * 4096 + (b1 - 128) * 64 + (b2 - 128) in
        if cont b1 && cont b2 && (2048 <=? c) && negb ((55296 <=? c) && (c <=? 57343))
        then option_map (cons c) (utf8_decode r') else None
      | _ => None
      end
    else if (240 <=? b0) && (b0 <=? 244) then
      match r with
      | b1 :: b2 :: b3 :: r' =>
        let c := (b0 - 240) * 262144 + (b1 - 128) * 4096 + (b2 - 128) * 64 + (b3 - 128) in
        if cont b1 && cont b2 && cont b3 && (65536 <=? c) && (c <=? 1114111)
        then option_map (cons c) (utf8_decode r') else None
      | _ => None
      end
    else None
  end.
