(* Model/Noise.v — noise.rs (CipherState, SymmetricState, HandshakeState for Noise_X) and
   lib.rs::noise_encrypt / noise_decrypt.  The token loop is generic over the token list taken
   from gen/Extracted.v; every Rust panic site is an explicit [Panic]. *)
From Kestrel Require Import Bytes Outcome Prims.
From Kestrel.gen Require Import Extracted.
From Kestrel.Model Require Import AeadWrap.
Local Open Scope N_scope.


Section Noise.
Variable P : prims.

Definition NM (A : Type) := outcome noise_err A.
Notation "x <- m ;; k" := (obind m (fun x => k)) (at level 61, m at next level, right associativity).

(* Key::new(&[u8]) = PayloadKey::new: expect("Keys must be 32 bytes") *)
Definition key_new (b : bytes) : NM bytes :=
  if Nat.eqb (length b) 32 then Ok b else Panic PUnwrap.

Record sym := { ck : bytes; h : bytes; k : option bytes; nn : N }.

Definition u64_max : N := 18446744073709551615.

(* SymmetricState::new(protocol_name) *)
Definition ss_new (name : bytes) : NM sym :=
  let h0 := if Nat.leb (length name) (N.to_nat x_noise_hash_len)
            then name ++ zeros (32 - length name)
            else p_hash P name in
  (* hash_output is [u8; 32]: `sha256(..).try_into().unwrap()` *)
  if negb (Nat.eqb (length h0) 32) then Panic PUnwrap else
  c <- key_new h0 ;;
  Ok {| ck := c; h := h0; k := None; nn := 0 |}.

Definition mix_hash (s : sym) (data : bytes) : NM sym :=
  let h' := p_hash P (h s ++ data) in
  if negb (Nat.eqb (length h') 32) then Panic PUnwrap else
  Ok {| ck := ck s; h := h'; k := k s; nn := nn s |}.

Definition mix_key (s : sym) (ikm : bytes) : NM sym :=
  let '(c, t) := hkdf_noise P (ck s) ikm in
  c' <- key_new c ;;
  t' <- key_new t ;;
  Ok {| ck := c'; h := h s; k := Some t'; nn := 0 |}.

(* CipherState::set_nonce: assert!(nonce < u64::MAX); the caller computed nonce + 1 in u64 *)
Definition bump_nonce (n : N) : NM N :=
  if u64_max <=? n then Panic PArith
  else if negb (n + 1 <? u64_max) then Panic PAssert
  else Ok (n + 1).

Definition lift_aead {A} (o : outcome chapoly_err A) : NM A :=
  match o with Ok a => Ok a | Err _ => Err NDecrypt | Panic w => Panic w | OutOfFuel => OutOfFuel end.
Definition lift_dh {A} (o : outcome dh_err A) : NM A :=
  match o with Ok a => Ok a | Err _ => Err NDh | Panic w => Panic w | OutOfFuel => OutOfFuel end.

Definition encrypt_and_hash (s : sym) (pt : bytes) : NM (sym * bytes) :=
  match k s with
  | None => Panic PUnwrap                      (* expect("X pattern must have a key initialized") *)
  | Some key =>
    ct <- lift_aead (chapoly_encrypt_noise P key (nn s) (h s) pt) ;;
    n' <- bump_nonce (nn s) ;;
    s' <- mix_hash {| ck := ck s; h := h s; k := k s; nn := n' |} ct ;;
    Ok (s', ct)
  end.

Definition decrypt_and_hash (s : sym) (ct : bytes) : NM (sym * bytes) :=
  match k s with
  | None => Panic PUnwrap
  | Some key =>
    pt <- lift_aead (chapoly_decrypt_noise P key (nn s) (h s) ct) ;;
    n' <- bump_nonce (nn s) ;;
    s' <- mix_hash {| ck := ck s; h := h s; k := k s; nn := n' |} ct ;;
    Ok (s', pt)
  end.

(* SymmetricState::split: result unused by the X pattern, but its Key::new calls are executed *)
Definition split_check (s : sym) : NM unit :=
  let '(k1, k2) := hkdf_noise P (ck s) [] in
  _ <- key_new k1 ;; _ <- key_new k2 ;; Ok tt.

Record hs := {
  sym_st : sym;
  s_priv : bytes; s_pub : bytes;              (* local static pair (always Some in init_x) *)
  e_pair : option (bytes * bytes);            (* local ephemeral (priv, pub) *)
  rs : option bytes; re : option bytes;
  initiator : bool;
}.

Definition with_sym (st : hs) (y : sym) : hs :=
  {| sym_st := y; s_priv := s_priv st; s_pub := s_pub st; e_pair := e_pair st;
     rs := rs st; re := re st; initiator := initiator st |}.

(* HandshakeState::init_x.  Key containers are only built from 32-byte values by the callers
   (PrivateKey/PublicKey::try_from), so lengths are a precondition here, checked by the callers. *)
Definition init_x (init : bool) (prologue s spk : bytes) (e epk rs0 : option bytes) : NM hs :=
  y <- ss_new x_noise_protocol_name ;;
  y <- mix_hash y prologue ;;
  let ep := match e, epk with Some a, Some b => Some (a, b) | _, _ => None end in
  y <- (if init then match rs0 with None => Panic PAssert | Some r => mix_hash y r end
        else mix_hash y spk) ;;
  Ok {| sym_st := y; s_priv := s; s_pub := spk; e_pair := ep; rs := rs0; re := None; initiator := init |}.

(* one token of write_message; [fresh_e] is the 32 random bytes PrivateKey::generate would draw *)
Definition write_token (fresh_e : bytes) (acc : hs * bytes) (t : token) : NM (hs * bytes) :=
  let '(st, buf) := acc in
  match t with
  | TE =>
    ep <- match e_pair st with
          | Some p => Ok p
          | None => pk <- lift_dh (x25519_derive_public P fresh_e) ;; Ok (fresh_e, pk)
          end ;;
    y <- mix_hash (sym_st st) (snd ep) ;;
    Ok ({| sym_st := y; s_priv := s_priv st; s_pub := s_pub st; e_pair := Some ep;
           rs := rs st; re := re st; initiator := initiator st |}, buf ++ snd ep)
  | TS =>
    r <- encrypt_and_hash (sym_st st) (s_pub st) ;;
    Ok (with_sym st (fst r), buf ++ snd r)
  | TES =>
    match e_pair st, rs st with
    | Some ep, Some r =>
      sh <- lift_dh (x25519 P (fst ep) r) ;;
      y <- mix_key (sym_st st) sh ;;
      Ok (with_sym st y, buf)
    | _, _ => Panic PUnwrap
    end
  | TSS =>
    match rs st with
    | Some r =>
      sh <- lift_dh (x25519 P (s_priv st) r) ;;
      y <- mix_key (sym_st st) sh ;;
      Ok (with_sym st y, buf)
    | None => Panic PUnwrap
    end
  | TEE | TSE => Panic PUnimplemented
  end.

Fixpoint fold_tokens {A} (f : A -> token -> NM A) (a : A) (ts : list token) : NM A :=
  match ts with
  | [] => Ok a
  | t :: r => a' <- f a t ;; fold_tokens f a' r
  end.

(* write_message: returns (message, handshake_hash) *)
Definition write_message (fresh_e : bytes) (st : hs) (payload : bytes) : NM (bytes * bytes) :=
  r <- fold_tokens (write_token fresh_e) (st, []) x_noise_pattern ;;
  let '(st1, buf) := r in
  ep <- encrypt_and_hash (sym_st st1) payload ;;
  _ <- split_check (fst ep) ;;
  Ok (buf ++ snd ep, h (fst ep)).

(* &message[a..b] *)
Definition slice (m : bytes) (a b : nat) : NM bytes :=
  if Nat.leb a b && Nat.leb b (length m) then Ok (firstn (b - a) (skipn a m)) else Panic PSliceIndex.

Definition read_token (msg : bytes) (acc : hs * nat) (t : token) : NM (hs * nat) :=
  let '(st, idx) := acc in
  let dh_len := N.to_nat x_noise_dh_len in
  match t with
  | TE =>
    reb <- slice msg idx (idx + dh_len) ;;
    (* PublicKey::try_from: error unless 32 bytes *)
    if negb (Nat.eqb (length reb) 32) then Err NOther else
    y <- mix_hash (sym_st st) reb ;;
    Ok ({| sym_st := y; s_priv := s_priv st; s_pub := s_pub st; e_pair := e_pair st;
           rs := rs st; re := Some reb; initiator := initiator st |}, (idx + dh_len)%nat)
  | TS =>
    let ilen := match k (sym_st st) with Some _ => (dh_len + 16)%nat | None => dh_len end in
    c <- slice msg idx (idx + ilen) ;;
    r <- decrypt_and_hash (sym_st st) c ;;
    if negb (Nat.eqb (length (snd r)) 32) then Err NOther else
    Ok ({| sym_st := fst r; s_priv := s_priv st; s_pub := s_pub st; e_pair := e_pair st;
           rs := Some (snd r); re := re st; initiator := initiator st |}, (idx + ilen)%nat)
  | TES =>
    match re st with
    | Some r =>
      sh <- lift_dh (x25519 P (s_priv st) r) ;;
      y <- mix_key (sym_st st) sh ;;
      Ok (with_sym st y, idx)
    | None => Panic PUnwrap
    end
  | TSS =>
    match rs st with
    | Some r =>
      sh <- lift_dh (x25519 P (s_priv st) r) ;;
      y <- mix_key (sym_st st) sh ;;
      Ok (with_sym st y, idx)
    | None => Panic PUnwrap
    end
  | TEE | TSE => Panic PUnimplemented
  end.

(* The length guard at the top of read_message.
   legacy = true: the code before fix F2 (`assert!(len >= 64 && len <= 65535)`), literals of the old code;
   legacy = false: the repaired code, `if message.len() < MIN || message.len() > MAX { return Err(..) }`
   with the two literals READ from the sources on every run (gen/Extracted.v: x_noise_guard_min = 96,
   x_noise_guard_max = 65535 today; pinned by C09_noise_guard_constants). *)
Definition guard_min : nat := N.to_nat x_noise_guard_min.
Definition guard_max : N := x_noise_guard_max.
Definition read_len_guard (legacy : bool) (len : nat) : NM unit :=
  if legacy then (if Nat.leb 64 len && (N.of_nat len <=? 65535) then Ok tt else Panic PAssert)
  else (if Nat.leb guard_min len && (N.of_nat len <=? guard_max) then Ok tt else Err NOther).

(* read_message: returns (payload, handshake_hash, state) *)
Definition read_message_gen (legacy : bool) (st : hs) (msg : bytes) : NM (bytes * bytes * hs) :=
  _ <- read_len_guard legacy (length msg) ;;
  r <- fold_tokens (read_token msg) (st, O) x_noise_pattern ;;
  let '(st1, idx) := r in
  rest <- slice msg idx (length msg) ;;
  dp <- decrypt_and_hash (sym_st st1) rest ;;
  _ <- split_check (fst dp) ;;
  Ok (snd dp, h (fst dp), with_sym st1 (fst dp)).
Definition read_message := read_message_gen false.

(* lib.rs::noise_encrypt; [e]/[epk] = Some for injected ephemeral keys, fresh_e otherwise *)
Definition noise_encrypt (fresh_e s spk r : bytes) (e epk : option bytes) (prologue payload_key : bytes)
  : NM (bytes * bytes) :=
  st <- init_x true prologue s spk e epk (Some r) ;;
  write_message fresh_e st payload_key.

(* lib.rs::noise_decrypt: returns (payload key, sender public key, handshake hash) *)
Definition noise_decrypt_gen (legacy : bool) (r rpk prologue msg : bytes) : NM (bytes * bytes * bytes) :=
  st <- init_x false prologue r rpk None None None ;;
  res <- read_message_gen legacy st msg ;;
  let '(payload, hh, st1) := res in
  if negb (Nat.eqb (length payload) 32) then Err NOther else
  (* get_pubkey().expect(..) *)
  match (if initiator st1 then None else rs st1) with
  | Some spk => Ok (payload, spk, hh)
  | None => Panic PUnwrap
  end.
Definition noise_decrypt := noise_decrypt_gen false.

End Noise.
