(* Model/FilesSpec.v — vocabulary for the header-level statements of Proofs/FilesFacts.v. *)
From Kestrel Require Import Bytes Outcome IO IOFacts.
From Kestrel.Model Require Import EventPreds.

(* the payload key key_encrypt uses: the injected one, else the 32 fresh random bytes *)
Definition payload_of (fresh_pk : bytes) (pk : option bytes) : bytes :=
  match pk with Some p => p | None => fresh_pk end.

(* s1 is s0 after a fault-free header write: [hdr] appended to the sink, source untouched,
   new events = sink events [d] on top of the events [pre] emitted before the write *)
Record wrote_header (s0 s1 : io) (hdr : bytes) (pre : list event) : Prop := {
  wh_out : w_out (wtr s1) = w_out (wtr s0) ++ hdr;
  wh_rdr : rdr s1 = rdr s0;
  wh_wok : writer_ok (wtr s1);
  wh_log : exists d, log s1 = d ++ pre ++ log s0 /\ Forall is_out_ev d /\ Forall benign d;
}.

(* s1 is s0 after a fault-free header read: the header consumed, [rest] left, sink untouched *)
Record read_header (s0 s1 : io) (rest : bytes) : Prop := {
  rh_data : r_data (rdr s1) = rest;
  rh_rok : reader_ok (rdr s1);
  rh_wtr : wtr s1 = wtr s0;
  rh_log : exists d, log s1 = d ++ log s0 /\ Forall is_read_ev d /\ Forall benign d;
}.
