(* Model/RandRun.v — the model functions that consume randomness, run on a random SOURCE instead of
   on explicitly given blocks, with every draw recorded where the program makes it.

   Model/Files.v and Model/Cli.v take the 32-byte blocks an operation draws as explicit arguments
   (fresh_pk, fresh_e, salt, sk); Model/Rand.v lists per operation which roles are drawn in which
   order ([op_roles]).  Here the source is the stream of Model/Rand.v ([nat -> bytes], block i = the
   i-th 32 bytes the generator returns) with a counter and a journal of [Rand.draw] records, and each
   function below performs [rdraw] at the program point where the Rust calls secure_random /
   PrivateKey::generate:

     noise.rs write_message, token e : only when no ephemeral PAIR was injected        (REphemeralKey)
     encrypt.rs key_encrypt          : first thing, only when no payload key was given  (RPayloadKey)
     commands.rs pass_encrypt        : after the password was obtained                  (RFileSalt)
     commands.rs gen_key             : after name and password; the private key, to_public()?, the salt
                                                                                       (RPrivateKey, RLockSalt)
     commands.rs change_pass         : after the old key was unlocked                   (RLockSalt)

   Nothing here is used by the other models.  Proofs/RandRoles.v proves (a) ERASURE: each function
   returns exactly what the explicit-argument function of Files.v / Cli.v returns on the stream blocks
   at the positions drawn, and (b) the journal of a run is a PREFIX of what [Rand.draw_roles] assigns to
   [op_roles] of the operation, all of it when the run reaches the library call's end.
   Definitions only. *)
From Kestrel Require Import Bytes Outcome IO Prims.
From Kestrel.gen Require Import Extracted.
From Kestrel.Model Require Import AeadWrap Chunks Noise Files KeyringText Cli Rand.
Local Open Scope N_scope.

(* ---------- the random source ---------- *)
Record rsrc := {
  g_stream : nat -> bytes;     (* block i of the generator's output *)
  g_next : nat;                (* index of the next block *)
  g_log : list draw            (* journal, oldest first *)
}.

Definition g_init (stream : nat -> bytes) (c : nat) : rsrc :=
  {| g_stream := stream; g_next := c; g_log := [] |}.

(* one secure_random(32) call made for [ro]: returns the next block, advances, records *)
Definition rdraw (ro : role) (g : rsrc) : bytes * rsrc :=
  (g_stream g (g_next g),
   {| g_stream := g_stream g; g_next := S (g_next g);
      g_log := g_log g ++ [{| d_role := ro; d_index := g_next g; d_value := g_stream g (g_next g) |}] |}).

(* what Rand.v plans for a list of roles from the source's current position *)
Definition planned (g : rsrc) (roles : list role) : list draw := fst (draw_roles (g_stream g) (g_next g) roles).

(* [drew g g' roles k]: from g to g' exactly the first k draws that Rand.draw_roles plans for [roles] were
   made — same stream, counter advanced by k, journal extended by those k records (unfolded in
   RandRoles.drew_meaning) *)
Definition drew (g g' : rsrc) (roles : list role) (k : nat) : Prop :=
  g_stream g' = g_stream g /\ g_next g' = (g_next g + k)%nat /\ (k <= length roles)%nat /\
  g_log g' = g_log g ++ firstn k (planned g roles).

(* ---------- which roles a key_encrypt call draws, given what is injected ---------- *)
(* noise.rs::init_x keeps an injected ephemeral pair only when BOTH halves are given *)
Definition eph_injected (e epk : option bytes) : bool :=
  match e, epk with Some _, Some _ => true | _, _ => false end.
Definition key_enc_roles (pk e epk : option bytes) : list role :=
  (match pk with None => [RPayloadKey] | Some _ => [] end) ++
  (if eph_injected e epk then [] else [REphemeralKey]).
(* position of the ephemeral-key block relative to the start: after the payload-key block when that one is drawn *)
Definition npk (pk : option bytes) : nat := match pk with None => 1 | Some _ => 0 end.

Section LibRand.
Variable P : prims.

(* ---------- noise.rs: write_message ---------- *)
(* one token: `Token::E => if self.e.is_none() { PrivateKey::generate() .. }` is the only draw; every
   other token, and E with a pair present, is [write_token] itself (it does not look at fresh_e there:
   RandRoles.write_token_indep) *)
Definition write_token_r (g : rsrc) (acc : hs * bytes) (t : token) : NM (hs * bytes) * rsrc :=
  match t, e_pair (fst acc) with
  | TE, None => let '(v, g') := rdraw REphemeralKey g in (write_token P v acc t, g')
  | _, _ => (write_token P [] acc t, g)
  end.

(* the token loop: a token that does not return Ok ends it (the later tokens draw nothing) *)
Fixpoint fold_tokens_r (g : rsrc) (acc : hs * bytes) (ts : list token) : NM (hs * bytes) * rsrc :=
  match ts with
  | [] => (Ok acc, g)
  | t :: r =>
    let '(o, g1) := write_token_r g acc t in
    match o with
    | Ok acc' => fold_tokens_r g1 acc' r
    | Err x => (Err x, g1)
    | Panic w => (Panic w, g1)
    | OutOfFuel => (OutOfFuel, g1)
    end
  end.

(* what write_message does after the token loop (no randomness) *)
Definition write_message_tail (payload : bytes) (o : NM (hs * bytes)) : NM (bytes * bytes) :=
  obind o (fun r =>
  let '(st1, buf) := r in
  obind (encrypt_and_hash P (sym_st st1) payload) (fun ep =>
  obind (split_check P (fst ep)) (fun _ =>
  Ok (buf ++ snd ep, h (fst ep))))).

Definition write_message_r (g : rsrc) (st : hs) (payload : bytes) : NM (bytes * bytes) * rsrc :=
  let '(o, g1) := fold_tokens_r g (st, []) x_noise_pattern in
  (write_message_tail payload o, g1).

(* lib.rs::noise_encrypt *)
Definition noise_encrypt_r (g : rsrc) (s spk r : bytes) (e epk : option bytes) (prologue payload_key : bytes)
  : NM (bytes * bytes) * rsrc :=
  match init_x P true prologue s spk e epk (Some r) with
  | Ok st => write_message_r g st payload_key
  | Err x => (Err x, g)
  | Panic w => (Panic w, g)
  | OutOfFuel => (OutOfFuel, g)
  end.

(* ---------- encrypt.rs: key_encrypt ---------- *)
(* what key_encrypt does with the result of noise_encrypt (no randomness) *)
Definition key_encrypt_tail (payload : bytes) (n : NM (bytes * bytes)) : M eerr unit :=
  match n with
  | Ok (msg, hh) =>
    bind (m_write_all EIOWrite x_prologue) (fun _ =>
    bind (m_write_all EIOWrite msg) (fun _ =>
    bind (m_flush EIOWrite) (fun _ =>
    encrypt_chunks P (file_key P payload hh) [] cs_const)))
  | Err _ => fail EOther
  | Panic w => lift (Panic w)
  | OutOfFuel => lift OutOfFuel
  end.

(* `let payload_key = match payload_key { Some(pk) => pk, None => &PayloadKey::new(secure_random(32)..) }`,
   then noise_encrypt (which draws the ephemeral key inside write_message), then the I/O *)
Definition key_encrypt_r (g : rsrc) (s spk r : bytes) (e epk pk : option bytes) (s0 : io)
  : (outcome eerr unit * io) * rsrc :=
  let '(payload, g1) := match pk with Some p => (p, g) | None => rdraw RPayloadKey g end in
  if negb (Nat.eqb (length payload) 32) then (lift (Panic PUnwrap) s0, g1) else
  let '(n, g2) := noise_encrypt_r g1 s spk r e epk x_prologue payload in
  (key_encrypt_tail payload n s0, g2).

End LibRand.

(* ---------- commands.rs ---------- *)
Section CliRand.
Variable P : prims.
Variable pk_ok sk_ok : text -> bool.
Variable unlock : text -> bytes -> outcome kerr bytes.
Variable lock : bytes -> bytes -> bytes -> text.
Variable decode_pk : text -> outcome kerr bytes.
Variable encode_pk : bytes -> text.
Variable sk_string_ok : text -> bool.
Variable utf8_decode : bytes -> option text.
Variable utf8_encode : text -> bytes.

(* encrypt: every draw is inside the library call, which is made only when the plan succeeded.  The io state of
   the call is Cli.job_io; when input and output are one file the bytes fed are Cli.alias_fed of the same call
   (the model evaluates the call twice from the same source g: the program makes it once, and the draws of a
   call do not depend on the bytes read) *)
Definition lib_enc_r (g : rsrc) (j : enc_job) (input : bytes) : (outcome eerr unit * io) * rsrc :=
  key_encrypt_r P g (ej_s j) (ej_spk j) (ej_r j) None None None (job_io input (ej_dir j) (ej_bad j)).
Definition cmd_encrypt_r (g : rsrc) (w : world) (o : enc_opts) : cmd_result * rsrc :=
  match encrypt_plan pk_ok sk_ok unlock decode_pk utf8_decode w o with
  | inl st => (fail_result w st, g)
  | inr j =>
    let '(r, g') := lib_enc_r g j (alias_fed (ej_alias j) (ej_input j) (fun inp => fst (lib_enc_r g j inp))) in
    (stream_result w (eo_outfile o) r fin_enc, g')
  end.

(* pass_encrypt: `let salt: [u8; 32] = secure_random(32).try_into().unwrap()` comes after open_input /
   open_output and confirm_password; the rest is Cli.cmd_pass_encrypt on the drawn salt *)
Definition pass_encrypt_before_draw (w : world) (o : pw_opts) : pre unit :=
  input <-- open_io w (po_infile o) (po_outfile o) ;;
  pw <-- confirm_password w (po_env_pass o) ;;
  inr tt.
Definition cmd_pass_encrypt_r (g : rsrc) (w : world) (o : pw_opts) : cmd_result * rsrc :=
  match pass_encrypt_before_draw w o with
  | inl st => (fail_result w st, g)
  | inr _ => let '(salt, g') := rdraw RFileSalt g in (cmd_pass_encrypt P w o salt, g')
  end.

(* gen_key: name, its validity, the password; PrivateKey::generate(); to_public()? ; the salt *)
Definition gen_key_before_draw (w : world) (o : gen_opts) : pre unit :=
  name <-- ask_user_stdin utf8_decode w ;;
  if negb (valid_key_name name) then inl SNameInvalid else
  pw <-- confirm_password w (go_env_pass o) ;;
  inr tt.
Definition cmd_gen_key_r (g : rsrc) (w : world) (o : gen_opts) : cmd_result * rsrc :=
  match gen_key_before_draw w o with
  | inl st => (fail_result w st, g)
  | inr _ =>
    let '(sk, g1) := rdraw RPrivateKey g in
    match to_public P sk with
    | inl st => (fail_result w st, g1)
    | inr _ =>
      let '(salt, g2) := rdraw RLockSalt g1 in
      (cmd_gen_key P lock encode_pk utf8_decode utf8_encode w o sk salt, g2)
    end
  end.

(* change_pass: both passwords, the key string, unlock; then the new salt *)
Definition change_pass_before_draw (w : world) (private_key : text) (env_pass : bool) : pre unit :=
  old_pass <-- ask_pass w env_pass ;;
  new_pass <-- confirm_new_pass w env_pass ;;
  if negb (sk_string_ok private_key) then inl SPrivateKeyStringBad else
  sk <-- of_outcome SUnlockError (unlock private_key old_pass) ;;
  inr tt.
Definition cmd_change_pass_r (g : rsrc) (w : world) (private_key : text) (env_pass : bool)
  : cmd_result * rsrc :=
  match change_pass_before_draw w private_key env_pass with
  | inl st => (fail_result w st, g)
  | inr _ =>
    let '(salt, g') := rdraw RLockSalt g in
    (cmd_change_pass unlock lock sk_string_ok utf8_encode w private_key env_pass salt, g')
  end.

(* ---------- a history of commands on ONE source ---------- *)
Inductive rcmd :=
| RcEncrypt (w : world) (o : enc_opts)
| RcPassEncrypt (w : world) (o : pw_opts)
| RcGenKey (w : world) (o : gen_opts)
| RcChangePass (w : world) (private_key : text) (env_pass : bool).

Definition rcmd_op (c : rcmd) : op :=
  match c with
  | RcEncrypt _ _ => OpKeyEncrypt
  | RcPassEncrypt _ _ => OpPassEncryptCli
  | RcGenKey _ _ => OpKeyGenerate
  | RcChangePass _ _ _ => OpChangePass
  end.

Definition run_rcmd (g : rsrc) (c : rcmd) : cmd_result * rsrc :=
  match c with
  | RcEncrypt w o => cmd_encrypt_r g w o
  | RcPassEncrypt w o => cmd_pass_encrypt_r g w o
  | RcGenKey w o => cmd_gen_key_r g w o
  | RcChangePass w k ep => cmd_change_pass_r g w k ep
  end.

(* the same command on explicitly given blocks (Model/Cli.v as it is) *)
Definition run_rcmd_explicit (c : rcmd) (b1 b2 : bytes) : cmd_result :=
  match c with
  | RcEncrypt w o => cmd_encrypt P pk_ok sk_ok unlock decode_pk utf8_decode w o b1 b2
  | RcPassEncrypt w o => cmd_pass_encrypt P w o b1
  | RcGenKey w o => cmd_gen_key P lock encode_pk utf8_decode utf8_encode w o b1 b2
  | RcChangePass w k ep => cmd_change_pass unlock lock sk_string_ok utf8_encode w k ep b1
  end.

Fixpoint run_rcmds (g : rsrc) (cs : list rcmd) : list cmd_result * rsrc :=
  match cs with
  | [] => ([], g)
  | c :: rest =>
    let '(r, g1) := run_rcmd g c in
    let '(rs, g2) := run_rcmds g1 rest in
    (r :: rs, g2)
  end.

End CliRand.
