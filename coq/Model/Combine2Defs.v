(* Model/Combine2Defs.v — small definitions used by the combination theorems (Proofs/Combine2*.v). No proofs. *)
From Kestrel Require Import Bytes Outcome IO Prims.
From Kestrel.Model Require Import KeyringText Files Monitors Cli.

(* no successful AEAD open, under any key, among the events d *)
Definition no_open_ok (d : list event) : Prop :=
  forall k m ad ct pt, ~ In (EvOpen k m ad ct (Some pt)) d.

(* where the output bytes of a streaming command go: the file named by -o, or stdout *)
Definition delivered (outfile : option text) (r : cmd_result) : option bytes :=
  match outfile with Some F => fs_get (new_fs r) F | None => Some (stdout r) end.

(* the password a run of a key-generation history uses: the one in KESTREL_PASSWORD (the only source without a terminal) *)
Definition gen_password (i : gen_input) : option bytes :=
  if gi_env_pass i then gi_env_password i else None.

(* ---------- header-phase events of the four file-level functions (C11) ---------- *)
(* decryptors: reads of the magic / salt / handshake message and the scrypt call; no open, no write, no flush *)
Definition hdr_dec_evb (e : event) : bool :=
  match e with EvRead _ _ | EvReadErr _ _ | EvKdf _ _ _ _ _ => true | _ => false end.
(* encryptors: the scrypt call, the writes of magic / salt / handshake message, one flush; no read *)
Definition hdr_enc_evb (e : event) : bool :=
  match e with EvWrite _ _ | EvWriteErr _ _ | EvFlush _ | EvKdf _ _ _ _ _ => true | _ => false end.
(* a header read asks for at most n bytes and returns at most what it asked for *)
Definition hdr_read_le (n : nat) (e : event) : bool :=
  match e with
  | EvRead req got => (req <=? n)%nat && (length got <=? req)%nat
  | EvReadErr req _ => (req <=? n)%nat
  | _ => true
  end.

(* ---------- the shape of a whole run of a file-level decryptor / encryptor (C11) ----------
   trace s' = trace s ++ hd ++ d: hd = header events, d = events of the chunk loop, accepted by the release /
   look-ahead monitor and bounded by the chunk size cs_const = x_lib_chunk_size *)
Definition dec_stream_shape (s s' : io) : Prop :=
  exists hd d, trace s' = trace s ++ hd ++ d /\
    forallb hdr_dec_evb hd = true /\ forallb (hdr_read_le 128) hd = true /\
    (exists m, lmon_run d = Some m) /\ forallb (dec_ev_ok (N.to_nat cs_const)) d = true.
Definition enc_stream_shape (s s' : io) : Prop :=
  exists hd d, trace s' = trace s ++ hd ++ d /\
    forallb hdr_enc_evb hd = true /\
    (exists m, emon_run d = Some m /\ (length (e_pend m) <= 2)%nat) /\ forallb (enc_ev_ok (N.to_nat cs_const)) d = true.

