(* Model/ChunksRobustDefs.v — definitions used by Proofs/ChunksRobust.v (robustness of the decrypt
   chunk loop for every io state).  Definitions only. *)
From Kestrel Require Import Bytes Outcome IO IOFacts Prims.
From Kestrel.Model Require Import AeadWrap Chunks.
Local Open Scope N_scope.

(* a read event asks for at most n bytes; other events are unconstrained *)
Definition read_req_le (n : nat) (e : event) : Prop :=
  match e with EvRead req _ | EvReadErr req _ => (req <= n)%nat | _ => True end.

Definition is_flush_event (e : event) : Prop := match e with EvFlush _ => True | _ => False end.

(* how a run that stopped at the (non-benign) event e must have ended *)
Definition fault_result {A} (e : event) (res : outcome derr A) : Prop :=
  match e with
  | EvRead _ _ | EvReadErr _ _ => exists ie, ie <> Interrupted /\ res = Err (DIORead ie)
  | EvWrite _ _ | EvWriteErr _ _ | EvFlush _ => exists ie, res = Err (DIOWrite ie)
  | _ => False
  end.

(* The new events d (newest first) of a run.  Either all are benign -- and then the result is
   DIORead Interrupted only if the newest event is an Interrupted 1-byte read (the raw end-of-file
   probe, which is not retried) -- or exactly the newest one is a fault and the result is the matching
   I/O error. *)
Definition fault_shape {A} (d : list event) (res : outcome derr A) : Prop :=
  (Forall benign d /\ (res = Err (DIORead Interrupted) -> exists d', d = EvReadErr 1 Interrupted :: d')) \/
  exists e d', d = e :: d' /\ Forall benign d' /\ ~ benign e /\ fault_result e res.

(* a reader action that is not a zero-length read *)
Definition rd_nonzero (a : rd_act) : Prop := match a with RCap O => False | _ => True end.

(* state surgery *)
Definition set_log (s : io) (lg : list event) : io := {| rdr := rdr s; wtr := wtr s; log := lg |}.
Definition push_rd (a : rd_act) (s : io) : io :=
  {| rdr := {| r_data := r_data (rdr s); r_script := a :: r_script (rdr s) |}; wtr := wtr s; log := log s |}.
Definition push_wr (a : wr_act) (s : io) : io :=
  {| rdr := rdr s;
     wtr := {| w_out := w_out (wtr s); w_script := a :: w_script (wtr s); w_fscript := w_fscript (wtr s) |};
     log := log s |}.

(* the script-free twin: same data, same bytes already in the sink, every call fully succeeds *)
Definition twin (s : io) : io :=
  {| rdr := {| r_data := r_data (rdr s); r_script := [] |};
     wtr := {| w_out := w_out (wtr s); w_script := []; w_fscript := [] |};
     log := [] |}.

Section Pure.
Variable P : prims.

(* The script-free run as a function of the offered bytes: (result, plaintext chunks written, pending).
   [pending] is [pt] when the authenticated final chunk pt was NOT written because a byte follows it
   (result DUnexpectedData), and [] otherwise.  A run whose reader answers the 1-byte end-of-file probe
   with a zero-length read although data remains (RCap 0) does write that chunk. *)
Fixpoint dec_pure (fuel : nat) (key aad : bytes) (cs : N) (n : N) (data : bytes)
  : outcome derr unit * list bytes * list bytes :=
  match fuel with
  | O => (OutOfFuel, [], [])
  | S f =>
    if Nat.ltb (length data) 16 then (Err (DIORead OtherErr), [], []) else
    let hdr := firstn 16 data in
    let d1 := skipn 16 data in
    let lastb := hdr_last hdr in
    let lenb := hdr_len hdr in
    let len := de32 lenb in
    if cs <? len then (Err DChunkLen, [], []) else
    let k := (N.to_nat len + 16)%nat in
    if Nat.ltb (length d1) k then (Err (DIORead OtherErr), [], []) else
    let ct := firstn k d1 in
    let d2 := skipn k d1 in
    match chapoly_decrypt_noise P key n (aad ++ lastb ++ lenb) ct with
    | Ok pt =>
      if de32 lastb =? 1 then
        match d2 with
        | [] => (Ok tt, [pt], [])
        | _ :: _ => (Err DUnexpectedData, [], [pt])
        end
      else
        let '(r, l, x) := dec_pure f key aad cs (n + 1) d2 in (r, pt :: l, x)
    | Err _ => (Err DChaPolyDecrypt, [], [])
    | Panic w => (Panic w, [], [])
    | OutOfFuel => (OutOfFuel, [], [])
    end
  end.

Definition dec_pure_file (key aad : bytes) (cs : N) (data : bytes) :=
  dec_pure (S (length data)) key aad cs 0 data.

End Pure.

(* conforming scripts that may additionally raise Interrupted (flushes stay fault-free: flush is not retried) *)
Definition rd_act_oki (a : rd_act) : Prop := match a with RCap k => (1 <= k)%nat | RFail e => e = Interrupted end.
Definition wr_act_oki (a : wr_act) : Prop := match a with WCap k => (1 <= k)%nat | WFail e => e = Interrupted end.
Definition reader_oki (r : reader) : Prop := Forall rd_act_oki (r_script r).
Definition writer_oki (w : writer) : Prop := Forall wr_act_oki (w_script w) /\ Forall fl_act_ok (w_fscript w).
