(* KeyringText.v — executable model of the keyring configuration parser of keyring.rs
   (Keyring::parse_config, add_key, valid_key_name, get_key, get_name_from_key, serialize_key).
   Definitions only; all proofs are in Proofs/KeyringRefine.v, known answers in Model/KeyringKat.v.

   Representation.  A Rust [&str]/[String] is a [list N] of Unicode scalar values, one N per
   [char].  (The model does not restrict the N's to scalar values; nothing depends on it.)
   The validators [EncodedPk::try_from(&str)] and [EncodedSk::try_from(&str)] (base64 decoding
   and a length check) are not modelled here: the parser is parametrised over two booleans
   [pk_ok] / [sk_ok] (true = try_from returned Ok).

   [valid_key_name] is the REPAIRED predicate (also rejects names containing a TAB); see below.

   Result type: [outcome perr _] from Outcome.v.  No function here ever produces [Panic] or
   [OutOfFuel] (theorem [parse_total]); the Rust [unwrap]s in [add_key] are reached only after
   the [is_none] tests have excluded [None]. *)
From Kestrel Require Import Bytes Outcome.
Local Open Scope N_scope.

Definition text := list N.

(* ---------- string constants (checked against string literals in KeyringKat.v) ---------- *)
Definition c_nl  : N := 10.   (* '\n' *)
Definition c_cr  : N := 13.   (* '\r' *)
Definition c_tab : N := 9.    (* '\t' *)
Definition c_eq  : N := 61.   (* '=' *)
Definition c_hash : N := 35.  (* '#' *)

Definition s_hdr  : text := [91; 75; 101; 121; 93].                           (* "[Key]" *)
Definition s_name : text := [78; 97; 109; 101].                               (* "Name" *)
Definition s_pub  : text := [80; 117; 98; 108; 105; 99; 75; 101; 121].        (* "PublicKey" *)
Definition s_priv : text := [80; 114; 105; 118; 97; 116; 101; 75; 101; 121].  (* "PrivateKey" *)
Definition s_sp_eq_sp : text := [32; 61; 32].                                 (* " = " *)

(* ---------- str::lines() ----------
   self.split_inclusive('\n').map(|line| {
       let Some(line) = line.strip_suffix('\n') else { return line };
       let Some(line) = line.strip_suffix('\r') else { return line };
       line }) *)

(* split_inclusive('\n'): every piece keeps its terminating '\n'; a last piece without '\n'
   is produced only if it is non-empty; the empty text gives no piece. *)
Fixpoint split_inclusive_nl (t : text) : list text :=
  match t with
  | [] => []
  | c :: r =>
      if c =? c_nl then [c] :: split_inclusive_nl r
      else match split_inclusive_nl r with
           | [] => [[c]]
           | l :: ls => (c :: l) :: ls
           end
  end.

(* strip_suffix(c) *)
Definition strip_suffix (c : N) (l : text) : option text :=
  match rev l with
  | x :: r => if x =? c then Some (rev r) else None
  | [] => None
  end.

Definition strip_line (line : text) : text :=
  match strip_suffix c_nl line with
  | None => line
  | Some l1 => match strip_suffix c_cr l1 with
               | None => l1
               | Some l2 => l2
               end
  end.

Definition lines (t : text) : list text := map strip_line (split_inclusive_nl t).

(* ---------- retain(|c| c != '\t') ---------- *)
Definition remove_tabs (l : text) : text := filter (fun c => negb (c =? c_tab)) l.

(* ---------- char::is_whitespace  (Unicode White_Space) ---------- *)
Definition is_ws (c : N) : bool :=
  ((9 <=? c) && (c <=? 13))            (* U+0009..U+000D *)
  || (c =? 32)                         (* U+0020 *)
  || (c =? 133)                        (* U+0085 *)
  || (c =? 160)                        (* U+00A0 *)
  || (c =? 5760)                       (* U+1680 *)
  || ((8192 <=? c) && (c <=? 8202))    (* U+2000..U+200A *)
  || (c =? 8232)                       (* U+2028 *)
  || (c =? 8233)                       (* U+2029 *)
  || (c =? 8239)                       (* U+202F *)
  || (c =? 8287)                       (* U+205F *)
  || (c =? 12288).                     (* U+3000 *)

(* ---------- str::trim() ---------- *)
Fixpoint trim_start (l : text) : text :=
  match l with
  | [] => []
  | c :: r => if is_ws c then trim_start r else l
  end.
Definition trim_end (l : text) : text := rev (trim_start (rev l)).
Definition trim (l : text) : text := trim_end (trim_start l).

(* the per-line cleaning of parse_config: retain, then trim *)
Definition clean (line : text) : text := trim (remove_tabs line).

(* ---------- starts_with(&str) / starts_with(char) ---------- *)
Fixpoint starts_with (p l : text) : bool :=
  match p with
  | [] => true
  | a :: p' => match l with
               | [] => false
               | b :: l' => (a =? b) && starts_with p' l'
               end
  end.

(* ---------- split_once('=') : split at the first '=' ---------- *)
Fixpoint split_once_eq (l : text) : option (text * text) :=
  match l with
  | [] => None
  | c :: r =>
      if c =? c_eq then Some ([], r)
      else match split_once_eq r with
           | Some (a, b) => Some (c :: a, b)
           | None => None
           end
  end.

(* ---------- str::len() : UTF-8 byte length ---------- *)
Definition utf8_char_len (c : N) : N :=
  if c <? 128 then 1 else if c <? 2048 then 2 else if c <? 65536 then 3 else 4.
Fixpoint utf8_len (l : text) : N :=
  match l with [] => 0 | c :: r => utf8_char_len c + utf8_len r end.

Definition is_empty (l : text) : bool := match l with [] => true | _ => false end.

(* ---------- valid_key_name (REPAIRED version) ----------
   !(name.is_empty() || name.len() > MAX_NAME_SIZE || name.contains('\t')),  MAX_NAME_SIZE = 128.
   (The keyring.rs at hand lacks the third disjunct.) *)
Definition MAX_NAME_SIZE : N := 128.
Definition valid_key_name (name : text) : bool :=
  negb (is_empty name || (MAX_NAME_SIZE <? utf8_len name) || existsb (fun c => c =? c_tab) name).

(* ---------- String == ---------- *)
Fixpoint text_eqb (a b : text) : bool :=
  match a, b with
  | [], [] => true
  | x :: a', y :: b' => (x =? y) && text_eqb a' b'
  | _, _ => false
  end.

(* ---------- keys, errors ---------- *)
Record entry := mk_entry { k_name : text; k_pub : text; k_priv : option text }.

(* one constructor per distinct KeyringError::ParseConfig message *)
Inductive perr_kind :=
| KeyMustHaveName               (* "Key must have a Name" *)
| KeyMustHavePublicKey          (* "Key must have a PublicKey" *)
| KeyMustHaveNameAndPublicKey   (* "Key must have a Name and PublicKey" *)
| NameOutsideSection            (* "Name found outside of [Key] section" *)
| DuplicateName                 (* "Duplicate Name found" *)
| NameMustBeSet                 (* "Name must be set to something" *)
| InvalidName                   (* "Invalid Name" *)
| PublicKeyOutsideSection       (* "PublicKey found outside of [Key] section" *)
| DuplicatePublicKey            (* "Duplicate PublicKey found" *)
| PublicKeyMustBeSet            (* "PublicKey must be set to something" *)
| MalformedPublicKey            (* "Malformed public key" *)
| PrivateKeyOutsideSection      (* "PrivateKey found outside of [Key] section" *)
| DuplicatePrivateKey           (* "Duplicate PrivateKey found" *)
| PrivateKeyMustBeSet           (* "PrivateKey must be set to something" *)
| MalformedPrivateKey           (* "Malformed private key" *)
| InvalidData                   (* "Invalid data found in configuration file" *)
| NoKeysFound                   (* "No keys found in configuration file" *)
| FoundDuplicateName            (* "Found duplicate name: {}" *)
| FoundDuplicatePublicKey.      (* "Found duplicate public key: {}" *)

Inductive perr := ParseConfig (k : perr_kind).

Definition is_some {A} (o : option A) : bool := match o with Some _ => true | None => false end.

(* ---------- add_key ---------- *)
(* for k in keys.iter() { if k.name == name {Err}; if k.public_key == pk {Err} } *)
Fixpoint check_dups (keys : list entry) (name pk : text) : outcome perr unit :=
  match keys with
  | [] => Ok tt
  | k :: rest =>
      if text_eqb (k_name k) name then Err (ParseConfig FoundDuplicateName)
      else if text_eqb (k_pub k) pk then Err (ParseConfig FoundDuplicatePublicKey)
      else check_dups rest name pk
  end.

(* returns the new value of the [&mut Vec<Key>] *)
Definition add_key (keys : list entry) (key_name key_public key_private : option text)
  : outcome perr (list entry) :=
  match key_name, key_public with
  | None, Some _ => Err (ParseConfig KeyMustHaveName)
  | Some _, None => Err (ParseConfig KeyMustHavePublicKey)
  | None, None => Err (ParseConfig KeyMustHaveNameAndPublicKey)
  | Some name, Some pk =>
      obind (check_dups keys name pk) (fun _ =>
      Ok (keys ++ [mk_entry name pk key_private]))
  end.

(* ---------- get_key / get_name_from_key ---------- *)
Fixpoint get_key (keys : list entry) (name : text) : option entry :=
  match keys with
  | [] => None
  | k :: rest => if text_eqb (k_name k) name then Some k else get_key rest name
  end.

Fixpoint get_name_from_key (keys : list entry) (pk : text) : option text :=
  match keys with
  | [] => None
  | k :: rest => if text_eqb (k_pub k) pk then Some (k_name k) else get_name_from_key rest pk
  end.

(* ---------- serialize_key ----------
   format!("[Key]\nName = {}\nPublicKey = {}\nPrivateKey = {}\n", name, pk, sk) *)
Definition serialize_key (name pk sk : text) : text :=
  s_hdr ++ [c_nl] ++ s_name ++ s_sp_eq_sp ++ name ++ [c_nl]
        ++ s_pub ++ s_sp_eq_sp ++ pk ++ [c_nl]
        ++ s_priv ++ s_sp_eq_sp ++ sk ++ [c_nl].

(* ---------- parse_config ---------- *)
(* the five mutable locals of parse_config *)
Record pstate := mk_pstate {
  st_keys  : list entry;        (* keys *)
  st_name  : option text;       (* key_name *)
  st_pub   : option text;       (* key_public *)
  st_priv  : option text;       (* key_private *)
  st_found : bool               (* key_found *)
}.

Definition init_state : pstate := mk_pstate [] None None None false.

Section Parser.
  Variable pk_ok : text -> bool.   (* EncodedPk::try_from(s).is_ok() *)
  Variable sk_ok : text -> bool.   (* EncodedSk::try_from(s).is_ok() *)

  (* one iteration of the [for line in config.lines()] body, on the cleaned line *)
  Definition step (st : pstate) (cl : text) : outcome perr pstate :=
    if starts_with s_hdr cl then
      if st_found st then
        match st_name st with
        | None => Err (ParseConfig KeyMustHaveName)
        | Some _ =>
          match st_pub st with
          | None => Err (ParseConfig KeyMustHavePublicKey)
          | Some _ =>
              obind (add_key (st_keys st) (st_name st) (st_pub st) (st_priv st)) (fun keys' =>
              Ok (mk_pstate keys' None None None true))
          end
        end
      else Ok (mk_pstate (st_keys st) (st_name st) (st_pub st) (st_priv st) true)
    else if starts_with s_name cl then
      if negb (st_found st) then Err (ParseConfig NameOutsideSection)
      else if is_some (st_name st) then Err (ParseConfig DuplicateName)
      else match split_once_eq cl with
           | None => Err (ParseConfig NameMustBeSet)
           | Some (_, n) =>
               let name := trim n in
               if negb (valid_key_name name) then Err (ParseConfig InvalidName)
               else Ok (mk_pstate (st_keys st) (Some name) (st_pub st) (st_priv st) (st_found st))
           end
    else if starts_with s_pub cl then
      if negb (st_found st) then Err (ParseConfig PublicKeyOutsideSection)
      else if is_some (st_pub st) then Err (ParseConfig DuplicatePublicKey)
      else match split_once_eq cl with
           | None => Err (ParseConfig PublicKeyMustBeSet)
           | Some (_, pk) =>
               let pubkey := trim pk in
               if negb (pk_ok pubkey) then Err (ParseConfig MalformedPublicKey)
               else Ok (mk_pstate (st_keys st) (st_name st) (Some pubkey) (st_priv st) (st_found st))
           end
    else if starts_with s_priv cl then
      if negb (st_found st) then Err (ParseConfig PrivateKeyOutsideSection)
      else if is_some (st_priv st) then Err (ParseConfig DuplicatePrivateKey)
      else match split_once_eq cl with
           | None => Err (ParseConfig PrivateKeyMustBeSet)
           | Some (_, sk) =>
               let seckey := trim sk in
               if negb (sk_ok seckey) then Err (ParseConfig MalformedPrivateKey)
               else Ok (mk_pstate (st_keys st) (st_name st) (st_pub st) (Some seckey) (st_found st))
           end
    else if starts_with [c_hash] cl || is_empty cl then Ok st
    else Err (ParseConfig InvalidData).

  (* the for loop over the (raw) lines *)
  Fixpoint run (st : pstate) (ls : list text) : outcome perr pstate :=
    match ls with
    | [] => Ok st
    | l :: rest => obind (step st (clean l)) (fun st' => run st' rest)
    end.

  (* the code after the loop *)
  Definition finish (st : pstate) : outcome perr (list entry) :=
    if negb (st_found st) then Err (ParseConfig NoKeysFound)
    else add_key (st_keys st) (st_name st) (st_pub st) (st_priv st).

  Definition parse_config (config : text) : outcome perr (list entry) :=
    obind (run init_state (lines config)) finish.
End Parser.
