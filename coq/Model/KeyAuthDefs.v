(* Model/KeyAuthDefs.v — vocabulary of the key-mode authenticity theorem (Proofs/KeyAuth.v): honest key
   files, the list GL of all AEAD seals that occur in them, the AEAD opens and hash inputs of one
   key_decrypt run on an arbitrary offered byte string.  Definitions only. *)
From Kestrel Require Import Bytes Outcome IO IOFacts Prims.
From Kestrel.gen Require Import Extracted.
From Kestrel.Model Require Import AeadWrap Chunks Noise NoiseSpec Files ChunksSpec CombineDefs.
Local Open Scope N_scope.

(* an honest key-mode file is determined by: the sender's static private key, the sender's ephemeral
   private key, the recipient's PUBLIC key, the payload key and the chunk list *)
Record hfile := {
  hf_s : bytes;               (* sender static private key; public key = dh_pub s *)
  hf_e : bytes;               (* ephemeral private key;     public key = dh_pub e *)
  hf_R : bytes;               (* recipient public key *)
  hf_pk : bytes;              (* payload key *)
  hf_chunks : list bytes;     (* plaintext chunks *)
}.

(* one AEAD seal with its key: (key, Noise nonce counter, associated data, ciphertext ++ tag); every AEAD call of
   key mode goes through chapoly_{en,de}crypt_noise, whose nonce argument is this u64 counter *)
Definition seal_entry : Type := bytes * N * bytes * bytes.

Section Defs.
Variable P : prims.

(* h after MixHash(prologue) *)
Definition ka_h1 : bytes := mixh P nx_h0 x_prologue.

(* ---- the values of an honest file's handshake (sender side, closed form noise_encrypt_spec) ---- *)
Definition hf_spk (f : hfile) : bytes := dh_pub P (hf_s f).
Definition hf_epk (f : hfile) : bytes := dh_pub P (hf_e f).
Definition hf_dh1 (f : hfile) : bytes := p_dh P (hf_e f) (hf_R f).
Definition hf_dh2 (f : hfile) : bytes := p_dh P (hf_s f) (hf_R f).
Definition hf_h2 (f : hfile) : bytes := mixh P ka_h1 (hf_R f).
Definition hf_h3 (f : hfile) : bytes := mixh P (hf_h2 f) (hf_epk f).
Definition hf_k1 (f : hfile) : bytes := hs_k1 P (hf_dh1 f).
Definition hf_c1 (f : hfile) : bytes := p_seal P (hf_k1 f) (noise_nonce 0) (hf_h3 f) (hf_spk f).
Definition hf_h4 (f : hfile) : bytes := mixh P (hf_h3 f) (hf_c1 f).
Definition hf_k2 (f : hfile) : bytes := hs_k2 P (hf_dh1 f) (hf_dh2 f).
Definition hf_c2 (f : hfile) : bytes := p_seal P (hf_k2 f) (noise_nonce 0) (hf_h4 f) (hf_pk f).
Definition hf_hh (f : hfile) : bytes := mixh P (hf_h4 f) (hf_c2 f).
Definition hf_msg (f : hfile) : bytes := hf_epk f ++ hf_c1 f ++ hf_c2 f.
Definition hf_fk (f : hfile) : bytes := file_key P (hf_pk f) (hf_hh f).

(* the bytes of the file: prologue, ephemeral public key, encrypted static key, encrypted payload key, chunk stream *)
Definition hf_file (f : hfile) : bytes := spec_key_file P (hf_msg f) (hf_hh f) (hf_pk f) (hf_chunks f).

(* all AEAD seals of one honest file, with their keys: the two handshake seals and the chunk seals *)
Definition keyed (key : bytes) (q : N * bytes * bytes) : seal_entry := (key, fst (fst q), snd (fst q), snd q).
Definition hf_seals (f : hfile) : list seal_entry :=
  (hf_k1 f, 0, hf_h3 f, hf_c1 f) ::
  (hf_k2 f, 0, hf_h4 f, hf_c2 f) ::
  map (keyed (hf_fk f)) (seal_log_from P (hf_fk f) [] 0 (hf_chunks f)).
(* GL: all seals of all honest files *)
Definition all_seals (files : list hfile) : list seal_entry := flat_map hf_seals files.

(* ---- the values of one recipient-side handshake run (closed form noise_decrypt_spec) on the 128-byte message msg ---- *)
Definition run_re (msg : bytes) : bytes := firstn 32 msg.
Definition run_c1 (msg : bytes) : bytes := firstn 48 (skipn 32 msg).
Definition run_c2 (msg : bytes) : bytes := skipn 80 msg.
Definition run_h2 (rpk : bytes) : bytes := mixh P ka_h1 rpk.
Definition run_h3 (rpk msg : bytes) : bytes := mixh P (run_h2 rpk) (run_re msg).
Definition run_h4 (rpk msg : bytes) : bytes := mixh P (run_h3 rpk msg) (run_c1 msg).
Definition run_dh1 (r msg : bytes) : bytes := p_dh P r (run_re msg).
Definition run_k1 (r msg : bytes) : bytes := hs_k1 P (run_dh1 r msg).
Definition run_k2 (r msg rs : bytes) : bytes := hs_k2 P (run_dh1 r msg) (p_dh P r rs).

(* the handshake message key_decrypt reads from the offered bytes F: the 128 bytes after the 4-byte prologue *)
Definition offered_msg (F : bytes) : bytes := firstn 128 (skipn 4 F).

(* P1a: the (at most two) AEAD opens of the handshake, under the conditions under which noise_decrypt_spec
   performs them: if one SUCCEEDS, it opened a seal of GL (same key, counter, associated data, ciphertext) *)
Definition hs_opens_honest (files : list hfile) (r rpk msg : bytes) : Prop :=
  (forall rs,
     all_zero (run_dh1 r msg) = false ->
     p_open P (run_k1 r msg) (noise_nonce 0) (run_h3 rpk msg) (run_c1 msg) = Some rs ->
     In (run_k1 r msg, 0, run_h3 rpk msg, run_c1 msg) (all_seals files)) /\
  (forall rs pl,
     all_zero (run_dh1 r msg) = false ->
     p_open P (run_k1 r msg) (noise_nonce 0) (run_h3 rpk msg) (run_c1 msg) = Some rs ->
     length rs = 32%nat -> all_zero (p_dh P r rs) = false ->
     p_open P (run_k2 r msg rs) (noise_nonce 0) (run_h4 rpk msg) (run_c2 msg) = Some pl ->
     In (run_k2 r msg rs, 0, run_h4 rpk msg, run_c2 msg) (all_seals files)).

(* P1b: every successful AEAD open in an event log opened a seal of GL *)
Definition log_opens_honest (files : list hfile) (lg : list event) : Prop :=
  forall key n ad ct pt, In (EvOpen key n ad ct (Some pt)) lg -> In (key, n, ad, ct) (all_seals files).

(* ... stated for the NEW events of a run from s to s' (the final log is new events on top of the initial log) *)
Definition run_opens_honest (files : list hfile) (s s' : io) : Prop :=
  forall d, log s' = d ++ log s -> log_opens_honest files d.

(* P2a: the hash inputs whose images are compared by the argument: per handshake the inputs of MixHash(rs),
   MixHash(e), MixHash(encrypted static key), for the run and for every honest file.  (The inputs of
   MixHash(prologue) and MixHash(encrypted payload) are not needed.) *)
Definition hf_hash_inputs (f : hfile) : list bytes :=
  [ka_h1 ++ hf_R f; hf_h2 f ++ hf_epk f; hf_h3 f ++ hf_c1 f].
Definition run_hash_inputs (rpk msg : bytes) : list bytes :=
  [ka_h1 ++ rpk; run_h2 rpk ++ run_re msg; run_h3 rpk msg ++ run_c1 msg].
Definition hash_inputs (files : list hfile) (rpk msg : bytes) : list bytes :=
  run_hash_inputs rpk msg ++ flat_map hf_hash_inputs files.
Definition hash_inj_on (L : list bytes) : Prop :=
  forall a b, In a L -> In b L -> p_hash P a = p_hash P b -> a = b.

(* P2b: the two distinctness facts about honest files that the argument uses, in their weakest form *)
(* two honest files with the same ephemeral PUBLIC key and the same recipient have the same first handshake key
   (trivially true if the ephemeral public keys of the honest files are pairwise distinct) *)
Definition eph_consistent (files : list hfile) : Prop :=
  forall a b, In a files -> In b files -> hf_epk a = hf_epk b -> hf_R a = hf_R b -> hf_k1 a = hf_k1 b.
(* two honest files with the same file key have the same chunks (true if the file keys are pairwise distinct) *)
Definition fk_consistent (files : list hfile) : Prop :=
  forall a b, In a files -> In b files -> hf_fk a = hf_fk b -> hf_chunks a = hf_chunks b.
(* the NoDup-style premises that imply the two facts above: pairwise distinct ephemeral public keys, pairwise
   distinct file keys *)
Definition keys_distinct (files : list hfile) : Prop :=
  NoDup (map hf_epk files) /\ NoDup (map hf_fk files).

(* the conclusion: the run on state s was rejected without output, or it is attributable to ONE honest file f *)
Definition attributed_to (f : hfile) (rpk : bytes) (s s' : io) (res : outcome derr bytes) : Prop :=
  (exists rest, r_data (rdr s) = x_prologue ++ hf_msg f ++ rest) /\ length (hf_msg f) = 128%nat /\
  firstn 132 (r_data (rdr s)) = firstn 132 (hf_file f) /\
  rpk = hf_R f /\
  (exists written more, w_out (wtr s') = w_out (wtr s) ++ written /\ written ++ more = concat (hf_chunks f)) /\
  (forall spk, res = Ok spk -> spk = hf_spk f /\ w_out (wtr s') = w_out (wtr s) ++ concat (hf_chunks f)).
Definition rejected_no_output (s s' : io) (res : outcome derr bytes) : Prop :=
  (forall spk, res <> Ok spk) /\ w_out (wtr s') = w_out (wtr s).

End Defs.

(* ---- chunk streams whose 8-byte per-record counter field holds arbitrary bytes (C03_counter_advisory) ---- *)
Section Ctr.
Variable P : prims.
(* one record with counter FIELD ctr (any bytes) at nonce position n *)
Definition record_ctr (key aad ctr : bytes) (n : N) (is_last : bool) (c : bytes) : bytes :=
  ctr ++ be32 (flag is_last) ++ be32 (N.of_nat (length c))
  ++ p_seal P key (noise_nonce n) (rec_ad aad is_last c) c.
(* the stream of (counter field, chunk) pairs; nonce positions n, n+1, ... as in spec_chunks_from *)
Fixpoint spec_ctr_from (key aad : bytes) (n : N) (pairs : list (bytes * bytes)) : bytes :=
  match pairs with
  | [] => []
  | [p] => record_ctr key aad (fst p) n true (snd p)
  | p :: rest => record_ctr key aad (fst p) n false (snd p) ++ spec_ctr_from key aad (n + 1) rest
  end.
(* the honest counter fields *)
Fixpoint honest_ctrs (n : N) (chunks : list bytes) : list (bytes * bytes) :=
  match chunks with
  | [] => []
  | c :: rest => (be64 n, c) :: honest_ctrs (n + 1) rest
  end.
Definition ctr_pair_ok (cs : N) (p : bytes * bytes) : Prop := length (fst p) = 8%nat /\ chunk_ok cs (snd p).
End Ctr.

(* ---- the I/O state with its event log replaced (Proofs/LogIndep.v: runs do not depend on the log) ---- *)
Definition relog (s : io) (l : list event) : io := {| rdr := rdr s; wtr := wtr s; log := l |}.
(* a computation that never inspects the log: started with any other log l it gives the same result and the same
   final reader / writer, and appends the same new events d *)
Definition log_indep {E A} (m : M E A) : Prop :=
  forall s l r s', m s = (r, s') ->
    exists d, log s' = d ++ log s /\ m (relog s l) = (r, relog s' (d ++ l)).
(* the AEAD opens among the events have associated data of n bytes *)
Definition open_ad_len (n : nat) (e : event) : Prop :=
  match e with EvOpen _ _ ad _ _ => length ad = n | _ => True end.
