(* Model/Chunks.v — encrypt.rs::encrypt_chunks and decrypt.rs::decrypt_chunks over scripted I/O
   (L1, faithful), and the L0 format function they are proved against. *)
From Kestrel Require Import Bytes Outcome IO Prims.
From Kestrel.Model Require Import AeadWrap.
Local Open Scope N_scope.

(* mirrors kestrel_crypto::errors::{EncryptError, DecryptError}; payload strings dropped,
   io::Error reduced to its kind *)
Inductive eerr := EUnexpectedData | EIORead (e : ioerr) | EIOWrite (e : ioerr) | EOther.
Inductive derr := DChunkLen | DChaPolyDecrypt | DUnexpectedData | DIORead (e : ioerr) | DIOWrite (e : ioerr)
                | DOtherFormat       (* "Invalid file format." / unsupported format *)
                | DOtherWrongMode    (* password file given to key decrypt and vice versa *)
                | DOtherNoise (e : noise_err).  (* noise_decrypt error text *)

(* decrypt.rs::read_err maps UnexpectedEof to a plain Other io error *)
Definition d_read_err (e : ioerr) : derr :=
  match e with UnexpectedEof => DIORead OtherErr | _ => DIORead e end.

Section Chunks.
Variable P : prims.

Definition M (E A : Type) := io -> outcome E A * io.
Definition ret {E A} (a : A) : M E A := fun s => (Ok a, s).
Definition fail {E A} (e : E) : M E A := fun s => (Err e, s).
Definition bind {E A B} (m : M E A) (f : A -> M E B) : M E B :=
  fun s => match m s with
           | (Ok a, s') => f a s'
           | (Err e, s') => (Err e, s')
           | (Panic w, s') => (Panic w, s')
           | (OutOfFuel, s') => (OutOfFuel, s')
           end.
Definition lift {E A} (o : outcome E A) : M E A := fun s => (o, s).
Definition emit {E} (e : event) : M E unit := fun s => (Ok tt, with_log s e).

Notation "x <- m ;; k" := (bind m (fun x => k)) (at level 61, m at next level, right associativity).
Notation "m ;;; k" := (bind m (fun _ => k)) (at level 61, right associativity).

Definition m_read_exact {E} (rerr : ioerr -> E) (n : nat) : M E bytes :=
  fun s => match read_exact n s with
           | (Some (inr b), s') => (Ok b, s')
           | (Some (inl e), s') => (Err (rerr e), s')
           | (None, s') => (OutOfFuel, s')
           end.
Definition m_read {E} (rerr : ioerr -> E) (n : nat) : M E bytes :=
  fun s => match io_read n s with
           | (inr b, s') => (Ok b, s')
           | (inl e, s') => (Err (rerr e), s')
           end.
Definition m_write_all {E} (werr : ioerr -> E) (buf : bytes) : M E unit :=
  fun s => match write_all buf s with
           | (Some None, s') => (Ok tt, s')
           | (Some (Some e), s') => (Err (werr e), s')
           | (None, s') => (OutOfFuel, s')
           end.
Definition m_flush {E} (werr : ioerr -> E) : M E unit :=
  fun s => match io_flush s with
           | (None, s') => (Ok tt, s')
           | (Some e, s') => (Err (werr e), s')
           end.

(* AEAD calls, logged *)
Definition m_open {E} (aerr : E) (key : bytes) (n : N) (ad ct : bytes) : M E bytes :=
  fun s => match chapoly_decrypt_noise P key n ad ct with
           | Ok pt => (Ok pt, with_log s (EvOpen key n ad ct (Some pt)))
           | Err _ => (Err aerr, with_log s (EvOpen key n ad ct None))
           | Panic w => (Panic w, s)
           | OutOfFuel => (OutOfFuel, s)
           end.
Definition m_seal {E} (key : bytes) (n : N) (ad pt : bytes) : M E bytes :=
  fun s => match chapoly_encrypt_noise P key n ad pt with
           | Ok ct => (Ok ct, with_log s (EvSeal key n ad pt))
           | Err _ => (Panic PUnwrap, s)     (* chapoly_encrypt_* has no error value *)
           | Panic w => (Panic w, s)
           | OutOfFuel => (OutOfFuel, s)
           end.

(* ---------- decrypt_chunks ---------- *)
Definition hdr_last (h : bytes) : bytes := firstn 4 (skipn 8 h).
Definition hdr_len (h : bytes) : bytes := skipn 12 h.

Fixpoint decrypt_chunks_loop (fuel : nat) (key aad : bytes) (cs : N) (n : N) : M derr unit :=
  match fuel with
  | O => lift OutOfFuel
  | S f =>
    hdr <- m_read_exact d_read_err 16 ;;
    let lastb := hdr_last hdr in
    let lenb := hdr_len hdr in
    let len := de32 lenb in
    if cs <? len then fail DChunkLen else
    ct <- m_read_exact d_read_err (N.to_nat len + 16) ;;
    let ad := aad ++ lastb ++ lenb in
    pt <- m_open DChaPolyDecrypt key n ad ct ;;
    if de32 lastb =? 1 then
      chk <- m_read d_read_err 1 ;;
      match chk with
      | _ :: _ => fail DUnexpectedData
      | [] => m_write_all DIOWrite pt ;;; m_flush DIOWrite ;;; ret tt
      end
    else
      m_write_all DIOWrite pt ;;; m_flush DIOWrite ;;;
      decrypt_chunks_loop f key aad cs (n + 1)      (* u64 += 1: overflow needs 2^64 chunks; see DESIGN *)
  end.

Definition decrypt_chunks (key aad : bytes) (cs : N) : M derr unit :=
  fun s => decrypt_chunks_loop (S (length (r_data (rdr s)))) key aad cs 0 s.

(* ---------- encrypt_chunks ---------- *)
Fixpoint encrypt_chunks_loop (fuel : nat) (key aad : bytes) (cs : N) (n : N) (prev : bytes) (done : bool)
  : M eerr unit :=
  match fuel with
  | O => lift OutOfFuel
  | S f =>
    cur <- m_read EIORead (N.to_nat cs) ;;
    let nonempty := match cur with [] => false | _ => true end in
    if nonempty && done then fail EUnexpectedData else
    let done := done || negb nonempty in
    let flagb := be32 (if done then 1 else 0) in
    let lenb := be32 (N.of_nat (length prev)) in      (* `prev_read as u32` *)
    let ad := aad ++ flagb ++ lenb in
    ct <- m_seal key n ad prev ;;
    m_write_all EIOWrite (be64 n ++ flagb ++ lenb) ;;;
    m_write_all EIOWrite ct ;;;
    m_flush EIOWrite ;;;
    if done then ret tt else encrypt_chunks_loop f key aad cs (n + 1) cur done
  end.

Definition encrypt_chunks (key aad : bytes) (cs : N) : M eerr unit :=
  fun s =>
    (first <- m_read EIORead (N.to_nat cs) ;;
     let done := match first with [] => true | _ => false end in
     encrypt_chunks_loop (length (r_data (rdr s)) + 2) key aad cs 0 first done) s.

(* ---------- L0: the documented chunk format as a function of the chunk list ---------- *)
Definition flag (is_last : bool) : N := if is_last then 1 else 0.
Definition rec_ad (aad : bytes) (is_last : bool) (c : bytes) : bytes :=
  aad ++ be32 (flag is_last) ++ be32 (N.of_nat (length c)).
Definition record (key aad : bytes) (n : N) (is_last : bool) (c : bytes) : bytes :=
  be64 n ++ be32 (flag is_last) ++ be32 (N.of_nat (length c))
  ++ p_seal P key (noise_nonce n) (rec_ad aad is_last c) c.

Fixpoint spec_chunks_from (key aad : bytes) (n : N) (chunks : list bytes) : bytes :=
  match chunks with
  | [] => []
  | [c] => record key aad n true c
  | c :: rest => record key aad n false c ++ spec_chunks_from key aad (n + 1) rest
  end.
Definition spec_chunks key aad chunks := spec_chunks_from key aad 0 chunks.

(* the honest AEAD log of a chunk list: (nonce counter, ad, ciphertext) *)
Fixpoint seal_log_from (key aad : bytes) (n : N) (chunks : list bytes) : list (N * bytes * bytes) :=
  match chunks with
  | [] => []
  | [c] => [(n, rec_ad aad true c, p_seal P key (noise_nonce n) (rec_ad aad true c) c)]
  | c :: rest => (n, rec_ad aad false c, p_seal P key (noise_nonce n) (rec_ad aad false c) c)
                 :: seal_log_from key aad (n + 1) rest
  end.

Definition chunk_ok (cs : N) (c : bytes) : Prop := N.of_nat (length c) <= cs.

(* the chunking the encryptor produces from the sequence of non-empty read results:
   an empty input gives one empty chunk *)
Definition chunks_of_reads (reads : list bytes) : list bytes :=
  match reads with [] => [[]] | _ => reads end.

End Chunks.
