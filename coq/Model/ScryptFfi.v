(* Model/ScryptFfi.v — a tiny model of the exported C function  src/ffi/src/lib.rs::scrypt.
   Definitions only; no proofs.

     pub unsafe extern "C" fn scrypt(password, password_len, salt, salt_len, n: c_uint, r: c_uint, p: c_uint,
                                     derived_key: *mut c_uchar, dk_len: size_t) {
         let kpass  = std::slice::from_raw_parts(password, password_len);
         let ksalt  = std::slice::from_raw_parts(salt, salt_len);
         let kderived_key = std::slice::from_raw_parts_mut(derived_key, dk_len);
         let dk = ktl_scrypt(kpass, ksalt, n, r, p, kderived_key.len());
         kderived_key.copy_from_slice(dk.as_slice());
     }

   What is modelled: an ABSTRACT flat memory (address -> byte value, a total function N -> N), a region is a
   pair (pointer, length); the function reads the password and salt regions, calls the library function
   (src/crypto/src/lib.rs::scrypt, which widens the three u32 parameters to usize — the identity on N — and calls
   scrypt.rs::scrypt = Model/ScryptImpl.scrypt) with dk_len = the length of the derived_key region, and
   copy_from_slice's the result into that region (copy_from_slice panics when the two lengths differ:
   modelled explicitly as Panic PSliceIndex).  A panic leaves the memory as it was (nothing has been written yet).

   What is NOT modelled: pointer validity, alignment, aliasing, address wrap-around, the unwinding of a panic across
   the extern "C" boundary (the process aborts), i.e. everything `unsafe` about from_raw_parts[_mut].  The harness
   observes the real cdylib with guard bytes around the output buffer instead. *)
From Kestrel Require Import Bytes Outcome.
From Kestrel.Model Require ScryptImpl.
Local Open Scope N_scope.

Definition mem : Type := N -> N.

(* the bytes of the region [ptr, ptr + len) *)
Definition mem_load (m : mem) (ptr len : N) : bytes :=
  map (fun i => m (ptr + N.of_nat i)) (seq 0 (N.to_nat len)).

(* memory after writing bs at ptr: addresses ptr .. ptr + |bs| - 1 change, all others keep their value *)
Definition mem_store (m : mem) (ptr : N) (bs : bytes) : mem :=
  fun a => if (ptr <=? a) && (a <? ptr + N.of_nat (length bs))
           then nth (N.to_nat (a - ptr)) bs 0 else m a.

(* dst.copy_from_slice(src) on the region (ptr, len): panics unless len = |src| *)
Definition copy_from_slice (m : mem) (ptr len : N) (src : bytes) : outcome unit mem :=
  if N.of_nat (length src) =? len then Ok (mem_store m ptr src) else Panic PSliceIndex.

Section WithPBKDF2.
  Variable pbkdf2 : bytes -> bytes -> nat -> bytes.

  (* src/crypto/src/lib.rs::scrypt: n as usize, r as usize, p as usize *)
  Definition lib_scrypt (password salt : bytes) (n r p : N) (dk_len : N) : outcome unit bytes :=
    ScryptImpl.scrypt pbkdf2 password salt n r p dk_len.

  (* the exported function: memory before -> outcome; Ok carries the memory after the call *)
  Definition ffi_scrypt (m : mem) (password password_len salt salt_len : N) (n r p : N)
                        (derived_key dk_len : N) : outcome unit mem :=
    let kpass := mem_load m password password_len in
    let ksalt := mem_load m salt salt_len in
    obind (lib_scrypt kpass ksalt n r p dk_len) (fun dk =>
    copy_from_slice m derived_key dk_len dk).

  (* the memory a caller observes afterwards: unchanged when the call panicked *)
  Definition ffi_scrypt_mem (m : mem) (password password_len salt salt_len n r p derived_key dk_len : N) : mem :=
    match ffi_scrypt m password password_len salt salt_len n r p derived_key dk_len with
    | Ok m' => m'
    | _ => m
    end.
End WithPBKDF2.
