(* Model/Keyring.v — the key-encoding half of cli/src/keyring.rs
     EncodedPk::try_from, EncodedSk::try_from, EncodedSk::as_bytes,
     Keyring::{lock_private_key, unlock_private_key, encode_public_key, decode_public_key}
   and the computation of cli/src/commands.rs::{gen_key, change_pass, extract_pub}
   (not their terminal / file handling).  Definitions only; the theorems are in
   Proofs/KeyringFacts.v, known answers in Model/KeyringKeysKat.v.

   Representation.  A [&str]/[String] is a [text] = [list N] of character codes (as in
   Model/KeyringText.v), a [&[u8]]/[Vec<u8>] is [bytes].  Base64 is Spec/Base64.v
   ([b64_decode s = None] is [Err(_)] of Base64::decode_to_vec(s, None);
   Base64::encode_to_string never fails, see the comment at [b64_encode]).
   Primitives come from a [prims] record; the lib.rs wrappers with their panics from
   Model/AeadWrap.v.  Every Rust [expect]/[unwrap]/slice expression/[copy_from_slice] that can
   panic is an explicit [Panic]; the theorems show which of them are unreachable.

   Types with an invariant.  [PrivateKey]/[PublicKey] values hold 32 bytes by construction
   (try_from checks, generate() draws 32) and [salt : [u8; 32]] is an array type.  The model takes
   plain [bytes] for them; where the Rust code converts ([try_into().unwrap()],
   [PrivateKey::try_from(..).expect], [copy_from_slice]) the conversion is modelled and panics
   on a wrong length, so a caller of the model with a wrong length sees the panic the Rust
   conversion in front of that call would raise. *)
From Kestrel Require Import Bytes Outcome Prims.
From Kestrel.gen Require Import Extracted.
From Kestrel.Spec Require Import Base64.
From Kestrel.Model Require Import AeadWrap KeyringText.
Local Open Scope N_scope.

(* errors::KeyringError, without ParseConfig (that one is [perr] in KeyringText.v) *)
Inductive kerr :=
| PublicKeyChecksum | PublicKeyLength | PrivateKeyDecrypt | PrivateKeyLength | PrivateKeyFormat.

(* ---------- EncodedPk::try_from(s).is_ok() / EncodedSk::try_from(s).is_ok() ----------
   match Base64::decode_to_vec(s, None) { Ok(b) => b.len() == 36 (resp. PRIVATE_KEY_CT_LEN), Err(_) => false }
   The 36 is the literal tested by EncodedPk::try_from (x_kr_encoded_pk_try_len), a different literal from
   the size of encode_public_key's buffer (x_kr_encoded_pk_len); both are read from the source. *)
Definition pk_string_ok (s : text) : bool :=
  match b64_decode s with
  | Some b => Nat.eqb (length b) (N.to_nat x_kr_encoded_pk_try_len)
  | None => false
  end.
Definition sk_string_ok (s : text) : bool :=
  match b64_decode s with
  | Some b => Nat.eqb (length b) (N.to_nat x_kr_private_key_ct_len)
  | None => false
  end.

(* ---------- slice expressions ---------- *)
(* &l[a..b] : panics unless a <= b <= l.len() *)
Definition slice {E} (l : bytes) (a b : nat) : outcome E bytes :=
  if (Nat.leb a b && Nat.leb b (length l))%bool then Ok (firstn (b - a) (skipn a l))
  else Panic PSliceIndex.
(* &l[a..] *)
Definition slice_from {E} (l : bytes) (a : nat) : outcome E bytes := slice l a (length l).
(* dst[a..b].copy_from_slice(src) : the range must be valid and src.len() == b - a;
   returns the new value of dst *)
Definition copy_into {E} (dst : bytes) (a b : nat) (src : bytes) : outcome E bytes :=
  if (Nat.leb a b && Nat.leb b (length dst))%bool then
    if Nat.eqb (length src) (b - a) then Ok (firstn a dst ++ src ++ skipn b dst)
    else Panic PSliceIndex
  else Panic PSliceIndex.

Section Keyring.
Variable P : prims.

(* the scrypt call of lock/unlock: kestrel_crypto::scrypt(password, salt, SCRYPT_N, SCRYPT_R, SCRYPT_P, 32) *)
Definition kr_scrypt (len : N) (pw salt : bytes) : bytes :=
  p_scrypt P pw salt x_kr_scrypt_n x_kr_scrypt_r x_kr_scrypt_p (N.to_nat len).

(* chapoly_encrypt_ietf returns Vec<u8> in Rust (its failures are expect-panics); the wrapper model
   has result type [outcome chapoly_err _] but never produces [Err]; this adapter only changes
   the type ([Err] arm unreachable, mapped to the panic a failed expect would be). *)
Definition enc_result {A} (m : outcome chapoly_err A) : outcome kerr A :=
  match m with
  | Ok a => Ok a
  | Err _ => Panic PUnwrap
  | Panic w => Panic w
  | OutOfFuel => OutOfFuel
  end.

(* ---------- lock_private_key(private_key, password, salt) -> EncodedSk ----------
   encoded_bytes = VERSION ++ salt ++ chapoly_encrypt_ietf(key, [0;12], sk, aad = VERSION);
   Base64::encode_to_string(&encoded_bytes).expect(..)  (never fails). *)
Definition lock_private_key (sk pw salt : bytes) : outcome kerr text :=
  let key := kr_scrypt x_kr_lock_scrypt_len pw salt in
  let nonce := zeros (N.to_nat x_kr_lock_nonce_len) in
  obind (enc_result (chapoly_encrypt_ietf P key nonce sk x_kr_private_key_version)) (fun ciphertext =>
  Ok (b64_encode (x_kr_private_key_version ++ salt ++ ciphertext))).

(* ---------- EncodedSk::as_bytes ----------
   Base64::decode_to_vec(&self.0, None).expect("Invalid format for encoded Private Key") *)
Definition sk_as_bytes (s : text) : outcome kerr bytes :=
  match b64_decode s with Some b => Ok b | None => Panic PUnwrap end.

(* PrivateKey::try_from(raw).expect(..) / PublicKey::try_from(raw).expect(..) / .unwrap() *)
Definition key32_expect {E} (raw : bytes) : outcome E bytes :=
  if Nat.eqb (length raw) 32 then Ok raw else Panic PUnwrap.

(* ---------- unlock_private_key(locked_sk, password) -> Result<PrivateKey, KeyringError> ----------
   The bounds of the three slice expressions are the literals of the SOURCE, read on every run
   (gen/Extracted.v; today [..4], [4..36], [36..84]; pinned by C15_slice_constants). *)
Definition ul_version_end : nat := N.to_nat x_kr_unlock_version_end.
Definition ul_salt_lo : nat := N.to_nat x_kr_unlock_salt_lo.
Definition ul_salt_hi : nat := N.to_nat x_kr_unlock_salt_hi.
Definition ul_ct_lo : nat := N.to_nat x_kr_unlock_ct_lo.
Definition ul_ct_hi : nat := N.to_nat x_kr_unlock_ct_hi.
Definition unlock_private_key (locked : text) (pw : bytes) : outcome kerr bytes :=
  obind (sk_as_bytes locked) (fun key_bytes =>
  if negb (Nat.eqb (length key_bytes) (N.to_nat x_kr_private_key_ct_len)) then Err PrivateKeyLength else
  obind (slice key_bytes 0 ul_version_end) (fun version_aad =>       (* &key_bytes[..4] *)
  (* version_aad != PRIVATE_KEY_VERSION : slice against array, length and contents *)
  if negb (bytes_eqb version_aad x_kr_private_key_version) then Err PrivateKeyFormat else
  obind (slice key_bytes ul_salt_lo ul_salt_hi) (fun salt =>         (* &key_bytes[4..36] *)
  obind (slice key_bytes ul_ct_lo ul_ct_hi) (fun ciphertext =>       (* &key_bytes[36..84] *)
  let key := kr_scrypt x_kr_unlock_scrypt_len pw salt in
  let nonce := zeros (N.to_nat x_kr_unlock_nonce_len) in
  obind (omap_err (fun _ => PrivateKeyDecrypt)
           (chapoly_decrypt_ietf P key nonce ciphertext version_aad)) (fun plaintext =>
  key32_expect plaintext))))).   (* PrivateKey::try_from(plaintext.as_slice()).expect(..) *)

(* ---------- encode_public_key(public_key) -> EncodedPk ----------
   let checksum = sha256(pk); let mut encoded = [0u8; 36];
   encoded[..32].copy_from_slice(pk); encoded[32..].copy_from_slice(&checksum[..4]);
   Base64::encode_to_string(&encoded).expect(..) *)
Definition encode_public_key (pk : bytes) : outcome kerr text :=
  let checksum := p_hash P pk in
  let encoded := zeros (N.to_nat x_kr_encoded_pk_len) in
  obind (copy_into encoded 0 32 pk) (fun encoded =>
  obind (slice checksum 0 4) (fun ck4 =>
  obind (copy_into encoded 32 (length encoded) ck4) (fun encoded =>
  Ok (b64_encode encoded)))).

(* ---------- decode_public_key(encoded_pk) -> Result<PublicKey, KeyringError> ----------
   Slice bounds read from the source (gen/Extracted.v; today [..32], [32..], [..4]). *)
Definition dp_pk_end : nat := N.to_nat x_kr_decode_pk_end.
Definition dp_ck_start : nat := N.to_nat x_kr_decode_ck_start.
Definition dp_checksum_len : nat := N.to_nat x_kr_checksum_len.
Definition decode_public_key (e : text) : outcome kerr bytes :=
  match b64_decode e with
  | None => Panic PUnwrap                                           (* .expect("Public key decode failed") *)
  | Some enc =>
    if Nat.ltb (length enc) (N.to_nat x_kr_public_key_len) then Err PublicKeyLength else
    obind (slice enc 0 dp_pk_end) (fun pk =>                        (* &enc_pk_bytes[..32] *)
    obind (slice_from enc dp_ck_start) (fun checksum =>             (* &enc_pk_bytes[32..] *)
    obind (slice (p_hash P pk) 0 dp_checksum_len) (fun exp_checksum => (* &exp_checksum[..4] *)
    if negb (bytes_eqb checksum exp_checksum) then Err PublicKeyChecksum else
    key32_expect pk)))                                              (* PublicKey::try_from(pk).expect(..) *)
  end.

(* ---------- commands.rs: the key life cycle ---------- *)
(* what the three commands can fail with, apart from terminal / file errors *)
Inductive cmd_err :=
| CInvalidName            (* gen_key: "Name must be between 1 and 128 characters." *)
| CBadPrivateKey          (* EncodedSk::try_from(private_key) returned Err *)
| CKeyring (e : kerr)     (* `?` on a Result<_, KeyringError> *)
| CDh.                    (* `?` on to_public()'s DhError *)

(* PrivateKey::to_public:  let pk = x25519_derive_public(&self.key)?; PublicKey::try_from(pk).unwrap() *)
Definition to_public (sk : bytes) : outcome cmd_err bytes :=
  obind (omap_err (fun _ => CDh) (x25519_derive_public P sk)) (fun pk => key32_expect pk).

(* let salt: [u8; 32] = secure_random(32).try_into().unwrap(); *)
Definition salt32 (salt : bytes) : outcome cmd_err bytes :=
  if Nat.eqb (length salt) 32 then Ok salt else Panic PUnwrap.

(* gen_key: [name] is the trimmed line the user typed, [sk] = PrivateKey::generate() (32 random
   bytes), [pw] = pass.as_bytes(), [salt] = secure_random(32).  Result: key_config, the text of
   serialize_key.  (What is written is key_config, or "\n" ++ key_config when appending to an
   existing file / writing to a terminal.) *)
Definition gen_key_text (name : text) (sk pw salt : bytes) : outcome cmd_err text :=
  if negb (valid_key_name name) then Err CInvalidName else
  obind (to_public sk) (fun pk =>
  obind (salt32 salt) (fun salt =>
  obind (omap_err CKeyring (lock_private_key sk pw salt)) (fun encoded_private_key =>
  obind (omap_err CKeyring (encode_public_key pk)) (fun encoded_public_key =>
  Ok (serialize_key name encoded_public_key encoded_private_key))))).

(* change_pass, up to the new EncodedSk string *)
Definition change_pass_str (locked : text) (old_pw new_pw salt' : bytes) : outcome cmd_err text :=
  if negb (sk_string_ok locked) then Err CBadPrivateKey else          (* try_into().map_err(..)? *)
  obind (omap_err CKeyring (unlock_private_key locked old_pw)) (fun sk =>
  obind (salt32 salt') (fun salt =>
  omap_err CKeyring (lock_private_key sk new_pw salt))).

(* the line change_pass prints: format!("PrivateKey = {}", new_sk)  (preceded by "\n" on a terminal,
   followed by println's "\n") *)
Definition change_pass (locked : text) (old_pw new_pw salt' : bytes) : outcome cmd_err text :=
  obind (change_pass_str locked old_pw new_pw salt') (fun new_sk =>
  Ok (s_priv ++ s_sp_eq_sp ++ new_sk)).

(* the line extract_pub prints: "PublicKey = {}" *)
Definition extract_pub (locked : text) (pw : bytes) : outcome cmd_err text :=
  if negb (sk_string_ok locked) then Err CBadPrivateKey else
  obind (omap_err CKeyring (unlock_private_key locked pw)) (fun sk =>
  obind (to_public sk) (fun pk =>
  obind (omap_err CKeyring (encode_public_key pk)) (fun epk =>
  Ok (s_pub ++ s_sp_eq_sp ++ epk)))).

(* change-pass applied repeatedly: each step unlocks with the then-current password and
   re-locks under (new password, fresh salt).  Returns the string produced by every step. *)
Fixpoint change_pass_seq (locked : text) (cur_pw : bytes) (steps : list (bytes * bytes))
  : outcome cmd_err (list text) :=
  match steps with
  | [] => Ok []
  | (new_pw, salt') :: rest =>
    obind (change_pass_str locked cur_pw new_pw salt') (fun locked' =>
    obind (change_pass_seq locked' new_pw rest) (fun out => Ok (locked' :: out)))
  end.

(* ---------- specification-level names used by the theorems ---------- *)
(* the 32-byte key both lock and unlock derive *)
Definition kr_key (pw salt : bytes) : bytes :=
  p_scrypt P pw salt x_kr_scrypt_n x_kr_scrypt_r x_kr_scrypt_p 32.
(* the 84-byte binary form of a locked private key: version ++ salt ++ AEAD(key, 0^12, ad = version, sk) *)
Definition kr_blob (sk pw salt : bytes) : bytes :=
  x_kr_private_key_version ++ salt ++ p_seal P (kr_key pw salt) (zeros 12) x_kr_private_key_version sk.
(* the 36-byte binary form of an encoded public key *)
Definition pk_blob (pk : bytes) : bytes := pk ++ firstn 4 (p_hash P pk).

(* Byte-range facts about the primitives ([hash_ok]/[aead_ok] only speak about lengths): needed
   wherever a primitive's output goes through base64 and back.  Hypotheses of theorems; all three
   hold for the RFC instance (Proofs/KeyringFacts.v, [rfc_prims_bytes_ok]). *)
Record prims_bytes_ok : Prop := {
  hash_bytes_ok : forall m, bytes_ok (p_hash P m);
  seal_bytes_ok : forall k n ad m, bytes_ok m -> bytes_ok (p_seal P k n ad m);
  dh_bytes_ok : forall k u, bytes_ok (p_dh P k u);
}.

End Keyring.
