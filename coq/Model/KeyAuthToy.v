(* Model/KeyAuthToy.v — a concrete instance for the non-vacuity examples of Proofs/KeyAuthToy.v: the RFC
   SHA-256 / HMAC / HKDF / ChaCha20-Poly1305 specifications with a TOY Diffie-Hellman function (bytewise product
   mod 256, so that everything evaluates in seconds; the key-mode authenticity theorems use no property of DH
   beyond its 32-byte output length).  Definitions only. *)
From Kestrel Require Import Bytes Outcome IO Prims.
From Kestrel.gen Require Import Extracted.
From Kestrel.Model Require Import AeadWrap Chunks Noise NoiseSpec Files CombineDefs KeyAuthDefs.
From Kestrel.Spec Require Import Sha256 Hmac Hkdf ChaPoly.
Local Open Scope N_scope.

Definition toy_dh (k u : bytes) : bytes :=
  map (fun i => (nth i k 0 * nth i u 0) mod 256) (seq 0 32).
Definition toy_scrypt (pw salt : bytes) (n r p : N) (l : nat) : bytes := repeat 0 l.

Definition PT : prims :=
  {| p_hash := sha256; p_hmac := hmac_sha256; p_hkdf := hkdf; p_dh := toy_dh;
     p_seal := aead_seal; p_open := aead_open; p_scrypt := toy_scrypt |}.

(* recipient key pair *)
Definition toy_r : bytes := repeat 7 32.
Definition toy_R : bytes := dh_pub PT toy_r.

(* two honest files to the same recipient, different senders, ephemerals, payload keys, plaintexts *)
Definition toy_f1 : hfile :=
  {| hf_s := repeat 3 32; hf_e := repeat 5 32; hf_R := toy_R; hf_pk := repeat 11 32;
     hf_chunks := [[1; 2; 3]; [4; 5]] |}.
Definition toy_f2 : hfile :=
  {| hf_s := repeat 13 32; hf_e := repeat 15 32; hf_R := toy_R; hf_pk := repeat 17 32;
     hf_chunks := [[6; 7]] |}.

(* offered bytes: file 1 itself; and a splice: ephemeral key of file 1, everything else of file 2 *)
Definition toy_s1 : io := mk_io (hf_file PT toy_f1) [] [] [].
Definition toy_splice : bytes :=
  x_prologue ++ hf_epk PT toy_f1 ++ hf_c1 PT toy_f2 ++ hf_c2 PT toy_f2 ++
  spec_chunks PT (hf_fk PT toy_f2) [] (hf_chunks toy_f2).
Definition toy_s2 : io := mk_io toy_splice [] [] [].

(* boolean check of hash injectivity on a finite list (reflected by Proofs/KeyAuthToy.v) *)
Definition hash_inj_check (P : prims) (L : list bytes) : bool :=
  forallb (fun a => forallb (fun b => negb (list_N_eqb (p_hash P a) (p_hash P b)) || list_N_eqb a b) L) L.
