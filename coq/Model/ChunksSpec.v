(* Model/ChunksSpec.v — specification vocabulary for the ENCRYPT side of the chunk layer:
   the sequence of read results a reader delivers to the encryptor's `read(buf of cs bytes)` calls,
   the reader that realises a given partition, and projections of the event trace. Definitions only;
   the proofs are in Proofs/ChunksEnc.v. *)
From Kestrel Require Import Bytes Outcome IO Prims.
From Kestrel.Model Require Import AeadWrap Chunks.
Local Open Scope N_scope.

(* the successive results of Read::read(buf of cs bytes) on reader r, up to (not including) the
   first call that returns 0 bytes (or fails).  Every listed result is non-empty, so it consumes
   at least one byte of data: fuel = |data| + |script| + 1 is more than enough. *)
Fixpoint reads_of_fuel (fuel cs : nat) (r : reader) : list bytes :=
  match fuel with
  | O => []
  | S f => match rd r cs with
           | (inr (x :: got), r') => (x :: got) :: reads_of_fuel f cs r'
           | _ => []
           end
  end.

Definition reads_of (cs : nat) (r : reader) : list bytes :=
  reads_of_fuel (length (r_data r) + length (r_script r) + 1) cs r.

(* the conforming reader that delivers exactly the pieces [parts], one per read call *)
Definition part_script (parts : list bytes) : list rd_act := map (fun p => RCap (length p)) parts.
Definition part_reader (parts : list bytes) : reader :=
  {| r_data := concat parts; r_script := part_script parts |}.

(* a piece the encryptor can obtain from one read call with a buffer of cs bytes *)
Definition piece_ok (cs : nat) (p : bytes) : Prop := p <> [] /\ (length p <= cs)%nat.

(* ---- projections of a chronological event list ---- *)
Record seal_ev := { seal_key : bytes; seal_nonce : N; seal_ad : bytes; seal_pt : bytes }.

Definition filter_seals (tr : list event) : list seal_ev :=
  flat_map (fun e => match e with
                     | EvSeal k n ad pt => [{| seal_key := k; seal_nonce := n; seal_ad := ad; seal_pt := pt |}]
                     | _ => []
                     end) tr.

(* the results of the successful Read::read calls, in order (empty results included) *)
Definition read_results (tr : list event) : list bytes :=
  flat_map (fun e => match e with EvRead _ got => [got] | _ => [] end) tr.

Definition ok_or_err {E A} (o : outcome E A) : Prop :=
  match o with Ok _ | Err _ => True | Panic _ | OutOfFuel => False end.

(* what the encryptor's AEAD calls look like in a chronological event list [tr] that starts when
   the loop is entered with counter n and pending chunk prev: m seals, under the given key, with
   nonces n, n+1, ..., n+m-1, each with associated data aad ++ flag ++ len of its plaintext, and the
   sealed plaintexts are prev followed by the first m-1 read results of [tr] *)
Definition seal_shape (key aad : bytes) (n : N) (prev : bytes) (tr : list event) (m : nat) : Prop :=
  map seal_nonce (filter_seals tr) = map (fun i => n + N.of_nat i) (seq 0 m) /\
  Forall (fun q => seal_key q = key /\ exists b, seal_ad q = rec_ad aad b (seal_pt q)) (filter_seals tr) /\
  map seal_pt (filter_seals tr) = firstn m (prev :: read_results tr).

(* ---- auxiliary vocabulary of Proofs/ChunksEnc.v ---- *)
Definition nonempty (b : bytes) : bool := match b with [] => false | _ => true end.

(* one iteration's output step of encrypt_chunks_loop: seal the pending chunk, write header and
   ciphertext, flush *)
Definition emit_rec (P : prims) (key aad : bytes) (n : N) (b : bool) (prev : bytes) : M eerr unit :=
  bind (m_seal P key n (aad ++ be32 (if b then 1 else 0) ++ be32 (N.of_nat (length prev))) prev) (fun ct =>
  bind (m_write_all EIOWrite (be64 n ++ be32 (if b then 1 else 0) ++ be32 (N.of_nat (length prev)))) (fun _ =>
  bind (m_write_all EIOWrite ct) (fun _ => m_flush EIOWrite))).

(* an event that is neither an AEAD seal nor a successful read *)
Definition quiet_ev (e : event) : Prop :=
  match e with EvSeal _ _ _ _ | EvRead _ _ => False | _ => True end.
