(* Model/CliArgs.v — the step of main.rs::try_main BEFORE Model/CliParse.v::cli_parse:
       let args: Vec<OsString> = std::env::args_os().collect();
       let args = convert_args(args.as_slice())?;
   convert_args turns every OsString into a String with OsStr::to_str, returning
   Err(anyhow!("Arguments must be valid UTF-8")) on the FIRST argument that is not valid UTF-8; main then prints
   "Error: Arguments must be valid UTF-8" on stderr and exits with status 1 (an ordinary error, not a panic).
   An OsString on Unix is an arbitrary byte string (without NUL) and OsStr::to_str is str::from_utf8 on those bytes:
   Model/Utf8.v::utf8_decode.  (On Windows an OsString is WTF-8 built from UTF-16 and to_str fails exactly on
   unpaired surrogates; that platform is not modelled.)
   Definitions only; proofs in Proofs/CliArgsFacts.v. *)
From Kestrel Require Import Bytes Outcome.
From Kestrel.Model Require Import KeyringText CliParse Utf8.
Local Open Scope N_scope.

(* "Arguments must be valid UTF-8" *)
Definition m_args_utf8 : text :=
  [65;114;103;117;109;101;110;116;115;32;109;117;115;116;32;98;101;32;118;97;108;105;100;32;85;84;70;45;56].

(* what try_main ends with *)
Inductive command_or_argerr :=
| ArgErr (i : nat)          (* convert_args failed at argument number i (0 = program name): "Error: " ++ m_args_utf8, exit 1 *)
| ArgCmd (c : command).     (* the arguments were converted; cli_parse gave the command c *)

(* convert_args: the arguments before the first invalid one are converted and dropped with the Vec; inl i = the
   index (counted from [i0]) of the first argument that is not valid UTF-8 *)
Fixpoint convert_args_from (i0 : nat) (argv : list bytes) : nat + list text :=
  match argv with
  | [] => inr []
  | a :: rest =>
      match utf8_decode a with
      | None => inl i0
      | Some t =>
          match convert_args_from (S i0) rest with
          | inl i => inl i
          | inr ts => inr (t :: ts)
          end
      end
  end.
Definition convert_args (argv : list bytes) : nat + list text := convert_args_from 0 argv.

Definition cli_parse_bytes (argv : list bytes) : outcome unit command_or_argerr :=
  match convert_args argv with
  | inl i => Ok (ArgErr i)
  | inr args => obind (cli_parse args) (fun c => Ok (ArgCmd c))
  end.

(* the exit status and what main prints after "Error: " when the conversion fails *)
Definition argerr_exit : N := 1.
Definition argerr_text : text := m_args_utf8.
