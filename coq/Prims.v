(* Prims.v — the external cryptographic primitives kestrel calls (orion), as a record of functions.
   Model definitions take a [prims]; abstract theorems additionally take the laws they need
   ([prims_ok] fields, used one by one); Spec/Concrete.v builds the RFC instance. *)
From Kestrel Require Import Bytes Outcome.

Record prims := {
  p_hash : bytes -> bytes;                                  (* SHA-256 *)
  p_hmac : bytes -> bytes -> bytes;                         (* HMAC-SHA-256 key msg *)
  p_hkdf : bytes -> bytes -> bytes -> nat -> bytes;         (* HKDF-SHA-256 salt ikm info len *)
  p_dh   : bytes -> bytes -> bytes;                         (* raw X25519 scalar u (32 bytes, may be all zero) *)
  p_seal : bytes -> bytes -> bytes -> bytes -> bytes;       (* key nonce12 ad pt -> ct ++ tag *)
  p_open : bytes -> bytes -> bytes -> bytes -> option bytes;(* key nonce12 ad ct++tag *)
  p_scrypt : bytes -> bytes -> N -> N -> N -> nat -> bytes; (* pw salt n r p dklen *)
}.

(* Laws.  The first block is PROVED for the concrete RFC instance (Spec/Concrete.v);
   [dh_comm] is not (group law of Curve25519) and stays an explicit premise where used. *)
Record aead_ok (p : prims) : Prop := {
  open_seal : forall k n ad m, p_open p k n ad (p_seal p k n ad m) = Some m;
  seal_len  : forall k n ad m, length (p_seal p k n ad m) = (length m + 16)%nat;
  open_len  : forall k n ad c m, p_open p k n ad c = Some m -> length c = (length m + 16)%nat;
  open_inv  : forall k n ad c m, p_open p k n ad c = Some m -> c = p_seal p k n ad m;
}.
Record hash_ok (p : prims) : Prop := {
  hash_len : forall m, length (p_hash p m) = 32%nat;
  hmac_len : forall k m, length (p_hmac p k m) = 32%nat;
  hkdf_len : forall s i info n, (n <= 255 * 32)%nat -> length (p_hkdf p s i info n) = n;
  dh_len   : forall k u, length (p_dh p k u) = 32%nat;
  scrypt_len : forall pw s n r q l, length (p_scrypt p pw s n r q l) = l;
}.

Definition base_point : bytes := 9%N :: zeros 31.
Definition dh_pub (p : prims) (sk : bytes) : bytes := p_dh p sk base_point.
Definition dh_comm (p : prims) : Prop :=
  forall a b, p_dh p a (dh_pub p b) = p_dh p b (dh_pub p a).

Definition all_zero (b : bytes) : bool := forallb (fun x => x =? 0)%N b.
