(* Outcome.v — results of modelled Rust functions.  Nothing is totalised: a Rust panic is an
   explicit [Panic], an exhausted model loop an explicit [OutOfFuel]; theorems exclude both by proof. *)
From Kestrel Require Import Bytes.

Inductive panic_tag :=
| PSliceIndex      (* slice index / range out of bounds, copy_from_slice length mismatch *)
| PArith           (* integer overflow / underflow (debug), or the allocation failure it causes (release) *)
| PAssert          (* assert!/assert_eq! *)
| PUnwrap          (* Option::unwrap / Result::unwrap / expect *)
| PUnimplemented.  (* unimplemented!() *)

Inductive outcome (E A : Type) : Type :=
| Ok (a : A)
| Err (e : E)
| Panic (why : panic_tag)
| OutOfFuel.
Arguments Ok {E A} a.
Arguments Err {E A} e.
Arguments Panic {E A} why.
Arguments OutOfFuel {E A}.

Definition obind {E A B} (m : outcome E A) (f : A -> outcome E B) : outcome E B :=
  match m with Ok a => f a | Err e => Err e | Panic w => Panic w | OutOfFuel => OutOfFuel end.
Definition omap_err {E F A} (g : E -> F) (m : outcome E A) : outcome F A :=
  match m with Ok a => Ok a | Err e => Err (g e) | Panic w => Panic w | OutOfFuel => OutOfFuel end.

Definition is_ok {E A} (m : outcome E A) : bool := match m with Ok _ => true | _ => false end.
Definition is_panic {E A} (m : outcome E A) : bool := match m with Panic _ => true | _ => false end.
Definition normal {E A} (m : outcome E A) : Prop := match m with Ok _ | Err _ => True | _ => False end.
