(* Proofs/MonadFacts.v — case lemmas for the I/O monad primitives of Model/Chunks.v, any script. *)
From Kestrel Require Import Bytes BytesFacts Outcome IO IOFacts Prims.
From Kestrel.Model Require Import AeadWrap Chunks.
From Coq Require Import ZifyBool ZifyNat ZifyN.
Local Open Scope N_scope.

Definition is_flush_ev (e : event) : Prop := match e with EvFlush _ => True | _ => False end.
Definition is_open_ev (e : event) : Prop := match e with EvOpen _ _ _ _ _ => True | _ => False end.
Definition is_seal_ev (e : event) : Prop := match e with EvSeal _ _ _ _ => True | _ => False end.

(* s' was reached from s by I/O and logging only *)
Record ext (s s' : io) (d : list event) : Prop := {
  ext_log : log s' = d ++ log s;
  ext_data : exists c, r_data (rdr s) = c ++ r_data (rdr s');
  ext_out : exists a, w_out (wtr s') = w_out (wtr s) ++ a;
}.

Lemma ext_refl s : ext s s [].
Proof. split; [reflexivity | exists []; reflexivity | exists []; now rewrite app_nil_r]. Qed.
Lemma ext_trans s1 s2 s3 d1 d2 : ext s1 s2 d1 -> ext s2 s3 d2 -> ext s1 s3 (d2 ++ d1).
Proof.
  intros [L1 [c1 D1] [a1 O1]] [L2 [c2 D2] [a2 O2]]. split.
  - rewrite L2, L1. now rewrite app_assoc.
  - exists (c1 ++ c2). rewrite D1, D2. now rewrite app_assoc.
  - exists (a1 ++ a2). rewrite O2, O1. now rewrite app_assoc.
Qed.

Section Cases.
Variable P : prims.
Context {E : Type}.

Lemma m_read_exact_cases (rerr : ioerr -> E) n s res s1 :
  m_read_exact rerr n s = (res, s1) ->
  wtr s1 = wtr s /\
  exists d, log s1 = d ++ log s /\ Forall is_read_ev d /\
  match res with
  | Ok b => length b = n /\ r_data (rdr s) = b ++ r_data (rdr s1) /\ Forall benign d
  | Err e => (exists ie, e = rerr ie) /\ (exists got, r_data (rdr s) = got ++ r_data (rdr s1)) /\
             exists e0 d', d = e0 :: d' /\ Forall benign d'
  | _ => False
  end.
Proof.
  unfold m_read_exact. destruct (read_exact n s) as [r s'] eqn:Er.
  apply read_exact_spec in Er. destruct Er as (Hw & (d & Hd & Hev & Hb) & Hr).
  destruct r as [[e|b]|]; intros [= <- <-]; try contradiction.
  - split; [assumption|]. exists d. repeat split; try assumption. eauto.
  - split; [assumption|]. exists d. destruct Hr as [Hl Hdata]. repeat split; assumption.
Qed.

Lemma m_read_cases (rerr : ioerr -> E) n s res s1 :
  m_read rerr n s = (res, s1) ->
  wtr s1 = wtr s /\
  match res with
  | Ok b => log s1 = EvRead n b :: log s /\ (length b <= n)%nat /\ r_data (rdr s) = b ++ r_data (rdr s1)
  | Err e => exists ie, e = rerr ie /\ log s1 = EvReadErr n ie :: log s /\ r_data (rdr s1) = r_data (rdr s)
  | _ => False
  end.
Proof.
  unfold m_read. destruct (io_read n s) as [r s'] eqn:Er.
  apply io_read_spec in Er. destruct Er as (Hw & Hl & _ & _ & Hd).
  destruct r as [e|b]; intros [= <- <-].
  - split; [assumption|]. exists e. auto.
  - split; [assumption|]. destruct Hd. auto.
Qed.

Lemma m_write_all_cases (werr : ioerr -> E) buf s res s1 :
  m_write_all werr buf s = (res, s1) ->
  rdr s1 = rdr s /\
  exists d, log s1 = d ++ log s /\ Forall is_write_ev d /\
  match res with
  | Ok _ => w_out (wtr s1) = w_out (wtr s) ++ buf /\ Forall benign d
  | Err e => (exists ie, e = werr ie) /\
             (exists k, (k < length buf)%nat /\ w_out (wtr s1) = w_out (wtr s) ++ firstn k buf) /\
             exists e0 d', d = e0 :: d' /\ Forall benign d' /\ ~ benign e0
  | _ => False
  end.
Proof.
  unfold m_write_all. destruct (write_all buf s) as [r s'] eqn:Ew.
  apply write_all_spec in Ew. destruct Ew as (Hr & _ & d & Hd & Hev & Hres).
  destruct r as [[e|]|]; intros [= <- <-]; try contradiction.
  - split; [assumption|]. exists d. destruct Hres as [Hk Hb]. repeat split; try assumption. eauto.
  - split; [assumption|]. exists d. destruct Hres. repeat split; assumption.
Qed.

Lemma m_flush_cases (werr : ioerr -> E) s res s1 :
  m_flush werr s = (res, s1) ->
  rdr s1 = rdr s /\ w_out (wtr s1) = w_out (wtr s) /\
  match res with
  | Ok _ => log s1 = EvFlush None :: log s
  | Err e => exists ie, e = werr ie /\ log s1 = EvFlush (Some ie) :: log s
  | _ => False
  end.
Proof.
  unfold m_flush. destruct (io_flush s) as [r s'] eqn:Ef.
  apply io_flush_spec in Ef. destruct Ef as (Hr & Hl & Ho & _).
  destruct r as [e|]; intros [= <- <-]; repeat split; try assumption. exists e. auto.
Qed.

End Cases.
