(* Proofs/CombineKeyring.v — keyring corollaries used by Props/C15..C17: an earlier password applied to the
   newest locked string (cryptographic step as explicit premise). *)
From Kestrel Require Import Bytes BytesFacts Outcome Prims.
From Kestrel.gen Require Import Extracted.
From Kestrel.Spec Require Import Base64 Base64Facts.
From Kestrel.Model Require Import AeadWrap KeyringText Keyring.
From Kestrel.Proofs Require Import KeyringRefine KeyringFacts.
From Coq Require Import ZifyBool ZifyNat ZifyN.
Local Open Scope N_scope.

Section CK.
Variable P : prims.
Hypothesis HA : aead_ok P.
Hypothesis HH : hash_ok P.
Hypothesis HB : prims_bytes_ok P.

(* the honest locked string of sk under (pw, salt), tried with another password pw': if the AEAD open under
   the key derived from pw' fails, the result is exactly PrivateKeyDecrypt *)
Theorem other_password_rejected_partial sk pw salt pw' :
  length sk = 32%nat -> bytes_ok sk -> length salt = 32%nat -> bytes_ok salt ->
  p_open P (kr_key P pw' salt) (zeros 12) x_kr_private_key_version (p_seal P (kr_key P pw salt) (zeros 12) x_kr_private_key_version sk) = None ->
  exists str, lock_private_key P sk pw salt = Ok str /\ sk_string_ok str = true /\
    unlock_private_key P str pw = Ok sk /\
    unlock_private_key P str pw' = Err PrivateKeyDecrypt.
Proof.
  intros Hsk Hbsk Hsalt Hbsalt Hopen.
  destruct (locked_blob_usable P HA HH HB sk pw salt Hsk Hbsk Hsalt Hbsalt) as (Hok & Hun & Hdec & _).
  exists (b64_encode (kr_blob P sk pw salt)). split; [apply (lock_private_key_eq P HH)|]. split; [exact Hok|].
  split; [exact Hun|].
  assert (Hlen : length (kr_blob P sk pw salt) = 84%nat).
  { rewrite (kr_blob_length P HA), Hsk, Hsalt. reflexivity. }
  destruct (unlock_rejects P HA HH (b64_encode (kr_blob P sk pw salt)) (kr_blob P sk pw salt) pw' Hdec Hlen) as (_ & Hrej).
  unfold kr_blob in Hrej.
  destruct (blob_parts x_kr_private_key_version salt (p_seal P (kr_key P pw salt) (zeros 12) x_kr_private_key_version sk) eq_refl Hsalt) as (H4 & H32 & H36).
  rewrite H4, H32, H36 in Hrej. apply Hrej; [reflexivity|exact Hopen].
Qed.

End CK.

Section Closure.
Print Assumptions other_password_rejected_partial.
End Closure.
