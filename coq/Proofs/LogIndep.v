(* Proofs/LogIndep.v — the computations of the I/O monad never inspect the event log: run from a state whose log
   was replaced, they give the same result, the same final reader and writer, and append the same events.
   Consequence: premises about "the events of this run" suffice where a theorem was proved with a premise about
   the whole final log (dec_auth_file_delta). *)
From Kestrel Require Import Bytes BytesFacts Outcome IO IOFacts Prims.
From Kestrel.Model Require Import AeadWrap Chunks KeyAuthDefs.
From Kestrel.Proofs Require Import MonadFacts ChunksDec ChunksAuth.
From Coq Require Import ZifyBool ZifyNat ZifyN.
Local Open Scope N_scope.

Lemma relog_id s : relog s (log s) = s.
Proof. destruct s; reflexivity. Qed.

Section Indep.
Context {E : Type}.

Lemma li_bind {A B} (m : M E A) (f : A -> M E B) :
  log_indep m -> (forall a, log_indep (f a)) -> log_indep (bind m f).
Proof.
  intros Hm Hf s l r s' E0. unfold bind in E0. destruct (m s) as [r1 s1] eqn:E1.
  destruct (Hm _ l _ _ E1) as (d1 & H1 & R1).
  unfold bind. rewrite R1.
  destruct r1 as [a|e|w|]; try (injection E0 as <- <-; exists d1; split; [exact H1|reflexivity]).
  destruct (Hf a _ (d1 ++ l) _ _ E0) as (d2 & H2 & R2).
  exists (d2 ++ d1). split; [rewrite H2, H1; now rewrite app_assoc|].
  cbn [relog rdr wtr log] in R2. unfold relog at 1 in R2. cbn [rdr wtr] in R2.
  unfold relog at 1. rewrite R2. now rewrite app_assoc.
Qed.

Lemma li_nil {A} (m : M E A) : (forall s, exists r, forall l, m (relog s l) = (r, relog s l)) -> log_indep m.
Proof.
  intros H s l r s' E0. destruct (H s) as [r0 H0].
  pose proof (H0 (log s)) as Hs. rewrite relog_id in Hs. rewrite Hs in E0. injection E0 as <- <-.
  exists []. split; [reflexivity|]. apply H0.
Qed.
Lemma li_ret {A} (a : A) : log_indep (@ret E A a).
Proof. apply li_nil. intros s. eexists. reflexivity. Qed.
Lemma li_fail {A} (e : E) : log_indep (@fail E A e).
Proof. apply li_nil. intros s. eexists. reflexivity. Qed.
Lemma li_lift {A} (o : outcome E A) : log_indep (lift o).
Proof. apply li_nil. intros s. eexists. reflexivity. Qed.

(* ---- raw calls ---- *)
Lemma io_read_relog n s l res s' : io_read n s = (res, s') ->
  exists e, log s' = e :: log s /\ io_read n (relog s l) = (res, relog s' (e :: l)).
Proof.
  unfold io_read. cbn [relog rdr wtr log]. destruct (rd (rdr s) n) as [res0 r'].
  intros [= <- <-]. eexists. split; reflexivity.
Qed.
Lemma io_write_relog buf s l res s' : io_write buf s = (res, s') ->
  exists e, log s' = e :: log s /\ io_write buf (relog s l) = (res, relog s' (e :: l)).
Proof.
  unfold io_write. cbn [relog rdr wtr log]. destruct (wr (wtr s) buf) as [res0 w'].
  intros [= <- <-]. eexists. split; reflexivity.
Qed.
Lemma io_flush_relog s l res s' : io_flush s = (res, s') ->
  exists e, log s' = e :: log s /\ io_flush (relog s l) = (res, relog s' (e :: l)).
Proof.
  unfold io_flush. cbn [relog rdr wtr log]. destruct (fl (wtr s)) as [res0 w'].
  intros [= <- <-]. eexists. split; reflexivity.
Qed.

Lemma read_exact_loop_relog : forall fuel n acc s l res s',
  read_exact_loop fuel n acc s = (res, s') ->
  exists d, log s' = d ++ log s /\ read_exact_loop fuel n acc (relog s l) = (res, relog s' (d ++ l)).
Proof.
  induction fuel as [|f IH]; intros n acc s l res s' E0.
  { destruct n; cbn in E0 |- *; injection E0 as <- <-; exists []; split; reflexivity. }
  destruct n as [|n']; [cbn in E0 |- *; injection E0 as <- <-; exists []; split; reflexivity|].
  cbn [read_exact_loop] in E0 |- *.
  destruct (io_read (S n') s) as [r1 s1] eqn:Er.
  destruct (io_read_relog _ _ l _ _ Er) as (e & He & Rr). rewrite Rr.
  assert (Hstop : forall x, (x, s1) = (res, s') ->
            exists d, log s' = d ++ log s /\ (x, relog s1 (e :: l)) = (res, relog s' (d ++ l))).
  { intros x [= -> <-]. exists [e]. split; [exact He|reflexivity]. }
  assert (Hrec : forall m acc', read_exact_loop f m acc' s1 = (res, s') ->
            exists d, log s' = d ++ log s /\ read_exact_loop f m acc' (relog s1 (e :: l)) = (res, relog s' (d ++ l))).
  { intros m acc' E1. destruct (IH _ _ _ (e :: l) _ _ E1) as (d & Hd & Rd).
    exists (d ++ [e]). split; [rewrite Hd, He; now rewrite <- app_assoc|].
    rewrite Rd. now rewrite <- app_assoc. }
  destruct r1 as [er|got].
  - destruct er; try (apply Hstop; exact E0). apply Hrec. exact E0.
  - destruct got as [|g got']; [apply Hstop; exact E0|]. apply Hrec. exact E0.
Qed.

Lemma write_all_loop_relog : forall fuel buf s l res s',
  write_all_loop fuel buf s = (res, s') ->
  exists d, log s' = d ++ log s /\ write_all_loop fuel buf (relog s l) = (res, relog s' (d ++ l)).
Proof.
  induction fuel as [|f IH]; intros buf s l res s' E0.
  { destruct buf; cbn in E0 |- *; injection E0 as <- <-; exists []; split; reflexivity. }
  destruct buf as [|b0 buf']; [cbn in E0 |- *; injection E0 as <- <-; exists []; split; reflexivity|].
  cbn [write_all_loop] in E0 |- *.
  destruct (io_write (b0 :: buf') s) as [r1 s1] eqn:Ew.
  destruct (io_write_relog _ _ l _ _ Ew) as (e & He & Rw). rewrite Rw.
  assert (Hstop : forall x, (x, s1) = (res, s') ->
            exists d, log s' = d ++ log s /\ (x, relog s1 (e :: l)) = (res, relog s' (d ++ l))).
  { intros x [= -> <-]. exists [e]. split; [exact He|reflexivity]. }
  assert (Hrec : forall buf2, write_all_loop f buf2 s1 = (res, s') ->
            exists d, log s' = d ++ log s /\ write_all_loop f buf2 (relog s1 (e :: l)) = (res, relog s' (d ++ l))).
  { intros buf2 E1. destruct (IH _ _ (e :: l) _ _ E1) as (d & Hd & Rd).
    exists (d ++ [e]). split; [rewrite Hd, He; now rewrite <- app_assoc|].
    rewrite Rd. now rewrite <- app_assoc. }
  destruct r1 as [er|k].
  - destruct er; try (apply Hstop; exact E0). apply Hrec. exact E0.
  - destruct k as [|k']; [apply Hstop; exact E0|]. apply Hrec. exact E0.
Qed.

(* ---- the monad primitives ---- *)
Lemma li_read_exact (rerr : ioerr -> E) n : log_indep (m_read_exact rerr n).
Proof.
  intros s l r s' E0. unfold m_read_exact in E0 |- *. unfold read_exact in E0 |- *. cbn [relog rdr].
  destruct (read_exact_loop (length (r_script (rdr s)) + 2) n [] s) as [r0 s0] eqn:Er.
  destruct (read_exact_loop_relog _ _ _ _ l _ _ Er) as (d & Hd & Rd). rewrite Rd.
  destruct r0 as [[e|b]|]; injection E0 as <- <-; exists d; split; auto.
Qed.
Lemma li_read (rerr : ioerr -> E) n : log_indep (m_read rerr n).
Proof.
  intros s l r s' E0. unfold m_read in E0 |- *.
  destruct (io_read n s) as [r0 s0] eqn:Er.
  destruct (io_read_relog _ _ l _ _ Er) as (e & He & Rr). rewrite Rr.
  destruct r0 as [er|b]; injection E0 as <- <-; exists [e]; split; auto.
Qed.
Lemma li_write_all (werr : ioerr -> E) buf : log_indep (m_write_all werr buf).
Proof.
  intros s l r s' E0. unfold m_write_all in E0 |- *. unfold write_all in E0 |- *. cbn [relog wtr].
  destruct (write_all_loop (length (w_script (wtr s)) + 1) buf s) as [r0 s0] eqn:Ew.
  destruct (write_all_loop_relog _ _ _ l _ _ Ew) as (d & Hd & Rd). rewrite Rd.
  destruct r0 as [[e|]|]; injection E0 as <- <-; exists d; split; auto.
Qed.
Lemma li_flush (werr : ioerr -> E) : log_indep (m_flush werr).
Proof.
  intros s l r s' E0. unfold m_flush in E0 |- *.
  destruct (io_flush s) as [r0 s0] eqn:Ef.
  destruct (io_flush_relog _ l _ _ Ef) as (e & He & Rf). rewrite Rf.
  destruct r0 as [er|]; injection E0 as <- <-; exists [e]; split; auto.
Qed.
Lemma li_open (P : prims) (aerr : E) key n ad ct : log_indep (m_open P aerr key n ad ct).
Proof.
  intros s l r s' E0. unfold m_open in E0 |- *.
  destruct (chapoly_decrypt_noise P key n ad ct); injection E0 as <- <-;
    (eexists [_]; split; reflexivity) || (exists []; split; reflexivity).
Qed.
End Indep.

Section DecIndep.
Variable P : prims.
Variable key aad : bytes.
Variable cs : N.
Notation dec_loop := (decrypt_chunks_loop P).

Lemma dec_loop_log_indep : forall fuel n, log_indep (dec_loop fuel key aad cs n).
Proof.
  induction fuel as [|f IH]; intros n; [apply li_lift|].
  cbn [decrypt_chunks_loop].
  apply li_bind; [apply li_read_exact|intros hdr].
  destruct (cs <? _); [apply li_fail|].
  apply li_bind; [apply li_read_exact|intros ct].
  apply li_bind; [apply li_open|intros pt].
  destruct (_ =? 1).
  - apply li_bind; [apply li_read|intros chk]. destruct chk; [|apply li_fail].
    apply li_bind; [apply li_write_all|intros _]. apply li_bind; [apply li_flush|intros _]. apply li_ret.
  - apply li_bind; [apply li_write_all|intros _]. apply li_bind; [apply li_flush|intros _]. apply IH.
Qed.

(* every AEAD open of the chunk loop carries associated data of |aad| + 8 bytes *)
Lemma dec_loop_open_ad : forall fuel n s res s',
  dec_loop fuel key aad cs n s = (res, s') ->
  exists d, log s' = d ++ log s /\ Forall (open_ad_len (length aad + 8)) d.
Proof.
  induction fuel as [|f IH]; intros n s res s' E0.
  { cbn in E0. injection E0 as <- <-. exists []. split; [reflexivity|constructor]. }
  cbn [decrypt_chunks_loop] in E0.
  assert (Hrd : forall d, Forall is_read_ev d -> Forall (open_ad_len (length aad + 8)) d).
  { intros d H. eapply Forall_impl; [|exact H]. intros [] He; cbn in *; auto; contradiction. }
  assert (Hwr : forall d, Forall is_write_ev d -> Forall (open_ad_len (length aad + 8)) d).
  { intros d H. eapply Forall_impl; [|exact H]. intros [] He; cbn in *; auto; contradiction. }
  unfold bind at 1 in E0. destruct (m_read_exact d_read_err 16 s) as [r1 s1] eqn:E1.
  pose proof (m_read_exact_cases _ _ _ _ _ E1) as (_ & d1 & Hl1 & Hev1 & Hr1).
  destruct r1 as [hdr|e|w|]; try contradiction.
  2:{ injection E0 as <- <-. exists d1. auto. }
  destruct Hr1 as (Hlen16 & _ & _).
  destruct (cs <? de32 (hdr_len hdr)).
  { injection E0 as <- <-. exists d1. auto. }
  unfold bind at 1 in E0.
  destruct (m_read_exact d_read_err (N.to_nat (de32 (hdr_len hdr)) + 16) s1) as [r2 s2] eqn:E2.
  pose proof (m_read_exact_cases _ _ _ _ _ E2) as (_ & d2 & Hl2 & Hev2 & Hr2).
  assert (Hl12 : log s2 = (d2 ++ d1) ++ log s) by (rewrite Hl2, Hl1; now rewrite app_assoc).
  assert (Hq12 : Forall (open_ad_len (length aad + 8)) (d2 ++ d1)) by (apply Forall_app; split; auto).
  destruct r2 as [ct|e|w|]; try contradiction.
  2:{ injection E0 as <- <-. exists (d2 ++ d1). auto. }
  clear Hr2.
  set (ad := aad ++ hdr_last hdr ++ hdr_len hdr) in *.
  assert (Had : length ad = (length aad + 8)%nat).
  { unfold ad, hdr_last, hdr_len. rewrite !app_length, firstn_length, !skipn_length. lia. }
  unfold bind at 1 in E0.
  destruct (m_open P DChaPolyDecrypt key n ad ct s2) as [r3 s3] eqn:E3.
  assert (H3 : exists d3, log s3 = d3 ++ log s /\ Forall (open_ad_len (length aad + 8)) d3).
  { unfold m_open in E3. destruct (chapoly_decrypt_noise P key n ad ct); injection E3 as <- <-.
    - eexists (_ :: d2 ++ d1). cbn [with_log log]. rewrite Hl12. split; [reflexivity|]. constructor; [exact Had|exact Hq12].
    - eexists (_ :: d2 ++ d1). cbn [with_log log]. rewrite Hl12. split; [reflexivity|]. constructor; [exact Had|exact Hq12].
    - exists (d2 ++ d1). auto.
    - exists (d2 ++ d1). auto. }
  destruct H3 as (d3 & Hl3 & Hq3).
  destruct r3 as [pt|e|w|]; try (injection E0 as <- <-; exists d3; auto).
  (* tail *)
  assert (Hwf : forall (k : M derr unit) res0 s0,
            (forall t r t', k t = (r, t') -> exists d, log t' = d ++ log t /\ Forall (open_ad_len (length aad + 8)) d) ->
            bind (m_write_all DIOWrite pt) (fun _ => bind (m_flush DIOWrite) (fun _ => k)) s0 = (res0, s') ->
            exists d, log s' = d ++ log s0 /\ Forall (open_ad_len (length aad + 8)) d).
  { intros k res0 s0 Hk Eb. unfold bind at 1 in Eb.
    destruct (m_write_all DIOWrite pt s0) as [r5 s5] eqn:E5.
    pose proof (m_write_all_cases _ _ _ _ _ E5) as (_ & d5 & Hl5 & Hev5 & _).
    destruct r5 as [u|e|w|]; try (injection Eb as <- <-; exists d5; auto).
    unfold bind at 1 in Eb. destruct (m_flush DIOWrite s5) as [r6 s6] eqn:E6.
    pose proof (m_flush_cases _ _ _ _ E6) as (_ & _ & Hr6).
    assert (H6 : exists e6, log s6 = e6 :: log s5 /\ open_ad_len (length aad + 8) e6).
    { destruct r6 as [u6|e6|w6|]; try contradiction.
      - eexists. split; [exact Hr6|exact I].
      - destruct Hr6 as (ie & _ & Hr6). eexists. split; [exact Hr6|exact I]. }
    destruct H6 as (e6 & Hl6 & Hq6).
    destruct r6 as [u6|e6'|w6|]; try (injection Eb as <- <-; exists (e6 :: d5); rewrite Hl6, Hl5; split; [reflexivity|constructor; auto]).
    destruct (Hk _ _ _ Eb) as (d7 & Hl7 & Hq7).
    exists (d7 ++ e6 :: d5). rewrite Hl7, Hl6, Hl5. split; [now rewrite <- app_assoc|].
    apply Forall_app. split; [exact Hq7|constructor; auto]. }
  assert (Hfin : exists d, log s' = d ++ log s3 /\ Forall (open_ad_len (length aad + 8)) d).
  { destruct (de32 (hdr_last hdr) =? 1).
    - unfold bind at 1 in E0. destruct (m_read d_read_err 1 s3) as [r4 s4] eqn:E4.
      pose proof (m_read_cases _ _ _ _ _ E4) as (_ & Hr4).
      assert (H4 : exists e4, log s4 = e4 :: log s3 /\ open_ad_len (length aad + 8) e4).
      { destruct r4 as [chk|e|w|]; try contradiction.
        - destruct Hr4 as (Hr4 & _). eexists. split; [exact Hr4|exact I].
        - destruct Hr4 as (ie & _ & Hr4 & _). eexists. split; [exact Hr4|exact I]. }
      destruct H4 as (e4 & Hl4 & Hq4).
      destruct r4 as [chk|e|w|]; try (injection E0 as <- <-; exists [e4]; split; [exact Hl4|constructor; auto]).
      destruct chk as [|x chk']; [|injection E0 as <- <-; exists [e4]; split; [exact Hl4|constructor; auto]].
      destruct (Hwf (ret tt) res s4) as (d & Hd & Hq); [|exact E0|].
      { intros t r t' [= <- <-]. exists []. split; [reflexivity|constructor]. }
      exists (d ++ [e4]). rewrite Hd, Hl4. split; [now rewrite <- app_assoc|].
      apply Forall_app. split; [exact Hq|constructor; auto].
    - apply (Hwf (dec_loop f key aad cs (n + 1)) res s3); [|exact E0]. intros t r t' Et. exact (IH _ _ _ _ Et). }
  destruct Hfin as (d & Hd & Hq). exists (d ++ d3). rewrite Hd, Hl3. split; [now rewrite app_assoc|].
  apply Forall_app. split; assumption.
Qed.

(* dec_auth_file with the no-forgery premise on the NEW events only *)
Theorem dec_auth_file_delta chunks fuel s res s' d :
  length key = 32%nat -> aead_ok P ->
  dec_loop fuel key aad cs 0 s = (res, s') -> log s' = d ++ log s ->
  no_forgery P key aad chunks d ->
  (exists written rest, w_out (wtr s') = w_out (wtr s) ++ written /\ written ++ rest = concat chunks) /\
  (res = Ok tt -> w_out (wtr s') = w_out (wtr s) ++ concat chunks).
Proof.
  intros Hk Ha E0 Hd NF.
  destruct (dec_loop_log_indep fuel 0 s [] res s' E0) as (d' & Hd' & R).
  assert (d' = d) as -> by (rewrite Hd in Hd'; apply app_inv_tail in Hd'; now symmetry).
  rewrite app_nil_r in R.
  exact (dec_auth_file P key aad cs Hk Ha chunks fuel (relog s []) res (relog s' d) R NF).
Qed.

End DecIndep.

Section Closure.
Print Assumptions dec_loop_log_indep.
Print Assumptions dec_loop_open_ad.
Print Assumptions dec_auth_file_delta.
End Closure.
