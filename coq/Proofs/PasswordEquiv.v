(* Proofs/PasswordEquiv.v — known finding for C02/C15/C16: HMAC key normalisation (RFC 2104) makes some
   DISTINCT passwords derive the SAME scrypt key: a password longer than the 64-byte block and its
   32-byte SHA-256 digest; a password shorter than 64 bytes and the same password followed by a 0 byte. *)
From Kestrel Require Import Bytes BytesFacts.
From Kestrel.Spec Require Import Sha256 Hmac Pbkdf2 HashFacts Scrypt ScryptConcrete.

Lemma hmac_long_key_digest k m : (64 < length k)%nat -> hmac_sha256 k m = hmac_sha256 (sha256 k) m.
Proof.
  intros H. unfold hmac_sha256.
  rewrite (hmac_key_block_long k H).
  rewrite (hmac_key_block_short (sha256 k)) by (rewrite sha256_length; apply Nat.leb_le; reflexivity).
  rewrite sha256_length. reflexivity.
Qed.

Lemma hmac_zero_padded_key k m : (length k < 64)%nat -> hmac_sha256 (k ++ [0%N]) m = hmac_sha256 k m.
Proof. intros H. change [0%N] with (zeros 1). apply hmac_key_zero_ext. rewrite Nat.add_1_r. exact H. Qed.

(* PBKDF2 and scrypt see the password only through HMAC keyed with it *)
Definition hmac_equiv (pw pw' : bytes) : Prop := forall m, hmac_sha256 pw m = hmac_sha256 pw' m.

Lemma pbkdf2_step_equiv pw pw' st : hmac_equiv pw pw' -> pbkdf2_step pw st = pbkdf2_step pw' st.
Proof. intros H. unfold pbkdf2_step. now rewrite H. Qed.

Lemma Niter_ext {A} (f g : A -> A) : (forall x, f x = g x) -> forall n x, N.iter n f x = N.iter n g x.
Proof.
  intros H n. induction n as [|n IH] using N.peano_ind; intros x; [reflexivity|].
  rewrite !N.iter_succ. now rewrite IH, H.
Qed.

Lemma pbkdf2_F_equiv pw pw' salt c i : hmac_equiv pw pw' -> pbkdf2_F pw salt c i = pbkdf2_F pw' salt c i.
Proof. intros H. unfold pbkdf2_F. f_equal. apply Niter_ext. intros st. now apply pbkdf2_step_equiv. Qed.

Lemma pbkdf2_blocks_equiv pw pw' salt c n : hmac_equiv pw pw' ->
  forall i, pbkdf2_blocks pw salt c n i = pbkdf2_blocks pw' salt c n i.
Proof.
  intros H. induction n as [|n IH]; intros i; cbn [pbkdf2_blocks]; [reflexivity|].
  now rewrite IH, (pbkdf2_F_equiv pw pw' salt c i H).
Qed.

Lemma pbkdf2_equiv pw pw' salt c n : hmac_equiv pw pw' -> pbkdf2 pw salt c n = pbkdf2 pw' salt c n.
Proof. intros H. unfold pbkdf2. now rewrite (pbkdf2_blocks_equiv pw pw' salt c _ H). Qed.

Theorem scrypt_equiv pw pw' salt NN r p dk : hmac_equiv pw pw' ->
  rfc_scrypt pw salt NN r p dk = rfc_scrypt pw' salt NN r p dk.
Proof.
  intros H. unfold rfc_scrypt, Scrypt.scrypt, pbkdf2_1.
  rewrite (pbkdf2_equiv pw pw' salt 1 _ H). apply pbkdf2_equiv. exact H.
Qed.

(* the finding, on the RFC 7914 definition itself: for EVERY password longer than 64 bytes its SHA-256 digest is
   an equivalent password; for every password shorter than 64 bytes so is the password followed by a zero byte *)
Theorem long_password_digest_equivalent pw salt NN r p dk : (64 < length pw)%nat ->
  rfc_scrypt pw salt NN r p dk = rfc_scrypt (sha256 pw) salt NN r p dk.
Proof. intros H. apply scrypt_equiv. intros m. now apply hmac_long_key_digest. Qed.

Theorem zero_padded_password_equivalent pw salt NN r p dk : (length pw < 64)%nat ->
  rfc_scrypt (pw ++ [0%N]) salt NN r p dk = rfc_scrypt pw salt NN r p dk.
Proof. intros H. apply scrypt_equiv. intros m. now apply hmac_zero_padded_key. Qed.

(* and the two passwords really are different byte strings *)
Lemma long_password_differs pw : (64 < length pw)%nat -> sha256 pw <> pw.
Proof. intros H E. rewrite <- E in H. rewrite sha256_length in H. apply Nat.ltb_lt in H. discriminate H. Qed.

Lemma zero_padded_differs (pw : bytes) : pw ++ [0%N] <> pw.
Proof. intros E. apply (f_equal (@length _)) in E. rewrite app_length in E. cbn in E. rewrite Nat.add_1_r in E. now apply Nat.neq_succ_diag_l in E. Qed.
