(* Proofs/FilesFacts.v — the file-level wrappers of Model/Files.v at header level: what key_encrypt /
   pass_encrypt write before the chunk stream, what key_decrypt / pass_decrypt read before it, that the
   two sides derive the same chunk key, that a failed key exchange leaves the I/O state untouched, and
   the file-format dispatch. *)
From Kestrel Require Import Bytes BytesFacts Outcome IO IOFacts Prims.
From Kestrel.gen Require Import Extracted.
From Kestrel.Model Require Import AeadWrap Chunks Noise NoiseSpec Files EventPreds FilesSpec.
From Kestrel.Proofs Require Import MonadFacts ChunksDec NoiseFacts.
From Coq Require Import ZifyBool ZifyNat ZifyN.
Local Open Scope N_scope.

(* ---------- valid_file_format ---------- *)
Lemma list_N_eqb_spec : forall a b, list_N_eqb a b = true <-> a = b.
Proof.
  unfold list_N_eqb. induction a as [|x a IH]; intros [|y b]; cbn [length combine forallb Nat.eqb andb fst snd];
    try (split; [discriminate|discriminate]); [split; reflexivity|].
  specialize (IH b). split.
  - intros H. apply andb_true_iff in H. destruct H as [Hl H]. apply andb_true_iff in H. destruct H as [Hxy H].
    apply N.eqb_eq in Hxy. subst y. f_equal. apply IH. now rewrite Hl, H.
  - intros [= -> ->]. destruct IH as [_ IH]. specialize (IH eq_refl). apply andb_true_iff in IH.
    destruct IH as [Hl H]. rewrite Hl, H, N.eqb_refl. reflexivity.
Qed.

Lemma vff_prologue : valid_file_format x_prologue = Some AsymV1.
Proof. reflexivity. Qed.
Lemma vff_pass_magic : valid_file_format x_pass_file_magic = Some PassV1.
Proof. reflexivity. Qed.

Lemma vff_asym_iff hdr : valid_file_format hdr = Some AsymV1 <-> hdr = x_prologue.
Proof.
  split; [|intros ->; exact vff_prologue]. unfold valid_file_format.
  destruct (list_N_eqb hdr x_dec_asym_v1) eqn:E1; [intros _; now apply list_N_eqb_spec in E1|].
  destruct (list_N_eqb hdr x_dec_pass_v1); discriminate.
Qed.

Lemma vff_pass_iff hdr : valid_file_format hdr = Some PassV1 <-> hdr = x_pass_file_magic.
Proof.
  split; [|intros ->; exact vff_pass_magic]. unfold valid_file_format.
  destruct (list_N_eqb hdr x_dec_asym_v1) eqn:E1; [discriminate|].
  destruct (list_N_eqb hdr x_dec_pass_v1) eqn:E2; [intros _; now apply list_N_eqb_spec in E2|discriminate].
Qed.

Theorem vff_other hdr : hdr <> x_prologue -> hdr <> x_pass_file_magic -> valid_file_format hdr = None.
Proof.
  intros H1 H2. destruct (valid_file_format hdr) as [[|]|] eqn:E; [|  |reflexivity].
  - apply vff_asym_iff in E. contradiction.
  - apply vff_pass_iff in E. contradiction.
Qed.

Theorem vff_none_iff hdr : valid_file_format hdr = None <-> hdr <> x_prologue /\ hdr <> x_pass_file_magic.
Proof.
  split; [|intros [H1 H2]; now apply vff_other].
  intros E. split; intros ->; discriminate E.
Qed.

(* ---------- fault-free I/O steps with their log ---------- *)
Section Steps.
Context {E : Type}.

Lemma step_read_exact (rerr : ioerr -> E) n s : reader_ok (rdr s) -> (n <= length (r_data (rdr s)))%nat ->
  exists s' d, m_read_exact rerr n s = (Ok (firstn n (r_data (rdr s))), s') /\
    r_data (rdr s') = skipn n (r_data (rdr s)) /\ reader_ok (rdr s') /\ wtr s' = wtr s /\
    log s' = d ++ log s /\ Forall is_read_ev d /\ Forall benign d.
Proof.
  intros Hok Hn. destruct (read_exact_ok n s Hok Hn) as (s' & Er & Hd & Hok' & Hw).
  pose proof (m_read_exact_ok rerr _ _ _ _ Er) as Em.
  pose proof (m_read_exact_cases rerr _ _ _ _ Em) as (_ & d & Hl & Hev & _ & _ & Hb).
  exists s', d. repeat split; assumption.
Qed.

Lemma step_write_all (werr : ioerr -> E) buf s : writer_ok (wtr s) ->
  exists s' d, m_write_all werr buf s = (Ok tt, s') /\
    w_out (wtr s') = w_out (wtr s) ++ buf /\ writer_ok (wtr s') /\ rdr s' = rdr s /\
    log s' = d ++ log s /\ Forall is_write_ev d /\ Forall benign d.
Proof.
  intros Hok. destruct (write_all_ok buf s Hok) as (s' & Ew & Ho & Hok' & Hr).
  pose proof (m_write_all_ok werr _ _ _ Ew) as Em.
  pose proof (m_write_all_cases werr _ _ _ _ Em) as (_ & d & Hl & Hev & _ & Hb).
  exists s', d. repeat split; try assumption; apply Hok'.
Qed.

Lemma step_flush (werr : ioerr -> E) s : writer_ok (wtr s) ->
  exists s', m_flush werr s = (Ok tt, s') /\
    w_out (wtr s') = w_out (wtr s) /\ writer_ok (wtr s') /\ rdr s' = rdr s /\
    log s' = EvFlush None :: log s.
Proof.
  intros Hok. destruct (io_flush_ok s Hok) as (s' & Ef & Ho & Hok' & Hr).
  pose proof (m_flush_ok werr _ _ Ef) as Em.
  pose proof (m_flush_cases werr _ _ _ Em) as (_ & _ & Hl).
  exists s'. repeat split; try assumption; apply Hok'.
Qed.
End Steps.

Lemma write_ev_out d : Forall is_write_ev d -> Forall is_out_ev d.
Proof. intros H. eapply Forall_impl; [|exact H]. intros e; destruct e; cbn; auto. Qed.

Section FilesFacts.
Variable P : prims.

Lemma file_key_dec payload hh : p_hkdf P [] payload hh (N.to_nat x_dec_hkdf_len) = file_key P payload hh.
Proof. reflexivity. Qed.

Lemma kdf_dec pw salt :
  p_scrypt P pw salt x_lib_scrypt_n x_lib_scrypt_r x_lib_scrypt_p (N.to_nat x_dec_scrypt_len) = kdf P pw salt.
Proof. reflexivity. Qed.

(* two writes and a flush *)
Lemma write_header (werr : ioerr -> eerr) a b s0 (k : M eerr unit) : writer_ok (wtr s0) ->
  exists s1, wrote_header s0 s1 (a ++ b) [] /\
    bind (m_write_all werr a) (fun _ => bind (m_write_all werr b) (fun _ => bind (m_flush werr) (fun _ => k))) s0 = k s1.
Proof.
  intros Hw0.
  destruct (step_write_all werr a s0 Hw0) as (sa & da & Ea & Hoa & Hwa & Hra & Hla & Heva & Hba).
  destruct (step_write_all werr b sa Hwa) as (sb & db & Eb & Hob & Hwb & Hrb & Hlb & Hevb & Hbb).
  destruct (step_flush werr sb Hwb) as (s1 & Ef & Hof & Hwf & Hrf & Hlf).
  exists s1. split.
  - split.
    + rewrite Hof, Hob, Hoa. now rewrite app_assoc.
    + now rewrite Hrf, Hrb, Hra.
    + exact Hwf.
    + exists (EvFlush None :: db ++ da). cbn [app]. split.
      * rewrite Hlf, Hlb, Hla. now rewrite app_assoc.
      * split.
        -- constructor; [exact I|]. apply Forall_app. split; now apply write_ev_out.
        -- constructor; [exact I|]. apply Forall_app. split; assumption.
  - rewrite (bind_ok _ _ _ _ _ Ea), (bind_ok _ _ _ _ _ Eb), (bind_ok _ _ _ _ _ Ef). reflexivity.
Qed.

(* ---------- key_encrypt ---------- *)
Theorem key_encrypt_header fresh_pk fresh_e s spk r e epk pk s0 msg hh :
  length (payload_of fresh_pk pk) = 32%nat -> writer_ok (wtr s0) ->
  noise_encrypt P fresh_e s spk r e epk x_prologue (payload_of fresh_pk pk) = Ok (msg, hh) ->
  exists s1, wrote_header s0 s1 (x_prologue ++ msg) [] /\
    key_encrypt P fresh_pk fresh_e s spk r e epk pk s0 =
    encrypt_chunks P (file_key P (payload_of fresh_pk pk) hh) [] cs_const s1.
Proof.
  unfold payload_of. intros Hl Hw0 Henc.
  destruct (write_header EIOWrite x_prologue msg s0
              (encrypt_chunks P (file_key P (match pk with Some p => p | None => fresh_pk end) hh) [] cs_const) Hw0)
    as (s1 & Hwh & Eq).
  exists s1. split; [exact Hwh|].
  unfold key_encrypt. cbv zeta. rewrite Hl. cbn [Nat.eqb negb]. rewrite Henc. exact Eq.
Qed.

(* a failed key exchange: error value, I/O state untouched (no write, no flush, no event) —
   every state, every script *)
Theorem key_encrypt_dh_zero fresh_pk fresh_e s spk r e epk pk s0 ne :
  length (payload_of fresh_pk pk) = 32%nat ->
  noise_encrypt P fresh_e s spk r e epk x_prologue (payload_of fresh_pk pk) = Err ne ->
  key_encrypt P fresh_pk fresh_e s spk r e epk pk s0 = (Err EOther, s0).
Proof.
  unfold payload_of. intros Hl Henc. unfold key_encrypt. cbv zeta. rewrite Hl. cbn [Nat.eqb negb].
  rewrite Henc. reflexivity.
Qed.

(* the concrete trigger: an all-zero X25519 output in either DH of the handshake *)
Corollary key_encrypt_dh_zero_concrete fresh_pk fresh_e s spk r e epk pk s0 e' epk' :
  hash_ok P ->
  eph_of P fresh_e e epk = (e', epk') ->
  length e' = 32%nat -> length s = 32%nat -> length r = 32%nat ->
  length (payload_of fresh_pk pk) = 32%nat ->
  all_zero (p_dh P e' r) = true \/ all_zero (p_dh P s r) = true ->
  key_encrypt P fresh_pk fresh_e s spk r e epk pk s0 = (Err EOther, s0).
Proof.
  intros Hh Hep He Hs Hr Hp Hz. apply (key_encrypt_dh_zero _ _ _ _ _ _ _ _ _ NDh); [exact Hp|].
  now apply (noise_encrypt_dh_zero_gen P Hh _ _ _ _ _ _ _ _ e' epk').
Qed.

(* ---------- pass_encrypt ---------- *)
Theorem pass_encrypt_header pw salt s0 : writer_ok (wtr s0) ->
  exists s1,
    wrote_header s0 s1 (x_pass_file_magic ++ salt) [EvKdf pw salt x_lib_scrypt_n x_lib_scrypt_r x_lib_scrypt_p] /\
    pass_encrypt P pw salt s0 = encrypt_chunks P (kdf P pw salt) x_pass_file_magic cs_const s1.
Proof.
  intros Hw0. unfold pass_encrypt. cbv zeta.
  set (ev := EvKdf pw salt x_lib_scrypt_n x_lib_scrypt_r x_lib_scrypt_p).
  assert (Ee : @emit eerr ev s0 = (Ok tt, with_log s0 ev)) by reflexivity.
  rewrite (bind_ok _ _ _ _ _ Ee).
  destruct (write_header EIOWrite x_pass_file_magic salt (with_log s0 ev)
              (encrypt_chunks P (kdf P pw salt) x_pass_file_magic cs_const) Hw0) as (s1 & [Ho Hr Hw Hlog] & Eq).
  exists s1. split; [|exact Eq]. split; [exact Ho|exact Hr|exact Hw|exact Hlog].
Qed.

(* ---------- key_decrypt ---------- *)
Theorem key_decrypt_header r rpk s0 msg rest payload spk hh :
  reader_ok (rdr s0) -> r_data (rdr s0) = x_prologue ++ msg ++ rest -> length msg = 128%nat ->
  noise_decrypt P r rpk x_prologue msg = Ok (payload, spk, hh) ->
  exists s1, read_header s0 s1 rest /\
    key_decrypt P r rpk s0 =
    bind (decrypt_chunks P (file_key P payload hh) [] cs_const) (fun _ => ret spk) s1.
Proof.
  intros Hr0 Hd0 Hlm Hdec. unfold key_decrypt.
  change (N.to_nat x_dec_prologue_len) with 4%nat. change (N.to_nat x_dec_handshake_len) with 128%nat.
  destruct (step_read_exact (E:=derr) d_read_err 4 s0 Hr0) as (sa & da & Ea & Hda & Hra & Hwa & Hla & Heva & Hba).
  { rewrite Hd0, app_length. cbn. lia. }
  rewrite Hd0 in Ea, Hda.
  change 4%nat with (length x_prologue) in Ea at 2. rewrite firstn_app_exact in Ea.
  change 4%nat with (length x_prologue) in Hda. rewrite skipn_app_exact in Hda.
  rewrite (bind_ok _ _ _ _ _ Ea). rewrite vff_prologue.
  destruct (step_read_exact (E:=derr) d_read_err 128 sa Hra) as (sb & db & Eb & Hdb & Hrb & Hwb & Hlb & Hevb & Hbb).
  { rewrite Hda, app_length. lia. }
  rewrite Hda in Eb, Hdb. rewrite <- Hlm in Eb at 2. rewrite firstn_app_exact in Eb.
  rewrite <- Hlm in Hdb. rewrite skipn_app_exact in Hdb.
  rewrite (bind_ok _ _ _ _ _ Eb). rewrite Hdec.
  exists sb. split; [|reflexivity]. split; [exact Hdb|exact Hrb|now rewrite Hwb, Hwa|].
  exists (db ++ da). split; [rewrite Hlb, Hla; now rewrite app_assoc|].
  split; apply Forall_app; split; assumption.
Qed.

(* ---------- pass_decrypt ---------- *)
Theorem pass_decrypt_header pw s0 salt rest :
  reader_ok (rdr s0) -> r_data (rdr s0) = x_pass_file_magic ++ salt ++ rest -> length salt = 32%nat ->
  exists s1, read_header s0 s1 rest /\
    pass_decrypt P pw s0 =
    decrypt_chunks P (kdf P pw salt) x_pass_file_magic cs_const
      (with_log s1 (EvKdf pw salt x_lib_scrypt_n x_lib_scrypt_r x_lib_scrypt_p)).
Proof.
  intros Hr0 Hd0 Hls. unfold pass_decrypt.
  change (N.to_nat x_dec_magic_len) with 4%nat. change (N.to_nat x_dec_salt_len) with 32%nat.
  destruct (step_read_exact (E:=derr) d_read_err 4 s0 Hr0) as (sa & da & Ea & Hda & Hra & Hwa & Hla & Heva & Hba).
  { rewrite Hd0, app_length. cbn. lia. }
  rewrite Hd0 in Ea, Hda.
  change 4%nat with (length x_pass_file_magic) in Ea at 2. rewrite firstn_app_exact in Ea.
  change 4%nat with (length x_pass_file_magic) in Hda. rewrite skipn_app_exact in Hda.
  rewrite (bind_ok _ _ _ _ _ Ea). rewrite vff_pass_magic.
  destruct (step_read_exact (E:=derr) d_read_err 32 sa Hra) as (sb & db & Eb & Hdb & Hrb & Hwb & Hlb & Hevb & Hbb).
  { rewrite Hda, app_length. lia. }
  rewrite Hda in Eb, Hdb. rewrite <- Hls in Eb at 2. rewrite firstn_app_exact in Eb.
  rewrite <- Hls in Hdb. rewrite skipn_app_exact in Hdb.
  rewrite (bind_ok _ _ _ _ _ Eb). cbv zeta. rewrite kdf_dec.
  exists sb. split.
  - split; [exact Hdb|exact Hrb|now rewrite Hwb, Hwa|].
    exists (db ++ da). split; [rewrite Hlb, Hla; now rewrite app_assoc|].
    split; apply Forall_app; split; assumption.
  - reflexivity.
Qed.

(* ---------- format dispatch: wrong mode / unknown magic, sink untouched ---------- *)
Lemma read_magic (hdr rest : bytes) s0 :
  reader_ok (rdr s0) -> r_data (rdr s0) = hdr ++ rest -> length hdr = 4%nat ->
  exists sa, read_header s0 sa rest /\ m_read_exact d_read_err 4 s0 = (Ok hdr, sa).
Proof.
  intros Hr0 Hd0 Hl.
  destruct (step_read_exact (E:=derr) d_read_err 4 s0 Hr0) as (sa & da & Ea & Hda & Hra & Hwa & Hla & Heva & Hba).
  { rewrite Hd0, app_length. lia. }
  rewrite Hd0 in Ea, Hda. rewrite <- Hl in Ea at 2. rewrite firstn_app_exact in Ea.
  rewrite <- Hl in Hda. rewrite skipn_app_exact in Hda.
  exists sa. split; [|exact Ea]. split; try assumption. exists da. auto.
Qed.

Theorem key_decrypt_on_pass_file r rpk s0 rest :
  reader_ok (rdr s0) -> r_data (rdr s0) = x_pass_file_magic ++ rest ->
  exists s1, read_header s0 s1 rest /\ key_decrypt P r rpk s0 = (Err DOtherWrongMode, s1).
Proof.
  intros Hr0 Hd0. destruct (read_magic x_pass_file_magic rest s0 Hr0 Hd0 eq_refl) as (sa & Hrh & Ea).
  exists sa. split; [exact Hrh|]. unfold key_decrypt. change (N.to_nat x_dec_prologue_len) with 4%nat.
  rewrite (bind_ok _ _ _ _ _ Ea). rewrite vff_pass_magic. reflexivity.
Qed.

Theorem pass_decrypt_on_key_file pw s0 rest :
  reader_ok (rdr s0) -> r_data (rdr s0) = x_prologue ++ rest ->
  exists s1, read_header s0 s1 rest /\ pass_decrypt P pw s0 = (Err DOtherWrongMode, s1).
Proof.
  intros Hr0 Hd0. destruct (read_magic x_prologue rest s0 Hr0 Hd0 eq_refl) as (sa & Hrh & Ea).
  exists sa. split; [exact Hrh|]. unfold pass_decrypt. change (N.to_nat x_dec_magic_len) with 4%nat.
  rewrite (bind_ok _ _ _ _ _ Ea). rewrite vff_prologue. reflexivity.
Qed.

Theorem key_decrypt_bad_magic r rpk s0 hdr rest :
  reader_ok (rdr s0) -> r_data (rdr s0) = hdr ++ rest -> length hdr = 4%nat ->
  hdr <> x_prologue -> hdr <> x_pass_file_magic ->
  exists s1, read_header s0 s1 rest /\ key_decrypt P r rpk s0 = (Err DOtherFormat, s1).
Proof.
  intros Hr0 Hd0 Hl H1 H2. destruct (read_magic hdr rest s0 Hr0 Hd0 Hl) as (sa & Hrh & Ea).
  exists sa. split; [exact Hrh|]. unfold key_decrypt. change (N.to_nat x_dec_prologue_len) with 4%nat.
  rewrite (bind_ok _ _ _ _ _ Ea). rewrite (vff_other hdr H1 H2). reflexivity.
Qed.

Theorem pass_decrypt_bad_magic pw s0 hdr rest :
  reader_ok (rdr s0) -> r_data (rdr s0) = hdr ++ rest -> length hdr = 4%nat ->
  hdr <> x_prologue -> hdr <> x_pass_file_magic ->
  exists s1, read_header s0 s1 rest /\ pass_decrypt P pw s0 = (Err DOtherFormat, s1).
Proof.
  intros Hr0 Hd0 Hl H1 H2. destruct (read_magic hdr rest s0 Hr0 Hd0 Hl) as (sa & Hrh & Ea).
  exists sa. split; [exact Hrh|]. unfold pass_decrypt. change (N.to_nat x_dec_magic_len) with 4%nat.
  rewrite (bind_ok _ _ _ _ _ Ea). rewrite (vff_other hdr H1 H2). reflexivity.
Qed.

(* the same dispatch for EVERY script: whatever the reader does, once the four magic bytes have been
   delivered the wrong-mode answer follows and the writer has not been touched *)
Theorem key_decrypt_wrong_mode_any r rpk s0 sa :
  m_read_exact d_read_err 4 s0 = (Ok x_pass_file_magic, sa) ->
  key_decrypt P r rpk s0 = (Err DOtherWrongMode, sa) /\ wtr sa = wtr s0.
Proof.
  intros Ea. split.
  - unfold key_decrypt. change (N.to_nat x_dec_prologue_len) with 4%nat.
    rewrite (bind_ok _ _ _ _ _ Ea). rewrite vff_pass_magic. reflexivity.
  - now destruct (m_read_exact_cases _ _ _ _ _ Ea) as (Hw & _).
Qed.

Theorem pass_decrypt_wrong_mode_any pw s0 sa :
  m_read_exact d_read_err 4 s0 = (Ok x_prologue, sa) ->
  pass_decrypt P pw s0 = (Err DOtherWrongMode, sa) /\ wtr sa = wtr s0.
Proof.
  intros Ea. split.
  - unfold pass_decrypt. change (N.to_nat x_dec_magic_len) with 4%nat.
    rewrite (bind_ok _ _ _ _ _ Ea). rewrite vff_prologue. reflexivity.
  - now destruct (m_read_exact_cases _ _ _ _ _ Ea) as (Hw & _).
Qed.

(* a handshake that does not verify: error value, sink untouched *)
Theorem key_decrypt_noise_err r rpk s0 msg rest ne :
  reader_ok (rdr s0) -> r_data (rdr s0) = x_prologue ++ msg ++ rest -> length msg = 128%nat ->
  noise_decrypt P r rpk x_prologue msg = Err ne ->
  exists s1, read_header s0 s1 rest /\ key_decrypt P r rpk s0 = (Err (DOtherNoise ne), s1).
Proof.
  intros Hr0 Hd0 Hlm Hdec.
  destruct (read_magic x_prologue (msg ++ rest) s0 Hr0 Hd0 eq_refl) as (sa & [Hda Hra Hwa (da & Hla & Heva & Hba)] & Ea).
  unfold key_decrypt.
  change (N.to_nat x_dec_prologue_len) with 4%nat. change (N.to_nat x_dec_handshake_len) with 128%nat.
  rewrite (bind_ok _ _ _ _ _ Ea). rewrite vff_prologue.
  destruct (step_read_exact (E:=derr) d_read_err 128 sa Hra) as (sb & db & Eb & Hdb & Hrb & Hwb & Hlb & Hevb & Hbb).
  { rewrite Hda, app_length. lia. }
  rewrite Hda in Eb, Hdb. rewrite <- Hlm in Eb at 2. rewrite firstn_app_exact in Eb.
  rewrite <- Hlm in Hdb. rewrite skipn_app_exact in Hdb.
  rewrite (bind_ok _ _ _ _ _ Eb). rewrite Hdec.
  exists sb. split; [|reflexivity]. split; [exact Hdb|exact Hrb|now rewrite Hwb, Hwa|].
  exists (db ++ da). split; [rewrite Hlb, Hla; now rewrite app_assoc|].
  split; apply Forall_app; split; assumption.
Qed.

(* ---------- both sides of a key-encrypted file derive the same chunk key ---------- *)
Theorem key_header_agree fresh_pk fresh_e s r e epk pk e' :
  aead_ok P -> hash_ok P -> dh_comm P ->
  eph_of P fresh_e e epk = (e', dh_pub P e') ->
  length e' = 32%nat -> length s = 32%nat -> length r = 32%nat ->
  length (payload_of fresh_pk pk) = 32%nat ->
  all_zero (p_dh P e' (dh_pub P r)) = false -> all_zero (p_dh P s (dh_pub P r)) = false ->
  exists msg hh, length msg = 128%nat /\
    (forall s0, writer_ok (wtr s0) ->
       exists s1, wrote_header s0 s1 (x_prologue ++ msg) [] /\
         key_encrypt P fresh_pk fresh_e s (dh_pub P s) (dh_pub P r) e epk pk s0 =
         encrypt_chunks P (file_key P (payload_of fresh_pk pk) hh) [] cs_const s1) /\
    (forall t0 rest, reader_ok (rdr t0) -> r_data (rdr t0) = x_prologue ++ msg ++ rest ->
       exists t1, read_header t0 t1 rest /\
         key_decrypt P r (dh_pub P r) t0 =
         bind (decrypt_chunks P (file_key P (payload_of fresh_pk pk) hh) [] cs_const)
              (fun _ => ret (dh_pub P s)) t1).
Proof.
  intros Ha Hh Hc Hep He Hs Hr Hp Hz1 Hz2.
  destruct (noise_roundtrip_gen P Hh Ha Hc fresh_e e epk s r x_prologue (payload_of fresh_pk pk) e'
              Hep He Hs Hr Hp Hz1 Hz2) as (msg & hh & Henc & Hlen & Hdec).
  exists msg, hh. split; [exact Hlen|]. split.
  - intros s0 Hw0. now apply key_encrypt_header.
  - intros t0 rest Hr0 Hd0. now apply (key_decrypt_header r (dh_pub P r) t0 msg rest).
Qed.

End FilesFacts.

Section Closure.
Print Assumptions vff_asym_iff.
Print Assumptions vff_pass_iff.
Print Assumptions vff_other.
Print Assumptions key_encrypt_header.
Print Assumptions key_encrypt_dh_zero.
Print Assumptions key_encrypt_dh_zero_concrete.
Print Assumptions pass_encrypt_header.
Print Assumptions key_decrypt_header.
Print Assumptions pass_decrypt_header.
Print Assumptions key_decrypt_on_pass_file.
Print Assumptions pass_decrypt_on_key_file.
Print Assumptions key_decrypt_bad_magic.
Print Assumptions pass_decrypt_bad_magic.
Print Assumptions key_decrypt_wrong_mode_any.
Print Assumptions pass_decrypt_wrong_mode_any.
Print Assumptions key_decrypt_noise_err.
Print Assumptions key_header_agree.
End Closure.
