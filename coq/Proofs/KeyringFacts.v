(* Proofs/KeyringFacts.v — theorems about Model/Keyring.v: private-key locking/unlocking, public-key
   encoding, the key life cycle of commands.rs, and the glue to the keyring text parser.
   All statements are for an arbitrary [prims] record under the law hypotheses named in each
   theorem ([aead_ok], [hash_ok], [prims_bytes_ok]). *)
From Kestrel Require Import Bytes BytesFacts Outcome Prims.
From Kestrel.gen Require Import Extracted.
From Kestrel.Spec Require Import Base64 Base64Facts.
From Kestrel.Model Require Import AeadWrap KeyringText Keyring.
From Kestrel.Proofs Require Import KeyringRefine.
From Coq Require Import ZifyBool ZifyNat ZifyN.
Local Open Scope N_scope.

(* ====================================================================================== *)
(** * 0. Lists, slices, byte ranges                                                        *)
(* ====================================================================================== *)

Lemma firstn_len_app {A} (l r : list A) n : length l = n -> firstn n (l ++ r) = l.
Proof. intros <-. rewrite firstn_app, Nat.sub_diag, firstn_all. cbn [firstn]. apply app_nil_r. Qed.
Lemma skipn_len_app {A} (l r : list A) n : length l = n -> skipn n (l ++ r) = r.
Proof. intros <-. rewrite skipn_app, Nat.sub_diag, skipn_all. reflexivity. Qed.

Lemma beqb_refl a : bytes_eqb a a = true.
Proof.
  unfold bytes_eqb. rewrite Nat.eqb_refl. cbn [andb].
  induction a as [|x a IH]; [reflexivity|]. cbn [combine forallb fst snd]. now rewrite N.eqb_refl.
Qed.
Lemma beqb_eq a b : bytes_eqb a b = true <-> a = b.
Proof.
  split; [|intros ->; apply beqb_refl].
  unfold bytes_eqb. revert b. induction a as [|x a IH]; intros [|y b] H; cbn [length Nat.eqb andb] in H;
    try discriminate; [reflexivity|].
  apply andb_true_iff in H. destruct H as [Hl H]. cbn [combine forallb fst snd] in H.
  apply andb_true_iff in H. destruct H as [Hx H]. apply N.eqb_eq in Hx. subst y. f_equal.
  apply IH. now rewrite Hl, H.
Qed.
Lemma beqb_neq a b : a <> b -> bytes_eqb a b = false.
Proof. intros H. destruct (bytes_eqb a b) eqn:E; [|reflexivity]. now apply beqb_eq in E. Qed.

Lemma slice_ok {E} (l : bytes) a b : (a <= b)%nat -> (b <= length l)%nat ->
  @slice E l a b = Ok (firstn (b - a) (skipn a l)).
Proof.
  intros H1 H2. unfold slice.
  replace (Nat.leb a b) with true by (symmetry; now apply Nat.leb_le).
  replace (Nat.leb b (length l)) with true by (symmetry; now apply Nat.leb_le). reflexivity.
Qed.
Lemma slice0_ok {E} (l : bytes) b : (b <= length l)%nat -> @slice E l 0 b = Ok (firstn b l).
Proof. intros H. rewrite slice_ok by lia. now rewrite Nat.sub_0_r. Qed.
Lemma copy_into_ok {E} (dst : bytes) a b src : (a <= b)%nat -> (b <= length dst)%nat ->
  length src = (b - a)%nat -> @copy_into E dst a b src = Ok (firstn a dst ++ src ++ skipn b dst).
Proof.
  intros H1 H2 H3. unfold copy_into.
  replace (Nat.leb a b) with true by (symmetry; now apply Nat.leb_le).
  replace (Nat.leb b (length dst)) with true by (symmetry; now apply Nat.leb_le).
  cbn [andb]. now rewrite H3, Nat.eqb_refl.
Qed.

Lemma bytes_ok_app a b : bytes_ok (a ++ b) <-> bytes_ok a /\ bytes_ok b.
Proof. unfold bytes_ok. apply Forall_app. Qed.
Lemma bytes_ok_firstn n b : bytes_ok b -> bytes_ok (firstn n b).
Proof. intros H. rewrite <- (firstn_skipn n b) in H. now apply bytes_ok_app in H. Qed.
Lemma bytes_ok_skipn n b : bytes_ok b -> bytes_ok (skipn n b).
Proof. intros H. rewrite <- (firstn_skipn n b) in H. now apply bytes_ok_app in H. Qed.
Lemma version_ok : bytes_ok x_kr_private_key_version.
Proof. unfold bytes_ok, x_kr_private_key_version. repeat constructor. Qed.

(* ====================================================================================== *)
(** * 1. The string validators                                                             *)
(* ====================================================================================== *)

(* the slice bounds of the model ARE the literals extracted from keyring.rs *)
Lemma slices_read_extracted :
  ul_version_end = N.to_nat x_kr_unlock_version_end /\
  ul_salt_lo = N.to_nat x_kr_unlock_salt_lo /\ ul_salt_hi = N.to_nat x_kr_unlock_salt_hi /\
  ul_ct_lo = N.to_nat x_kr_unlock_ct_lo /\ ul_ct_hi = N.to_nat x_kr_unlock_ct_hi /\
  dp_pk_end = N.to_nat x_kr_decode_pk_end /\ dp_ck_start = N.to_nat x_kr_decode_ck_start /\
  dp_checksum_len = N.to_nat x_kr_checksum_len /\
  (forall s : text, pk_string_ok s =
     match b64_decode s with
     | Some b => Nat.eqb (length b) (N.to_nat x_kr_encoded_pk_try_len)
     | None => false
     end).
Proof. repeat split. Qed.

(* try_from accepts exactly the canonical base64 texts of 36 / 84 bytes *)
Theorem pk_string_ok_iff s :
  pk_string_ok s = true <-> exists b, b64_decode s = Some b /\ length b = 36%nat.
Proof.
  unfold pk_string_ok. change (N.to_nat x_kr_encoded_pk_try_len) with 36%nat. split.
  - destruct (b64_decode s) as [b|]; [|discriminate]. intros H. apply Nat.eqb_eq in H. now exists b.
  - intros [b [-> Hl]]. now apply Nat.eqb_eq.
Qed.
Theorem sk_string_ok_iff s :
  sk_string_ok s = true <-> exists b, b64_decode s = Some b /\ length b = 84%nat.
Proof.
  unfold sk_string_ok. change (N.to_nat x_kr_private_key_ct_len) with 84%nat. split.
  - destruct (b64_decode s) as [b|]; [|discriminate]. intros H. apply Nat.eqb_eq in H. now exists b.
  - intros [b [-> Hl]]. now apply Nat.eqb_eq.
Qed.
(* ... and such a text is THE encoding of its bytes (strictness: no second spelling) *)
Theorem sk_string_ok_canonical s b : b64_decode s = Some b -> s = b64_encode b /\ bytes_ok b.
Proof. intros H. split; [symmetry; now apply b64_encode_decode | now apply (b64_decode_ok s)]. Qed.
Theorem sk_string_ok_length s : sk_string_ok s = true -> length s = 112%nat.
Proof.
  intros H. apply sk_string_ok_iff in H. destruct H as [b [Hd Hl]].
  apply b64_decode_length in Hd. rewrite Hd, Hl. reflexivity.
Qed.
Theorem pk_string_ok_length s : pk_string_ok s = true -> length s = 48%nat.
Proof.
  intros H. apply pk_string_ok_iff in H. destruct H as [b [Hd Hl]].
  apply b64_decode_length in Hd. rewrite Hd, Hl. reflexivity.
Qed.
Lemma sk_string_ok_encode b : bytes_ok b -> length b = 84%nat -> sk_string_ok (b64_encode b) = true.
Proof. intros Hb Hl. apply sk_string_ok_iff. exists b. split; [now apply b64_decode_encode | exact Hl]. Qed.
Lemma pk_string_ok_encode b : bytes_ok b -> length b = 36%nat -> pk_string_ok (b64_encode b) = true.
Proof. intros Hb Hl. apply pk_string_ok_iff. exists b. split; [now apply b64_decode_encode | exact Hl]. Qed.

(* base64 text contains no white space and is not empty: it can be written as a field value *)
Lemma b64_encode_no_ws_text b : bytes_ok b -> no_ws (b64_encode b).
Proof.
  intros Hb. unfold no_ws. pose proof (b64_encode_alphabet b Hb) as H.
  rewrite Forall_forall in *. intros c Hc. specialize (H c Hc). destruct H as [H| ->]; [|reflexivity].
  destruct (b64_val c) as [d|] eqn:E; [|congruence]. apply b64_val_range in E.
  unfold is_ws. lia.
Qed.
Lemma b64_encode_val_ok b : bytes_ok b -> b <> [] -> val_ok (b64_encode b).
Proof.
  intros Hb Hne. split; [|now apply b64_encode_no_ws_text].
  intros E. apply (f_equal (@length N)) in E. rewrite b64_encode_length in E. cbn [length] in E.
  destruct b as [|x b]; [congruence|]. cbn [length] in E.
  assert (1 <= (S (length b) + 2) / 3)%nat by (apply Nat.div_le_lower_bound; lia). lia.
Qed.

Section Facts.
Variable P : prims.
Hypothesis HA : aead_ok P.
Hypothesis HH : hash_ok P.

(* ====================================================================================== *)
(** * 2. Public keys (theorem group 5)                                                      *)
(* ====================================================================================== *)

Lemma pk_blob_length pk : length pk = 32%nat -> length (pk_blob P pk) = 36%nat.
Proof.
  intros Hl. unfold pk_blob. rewrite app_length, firstn_length, (hash_len P HH), Hl. reflexivity.
Qed.

Lemma encode_public_key_eq pk : length pk = 32%nat ->
  encode_public_key P pk = Ok (b64_encode (pk_blob P pk)).
Proof.
  intros Hl. unfold encode_public_key. change (N.to_nat x_kr_encoded_pk_len) with 36%nat.
  rewrite copy_into_ok by (cbn [zeros repeat length]; lia). cbn [obind].
  rewrite slice0_ok by (rewrite ?(hash_len P HH); lia). cbn [obind].
  assert (E : firstn 0 (zeros 36) ++ pk ++ skipn 32 (zeros 36) = pk ++ zeros 4) by reflexivity.
  rewrite E.
  assert (L : length (pk ++ zeros 4) = 36%nat) by (rewrite app_length, Hl; reflexivity).
  rewrite copy_into_ok; rewrite ?L; try lia.
  2:{ rewrite firstn_length, (hash_len P HH). reflexivity. }
  cbn [obind]. rewrite firstn_len_app by exact Hl.
  rewrite skipn_all2 by lia. rewrite app_nil_r. reflexivity.
Qed.

Lemma encode_public_key_panics pk : length pk <> 32%nat -> encode_public_key P pk = Panic PSliceIndex.
Proof.
  intros Hl. unfold encode_public_key, copy_into. change (N.to_nat x_kr_encoded_pk_len) with 36%nat.
  cbn [zeros repeat length Nat.leb andb Nat.sub].
  replace (Nat.eqb (length pk) 32) with false by (symmetry; now apply Nat.eqb_neq). reflexivity.
Qed.

(* what decode_public_key does on a text try_from accepted *)
Lemma decode_public_key_cases e b : b64_decode e = Some b -> length b = 36%nat ->
  decode_public_key P e =
  if bytes_eqb (skipn 32 b) (firstn 4 (p_hash P (firstn 32 b))) then Ok (firstn 32 b)
  else Err PublicKeyChecksum.
Proof.
  intros Hd Hl. unfold decode_public_key. rewrite Hd. change (N.to_nat x_kr_public_key_len) with 32%nat.
  (* the slice bounds are the literals read from keyring.rs *)
  change dp_pk_end with 32%nat. change dp_ck_start with 32%nat. change dp_checksum_len with 4%nat.
  replace (Nat.ltb (length b) 32) with false by (symmetry; apply Nat.ltb_ge; lia).
  rewrite slice0_ok by lia. cbn [obind]. unfold slice_from. rewrite slice_ok by lia. cbn [obind].
  rewrite slice0_ok by (rewrite ?(hash_len P HH); lia). cbn [obind].
  rewrite Hl. change (36 - 32)%nat with 4%nat.
  rewrite (firstn_all2 (n := 4) (skipn 32 b)) by (rewrite skipn_length; lia).
  destruct (bytes_eqb (skipn 32 b) (firstn 4 (p_hash P (firstn 32 b)))); cbn [negb]; [|reflexivity].
  unfold key32_expect. rewrite firstn_length, Hl. reflexivity.
Qed.

Theorem decode_never_panics e : pk_string_ok e = true ->
  (exists pk, decode_public_key P e = Ok pk) \/ decode_public_key P e = Err PublicKeyChecksum.
Proof.
  intros H. apply pk_string_ok_iff in H. destruct H as [b [Hd Hl]].
  rewrite (decode_public_key_cases e b Hd Hl).
  destruct (bytes_eqb _ _); [left; eauto | now right].
Qed.

Theorem decode_checksum e pk : pk_string_ok e = true ->
  (decode_public_key P e = Ok pk <->
   exists b, b64_decode e = Some b /\ pk = firstn 32 b /\ skipn 32 b = firstn 4 (p_hash P pk)).
Proof.
  intros H. apply pk_string_ok_iff in H. destruct H as [b [Hd Hl]].
  rewrite (decode_public_key_cases e b Hd Hl). split.
  - destruct (bytes_eqb _ _) eqn:E; [|discriminate]. intros Hp. injection Hp as <-.
    apply beqb_eq in E. exists b. auto.
  - intros [b' [Hd' [-> Hs]]]. rewrite Hd in Hd'. injection Hd' as <-.
    now rewrite Hs, beqb_refl.
Qed.
(* ... and every other accepted text is a checksum error *)
Theorem decode_checksum_err e : pk_string_ok e = true ->
  (forall pk, decode_public_key P e <> Ok pk) -> decode_public_key P e = Err PublicKeyChecksum.
Proof.
  intros H Hno. destruct (decode_never_panics e H) as [[pk Hp]|He]; [|exact He]. now apply Hno in Hp.
Qed.

Section PkRoundTrip.
Hypothesis HB : prims_bytes_ok P.

Lemma pk_blob_ok pk : bytes_ok pk -> bytes_ok (pk_blob P pk).
Proof. intros Hp. apply bytes_ok_app. split; [exact Hp | apply bytes_ok_firstn, (hash_bytes_ok P HB)]. Qed.

Theorem decode_encode_pk pk : length pk = 32%nat -> bytes_ok pk ->
  exists e, encode_public_key P pk = Ok e /\ pk_string_ok e = true /\ length e = 48%nat
            /\ decode_public_key P e = Ok pk.
Proof.
  intros Hl Hp. exists (b64_encode (pk_blob P pk)).
  pose proof (pk_blob_length pk Hl) as L. pose proof (pk_blob_ok pk Hp) as Hb.
  assert (Hs : pk_string_ok (b64_encode (pk_blob P pk)) = true) by now apply pk_string_ok_encode.
  split; [now apply encode_public_key_eq|]. split; [exact Hs|]. split; [now apply pk_string_ok_length|].
  apply decode_checksum; [exact Hs|]. exists (pk_blob P pk). split; [now apply b64_decode_encode|].
  unfold pk_blob. now rewrite firstn_len_app, skipn_len_app.
Qed.

Theorem encode_pk_inj pk1 pk2 e : bytes_ok pk1 -> bytes_ok pk2 ->
  encode_public_key P pk1 = Ok e -> encode_public_key P pk2 = Ok e -> pk1 = pk2.
Proof.
  intros B1 B2 E1 E2.
  destruct (Nat.eq_dec (length pk1) 32) as [L1|L1]; [|rewrite encode_public_key_panics in E1 by exact L1; discriminate].
  destruct (Nat.eq_dec (length pk2) 32) as [L2|L2]; [|rewrite encode_public_key_panics in E2 by exact L2; discriminate].
  rewrite encode_public_key_eq in E1, E2 by assumption. injection E1 as E1. injection E2 as E2.
  rewrite <- E2 in E1. apply b64_encode_inj in E1; try now apply pk_blob_ok.
  unfold pk_blob in E1. apply app_len_inj in E1; [tauto | congruence].
Qed.
End PkRoundTrip.

(* ====================================================================================== *)
(** * 3. Private keys: lock / unlock (theorem groups 1, 2, 3)                               *)
(* ====================================================================================== *)

Notation version := x_kr_private_key_version.

Lemma kr_key_length pw salt : length (kr_key P pw salt) = 32%nat.
Proof. unfold kr_key. apply (scrypt_len P HH). Qed.

Lemma kr_blob_length sk pw salt : length (kr_blob P sk pw salt) = (4 + (length salt + (length sk + 16)))%nat.
Proof. unfold kr_blob. now rewrite !app_length, (seal_len P HA). Qed.

(* the three fields of an 84-byte blob, as unlock_private_key cuts them *)
Lemma blob_parts (v salt ct : bytes) : length v = 4%nat -> length salt = 32%nat ->
  firstn 4 (v ++ salt ++ ct) = v /\ firstn 32 (skipn 4 (v ++ salt ++ ct)) = salt
  /\ skipn 36 (v ++ salt ++ ct) = ct.
Proof.
  intros Hv Hs. split; [now apply firstn_len_app|]. split.
  - rewrite skipn_len_app by exact Hv. now apply firstn_len_app.
  - change 36%nat with (4 + 32)%nat. rewrite <- skipn_add. rewrite skipn_len_app by exact Hv.
    now apply skipn_len_app.
Qed.

(* lock never panics and produces the documented layout, whatever the lengths of its arguments *)
Lemma lock_private_key_eq sk pw salt :
  lock_private_key P sk pw salt = Ok (b64_encode (kr_blob P sk pw salt)).
Proof.
  unfold lock_private_key, chapoly_encrypt_ietf, kr_scrypt.
  change (N.to_nat x_kr_lock_nonce_len) with 12%nat. change (N.to_nat x_kr_lock_scrypt_len) with 32%nat.
  rewrite (scrypt_len P HH). reflexivity.
Qed.

(* what unlock does on a text try_from accepted *)
Lemma unlock_cases locked kb pw : b64_decode locked = Some kb -> length kb = 84%nat ->
  unlock_private_key P locked pw =
  if bytes_eqb (firstn 4 kb) version then
    match p_open P (kr_key P pw (firstn 32 (skipn 4 kb))) (zeros 12) (firstn 4 kb) (skipn 36 kb) with
    | Some pt => Ok pt
    | None => Err PrivateKeyDecrypt
    end
  else Err PrivateKeyFormat.
Proof.
  intros Hd Hl. unfold unlock_private_key, sk_as_bytes. rewrite Hd. cbn [obind].
  change (N.to_nat x_kr_private_key_ct_len) with 84%nat. rewrite Hl. cbn [Nat.eqb negb].
  (* the slice bounds are the literals read from keyring.rs *)
  change ul_version_end with 4%nat. change ul_salt_lo with 4%nat. change ul_salt_hi with 36%nat.
  change ul_ct_lo with 36%nat. change ul_ct_hi with 84%nat.
  rewrite slice0_ok by lia. cbn [obind].
  destruct (bytes_eqb (firstn 4 kb) version); cbn [negb]; [|reflexivity].
  rewrite !slice_ok by lia. cbn [obind]. change (36 - 4)%nat with 32%nat. change (84 - 36)%nat with 48%nat.
  assert (Lc : length (skipn 36 kb) = 48%nat) by (rewrite skipn_length; lia).
  rewrite (firstn_all2 (n := 48) (skipn 36 kb)) by lia.
  unfold chapoly_decrypt_ietf, chapoly_decrypt_ietf_gen, kr_scrypt.
  change (N.to_nat x_kr_unlock_nonce_len) with 12%nat. change (N.to_nat x_kr_unlock_scrypt_len) with 32%nat.
  rewrite (scrypt_len P HH), Lc. change (length (zeros 12)) with 12%nat. cbn [Nat.eqb negb Nat.ltb Nat.leb].
  fold (kr_key P pw (firstn 32 (skipn 4 kb))).
  destruct (p_open P (kr_key P pw (firstn 32 (skipn 4 kb))) (zeros 12) (firstn 4 kb) (skipn 36 kb)) as [pt|] eqn:Eo;
    cbn [omap_err obind]; [|reflexivity].
  apply (open_len P HA) in Eo. unfold key32_expect.
  replace (Nat.eqb (length pt) 32) with true by (symmetry; apply Nat.eqb_eq; lia). reflexivity.
Qed.

(* group 2, second half: every conforming string unlocks (whoever produced it) *)
Theorem conforming_unlocks str sk pw salt : length sk = 32%nat -> length salt = 32%nat ->
  b64_decode str = Some (kr_blob P sk pw salt) -> unlock_private_key P str pw = Ok sk.
Proof.
  intros Lk Ls Hd. rewrite (unlock_cases str _ pw Hd) by (rewrite kr_blob_length; lia).
  unfold kr_blob. destruct (blob_parts version salt (p_seal P (kr_key P pw salt) (zeros 12) version sk)) as [E1 [E2 E3]];
    [reflexivity | exact Ls |].
  rewrite E1, E2, E3, beqb_refl. now rewrite (open_seal P HA).
Qed.

(* converse: whatever unlocks IS a conforming string for the key returned *)
Theorem unlock_ok_inv locked pw sk : sk_string_ok locked = true ->
  unlock_private_key P locked pw = Ok sk ->
  exists salt, length salt = 32%nat /\ length sk = 32%nat /\ b64_decode locked = Some (kr_blob P sk pw salt).
Proof.
  intros Hs Hu. apply sk_string_ok_iff in Hs. destruct Hs as [kb [Hd Hl]].
  rewrite (unlock_cases locked kb pw Hd Hl) in Hu.
  destruct (bytes_eqb (firstn 4 kb) version) eqn:Ev; [|discriminate]. apply beqb_eq in Ev.
  destruct (p_open _ _ _ _ _) as [pt|] eqn:Eo; [|discriminate]. injection Hu as ->.
  pose proof (open_len P HA _ _ _ _ _ Eo) as Lo. rewrite skipn_length in Lo.
  apply (open_inv P HA) in Eo. exists (firstn 32 (skipn 4 kb)).
  split; [rewrite firstn_length, skipn_length; lia|]. split; [lia|].
  rewrite Ev in Eo. rewrite Hd. f_equal. unfold kr_blob. rewrite <- Eo. rewrite <- Ev.
  change 36%nat with (4 + 32)%nat. rewrite <- skipn_add. now rewrite !firstn_skipn.
Qed.

Corollary unlock_ok_iff locked pw sk : sk_string_ok locked = true ->
  (unlock_private_key P locked pw = Ok sk <->
   exists salt, length salt = 32%nat /\ length sk = 32%nat /\ b64_decode locked = Some (kr_blob P sk pw salt)).
Proof.
  intros Hs. split; [now apply unlock_ok_inv|]. intros [salt [Ls [Lk Hd]]]. now apply (conforming_unlocks locked sk pw salt).
Qed.

(* group 3 *)
Theorem unlock_no_panic locked pw : sk_string_ok locked = true ->
  (exists sk, unlock_private_key P locked pw = Ok sk /\ length sk = 32%nat)
  \/ unlock_private_key P locked pw = Err PrivateKeyFormat
  \/ unlock_private_key P locked pw = Err PrivateKeyDecrypt.
Proof.
  intros Hs. destruct (unlock_private_key P locked pw) as [sk|e|w|] eqn:E.
  - left. exists sk. split; [reflexivity|]. destruct (unlock_ok_inv locked pw sk Hs E) as [salt [_ [Lk _]]]. exact Lk.
  - apply sk_string_ok_iff in Hs. destruct Hs as [kb [Hd Hl]]. rewrite (unlock_cases locked kb pw Hd Hl) in E.
    destruct (bytes_eqb _ _); [destruct (p_open _ _ _ _ _)|]; try discriminate; injection E as <-; auto.
  - exfalso. apply sk_string_ok_iff in Hs. destruct Hs as [kb [Hd Hl]]. rewrite (unlock_cases locked kb pw Hd Hl) in E.
    destruct (bytes_eqb _ _); [destruct (p_open _ _ _ _ _)|]; discriminate.
  - exfalso. apply sk_string_ok_iff in Hs. destruct Hs as [kb [Hd Hl]]. rewrite (unlock_cases locked kb pw Hd Hl) in E.
    destruct (bytes_eqb _ _); [destruct (p_open _ _ _ _ _)|]; discriminate.
Qed.
Corollary unlock_normal locked pw : sk_string_ok locked = true -> normal (unlock_private_key P locked pw).
Proof.
  intros Hs. destruct (unlock_no_panic locked pw Hs) as [[sk [-> _]]|[-> | ->]]; exact I.
Qed.

Theorem unlock_rejects locked kb pw : b64_decode locked = Some kb -> length kb = 84%nat ->
  (firstn 4 kb <> version -> unlock_private_key P locked pw = Err PrivateKeyFormat)
  /\ (firstn 4 kb = version ->
      p_open P (kr_key P pw (firstn 32 (skipn 4 kb))) (zeros 12) (firstn 4 kb) (skipn 36 kb) = None ->
      unlock_private_key P locked pw = Err PrivateKeyDecrypt).
Proof.
  intros Hd Hl. rewrite (unlock_cases locked kb pw Hd Hl). split.
  - intros Hv. now rewrite beqb_neq.
  - intros Hv Ho. now rewrite Ho, Hv, beqb_refl.
Qed.

(* outside try_from's domain (not reachable through EncodedSk::try_from; EncodedSk(..) built
   directly, as the tests module does, can reach both) *)
Lemma unlock_undecodable locked pw : b64_decode locked = None -> unlock_private_key P locked pw = Panic PUnwrap.
Proof. intros Hd. unfold unlock_private_key, sk_as_bytes. now rewrite Hd. Qed.
Lemma unlock_wrong_length locked kb pw : b64_decode locked = Some kb -> length kb <> 84%nat ->
  unlock_private_key P locked pw = Err PrivateKeyLength.
Proof.
  intros Hd Hl. unfold unlock_private_key, sk_as_bytes. rewrite Hd. cbn [obind].
  change (N.to_nat x_kr_private_key_ct_len) with 84%nat.
  replace (Nat.eqb (length kb) 84) with false by (symmetry; now apply Nat.eqb_neq). reflexivity.
Qed.

Section SkRoundTrip.
Hypothesis HB : prims_bytes_ok P.

Lemma kr_blob_ok sk pw salt : bytes_ok sk -> bytes_ok salt -> bytes_ok (kr_blob P sk pw salt).
Proof.
  intros Hk Hs. unfold kr_blob. apply bytes_ok_app. split; [apply version_ok|].
  apply bytes_ok_app. split; [exact Hs | now apply (seal_bytes_ok P HB)].
Qed.

(* group 2, first half *)
Theorem lock_layout sk pw salt : length sk = 32%nat -> bytes_ok sk -> length salt = 32%nat -> bytes_ok salt ->
  exists str, lock_private_key P sk pw salt = Ok str
  /\ b64_decode str = Some (version ++ salt ++ p_seal P (kr_key P pw salt) (zeros 12) version sk)
  /\ length (version ++ salt ++ p_seal P (kr_key P pw salt) (zeros 12) version sk) = 84%nat.
Proof.
  intros Lk Bk Ls Bs. exists (b64_encode (kr_blob P sk pw salt)). split; [apply lock_private_key_eq|].
  split; [apply b64_decode_encode; now apply kr_blob_ok|].
  fold (kr_blob P sk pw salt). rewrite kr_blob_length. lia.
Qed.

(* group 1 *)
Theorem unlock_lock sk pw salt : length sk = 32%nat -> bytes_ok sk -> length salt = 32%nat -> bytes_ok salt ->
  exists str, lock_private_key P sk pw salt = Ok str /\ unlock_private_key P str pw = Ok sk
  /\ sk_string_ok str = true /\ length str = 112%nat.
Proof.
  intros Lk Bk Ls Bs. destruct (lock_layout sk pw salt Lk Bk Ls Bs) as [str [E1 [E2 E3]]].
  exists str. split; [exact E1|]. split; [now apply (conforming_unlocks str sk pw salt)|].
  assert (Hs : sk_string_ok str = true) by (apply sk_string_ok_iff; eauto).
  split; [exact Hs | now apply sk_string_ok_length].
Qed.
End SkRoundTrip.

(* ====================================================================================== *)
(** * 4. The key life cycle of commands.rs (theorem group 6)                                *)
(* ====================================================================================== *)

Lemma to_public_eq sk : length sk = 32%nat -> to_public P sk = Ok (dh_pub P sk).
Proof.
  intros Lk. unfold to_public, x25519_derive_public. rewrite Lk. cbn [Nat.eqb negb omap_err obind].
  unfold key32_expect, dh_pub. now rewrite (dh_len P HH).
Qed.
Lemma dh_pub_length sk : length (dh_pub P sk) = 32%nat.
Proof. apply (dh_len P HH). Qed.

Lemma gen_key_text_eq name sk pw salt : valid_key_name name = true -> length sk = 32%nat -> length salt = 32%nat ->
  gen_key_text P name sk pw salt =
  Ok (serialize_key name (b64_encode (pk_blob P (dh_pub P sk))) (b64_encode (kr_blob P sk pw salt))).
Proof.
  intros Hn Lk Ls. unfold gen_key_text, salt32. rewrite Hn, (to_public_eq sk Lk), Ls. cbn [negb obind Nat.eqb].
  rewrite lock_private_key_eq, (encode_public_key_eq _ (dh_pub_length sk)). reflexivity.
Qed.

Lemma change_pass_str_eq locked old_pw new_pw salt' sk : sk_string_ok locked = true ->
  unlock_private_key P locked old_pw = Ok sk -> length salt' = 32%nat ->
  change_pass_str P locked old_pw new_pw salt' = Ok (b64_encode (kr_blob P sk new_pw salt')).
Proof.
  intros Hs Hu Ls. unfold change_pass_str, salt32. rewrite Hs, Hu, Ls. cbn [negb omap_err obind Nat.eqb].
  now rewrite lock_private_key_eq.
Qed.
Lemma change_pass_eq locked old_pw new_pw salt' sk : sk_string_ok locked = true ->
  unlock_private_key P locked old_pw = Ok sk -> length salt' = 32%nat ->
  change_pass P locked old_pw new_pw salt' = Ok (s_priv ++ s_sp_eq_sp ++ b64_encode (kr_blob P sk new_pw salt')).
Proof. intros Hs Hu Ls. unfold change_pass. now rewrite (change_pass_str_eq _ _ _ _ sk). Qed.

Lemma extract_pub_eq locked pw sk : sk_string_ok locked = true ->
  unlock_private_key P locked pw = Ok sk ->
  extract_pub P locked pw = Ok (s_pub ++ s_sp_eq_sp ++ b64_encode (pk_blob P (dh_pub P sk))).
Proof.
  intros Hs Hu. destruct (unlock_ok_inv locked pw sk Hs Hu) as [salt [_ [Lk _]]].
  unfold extract_pub. rewrite Hs, Hu. cbn [negb omap_err obind]. rewrite (to_public_eq sk Lk). cbn [obind].
  now rewrite (encode_public_key_eq _ (dh_pub_length sk)).
Qed.

(* the commands refuse a string try_from refuses, before any other computation *)
Lemma change_pass_bad_string locked old_pw new_pw salt' : sk_string_ok locked = false ->
  change_pass P locked old_pw new_pw salt' = Err CBadPrivateKey.
Proof. intros Hs. unfold change_pass, change_pass_str. now rewrite Hs. Qed.
Lemma extract_pub_bad_string locked pw : sk_string_ok locked = false -> extract_pub P locked pw = Err CBadPrivateKey.
Proof. intros Hs. unfold extract_pub. now rewrite Hs. Qed.
(* a wrong password (or damaged key) is reported as that keyring error, nothing is printed *)
Lemma change_pass_unlock_err locked old_pw new_pw salt' e : sk_string_ok locked = true ->
  unlock_private_key P locked old_pw = Err e -> change_pass P locked old_pw new_pw salt' = Err (CKeyring e).
Proof. intros Hs Hu. unfold change_pass, change_pass_str. now rewrite Hs, Hu. Qed.

Lemma last_cons_default {A} (a : A) l d : last (a :: l) d = last l a.
Proof. revert a; induction l as [|b l IH]; intros a; [reflexivity|]. cbn [last] in *. destruct l; [reflexivity|]. apply IH. Qed.

Section LifeCycle.
Hypothesis HB : prims_bytes_ok P.

Lemma locked_blob_usable sk pw salt : length sk = 32%nat -> bytes_ok sk -> length salt = 32%nat -> bytes_ok salt ->
  sk_string_ok (b64_encode (kr_blob P sk pw salt)) = true
  /\ unlock_private_key P (b64_encode (kr_blob P sk pw salt)) pw = Ok sk
  /\ b64_decode (b64_encode (kr_blob P sk pw salt)) = Some (kr_blob P sk pw salt)
  /\ firstn 32 (skipn 4 (kr_blob P sk pw salt)) = salt.
Proof.
  intros Lk Bk Ls Bs. destruct (unlock_lock HB sk pw salt Lk Bk Ls Bs) as [str [E1 [E2 [E3 _]]]].
  rewrite lock_private_key_eq in E1. injection E1 as <-. split; [exact E3|]. split; [exact E2|].
  split; [apply b64_decode_encode; now apply kr_blob_ok|].
  unfold kr_blob. now apply blob_parts.
Qed.

(* any number of password changes: every string produced is exactly what locking the ORIGINAL key
   under that step's password and salt gives *)
Lemma change_pass_seq_eq sk : length sk = 32%nat -> bytes_ok sk ->
  forall steps locked pw, sk_string_ok locked = true -> unlock_private_key P locked pw = Ok sk ->
  Forall (fun st => length (snd st) = 32%nat /\ bytes_ok (snd st)) steps ->
  change_pass_seq P locked pw steps = Ok (map (fun st => b64_encode (kr_blob P sk (fst st) (snd st))) steps).
Proof.
  intros Lk Bk. induction steps as [|[new_pw salt'] rest IH]; intros locked pw Hs Hu Hall; [reflexivity|].
  inversion Hall as [|st r [Ls Bs] Hrest]; subst. cbn [fst snd] in Ls, Bs.
  cbn [change_pass_seq map fst snd]. rewrite (change_pass_str_eq locked pw new_pw salt' sk Hs Hu Ls). cbn [obind].
  destruct (locked_blob_usable sk new_pw salt' Lk Bk Ls Bs) as [S1 [S2 _]].
  now rewrite (IH _ new_pw S1 S2 Hrest).
Qed.

Theorem change_pass_identity sk pw0 salt0 steps :
  length sk = 32%nat -> bytes_ok sk -> length salt0 = 32%nat -> bytes_ok salt0 ->
  Forall (fun st => length (snd st) = 32%nat /\ bytes_ok (snd st)) steps ->
  exists str0 outs,
    lock_private_key P sk pw0 salt0 = Ok str0
    /\ change_pass_seq P str0 pw0 steps = Ok outs
    (* every intermediate string: unlocks under its own password to the original key, is
       accepted by try_from, and embeds that step's salt at bytes 4..36 *)
    /\ Forall2 (fun out st => unlock_private_key P out (fst st) = Ok sk /\ sk_string_ok out = true
                  /\ exists b, b64_decode out = Some b /\ firstn 32 (skipn 4 b) = snd st) outs steps
    (* the final string under the last password *)
    /\ unlock_private_key P (last outs str0) (last (map fst steps) pw0) = Ok sk.
Proof.
  intros Lk Bk Ls0 Bs0 Hall.
  destruct (locked_blob_usable sk pw0 salt0 Lk Bk Ls0 Bs0) as [S1 [S2 _]].
  exists (b64_encode (kr_blob P sk pw0 salt0)), (map (fun st => b64_encode (kr_blob P sk (fst st) (snd st))) steps).
  split; [apply lock_private_key_eq|]. split; [now apply change_pass_seq_eq|].
  revert S1 S2. generalize (b64_encode (kr_blob P sk pw0 salt0)) as str0. revert pw0.
  induction steps as [|[new_pw salt'] rest IH]; intros pw0 str0 S1 S2.
  - split; [constructor | exact S2].
  - inversion Hall as [|st r [Ls Bs] Hrest]; subst. cbn [fst snd] in Ls, Bs.
    destruct (locked_blob_usable sk new_pw salt' Lk Bk Ls Bs) as [T1 [T2 [T3 T4]]].
    destruct (IH Hrest new_pw _ T1 T2) as [F L]. cbn [map fst snd]. split.
    + constructor; [|exact F]. cbn [fst snd]. split; [exact T2|]. split; [exact T1|]. eauto.
    + rewrite !last_cons_default. exact L.
Qed.

Theorem extract_pub_matches_gen name sk pw salt : valid_key_name name = true ->
  length sk = 32%nat -> bytes_ok sk -> length salt = 32%nat -> bytes_ok salt ->
  exists epk esk line,
    gen_key_text P name sk pw salt = Ok (serialize_key name epk esk)
    /\ extract_pub P esk pw = Ok line
    /\ line = s_pub ++ s_sp_eq_sp ++ epk
    (* [line] is literally the PublicKey line of the text gen_key wrote *)
    /\ serialize_key name epk esk =
       s_hdr ++ [c_nl] ++ s_name ++ s_sp_eq_sp ++ name ++ [c_nl] ++ line ++ [c_nl]
             ++ s_priv ++ s_sp_eq_sp ++ esk ++ [c_nl].
Proof.
  intros Hn Lk Bk Ls Bs. destruct (locked_blob_usable sk pw salt Lk Bk Ls Bs) as [S1 [S2 _]].
  exists (b64_encode (pk_blob P (dh_pub P sk))), (b64_encode (kr_blob P sk pw salt)),
         (s_pub ++ s_sp_eq_sp ++ b64_encode (pk_blob P (dh_pub P sk))).
  split; [now apply gen_key_text_eq|]. split; [now apply extract_pub_eq|]. split; [reflexivity|].
  unfold serialize_key. now rewrite <- !app_assoc.
Qed.

(* ====================================================================================== *)
(** * 5. Glue to the keyring text parser (theorem group 7)                                  *)
(* ====================================================================================== *)

Lemma dh_pub_ok sk : bytes_ok (dh_pub P sk).
Proof. apply (dh_bytes_ok P HB). Qed.

Theorem gen_entry_is_ok name sk pw salt : gen_name_ok name ->
  length sk = 32%nat -> bytes_ok sk -> length salt = 32%nat -> bytes_ok salt ->
  exists epk esk,
    encode_public_key P (dh_pub P sk) = Ok epk /\ lock_private_key P sk pw salt = Ok esk
    /\ gen_entry_ok pk_string_ok sk_string_ok (mk_entry name epk (Some esk)).
Proof.
  intros Hn Lk Bk Ls Bs.
  exists (b64_encode (pk_blob P (dh_pub P sk))), (b64_encode (kr_blob P sk pw salt)).
  split; [apply encode_public_key_eq, dh_pub_length|]. split; [apply lock_private_key_eq|].
  pose proof (pk_blob_ok HB _ (dh_pub_ok sk)) as Bp. pose proof (pk_blob_length _ (dh_pub_length sk)) as Lp.
  pose proof (kr_blob_ok HB sk pw salt Bk Bs) as Bb.
  assert (Lb : length (kr_blob P sk pw salt) = 84%nat) by (rewrite kr_blob_length; lia).
  unfold gen_entry_ok. cbn [k_name k_pub k_priv]. split; [exact Hn|].
  split; [now apply pk_string_ok_encode|]. split.
  - apply b64_encode_val_ok; [exact Bp|]. intros E. rewrite E in Lp. discriminate.
  - exists (b64_encode (kr_blob P sk pw salt)). split; [reflexivity|]. split; [now apply sk_string_ok_encode|].
    apply b64_encode_val_ok; [exact Bb|]. intros E. rewrite E in Lb. discriminate.
Qed.

(* gen-key appending to ANY accepted keyring: the file parses to the old entries followed by
   the new one, whose private key unlocks with the password given and whose public key decodes
   to the matching X25519 public key *)
Theorem generated_keys_usable t0 ks0 name sk pw salt txt epk : gen_name_ok name ->
  length sk = 32%nat -> bytes_ok sk -> length salt = 32%nat -> bytes_ok salt ->
  parse_config pk_string_ok sk_string_ok t0 = Ok ks0 ->
  gen_key_text P name sk pw salt = Ok txt ->
  encode_public_key P (dh_pub P sk) = Ok epk ->
  ~ In name (map k_name ks0) -> ~ In epk (map k_pub ks0) ->
  exists esk,
    parse_config pk_string_ok sk_string_ok (t0 ++ [c_nl] ++ txt) = Ok (ks0 ++ [mk_entry name epk (Some esk)])
    /\ unlock_private_key P esk pw = Ok sk
    /\ decode_public_key P epk = Ok (dh_pub P sk)
    /\ extract_pub P esk pw = Ok (s_pub ++ s_sp_eq_sp ++ epk).
Proof.
  intros Hn Lk Bk Ls Bs H0 Hg He F1 F2.
  destruct (gen_entry_is_ok name sk pw salt Hn Lk Bk Ls Bs) as [epk' [esk [E1 [E2 Hok]]]].
  rewrite He in E1. injection E1 as <-. exists esk.
  destruct Hn as [Hv Hn']. rewrite (gen_key_text_eq name sk pw salt Hv Lk Ls) in Hg. injection Hg as <-.
  rewrite lock_private_key_eq in E2. injection E2 as <-.
  rewrite (encode_public_key_eq _ (dh_pub_length sk)) in He. injection He as <-.
  destruct (locked_blob_usable sk pw salt Lk Bk Ls Bs) as [S1 [S2 _]].
  split; [|split; [exact S2|split]].
  - apply (parse_append_key pk_string_ok sk_string_ok t0 ks0 _ H0 Hok); assumption.
  - destruct (decode_encode_pk HB (dh_pub P sk) (dh_pub_length sk) (dh_pub_ok sk)) as [e [D1 [_ [_ D2]]]].
    rewrite (encode_public_key_eq _ (dh_pub_length sk)) in D1. injection D1 as <-. exact D2.
  - now apply extract_pub_eq.
Qed.
End LifeCycle.

(* ====================================================================================== *)
(** * 6. Tampering (theorem group 4)                                                        *)
(* ====================================================================================== *)

(* Structural part, NO premise about the primitives: whatever 84 bytes are offered, if their
   first four are not the version the answer is PrivateKeyFormat, for every password. *)
Theorem tamper_version_rejected blob' pw' : length blob' = 84%nat -> bytes_ok blob' ->
  firstn 4 blob' <> version -> unlock_private_key P (b64_encode blob') pw' = Err PrivateKeyFormat.
Proof.
  intros Lb Bb Hv. apply (unlock_rejects (b64_encode blob') blob' pw'); auto. now apply b64_decode_encode.
Qed.
(* ... in particular a change confined to the version bytes of a genuine locked key *)
Corollary tamper_version_only sk pw salt v' pw' : length sk = 32%nat -> length salt = 32%nat ->
  length v' = 4%nat -> v' <> version -> bytes_ok (v' ++ skipn 4 (kr_blob P sk pw salt)) ->
  unlock_private_key P (b64_encode (v' ++ skipn 4 (kr_blob P sk pw salt))) pw' = Err PrivateKeyFormat.
Proof.
  intros Lk Ls Lv Hv Bb. apply tamper_version_rejected; [| exact Bb |].
  - rewrite app_length, skipn_length, kr_blob_length. lia.
  - now rewrite firstn_len_app.
Qed.

(* Every other change (salt, ciphertext, tag bytes, or another password).  The offered blob is any
   84 bytes different from the genuine one, or the genuine one with a different password.  The run
   performs at most ONE AEAD open, with the key derived from the offered password and the offered
   salt; the premise [Hopen] says that this single open does not succeed.  That is the
   cryptographic step (unforgeability of ChaCha20-Poly1305 under a key the attacker does not know,
   and scrypt(pw') <> scrypt(pw) for the wrong-password case): it is NOT derivable from [aead_ok]
   and stays a premise.  Given it, the run ends in an error value: no panic, no key. *)
Theorem tamper_rejected_partial sk pw salt blob' pw' :
  length blob' = 84%nat -> bytes_ok blob' ->
  blob' <> kr_blob P sk pw salt \/ pw' <> pw ->
  forall Hopen : p_open P (kr_key P pw' (firstn 32 (skipn 4 blob'))) (zeros 12) (firstn 4 blob') (skipn 36 blob') = None,
  unlock_private_key P (b64_encode blob') pw' = Err PrivateKeyFormat
  \/ unlock_private_key P (b64_encode blob') pw' = Err PrivateKeyDecrypt.
Proof.
  intros Lb Bb _ Hopen. pose proof (b64_decode_encode blob' Bb) as Hd.
  rewrite (unlock_cases _ blob' pw' Hd Lb), Hopen. destruct (bytes_eqb _ _); auto.
Qed.

(* Without the premise: the only way a tampered input is accepted is that its last 48 bytes ARE
   a genuine seal, under the key derived from the offered password and salt, of the key
   returned; with password and salt unchanged, a changed ciphertext can only yield a DIFFERENT
   key (never the original one silently). *)
Theorem tamper_accepted_is_seal blob' pw' sk' : length blob' = 84%nat -> bytes_ok blob' ->
  unlock_private_key P (b64_encode blob') pw' = Ok sk' ->
  firstn 4 blob' = version
  /\ skipn 36 blob' = p_seal P (kr_key P pw' (firstn 32 (skipn 4 blob'))) (zeros 12) version sk'.
Proof.
  intros Lb Bb Hu. pose proof (b64_decode_encode blob' Bb) as Hd.
  assert (Hs : sk_string_ok (b64_encode blob') = true) by now apply sk_string_ok_encode.
  destruct (unlock_ok_inv _ pw' sk' Hs Hu) as [salt' [Ls [Lk Hd']]]. rewrite Hd in Hd'. injection Hd' as ->.
  unfold kr_blob. destruct (blob_parts version salt' (p_seal P (kr_key P pw' salt') (zeros 12) version sk')) as [E1 [E2 E3]];
    [reflexivity | exact Ls |]. now rewrite E1, E2, E3.
Qed.
Corollary tamper_same_key_other_plaintext sk pw salt ct' sk' : length salt = 32%nat ->
  length (version ++ salt ++ ct') = 84%nat -> bytes_ok (version ++ salt ++ ct') ->
  ct' <> p_seal P (kr_key P pw salt) (zeros 12) version sk ->
  unlock_private_key P (b64_encode (version ++ salt ++ ct')) pw = Ok sk' -> sk' <> sk.
Proof.
  intros Ls Lb Bb Hne Hu Heq. subst sk'. destruct (tamper_accepted_is_seal _ pw sk Lb Bb Hu) as [_ E].
  destruct (blob_parts version salt ct') as [_ [E2 E3]]; [reflexivity | exact Ls |].
  rewrite E2, E3 in E. now apply Hne.
Qed.

End Facts.

(* ====================================================================================== *)
(** * 7. The byte-range record holds for the RFC instance                                   *)
(* ====================================================================================== *)
From Kestrel.Spec Require Concrete HashFacts ChaPoly ChaCha20 Poly1305 X25519.

Lemma le_bytes_ok : forall n x, bytes_ok (le_bytes n x).
Proof.
  induction n as [|n IH]; intros x; cbn [le_bytes]; [constructor|].
  constructor; [apply N.mod_lt; discriminate | apply IH].
Qed.
Lemma chacha20_block_ok k c n : bytes_ok (ChaCha20.chacha20_block k c n).
Proof.
  unfold ChaCha20.chacha20_block, ChaCha20.serialize, bytes_ok.
  repeat (apply Forall_app; split); apply le32_ok.
Qed.
Lemma keystream_blocks_ok k n : forall nb c, bytes_ok (ChaCha20.keystream_blocks k c n nb).
Proof.
  induction nb as [|nb IH]; intros c; cbn [ChaCha20.keystream_blocks]; [constructor|].
  apply bytes_ok_app. split; [apply chacha20_block_ok | apply IH].
Qed.
Lemma chacha20_encrypt_ok k c n m : bytes_ok m -> bytes_ok (ChaCha20.chacha20_encrypt k c n m).
Proof.
  intros Hm. unfold ChaCha20.chacha20_encrypt, ChaCha20.keystream.
  apply HashFacts.xor_bytes_ok; [exact Hm | apply bytes_ok_firstn, keystream_blocks_ok].
Qed.

Theorem rfc_prims_bytes_ok scr : prims_bytes_ok (Concrete.rfc_prims scr).
Proof.
  constructor; cbn [p_hash p_seal p_dh Concrete.rfc_prims].
  - apply HashFacts.sha256_ok.
  - intros k n ad m Hm. unfold ChaPoly.aead_seal. apply bytes_ok_app. split.
    + now apply chacha20_encrypt_ok.
    + unfold ChaPoly.aead_tag, Poly1305.poly1305_mac. apply le_bytes_ok.
  - intros k u. unfold X25519.x25519. apply le_bytes_ok.
Qed.

(* hence the hypotheses of this file are jointly satisfiable: for the RFC instance with any scrypt
   of the right output length, lock/unlock and the generated-key theorem hold outright *)
Corollary rfc_unlock_lock scr : (forall pw s n r q l, length (scr pw s n r q l) = l) ->
  forall sk pw salt, length sk = 32%nat -> bytes_ok sk -> length salt = 32%nat -> bytes_ok salt ->
  exists str, lock_private_key (Concrete.rfc_prims scr) sk pw salt = Ok str
  /\ unlock_private_key (Concrete.rfc_prims scr) str pw = Ok sk
  /\ sk_string_ok str = true /\ length str = 112%nat.
Proof.
  intros Hs sk pw salt. apply unlock_lock.
  - apply Concrete.rfc_aead_ok.
  - now apply Concrete.rfc_hash_ok.
  - apply rfc_prims_bytes_ok.
Qed.

(* ====================================================================================== *)
(** * Axiom audit                                                                           *)
(* ====================================================================================== *)
Print Assumptions pk_string_ok_iff.
Print Assumptions sk_string_ok_iff.
Print Assumptions sk_string_ok_canonical.
Print Assumptions decode_encode_pk.
Print Assumptions decode_checksum.
Print Assumptions decode_checksum_err.
Print Assumptions decode_never_panics.
Print Assumptions encode_pk_inj.
Print Assumptions unlock_lock.
Print Assumptions lock_layout.
Print Assumptions conforming_unlocks.
Print Assumptions unlock_ok_iff.
Print Assumptions unlock_no_panic.
Print Assumptions unlock_rejects.
Print Assumptions change_pass_identity.
Print Assumptions extract_pub_matches_gen.
Print Assumptions gen_entry_is_ok.
Print Assumptions generated_keys_usable.
Print Assumptions tamper_version_rejected.
Print Assumptions tamper_version_only.
Print Assumptions tamper_rejected_partial.
Print Assumptions tamper_accepted_is_seal.
Print Assumptions tamper_same_key_other_plaintext.
Print Assumptions rfc_prims_bytes_ok.
Print Assumptions rfc_unlock_lock.
