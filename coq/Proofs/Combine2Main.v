(* Proofs/Combine2Main.v — main.rs::main as parse + dispatch (Model/CliGlue.v): exit codes, usage errors,
   aliases and option spellings at the level of the whole program. *)
From Kestrel Require Import Bytes Outcome IO Prims.
From Kestrel.Model Require Import KeyringText Getopts CliParse CliParseSpec Cli CliGlue.
From Kestrel.Proofs Require Import CliFacts CliParseFacts.
From Coq Require Import Permutation.
Local Open Scope N_scope.

Section Main.
Variable P : prims.
Variable pk_ok sk_ok : text -> bool.
Variable unlock : text -> bytes -> outcome kerr bytes.
Variable lock : bytes -> bytes -> bytes -> text.
Variable decode_pk : text -> outcome kerr bytes.
Variable encode_pk : bytes -> text.
Variable sk_string_ok : text -> bool.
Variable utf8_decode : bytes -> option text.
Variable utf8_encode : text -> bytes.
Variable help_text version_text : bytes.

Notation run_command := (run_command P pk_ok sk_ok unlock lock decode_pk encode_pk sk_string_ok utf8_decode utf8_encode
                           help_text version_text).
Notation cli_main := (cli_main P pk_ok sk_ok unlock lock decode_pk encode_pk sk_string_ok utf8_decode utf8_encode
                        help_text version_text).

(* the exit code of a command result is a function of its status *)
Lemma of_cmd_code (r : cmd_result) : exit_code r = code_of (status r) ->
  m_exit (of_cmd r) = code_of (status r) /\ m_status (of_cmd r) = MCmd (status r) /\
  m_fs (of_cmd r) = new_fs r /\ m_stdout (of_cmd r) = stdout r.
Proof. intros H. unfold of_cmd. cbn. rewrite H. repeat split. Qed.

Lemma run_command_code w c r1 r2 :
  match m_status (run_command w c r1 r2) with
  | MHelp | MVersion => m_exit (run_command w c r1 r2) = 0
  | MUsage _ => m_exit (run_command w c r1 r2) = 1 /\ m_fs (run_command w c r1 r2) = fs w /\
                m_stdout (run_command w c r1 r2) = []
  | MCmd st => m_exit (run_command w c r1 r2) = code_of st
  | MParsePanic _ | MParseOutOfFuel => False
  end.
Proof.
  destruct (exit_code_of_status P pk_ok sk_ok unlock lock decode_pk encode_pk sk_string_ok utf8_decode utf8_encode)
    as (H1 & H2 & H3 & H4 & H5 & H6 & H7).
  destruct c as [| |o|o|[outfile env_pass|key env_pass|key env_pass]|o|o|m]; cbn [run_command m_status m_exit m_fs m_stdout of_cmd];
    try reflexivity; try (repeat split; reflexivity).
  - apply H1.
  - apply H2.
  - apply H5.
  - apply H6.
  - apply H7.
  - apply H3.
  - apply H4.
Qed.

(* the parser never panics, so main's status is never a parse panic *)
Lemma cli_main_run w argv r1 r2 : exists c, cli_parse argv = Ok c /\ cli_main w argv r1 r2 = run_command w c r1 r2.
Proof. destruct (cli_parse_no_panic argv) as [c Hc]. exists c. split; [exact Hc|]. unfold CliGlue.cli_main. now rewrite Hc. Qed.

(* exit code: 0, 1, or 101 only for a modelled panic of a command (102 = the library model's fuel artefact) *)
Theorem cli_main_exit_code w argv r1 r2 :
  let r := cli_main w argv r1 r2 in
  m_exit r = 0 \/ m_exit r = 1 \/
  (m_exit r = 101 /\ exists t, m_status r = MCmd (SPanic t)) \/
  (m_exit r = 102 /\ m_status r = MCmd SOutOfFuel).
Proof.
  intros r. subst r. destruct (cli_main_run w argv r1 r2) as (c & _ & ->).
  pose proof (run_command_code w c r1 r2) as H.
  destruct (m_status (run_command w c r1 r2)) as [| |m|st|t|] eqn:Es; try contradiction; try tauto.
  rewrite H. destruct (code_of_values st) as [E|[E|[[E [t Ht]]|[E Ht]]]]; rewrite E; try tauto.
  - right. right. left. split; [reflexivity|]. exists t. now rewrite Ht.
  - right. right. right. split; [reflexivity|]. now rewrite Ht.
Qed.

(* exit 0 exactly for help, version and a command whose status is a success *)
Theorem cli_main_exit_zero_iff w argv r1 r2 :
  let r := cli_main w argv r1 r2 in
  m_exit r = 0 <->
  (m_status r = MHelp \/ m_status r = MVersion \/ exists st, m_status r = MCmd st /\ is_success st = true).
Proof.
  intros r. subst r. destruct (cli_main_run w argv r1 r2) as (c & _ & ->).
  pose proof (run_command_code w c r1 r2) as H.
  destruct (m_status (run_command w c r1 r2)) as [| |m|st|t|] eqn:Es; try contradiction.
  - split; [tauto|intros _; exact H].
  - split; [tauto|intros _; exact H].
  - destruct H as (H & _). rewrite H. split; [discriminate|].
    intros [E|[E|(st & E & _)]]; discriminate.
  - rewrite H. rewrite code_of_zero. split.
    + intros Hs. right. right. exists st. auto.
    + intros [E|[E|(st' & E & Hs)]]; try discriminate. now injection E as ->.
Qed.

(* a usage error (bad arguments): exit 1, nothing printed on stdout, the file system untouched *)
Theorem cli_main_usage_error_leaves_fs w argv r1 r2 m :
  m_status (cli_main w argv r1 r2) = MUsage m ->
  m_exit (cli_main w argv r1 r2) = 1 /\ m_fs (cli_main w argv r1 r2) = fs w /\ m_stdout (cli_main w argv r1 r2) = [].
Proof.
  destruct (cli_main_run w argv r1 r2) as (c & _ & ->). intros Hs.
  pose proof (run_command_code w c r1 r2) as H. rewrite Hs in H. exact H.
Qed.

(* ... and it is a usage error exactly when the parser says so *)
Theorem cli_main_usage_iff w argv r1 r2 m :
  m_status (cli_main w argv r1 r2) = MUsage m <-> cli_parse argv = Ok (CUsageError m).
Proof.
  destruct (cli_main_run w argv r1 r2) as (c & Hc & ->). rewrite Hc. split.
  - destruct c as [| |o|o|[outfile env_pass|key env_pass|key env_pass]|o|o|m']; cbn [run_command m_status of_cmd];
      intros H; try discriminate. now injection H as ->.
  - intros [= ->]. reflexivity.
Qed.

(* help / version: exit 0, the file system untouched *)
Theorem cli_main_help_version w argv r1 r2 :
  m_status (cli_main w argv r1 r2) = MHelp \/ m_status (cli_main w argv r1 r2) = MVersion ->
  m_exit (cli_main w argv r1 r2) = 0 /\ m_fs (cli_main w argv r1 r2) = fs w.
Proof.
  destruct (cli_main_run w argv r1 r2) as (c & _ & ->).
  destruct c as [| |o|o|[outfile env_pass|key env_pass|key env_pass]|o|o|m']; cbn [run_command m_status of_cmd];
    intros [H|H]; try discriminate; split; reflexivity.
Qed.

(* ---------- the whole program does not depend on command aliases / option spellings ---------- *)
Lemma cli_main_parse_eq w a1 a2 r1 r2 : cli_parse a1 = cli_parse a2 -> cli_main w a1 r1 r2 = cli_main w a2 r1 r2.
Proof. unfold CliGlue.cli_main. now intros ->. Qed.

Theorem cli_main_aliases w prog rest r1 r2 :
  cli_main w (prog :: s_enc :: rest) r1 r2 = cli_main w (prog :: s_encrypt :: rest) r1 r2 /\
  cli_main w (prog :: s_dec :: rest) r1 r2 = cli_main w (prog :: s_decrypt :: rest) r1 r2 /\
  cli_main w (prog :: s_pass :: rest) r1 r2 = cli_main w (prog :: s_password :: rest) r1 r2 /\
  cli_main w (prog :: s_key :: s_gen :: rest) r1 r2 = cli_main w (prog :: s_key :: s_generate :: rest) r1 r2 /\
  cli_main w (prog :: s_password :: s_enc :: rest) r1 r2 = cli_main w (prog :: s_password :: s_encrypt :: rest) r1 r2 /\
  cli_main w (prog :: s_password :: s_dec :: rest) r1 r2 = cli_main w (prog :: s_password :: s_decrypt :: rest) r1 r2 /\
  cli_main w (prog :: s_version_short :: rest) r1 r2 = cli_main w (prog :: s_version_long :: rest) r1 r2.
Proof.
  split; [apply cli_main_parse_eq, alias_enc|].
  split; [apply cli_main_parse_eq, alias_dec|].
  split; [apply cli_main_parse_eq, alias_pass|].
  split; [apply cli_main_parse_eq, alias_key_gen|].
  split; [apply cli_main_parse_eq, alias_pass_enc|].
  split; [apply cli_main_parse_eq, alias_pass_dec|].
  apply cli_main_parse_eq, alias_version.
Qed.

(* kestrel decrypt: two well-formed invocations with the same items up to spelling (long/short name, one/two dashes,
   separate or '=' value) in any order give the same result of the whole program *)
Theorem cli_main_decrypt_spelling w prog its1 its2 r1 r2 :
  Forall ditem_ok its1 -> Forall ditem_ok its2 ->
  Permutation (map dmean its1) (map dmean its2) ->
  (forall h, h = s_help_long \/ h = s_help_short ->
             ~ In h (prog :: drender its1) /\ ~ In h (prog :: drender its2)) ->
  cli_main w (prog :: s_decrypt :: drender its1) r1 r2 = cli_main w (prog :: s_decrypt :: drender its2) r1 r2.
Proof. intros H1 H2 Hp Hh. apply cli_main_parse_eq. now apply cli_decrypt_spelling. Qed.

(* a parsed decrypt command runs Cli.cmd_decrypt on the converted options *)
Theorem cli_main_decrypt w argv r1 r2 d :
  cli_parse argv = Ok (CDecrypt d) ->
  cli_main w argv r1 r2 = of_cmd (cmd_decrypt P pk_ok sk_ok unlock decode_pk encode_pk utf8_decode w (dec_opts_of d)).
Proof. intros H. unfold CliGlue.cli_main. rewrite H. reflexivity. Qed.

End Main.

Theorem all_aliases :
  forall (prog : text) (rest : list text),
  cli_parse (prog :: s_enc :: rest) = cli_parse (prog :: s_encrypt :: rest) /\
  cli_parse (prog :: s_dec :: rest) = cli_parse (prog :: s_decrypt :: rest) /\
  cli_parse (prog :: s_pass :: rest) = cli_parse (prog :: s_password :: rest) /\
  cli_parse (prog :: s_key :: s_gen :: rest) = cli_parse (prog :: s_key :: s_generate :: rest) /\
  cli_parse (prog :: s_password :: s_enc :: rest) = cli_parse (prog :: s_password :: s_encrypt :: rest) /\
  cli_parse (prog :: s_password :: s_dec :: rest) = cli_parse (prog :: s_password :: s_decrypt :: rest) /\
  cli_parse (prog :: s_version_short :: rest) = cli_parse (prog :: s_version_long :: rest).
Proof. intros prog rest; split; [apply alias_enc|]; split; [apply alias_dec|]; split; [apply alias_pass|]; split; [apply alias_key_gen|]; split; [apply alias_pass_enc|]; split; [apply alias_pass_dec|apply alias_version]. Qed.

Print Assumptions cli_main_exit_code.
Print Assumptions cli_main_exit_zero_iff.
Print Assumptions cli_main_usage_error_leaves_fs.
Print Assumptions cli_main_usage_iff.
Print Assumptions cli_main_help_version.
Print Assumptions cli_main_aliases.
Print Assumptions cli_main_decrypt_spelling.
Print Assumptions cli_main_decrypt.
Print Assumptions all_aliases.
