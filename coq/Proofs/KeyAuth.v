(* Proofs/KeyAuth.v — key-mode authenticity including the handshake (properties C03 / C05):
   header fields or chunks from different authentic key files cannot be combined.
   Honest files F_1..F_m ([hfile], Model/KeyAuthDefs.v: sender static key, ephemeral key, recipient PUBLIC key, payload
   key, chunks; bytes [hf_file]); GL = [all_seals]: every AEAD seal occurring in them with its key (two handshake
   seals and the chunk seals per file).  For EVERY offered byte string, EVERY recipient pair (r, rpk) — related or
   not, any lengths — and EVERY I/O script:
     P1  no forgery in the run: the (at most two) handshake opens of the closed form noise_decrypt_spec
         ([hs_opens_honest]) and every successful chunk open among the NEW events of the run ([run_opens_honest]) opened
         an entry of GL (same key, counter, associated data, ciphertext);
     P2  the hash is injective on the explicit list [hash_inputs] (3 inputs of the run's handshake, 3 per honest file);
         honest files with equal ephemeral public key and recipient have equal first handshake key
         ([eph_consistent]; implied by pairwise distinct ephemeral public keys), honest files with equal file key
         have equal chunks ([fk_consistent]; implied by pairwise distinct file keys);
   then the run is rejected without output, or attributable to ONE honest file f ([attributed_to]): the offered
   bytes begin with f's 132-byte header, rpk is f's addressed recipient key, what was written is a prefix of f's
   plaintext, and Ok reports f's sender and means exactly f's plaintext was written.
   No role-separation premise between handshake keys and file keys is needed: a handshake seal has 32 bytes of
   associated data, a chunk open 8 (key mode), and the two handshake seals are told apart by the lengths of the
   hash inputs behind their associated data (64 / 80 bytes).
   Stage 1 [key_auth_single] (one file: no distinctness premise), Stage 2 [key_auth_multi_gen] / [key_auth_multi],
   Stage 3 [C05_addressed_key_only], [C03_header_of_one_file], [C03_handshake_fields_not_recombinable], and at the
   chunk layer [C03_counter_advisory], [C03_len_bound].  Nothing is left OPEN.  Non-vacuity: Proofs/KeyAuthToy.v. *)
From Kestrel Require Import Bytes BytesFacts Outcome IO IOFacts Prims.
From Kestrel.gen Require Import Extracted.
From Kestrel.Model Require Import AeadWrap Chunks Noise NoiseSpec Files EventPreds FilesSpec ChunksSpec ChunksRobustDefs CombineDefs KeyAuthDefs.
From Kestrel.Proofs Require Import MonadFacts ChunksDec ChunksAuth ChunksOpen ChunksRobust NoiseFacts FilesFacts
  CombineFiles CombineChunks CombineHeader CombineAuth CombineRobust LogIndep.
From Coq Require Import ZifyBool ZifyNat ZifyN.
Local Open Scope N_scope.

Section KeyAuth.
Variable P : prims.
Hypothesis Haead : aead_ok P.
Hypothesis Hh : hash_ok P.

(* ---------- lengths ---------- *)
Lemma mixh_len a d : length (mixh P a d) = 32%nat.
Proof. apply (hash_len P Hh). Qed.
Lemma hf_epk_len f : length (hf_epk P f) = 32%nat.
Proof. apply (dh_len P Hh). Qed.
Lemma hf_spk_len f : length (hf_spk P f) = 32%nat.
Proof. apply (dh_len P Hh). Qed.
Lemma hf_c1_len f : length (hf_c1 P f) = 48%nat.
Proof. unfold hf_c1. rewrite (seal_len P Haead), hf_spk_len. reflexivity. Qed.
Lemma hf_fk_len f : length (hf_fk P f) = 32%nat.
Proof. apply file_key_len. exact Hh. Qed.
Lemma run_re_len msg : length msg = 128%nat -> length (run_re msg) = 32%nat.
Proof. intros H. unfold run_re. rewrite firstn_length. lia. Qed.
Lemma run_c1_len msg : length msg = 128%nat -> length (run_c1 msg) = 48%nat.
Proof. intros H. unfold run_c1. rewrite firstn_length, skipn_length. lia. Qed.
Lemma run_msg_parts msg : msg = run_re msg ++ run_c1 msg ++ run_c2 msg.
Proof.
  unfold run_re, run_c1, run_c2.
  rewrite <- (firstn_skipn 32 msg) at 1. f_equal.
  rewrite <- (firstn_skipn 48 (skipn 32 msg)) at 1. f_equal.
  rewrite skipn_add. reflexivity.
Qed.

(* ---------- the closed form of the recipient's handshake in the vocabulary of KeyAuthDefs ---------- *)
Lemma noise_decrypt_spec_run r rpk msg :
  noise_decrypt_spec P r rpk x_prologue msg =
  if all_zero (run_dh1 P r msg) then Err NDh else
  match p_open P (run_k1 P r msg) (noise_nonce 0) (run_h3 P rpk msg) (run_c1 msg) with
  | None => Err NDecrypt
  | Some rs =>
    if negb (Nat.eqb (length rs) 32) then Err NOther else
    if all_zero (p_dh P r rs) then Err NDh else
    match p_open P (run_k2 P r msg rs) (noise_nonce 0) (run_h4 P rpk msg) (run_c2 msg) with
    | None => Err NDecrypt
    | Some payload =>
      if negb (Nat.eqb (length payload) 32) then Err NOther else
      Ok (payload, rs, mixh P (run_h4 P rpk msg) (run_c2 msg))
    end
  end.
Proof. reflexivity. Qed.

(* the honest file's handshake is what the sender-side closed form produces *)
Lemma hf_noise_encrypt f :
  all_zero (hf_dh1 P f) = false -> all_zero (hf_dh2 P f) = false ->
  noise_encrypt_spec P (hf_e f) (hf_epk P f) (hf_s f) (hf_spk P f) (hf_R f) x_prologue (hf_pk f) =
  Ok (hf_msg P f, hf_hh P f).
Proof.
  intros H1 H2. unfold noise_encrypt_spec. fold (hf_dh1 P f) (hf_dh2 P f). rewrite H1, H2. reflexivity.
Qed.

(* a recipient private key that is not 32 bytes never yields an accepted handshake (the model panics in x25519;
   in the Rust code PrivateKey is a 32-byte array) *)
Lemma noise_decrypt_bad_key r rpk prologue msg : length r <> 32%nat ->
  forall x, noise_decrypt P r rpk prologue msg <> Ok x.
Proof.
  intros Hr x. unfold noise_decrypt, noise_decrypt_gen. rewrite (init_x_resp P Hh). cbn [obind].
  unfold read_message_gen. destruct (noise_len_ok (length msg)) eqn:Hg.
  2:{ rewrite read_len_guard_bad by assumption. discriminate. }
  rewrite read_len_guard_ok by assumption. cbn [obind].
  apply noise_len_ok_iff in Hg. destruct Hg as [Hg1 _].
  unfold x_noise_pattern. cbn [fold_tokens].
  rewrite (rd_TE P Hh) by (cbn [Nat.add]; lia). cbn [obind Nat.add].
  unfold read_token. cbn [re s_priv]. unfold x25519.
  destruct (Nat.eqb_spec (length r) 32) as [Heq|Hne]; [contradiction|]. cbn. discriminate.
Qed.

(* ---------- membership in GL ---------- *)
Lemma all_seals_In files q : In q (all_seals P files) ->
  exists f, In f files /\
    (q = (hf_k1 P f, 0, hf_h3 P f, hf_c1 P f) \/
     q = (hf_k2 P f, 0, hf_h4 P f, hf_c2 P f) \/
     exists n ad ct, q = (hf_fk P f, n, ad, ct) /\
       In (n, ad, ct) (seal_log_from P (hf_fk P f) [] 0 (hf_chunks f))).
Proof.
  intros Hin. unfold all_seals in Hin. apply in_flat_map in Hin. destruct Hin as (f & Hf & Hq).
  exists f. split; [exact Hf|]. destruct Hq as [<-|[<-|Hq]]; [left; reflexivity|right; left; reflexivity|].
  right. right. apply in_map_iff in Hq. destruct Hq as ([[n ad] ct] & <- & Hq).
  exists n, ad, ct. split; [reflexivity|exact Hq].
Qed.

Lemma all_seals_intro files f q : In f files -> In q (hf_seals P f) -> In q (all_seals P files).
Proof. intros Hf Hq. unfold all_seals. apply in_flat_map. exists f. auto. Qed.

(* the associated data of a key-mode chunk seal is 8 bytes: flag and length *)
Lemma chunk_seal_ad_len key cks n0 n ad ct : length key = 32%nat ->
  In (n, ad, ct) (seal_log_from P key [] n0 cks) -> length ad = 8%nat.
Proof.
  intros Hk Hin. apply (seal_log_In P key [] Hk) in Hin. destruct Hin as (i & c & _ & _ & -> & _).
  reflexivity.
Qed.

(* ---------- hash inputs ---------- *)
Lemma In_run_input files rpk msg x : In x (run_hash_inputs P rpk msg) -> In x (hash_inputs P files rpk msg).
Proof. intros H. unfold hash_inputs. apply in_or_app. now left. Qed.
Lemma In_hf_input files rpk msg f x : In f files -> In x (hf_hash_inputs P f) -> In x (hash_inputs P files rpk msg).
Proof. intros Hf H. unfold hash_inputs. apply in_or_app. right. apply in_flat_map. exists f. auto. Qed.

Section Transcript.
Variable files : list hfile.
Variable rpk msg : bytes.
Hypothesis Hlen : length msg = 128%nat.
Hypothesis Hinj : hash_inj_on P (hash_inputs P files rpk msg).

(* equal h after MixHash(e): same recipient key, same ephemeral public key *)
Lemma h3_inj f : In f files -> run_h3 P rpk msg = hf_h3 P f -> rpk = hf_R f /\ run_re msg = hf_epk P f.
Proof.
  intros Hf E. unfold run_h3, hf_h3, mixh in E.
  apply Hinj in E.
  2:{ apply In_run_input. right. left. reflexivity. }
  2:{ apply (In_hf_input files rpk msg f); [exact Hf|]. right. left. reflexivity. }
  apply app_len_inj in E; [|unfold run_h2, hf_h2; now rewrite !mixh_len]. destruct E as [E2 Ere].
  split; [|exact Ere].
  unfold run_h2, hf_h2, mixh in E2. apply Hinj in E2.
  2:{ apply In_run_input. left. reflexivity. }
  2:{ apply (In_hf_input files rpk msg f); [exact Hf|]. left. reflexivity. }
  now apply app_inv_head in E2.
Qed.

(* equal h after MixHash(encrypted static key): same h before, same encrypted static key *)
Lemma h4_inj f : In f files -> run_h4 P rpk msg = hf_h4 P f ->
  run_h3 P rpk msg = hf_h3 P f /\ run_c1 msg = hf_c1 P f.
Proof.
  intros Hf E. unfold run_h4, hf_h4, mixh in E.
  apply Hinj in E.
  2:{ apply In_run_input. right. right. left. reflexivity. }
  2:{ apply (In_hf_input files rpk msg f); [exact Hf|]. right. right. left. reflexivity. }
  apply app_len_inj in E; [exact E|]. unfold run_h3, hf_h3. now rewrite !mixh_len.
Qed.

(* the associated data of the first handshake open is never that of an honest payload seal: the hash inputs
   have different lengths (64 and 80 bytes) *)
Lemma h3_not_h4 f : In f files -> run_h3 P rpk msg <> hf_h4 P f.
Proof.
  intros Hf E. unfold run_h3, hf_h4, mixh in E.
  apply Hinj in E.
  2:{ apply In_run_input. right. left. reflexivity. }
  2:{ apply (In_hf_input files rpk msg f); [exact Hf|]. right. right. left. reflexivity. }
  apply (f_equal (@length N)) in E. rewrite !app_length in E.
  unfold run_h2, hf_h3 in E. rewrite !mixh_len, hf_c1_len, (run_re_len msg Hlen) in E. lia.
Qed.

(* ... and the associated data of the second open is never that of an honest static-key seal (80 and 64 bytes) *)
Lemma h4_not_h3 f : In f files -> run_h4 P rpk msg <> hf_h3 P f.
Proof.
  intros Hf E. unfold run_h4, hf_h3, mixh in E.
  apply Hinj in E.
  2:{ apply In_run_input. right. right. left. reflexivity. }
  2:{ apply (In_hf_input files rpk msg f); [exact Hf|]. right. left. reflexivity. }
  apply (f_equal (@length N)) in E. rewrite !app_length in E.
  unfold run_h3, hf_h2 in E. rewrite !mixh_len, hf_epk_len, (run_c1_len msg Hlen) in E. lia.
Qed.

(* ---------- the handshake: an accepted message is one honest file's message ---------- *)
Theorem hs_auth r payload spk hh :
  noise_decrypt_spec P r rpk x_prologue msg = Ok (payload, spk, hh) ->
  hs_opens_honest P files r rpk msg ->
  eph_consistent P files ->
  exists f, In f files /\ msg = hf_msg P f /\ rpk = hf_R f /\ spk = hf_spk P f /\
            payload = hf_pk f /\ hh = hf_hh P f.
Proof.
  intros Hdec [Ho1 Ho2] Heph. rewrite noise_decrypt_spec_run in Hdec.
  destruct (all_zero (run_dh1 P r msg)) eqn:Ez1; [discriminate|].
  destruct (p_open P (run_k1 P r msg) (noise_nonce 0) (run_h3 P rpk msg) (run_c1 msg)) as [rs|] eqn:Eo1; [|discriminate].
  destruct (Nat.eqb_spec (length rs) 32) as [Hrs|]; [|discriminate]. cbn [negb] in Hdec.
  destruct (all_zero (p_dh P r rs)) eqn:Ez2; [discriminate|].
  destruct (p_open P (run_k2 P r msg rs) (noise_nonce 0) (run_h4 P rpk msg) (run_c2 msg)) as [pl|] eqn:Eo2; [|discriminate].
  destruct (Nat.eqb (length pl) 32); [|discriminate]. cbn [negb] in Hdec.
  injection Hdec as <- <- <-.
  (* first open: a static-key seal of some honest file j *)
  specialize (Ho1 rs eq_refl eq_refl). specialize (Ho2 rs pl eq_refl eq_refl Hrs Ez2 Eo2).
  apply all_seals_In in Ho1. destruct Ho1 as (j & Hj & [Hq|[Hq|(n & ad & ct & Hq & Hlog)]]).
  2:{ exfalso. injection Hq as _ Hq _. exact (h3_not_h4 j Hj Hq). }
  2:{ exfalso. injection Hq as _ _ Hq _. subst ad.
      apply (chunk_seal_ad_len _ _ _ _ _ _ (hf_fk_len j)) in Hlog. unfold run_h3 in Hlog. rewrite mixh_len in Hlog. lia. }
  injection Hq as Hk1 Hh3 Hc1.
  (* second open: a payload seal of some honest file i *)
  apply all_seals_In in Ho2. destruct Ho2 as (i & Hi & [Hq|[Hq|(n & ad & ct & Hq & Hlog)]]).
  1:{ exfalso. injection Hq as _ Hq _. exact (h4_not_h3 i Hi Hq). }
  2:{ exfalso. injection Hq as _ _ Hq _. subst ad.
      apply (chunk_seal_ad_len _ _ _ _ _ _ (hf_fk_len i)) in Hlog. unfold run_h4 in Hlog. rewrite mixh_len in Hlog. lia. }
  injection Hq as Hk2 Hh4 Hc2.
  destruct (h4_inj i Hi Hh4) as [Hh3i Hc1i].
  destruct (h3_inj i Hi Hh3i) as [HR Hre].
  destruct (h3_inj j Hj Hh3) as [HRj Hrej].
  (* files i and j share recipient and ephemeral public key, hence the first handshake key *)
  assert (Hk1i : run_k1 P r msg = hf_k1 P i).
  { rewrite Hk1. apply Heph; [exact Hj|exact Hi|congruence|congruence]. }
  exists i. split; [exact Hi|].
  split; [rewrite (run_msg_parts msg), Hre, Hc1i, Hc2; reflexivity|].
  split; [exact HR|].
  split.
  { rewrite Hk1i, Hh3i, Hc1i in Eo1. unfold hf_c1 in Eo1. rewrite (open_seal P Haead) in Eo1. congruence. }
  split.
  { rewrite Hk2, Hh4, Hc2 in Eo2. unfold hf_c2 in Eo2. rewrite (open_seal P Haead) in Eo2. congruence. }
  unfold hf_hh. now rewrite Hh4, Hc2.
Qed.

End Transcript.

(* ---------- chunk phase: the run's successful opens under file f's key are f's chunk seals ----------
   (a handshake seal cannot be meant: its associated data is 32 bytes, the chunk loop's is 8 bytes) *)
Lemma chunk_no_forgery files f d : In f files ->
  log_opens_honest P files d -> Forall (open_ad_len 8) d -> fk_consistent P files ->
  no_forgery P (hf_fk P f) [] (hf_chunks f) d.
Proof.
  intros Hf Hlog Had Hfk n ad ct pt Hin.
  assert (Hlen : length ad = 8%nat) by (rewrite Forall_forall in Had; exact (Had _ Hin)).
  apply Hlog in Hin. apply all_seals_In in Hin.
  destruct Hin as (g & Hg & [Hq|[Hq|(n' & ad' & ct' & Hq & Hl)]]).
  - exfalso. injection Hq as _ _ Hq _. subst ad. unfold hf_h3 in Hlen. rewrite mixh_len in Hlen. lia.
  - exfalso. injection Hq as _ _ Hq _. subst ad. unfold hf_h4 in Hlen. rewrite mixh_len in Hlen. lia.
  - injection Hq as Hk <- <- <-. rewrite (Hfk f g Hf Hg Hk), Hk. exact Hl.
Qed.

Lemma whole_log_honest files s s' : log_opens_honest P files (log s') -> run_opens_honest P files s s'.
Proof.
  intros H d Hd key n ad ct pt Hin. apply (H key n ad ct pt). rewrite Hd. apply in_or_app. now left.
Qed.

Lemma offered_msg_eq msg rest : length msg = 128%nat -> offered_msg (x_prologue ++ msg ++ rest) = msg.
Proof.
  intros H. unfold offered_msg.
  replace (skipn 4 (x_prologue ++ msg ++ rest)) with (msg ++ rest) by reflexivity.
  rewrite <- H. apply firstn_app_exact.
Qed.

Lemma header_eq F f msg rest : F = x_prologue ++ msg ++ rest -> msg = hf_msg P f -> length msg = 128%nat ->
  firstn 132 F = firstn 132 (hf_file P f).
Proof.
  intros -> Hm Hl. unfold hf_file, spec_key_file. rewrite <- Hm. rewrite !app_assoc.
  assert (H132 : length (x_prologue ++ msg) = 132%nat) by (rewrite app_length, Hl; reflexivity).
  rewrite <- H132. now rewrite !firstn_app_exact.
Qed.

(* ---------- Stage 2, weakest premises ---------- *)
Theorem key_auth_multi_gen files r rpk s res s' :
  key_decrypt P r rpk s = (res, s') ->
  hs_opens_honest P files r rpk (offered_msg (r_data (rdr s))) ->
  run_opens_honest P files s s' ->
  hash_inj_on P (hash_inputs P files rpk (offered_msg (r_data (rdr s)))) ->
  eph_consistent P files -> fk_consistent P files ->
  rejected_no_output s s' res \/ exists f, In f files /\ attributed_to P f rpk s s' res.
Proof.
  intros E Hhs Hlog Hinj Heph Hfk.
  destruct (key_decrypt_inv P r rpk s res s' E) as
    [(e & d & -> & _ & Hw & _)|[(msg0 & d & _ & _ & Hnok & Hres & Hw & _)|
     (msg & sb & d & payload & spk & hh & r3 & Hlm & Hd & Hn & Hw & Hlb & _ & _ & Ec & Hres)]].
  - left. split; [discriminate|now rewrite Hw].
  - left. split; [|now rewrite Hw]. intros spk0 Hspk. rewrite Hspk in Hres.
    destruct (noise_decrypt P r rpk x_prologue msg0) as [x| | |]; discriminate Hres.
  - right. rewrite Hd, (offered_msg_eq msg _ Hlm) in Hhs, Hinj.
    destruct (Nat.eq_dec (length r) 32) as [Hr|Hr]; [|exfalso; exact (noise_decrypt_bad_key r rpk x_prologue msg Hr _ Hn)].
    rewrite (noise_decrypt_eq P Hh r rpk x_prologue msg Hr) in Hn.
    destruct (noise_len_ok (length msg)); [|discriminate].
    destruct (hs_auth files rpk msg Hlm Hinj r payload spk hh Hn Hhs Heph) as (f & Hf & Hmsg & HR & Hspk & Hpl & Hhh).
    exists f. split; [exact Hf|]. subst payload hh spk.
    change (file_key P (hf_pk f) (hf_hh P f)) with (hf_fk P f) in Ec. unfold decrypt_chunks in Ec.
    destruct (dec_loop_open_ad P (hf_fk P f) [] cs_const _ _ _ _ _ Ec) as (d2 & Hl2 & Had2).
    assert (Hlog2 : log_opens_honest P files d2).
    { assert (Hall : log s' = (d2 ++ d) ++ log s) by (rewrite Hl2, Hlb; now rewrite app_assoc).
      intros key n ad ct pt Hin. apply (Hlog _ Hall key n ad ct pt). apply in_or_app. now left. }
    destruct (dec_auth_file_delta P (hf_fk P f) [] cs_const (hf_chunks f) _ sb r3 s' d2 (hf_fk_len f) Haead Ec Hl2
               (chunk_no_forgery files f d2 Hf Hlog2 Had2 Hfk)) as [Hpre Hok].
    rewrite Hw in Hpre, Hok.
    split; [exists (r_data (rdr sb)); now rewrite <- Hmsg|]. split; [now rewrite <- Hmsg|].
    split; [exact (header_eq _ f msg _ Hd Hmsg Hlm)|]. split; [exact HR|]. split; [exact Hpre|].
    intros spk' Hs. subst res. destruct r3 as [[]|e|w|]; cbn in Hs; try discriminate Hs.
    injection Hs as <-. split; [reflexivity|]. now apply Hok.
Qed.

(* ---------- the NoDup-style premises imply the three facts used ---------- *)
Lemma nodup_map_inj {A B} (g : A -> B) (l : list A) a b :
  NoDup (map g l) -> In a l -> In b l -> g a = g b -> a = b.
Proof.
  induction l as [|x l IH]; intros Hnd Ha Hb Hg; [contradiction|].
  cbn [map] in Hnd. inversion Hnd as [|? ? Hnin Hnd']; subst.
  destruct Ha as [->|Ha], Hb as [->|Hb].
  - reflexivity.
  - exfalso. apply Hnin. rewrite Hg. now apply in_map.
  - exfalso. apply Hnin. rewrite <- Hg. now apply in_map.
  - now apply IH.
Qed.

Lemma keys_distinct_facts files : keys_distinct P files ->
  eph_consistent P files /\ fk_consistent P files.
Proof.
  intros (Hepk & Hfk). split.
  - intros a b Ha Hb He _. now rewrite (nodup_map_inj (hf_epk P) files a b Hepk Ha Hb He).
  - intros a b Ha Hb He. now rewrite (nodup_map_inj (hf_fk P) files a b Hfk Ha Hb He).
Qed.

(* ---------- Stage 2, headline form ---------- *)
Theorem key_auth_multi files r rpk s res s' :
  key_decrypt P r rpk s = (res, s') ->
  hs_opens_honest P files r rpk (offered_msg (r_data (rdr s))) ->
  run_opens_honest P files s s' ->
  hash_inj_on P (hash_inputs P files rpk (offered_msg (r_data (rdr s)))) ->
  keys_distinct P files ->
  rejected_no_output s s' res \/ exists f, In f files /\ attributed_to P f rpk s s' res.
Proof.
  intros E Hhs Hlog Hinj Hkd. destruct (keys_distinct_facts files Hkd) as (H1 & H2).
  now apply (key_auth_multi_gen files r rpk s res s').
Qed.

(* acceptance, spelled out *)
Corollary key_auth_multi_ok files r rpk s sender s' :
  key_decrypt P r rpk s = (Ok sender, s') ->
  hs_opens_honest P files r rpk (offered_msg (r_data (rdr s))) ->
  run_opens_honest P files s s' ->
  hash_inj_on P (hash_inputs P files rpk (offered_msg (r_data (rdr s)))) ->
  keys_distinct P files ->
  exists f, In f files /\
    firstn 132 (r_data (rdr s)) = firstn 132 (hf_file P f) /\
    rpk = hf_R f /\ sender = hf_spk P f /\
    w_out (wtr s') = w_out (wtr s) ++ concat (hf_chunks f).
Proof.
  intros E Hhs Hlog Hinj Hkd.
  destruct (key_auth_multi files r rpk s (Ok sender) s' E Hhs Hlog Hinj Hkd) as [[Hno _]|(f & Hf & _ & _ & Hhd & HR & _ & Hok)].
  - exfalso. exact (Hno sender eq_refl).
  - destruct (Hok sender eq_refl) as [Hs Ho]. exists f. auto.
Qed.

(* ---------- Stage 1: one honest file (no distinctness premise at all) ---------- *)
Theorem key_auth_single f r rpk s res s' :
  key_decrypt P r rpk s = (res, s') ->
  hs_opens_honest P [f] r rpk (offered_msg (r_data (rdr s))) ->
  run_opens_honest P [f] s s' ->
  hash_inj_on P (hash_inputs P [f] rpk (offered_msg (r_data (rdr s)))) ->
  rejected_no_output s s' res \/ attributed_to P f rpk s s' res.
Proof.
  intros E Hhs Hlog Hinj.
  destruct (key_auth_multi_gen [f] r rpk s res s' E Hhs Hlog Hinj) as [Hrej|(g & [<-|[]] & Hatt)].
  - intros a b [<-|[]] [<-|[]] _ _. reflexivity.
  - intros a b [<-|[]] [<-|[]] _. reflexivity.
  - left. exact Hrej.
  - right. exact Hatt.
Qed.

Corollary key_auth_single_ok f r rpk s sender s' :
  key_decrypt P r rpk s = (Ok sender, s') ->
  hs_opens_honest P [f] r rpk (offered_msg (r_data (rdr s))) ->
  run_opens_honest P [f] s s' ->
  hash_inj_on P (hash_inputs P [f] rpk (offered_msg (r_data (rdr s)))) ->
  firstn 132 (r_data (rdr s)) = firstn 132 (hf_file P f) /\
  rpk = hf_R f /\ sender = hf_spk P f /\
  w_out (wtr s') = w_out (wtr s) ++ concat (hf_chunks f).
Proof.
  intros E Hhs Hlog Hinj.
  destruct (key_auth_single f r rpk s (Ok sender) s' E Hhs Hlog Hinj) as [[Hno _]|(_ & _ & Hhd & HR & _ & Hok)].
  - exfalso. exact (Hno sender eq_refl).
  - destruct (Hok sender eq_refl) as [Hs Ho]. auto.
Qed.

(* ---------- Stage 3: corollaries ---------- *)
(* C05: a recipient key pair whose public key is not the addressed one of any honest file is rejected, and
   nothing is written *)
Theorem C05_addressed_key_only files r rpk s res s' :
  key_decrypt P r rpk s = (res, s') ->
  hs_opens_honest P files r rpk (offered_msg (r_data (rdr s))) ->
  run_opens_honest P files s s' ->
  hash_inj_on P (hash_inputs P files rpk (offered_msg (r_data (rdr s)))) ->
  keys_distinct P files ->
  (forall f, In f files -> rpk <> hf_R f) ->
  rejected_no_output s s' res.
Proof.
  intros E Hhs Hlog Hinj Hkd Hne.
  destruct (key_auth_multi files r rpk s res s' E Hhs Hlog Hinj Hkd) as [Hrej|(f & Hf & _ & _ & _ & HR & _)];
    [exact Hrej|]. exfalso. exact (Hne f Hf HR).
Qed.

Corollary C05_addressed_key_only_ok files r rpk s sender s' :
  key_decrypt P r rpk s = (Ok sender, s') ->
  hs_opens_honest P files r rpk (offered_msg (r_data (rdr s))) ->
  run_opens_honest P files s s' ->
  hash_inj_on P (hash_inputs P files rpk (offered_msg (r_data (rdr s)))) ->
  keys_distinct P files ->
  exists f, In f files /\ rpk = hf_R f /\ sender = hf_spk P f.
Proof.
  intros E Hhs Hlog Hinj Hkd.
  destruct (key_auth_multi_ok files r rpk s sender s' E Hhs Hlog Hinj Hkd) as (f & Hf & _ & HR & Hs & _).
  exists f. auto.
Qed.

(* C03: an offered header that is not, as a whole, the header of ONE honest file is rejected, nothing is written *)
Theorem C03_header_of_one_file files r rpk s res s' :
  key_decrypt P r rpk s = (res, s') ->
  hs_opens_honest P files r rpk (offered_msg (r_data (rdr s))) ->
  run_opens_honest P files s s' ->
  hash_inj_on P (hash_inputs P files rpk (offered_msg (r_data (rdr s)))) ->
  keys_distinct P files ->
  (forall f, In f files -> offered_msg (r_data (rdr s)) <> hf_msg P f) ->
  rejected_no_output s s' res.
Proof.
  intros E Hhs Hlog Hinj Hkd Hne.
  destruct (key_auth_multi files r rpk s res s' E Hhs Hlog Hinj Hkd) as [Hrej|(f & Hf & (rest & Hd) & Hl & _)];
    [exact Hrej|]. exfalso. apply (Hne f Hf). rewrite Hd. now apply offered_msg_eq.
Qed.

(* C03: handshake fields of different files cannot be recombined.  The offered handshake message carries the
   ephemeral public key of honest file a followed by a 48-byte field c1 and a field c2; if c1 is not a's encrypted
   static key or c2 is not a's encrypted payload key (in particular: if either was taken from another honest file
   and differs from a's), the run is rejected and nothing is written *)
Theorem C03_handshake_fields_not_recombinable files a c1 c2 r rpk s res s' :
  key_decrypt P r rpk s = (res, s') ->
  hs_opens_honest P files r rpk (offered_msg (r_data (rdr s))) ->
  run_opens_honest P files s s' ->
  hash_inj_on P (hash_inputs P files rpk (offered_msg (r_data (rdr s)))) ->
  keys_distinct P files ->
  In a files ->
  offered_msg (r_data (rdr s)) = hf_epk P a ++ c1 ++ c2 -> length c1 = 48%nat ->
  c1 <> hf_c1 P a \/ c2 <> hf_c2 P a ->
  rejected_no_output s s' res.
Proof.
  intros E Hhs Hlog Hinj Hkd Ha Hoff Hl1 Hne.
  destruct (key_auth_multi files r rpk s res s' E Hhs Hlog Hinj Hkd) as [Hrej|(f & Hf & (rest & Hd) & Hl & _)];
    [exact Hrej|]. exfalso.
  rewrite Hd, (offered_msg_eq _ _ Hl) in Hoff. unfold hf_msg in Hoff.
  apply app_len_inj in Hoff; [|now rewrite !hf_epk_len]. destruct Hoff as [Hepk Hrest].
  assert (f = a) as -> by (destruct Hkd as (Hnd & _); exact (nodup_map_inj (hf_epk P) files f a Hnd Hf Ha Hepk)).
  apply app_len_inj in Hrest; [|now rewrite hf_c1_len, Hl1]. destruct Hrest as [H1 H2].
  destruct Hne as [Hne|Hne]; apply Hne; congruence.
Qed.

End KeyAuth.

(* ================= chunk layer: the counter field is advisory; the length field is bounded ================= *)
Section ChunkFields.
Variable P : prims.
Variable key aad : bytes.
Variable cs : N.
Hypothesis Hkey : length key = 32%nat.
Hypothesis Haead : aead_ok P.
Hypothesis Hcs : cs < 4294967296.

Notation dec_loop := (decrypt_chunks_loop P).

Lemma hdr_fields ctr a b : length ctr = 8%nat -> length a = 4%nat ->
  hdr_last (ctr ++ a ++ b) = a /\ hdr_len (ctr ++ a ++ b) = b.
Proof.
  intros Hc Ha. unfold hdr_last, hdr_len.
  assert (E8 : skipn 8 (ctr ++ a ++ b) = a ++ b) by (rewrite <- Hc; apply skipn_app_exact).
  split.
  - rewrite E8, <- Ha. apply firstn_app_exact.
  - change 12%nat with (8 + 4)%nat. rewrite <- skipn_add, E8, <- Ha. apply skipn_app_exact.
Qed.

(* dec_record_ok with an ARBITRARY 8-byte counter field: the decryptor never looks at it *)
Lemma dec_record_ctr_ok fuel ctr n b c rest s :
  length ctr = 8%nat -> chunk_ok cs c -> reader_ok (rdr s) -> writer_ok (wtr s) ->
  r_data (rdr s) = record_ctr P key aad ctr n b c ++ rest ->
  (b = true -> rest = []) ->
  exists s1, reader_ok (rdr s1) /\ writer_ok (wtr s1) /\ r_data (rdr s1) = rest /\
             w_out (wtr s1) = w_out (wtr s) ++ c /\
             dec_loop (S fuel) key aad cs n s =
             if b then (Ok tt, s1) else dec_loop fuel key aad cs (n + 1) s1.
Proof.
  intros Hctr Hc Hr Hw Hd Hlast. unfold chunk_ok in Hc.
  cbn [decrypt_chunks_loop].
  set (h := ctr ++ be32 (flag b) ++ be32 (N.of_nat (length c))).
  set (ct := p_seal P key (noise_nonce n) (rec_ad aad b c) c).
  assert (Hh : length h = 16%nat) by (unfold h; rewrite app_length, Hctr; reflexivity).
  assert (Hct : length ct = (length c + 16)%nat) by (apply (seal_len P Haead)).
  assert (Hrec : record_ctr P key aad ctr n b c = h ++ ct) by (unfold record_ctr, h, ct; now rewrite <- !app_assoc).
  rewrite Hrec in Hd. rewrite <- app_assoc in Hd.
  destruct (hdr_fields ctr (be32 (flag b)) (be32 (N.of_nat (length c))) Hctr eq_refl) as [Hl1 Hl2].
  fold h in Hl1, Hl2.
  destruct (read_exact_ok 16 s Hr) as (s1 & E1 & Hd1 & Hr1 & Hw1).
  { rewrite Hd, app_length. lia. }
  rewrite Hd in E1, Hd1. rewrite <- Hh in Hd1 at 1. rewrite skipn_app_exact in Hd1.
  rewrite <- Hh in E1 at 2. rewrite firstn_app_exact in E1.
  rewrite (bind_ok _ _ _ _ _ (m_read_exact_ok _ _ _ _ _ E1)).
  rewrite Hl1, Hl2.
  rewrite de32_be32 by lia.
  destruct (N.ltb_spec cs (N.of_nat (length c))) as [Hlt|_]; [lia|].
  rewrite Nnat.Nat2N.id.
  destruct (read_exact_ok (length c + 16) s1 Hr1) as (s2 & E2 & Hd2 & Hr2 & Hw2).
  { rewrite Hd1, app_length. lia. }
  rewrite Hd1 in E2, Hd2. rewrite <- Hct in Hd2 at 1. rewrite <- Hct in E2 at 2.
  rewrite skipn_app_exact in Hd2. rewrite firstn_app_exact in E2.
  rewrite (bind_ok _ _ _ _ _ (m_read_exact_ok _ _ _ _ _ E2)).
  assert (E3 : m_open P DChaPolyDecrypt key n (aad ++ be32 (flag b) ++ be32 (N.of_nat (length c))) ct s2 =
               (Ok c, with_log s2 (EvOpen key n (rec_ad aad b c) ct (Some c)))).
  { rewrite (m_open_eq P key Hkey). rewrite Hct.
    destruct (Nat.ltb_spec (length c + 16) 16) as [Hlt|_]; [lia|].
    fold (rec_ad aad b c). unfold ct at 1. now rewrite (open_seal P Haead). }
  rewrite (bind_ok _ _ _ _ _ E3). clear E3.
  rewrite (flag_de b).
  set (s3 := with_log s2 _).
  assert (Hr3 : reader_ok (rdr s3)) by exact Hr2.
  assert (Hw3 : writer_ok (wtr s3)) by (unfold s3; cbn; rewrite Hw2, Hw1; exact Hw).
  assert (Hd3 : r_data (rdr s3) = rest) by exact Hd2.
  assert (Ho3 : w_out (wtr s3) = w_out (wtr s)) by (unfold s3; cbn; now rewrite Hw2, Hw1).
  clearbody s3. clear E1 E2 Hd1 Hd2 Hr1 Hr2 Hw1 Hw2 s1 s2.
  destruct b; cbn [flag].
  - change (1 =? 1) with true. cbv iota.
    destruct (io_read_eof_ok 1 s3 Hr3) as (s4 & E4 & Hd4 & Hr4 & Hw4).
    { rewrite Hd3. now apply Hlast. }
    rewrite (bind_ok _ _ _ _ _ (m_read_ok _ _ _ _ _ E4)).
    assert (Hw4' : writer_ok (wtr s4)) by (rewrite Hw4; exact Hw3).
    destruct (write_all_ok c s4 Hw4') as (s5 & E5 & Ho5 & Hw5 & Hr5).
    rewrite (bind_ok _ _ _ _ _ (m_write_all_ok _ _ _ _ E5)).
    destruct (io_flush_ok s5 Hw5) as (s6 & E6 & Ho6 & Hw6 & Hr6).
    rewrite (bind_ok _ _ _ _ _ (m_flush_ok _ _ _ E6)). unfold ret.
    exists s6. refine (conj _ (conj Hw6 (conj _ (conj _ eq_refl)))).
    + rewrite Hr6, Hr5. exact Hr4.
    + rewrite Hr6, Hr5, Hd4. symmetry. now apply Hlast.
    + rewrite Ho6, Ho5, Hw4, Ho3. reflexivity.
  - change (0 =? 1) with false. cbv iota.
    destruct (write_all_ok c s3 Hw3) as (s5 & E5 & Ho5 & Hw5 & Hr5).
    rewrite (bind_ok _ _ _ _ _ (m_write_all_ok _ _ _ _ E5)).
    destruct (io_flush_ok s5 Hw5) as (s6 & E6 & Ho6 & Hw6 & Hr6).
    rewrite (bind_ok _ _ _ _ _ (m_flush_ok _ _ _ E6)).
    exists s6. refine (conj _ (conj Hw6 (conj _ (conj _ eq_refl)))).
    + rewrite Hr6, Hr5. exact Hr3.
    + rewrite Hr6, Hr5. exact Hd3.
    + rewrite Ho6, Ho5, Ho3. reflexivity.
Qed.

Lemma dec_spec_ctr_ok : forall pairs n s fuel,
  pairs <> [] -> Forall (ctr_pair_ok cs) pairs ->
  reader_ok (rdr s) -> writer_ok (wtr s) ->
  r_data (rdr s) = spec_ctr_from P key aad n pairs ->
  (length pairs <= fuel)%nat ->
  exists s', dec_loop fuel key aad cs n s = (Ok tt, s') /\
             w_out (wtr s') = w_out (wtr s) ++ concat (map snd pairs) /\ r_data (rdr s') = [].
Proof.
  induction pairs as [|p rest IH]; intros n s fuel Hne Hok Hr Hw Hd Hf; [congruence|].
  inversion Hok as [|? ? [Hp8 Hpc] Hrest]; subst.
  destruct fuel as [|fuel]; [cbn in Hf; lia|].
  destruct rest as [|p2 rest'].
  - cbn [spec_ctr_from] in Hd. rewrite <- (app_nil_r (record_ctr _ _ _ _ _ _ _)) in Hd.
    destruct (dec_record_ctr_ok fuel (fst p) n true (snd p) [] s Hp8 Hpc Hr Hw Hd (fun _ => eq_refl))
      as (s1 & Hr1 & Hw1 & Hd1 & Ho1 & E).
    exists s1. rewrite E. cbn [map concat]. rewrite app_nil_r. auto.
  - change (spec_ctr_from P key aad n (p :: p2 :: rest')) with
      (record_ctr P key aad (fst p) n false (snd p) ++ spec_ctr_from P key aad (n + 1) (p2 :: rest')) in Hd.
    destruct (dec_record_ctr_ok fuel (fst p) n false (snd p) _ s Hp8 Hpc Hr Hw Hd) as (s1 & Hr1 & Hw1 & Hd1 & Ho1 & E);
      [discriminate|].
    rewrite E.
    destruct (IH (n + 1) s1 fuel) as (s' & E' & Ho' & Hd'); try assumption; [discriminate | cbn in Hf |- *; lia |].
    exists s'. rewrite E'. repeat split; try assumption.
    rewrite Ho', Ho1. cbn [map concat]. now rewrite <- app_assoc.
Qed.

Lemma spec_ctr_length_ge : forall pairs n, Forall (ctr_pair_ok cs) pairs ->
  (length pairs <= length (spec_ctr_from P key aad n pairs))%nat.
Proof.
  induction pairs as [|p tl IH]; intros n Hok; [cbn; lia|].
  inversion Hok as [|? ? [Hp8 _] Htl]; subst.
  destruct tl as [|p2 tl'].
  - cbn [spec_ctr_from]. unfold record_ctr. rewrite app_length, Hp8. cbn [length]. lia.
  - change (spec_ctr_from P key aad n (p :: p2 :: tl')) with
      (record_ctr P key aad (fst p) n false (snd p) ++ spec_ctr_from P key aad (n + 1) (p2 :: tl')).
    rewrite app_length. unfold record_ctr at 1. rewrite app_length, Hp8.
    specialize (IH (n + 1) Htl). cbn [length] in *. lia.
Qed.

(* honest counter fields give the honest stream *)
Lemma spec_ctr_honest : forall chunks n,
  spec_ctr_from P key aad n (honest_ctrs n chunks) = spec_chunks_from P key aad n chunks.
Proof.
  induction chunks as [|c tl IH]; intros n; [reflexivity|].
  destruct tl as [|c2 tl'].
  - cbn [honest_ctrs spec_ctr_from spec_chunks_from fst snd]. unfold record_ctr, record.
    reflexivity.
  - change (honest_ctrs n (c :: c2 :: tl')) with ((be64 n, c) :: honest_ctrs (n + 1) (c2 :: tl')).
    change (spec_chunks_from P key aad n (c :: c2 :: tl')) with
      (record P key aad n false c ++ spec_chunks_from P key aad (n + 1) (c2 :: tl')).
    rewrite <- (IH (n + 1)).
    change (honest_ctrs (n + 1) (c2 :: tl')) with ((be64 (n + 1), c2) :: honest_ctrs (n + 1 + 1) tl').
    cbn [spec_ctr_from fst snd]. unfold record_ctr, record. now rewrite <- ?app_assoc.
Qed.

(* C03_counter_advisory: a chunk stream whose per-record 8-byte counter fields hold ARBITRARY bytes decrypts, under
   every conforming script, to Ok with exactly the chunks as output and all data consumed *)
Theorem C03_counter_advisory pairs s :
  pairs <> [] -> Forall (ctr_pair_ok cs) pairs ->
  reader_ok (rdr s) -> writer_ok (wtr s) ->
  r_data (rdr s) = spec_ctr_from P key aad 0 pairs ->
  exists s', decrypt_chunks P key aad cs s = (Ok tt, s') /\
             w_out (wtr s') = w_out (wtr s) ++ concat (map snd pairs) /\ r_data (rdr s') = [].
Proof.
  intros Hne Hok Hr Hw Hd. unfold decrypt_chunks.
  apply dec_spec_ctr_ok; try assumption.
  rewrite Hd. pose proof (spec_ctr_length_ge pairs 0 Hok). lia.
Qed.

Lemma map_snd_combine {A B} : forall (l1 : list A) (l2 : list B), length l1 = length l2 -> map snd (combine l1 l2) = l2.
Proof. induction l1 as [|x l1 IH]; intros [|y l2] H; cbn in *; try discriminate; [reflexivity|]. f_equal. apply IH. lia. Qed.

Lemma combine_pairs_ok : forall (ctrs chunks : list bytes), Forall (fun ctr : bytes => length ctr = 8%nat) ctrs ->
  Forall (chunk_ok cs) chunks -> length ctrs = length chunks -> Forall (ctr_pair_ok cs) (combine ctrs chunks).
Proof.
  induction ctrs as [|ctr ctrs' IH]; intros [|c chunks'] H8 Hck Hlen; cbn in *; try discriminate; constructor.
  - inversion H8; inversion Hck; subst. split; assumption.
  - inversion H8; inversion Hck; subst. apply IH; [assumption|assumption|lia].
Qed.

(* ... hence overwriting the counter fields of an honest stream with arbitrary bytes ctrs (one 8-byte value per
   record) changes neither the outcome nor the output: sh is offered the honest stream, st the overwritten one *)
Corollary C03_counter_advisory_vs_honest (chunks ctrs : list bytes) sh st :
  chunks <> [] -> Forall (chunk_ok cs) chunks ->
  length ctrs = length chunks -> Forall (fun ctr : bytes => length ctr = 8%nat) ctrs ->
  reader_ok (rdr sh) -> writer_ok (wtr sh) -> reader_ok (rdr st) -> writer_ok (wtr st) ->
  r_data (rdr sh) = spec_chunks P key aad chunks ->
  r_data (rdr st) = spec_ctr_from P key aad 0 (combine ctrs chunks) ->
  w_out (wtr st) = w_out (wtr sh) ->
  exists sh' st', decrypt_chunks P key aad cs sh = (Ok tt, sh') /\ decrypt_chunks P key aad cs st = (Ok tt, st') /\
    w_out (wtr st') = w_out (wtr sh') /\ w_out (wtr sh') = w_out (wtr sh) ++ concat chunks.
Proof.
  intros Hne Hck Hlen H8 Hrh Hwh Hrt Hwt Hdh Hdt Hout.
  pose proof (combine_pairs_ok ctrs chunks H8 Hck Hlen) as Hpairs.
  assert (Hne' : combine ctrs chunks <> []).
  { destruct ctrs, chunks; cbn in *; try discriminate; congruence. }
  destruct (C03_counter_advisory (combine ctrs chunks) st Hne' Hpairs Hrt Hwt Hdt) as (st' & Et & Hot & _).
  rewrite (map_snd_combine ctrs chunks Hlen) in Hot.
  destruct (dec_spec_chunks_ok P key aad cs Hkey Haead Hcs chunks 0 sh (S (length (r_data (rdr sh)))) Hne Hck Hrh Hwh Hdh)
    as (sh' & Eh & Hoh & _).
  { rewrite Hdh. unfold spec_chunks.
    pose proof (spec_from_length_ge P key aad cs Hkey Haead Hcs chunks 0). lia. }
  exists sh', st'. split; [exact Eh|]. split; [exact Et|]. split; [now rewrite Hot, Hoh, Hout|exact Hoh].
Qed.

End ChunkFields.

Section LenBound.
Variable P : prims.
Variable key aad : bytes.
Variable cs : N.
Notation dec_loop := (decrypt_chunks_loop P).

(* at ANY record position, under ANY script: once a 16-byte record header whose length field exceeds cs has been
   read, the run ends at once with DChunkLen in the very state the header read left — no read is sized by the field *)
Theorem C03_len_bound_step fuel n s hdr s1 :
  m_read_exact d_read_err 16 s = (Ok hdr, s1) -> cs < de32 (hdr_len hdr) ->
  dec_loop (S fuel) key aad cs n s = (Err DChunkLen, s1).
Proof.
  intros E Hlt. cbn [decrypt_chunks_loop]. rewrite (bind_ok _ _ _ _ _ E).
  destruct (N.ltb_spec cs (de32 (hdr_len hdr))) as [_|Hge]; [reflexivity|lia].
Qed.

(* entry point, EVERY script: offered bytes that begin with a record header whose length field exceeds cs are
   rejected (DChunkLen, or a read error if the script fails while the header is read); nothing is written; every
   event of the run is a read that asked for at most 16 bytes *)
Theorem C03_len_bound hdr rest s res s' :
  length hdr = 16%nat -> cs < de32 (hdr_len hdr) ->
  r_data (rdr s) = hdr ++ rest ->
  decrypt_chunks P key aad cs s = (res, s') ->
  (res = Err DChunkLen \/ exists e, res = Err (DIORead e)) /\
  w_out (wtr s') = w_out (wtr s) /\
  exists d, log s' = d ++ log s /\ Forall is_read_ev d /\ Forall (read_req_le 16) d.
Proof.
  intros Hl Hlt Hd E. unfold decrypt_chunks in E. cbn [decrypt_chunks_loop] in E.
  unfold bind at 1 in E. destruct (m_read_exact d_read_err 16 s) as [r1 s1] eqn:E1.
  pose proof (m_read_exact_cases _ _ _ _ _ E1) as (Hw1 & d1 & Hl1 & Hev1 & H1).
  assert (Hq : Forall (read_req_le 16) d1).
  { unfold m_read_exact in E1. destruct (read_exact 16 s) as [r0 s0] eqn:Er.
    apply read_exact_req in Er. destruct Er as (d & Hd' & Hq).
    assert (s0 = s1) as -> by (destruct r0 as [[e|b]|]; now injection E1).
    rewrite Hl1 in Hd'. apply app_inv_tail in Hd'. now subst d. }
  destruct r1 as [hdr'|e|w|]; try contradiction.
  - destruct H1 as (Hl' & Hd1 & _). rewrite Hd in Hd1.
    apply app_len_inj in Hd1; [|now rewrite Hl, Hl']. destruct Hd1 as [<- _].
    destruct (N.ltb_spec cs (de32 (hdr_len hdr))) as [_|Hge]; [|lia].
    injection E as <- <-. split; [left; reflexivity|]. split; [now rewrite Hw1|]. exists d1. auto.
  - injection E as <- <-. destruct H1 as ((ie & ->) & _).
    split; [right; unfold d_read_err; destruct ie; eauto|]. split; [now rewrite Hw1|]. exists d1. auto.
Qed.

(* conforming scripts: exactly DChunkLen, exactly the 16 header bytes consumed *)
Corollary C03_len_bound_conforming hdr rest s :
  reader_ok (rdr s) -> length hdr = 16%nat -> cs < de32 (hdr_len hdr) ->
  r_data (rdr s) = hdr ++ rest ->
  exists s', decrypt_chunks P key aad cs s = (Err DChunkLen, s') /\ r_data (rdr s') = rest /\ wtr s' = wtr s.
Proof.
  intros Hr Hl Hlt Hd.
  destruct (read_exact_ok 16 s Hr) as (s1 & E1 & Hd1 & _ & Hw1).
  { rewrite Hd, app_length. lia. }
  rewrite Hd in E1, Hd1. rewrite <- Hl in E1 at 2. rewrite firstn_app_exact in E1.
  rewrite <- Hl in Hd1. rewrite skipn_app_exact in Hd1.
  exists s1. split; [|split; assumption].
  unfold decrypt_chunks. apply (C03_len_bound_step _ 0 s hdr s1); [|exact Hlt].
  now apply m_read_exact_ok.
Qed.

End LenBound.

Section Closure.
Print Assumptions hs_auth.
Print Assumptions key_auth_single.
Print Assumptions key_auth_single_ok.
Print Assumptions key_auth_multi_gen.
Print Assumptions key_auth_multi.
Print Assumptions key_auth_multi_ok.
Print Assumptions C05_addressed_key_only.
Print Assumptions C05_addressed_key_only_ok.
Print Assumptions C03_header_of_one_file.
Print Assumptions C03_handshake_fields_not_recombinable.
Print Assumptions C03_counter_advisory.
Print Assumptions C03_counter_advisory_vs_honest.
Print Assumptions C03_len_bound_step.
Print Assumptions C03_len_bound.
Print Assumptions C03_len_bound_conforming.
End Closure.
