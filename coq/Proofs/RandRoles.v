(* Proofs/RandRoles.v — links Model/Rand.v's [op_roles] (the transcription of WHICH random values an
   operation draws, in which order) to the model functions that consume them.

   Model/RandRun.v runs Files.key_encrypt and the Cli.cmd_* commands on a random source, drawing where the
   program draws and journalling every draw.  Proved here, for every primitive record, every world, every
   stream and every start position:
     ERASURE   the run on the source returns exactly what the explicit-argument function of Model/Files.v /
               Model/Cli.v returns when it is given the stream blocks at the positions drawn;
     PREFIX    the journal of ANY run is extended by the first k draws that Rand.draw_roles plans for the
               operation's [op_roles] (same roles, same order, consecutive block indices, values = the
               stream's blocks), k <= number of roles;
     COMPLETE  a run that reaches the end of the library call (encrypt: the outcome is a value, Ok or Err;
               commands: success status) has k = all of them;
     HISTORY   a list of commands on ONE source: if all succeed, the journal is exactly
               [all_draws (run_history ..)] of Model/Rand.v; in every case the block indices are consecutive.
   Nothing is assumed about the primitives, so runs that stop early (a panic before the ephemeral key is
   needed, a stream block of the wrong length, a failing command) are covered and draw a strict prefix. *)
From Kestrel Require Import Bytes Outcome IO Prims.
From Kestrel.gen Require Import Extracted.
From Kestrel.Model Require Import AeadWrap Chunks Noise Files KeyringText Cli Rand RandRun.
From Kestrel.Proofs Require Import CombineRand.
From Coq Require Import Lia.

(* ====================================================================================== *)
(** * 0. Generalities                                                                       *)
(* ====================================================================================== *)

Lemma obind_ok {E A B} (m : outcome E A) (f : A -> outcome E B) (b : B) :
  obind m f = Ok b -> exists a, m = Ok a /\ f a = Ok b.
Proof. destruct m as [a|x|w|]; cbn [obind]; intros H; try discriminate H. exists a. split; [reflexivity|exact H]. Qed.

Lemma In_firstn_weak {A} (x : A) : forall n l, In x (firstn n l) -> In x l.
Proof.
  induction n as [|n IH]; intros l H; [destruct H|]. destruct l as [|y l]; [destruct H|].
  cbn [firstn] in H. destruct H as [H|H]; [left; exact H|right; apply IH; exact H].
Qed.

(* a computation that has no error value *)
Definition noerr {E A} (m : outcome E A) : Prop := forall x, m <> Err x.

Lemma obind_noerr {E A B} (m : outcome E A) (f : A -> outcome E B) :
  noerr m -> (forall a, noerr (f a)) -> noerr (obind m f).
Proof.
  intros Hm Hf x. destruct m as [a|y|w|]; cbn [obind].
  - apply Hf.
  - intros _. exact (Hm y eq_refl).
  - discriminate.
  - discriminate.
Qed.

Lemma planned_spec g roles :
  map d_index (planned g roles) = seq (g_next g) (length roles) /\
  map d_role (planned g roles) = roles /\
  Forall (fun d => d_value d = g_stream g (d_index d)) (planned g roles) /\
  snd (draw_roles (g_stream g) (g_next g) roles) = g_next g + length roles.
Proof. unfold planned. apply draw_roles_spec. Qed.

Lemma planned_length g roles : length (planned g roles) = length roles.
Proof. destruct (planned_spec g roles) as (_ & Hr & _). rewrite <- Hr at 2. now rewrite map_length. Qed.

Lemma drew_none g roles : drew g g roles 0.
Proof. unfold drew. cbn [firstn]. rewrite app_nil_r. repeat split; lia. Qed.

Lemma planned_cons g ro rest :
  planned g (ro :: rest) =
  {| d_role := ro; d_index := g_next g; d_value := g_stream g (g_next g) |} :: planned (snd (rdraw ro g)) rest.
Proof.
  unfold planned. cbn [rdraw snd g_stream g_next draw_roles].
  destruct (draw_roles (g_stream g) (S (g_next g)) rest) as [ds c']. reflexivity.
Qed.

(* one draw, then k more of the rest *)
Lemma drew_step g ro g2 rest k :
  drew (snd (rdraw ro g)) g2 rest k -> drew g g2 (ro :: rest) (S k).
Proof.
  unfold drew. cbn [rdraw snd g_stream g_next g_log length]. intros (Hs & Hn & Hk & Hl).
  rewrite planned_cons. cbn [firstn]. repeat split; [exact Hs|lia|lia|].
  rewrite Hl. rewrite <- app_assoc. reflexivity.
Qed.

Lemma drew_one g ro rest : drew g (snd (rdraw ro g)) (ro :: rest) 1.
Proof. apply drew_step. apply drew_none. Qed.

(* no draw for a role list that is extended on the right *)
Lemma drew_weaken g g' roles more k : drew g g' roles k -> drew g g' (roles ++ more) k.
Proof.
  unfold drew. intros (Hs & Hn & Hk & Hl). repeat split; [exact Hs|exact Hn|rewrite app_length; lia|].
  rewrite Hl. f_equal. unfold planned. clear Hs Hn Hl.
  revert k Hk. generalize (g_next g) as c. induction roles as [|ro roles IH]; intros c k Hk.
  - cbn [length] in Hk. assert (k = 0) by lia. subst k. reflexivity.
  - cbn [app draw_roles]. specialize (IH (S c)).
    destruct (draw_roles (g_stream g) (S c) roles) as [ds c1].
    destruct (draw_roles (g_stream g) (S c) (roles ++ more)) as [ds' c2]. cbn [fst] in *.
    destruct k as [|k]; [reflexivity|]. cbn [firstn]. f_equal. apply IH. cbn [length] in Hk. lia.
Qed.

(* all of [roles], then k of [more] *)
Lemma drew_app g g1 g2 roles more k :
  drew g g1 roles (length roles) -> drew g1 g2 more k -> drew g g2 (roles ++ more) (length roles + k).
Proof.
  revert g. induction roles as [|ro roles IH]; intros g H1 H2.
  - cbn [length app Nat.add]. destruct H1 as (Hs & Hn & _ & Hl). cbn [firstn] in Hl. rewrite app_nil_r in Hl.
    destruct H2 as (Hs2 & Hn2 & Hk2 & Hl2). unfold drew.
    assert (Hp : planned g1 more = planned g more).
    { unfold planned. rewrite Hs. replace (g_next g1) with (g_next g) by (cbn [length] in Hn; lia). reflexivity. }
    rewrite <- Hp.
    cbn [length] in Hn. repeat split; [congruence|lia|exact Hk2|congruence].
  - cbn [length app Nat.add]. apply drew_step. apply IH; [|exact H2].
    destruct H1 as (Hs & Hn & Hk & Hl). rewrite planned_cons in Hl. cbn [length firstn] in Hl.
    unfold drew. cbn [rdraw snd g_stream g_next g_log]. repeat split; [exact Hs|cbn [length] in Hn; lia|lia|].
    rewrite Hl. rewrite <- app_assoc. reflexivity.
Qed.

(* what [drew] says about the new journal entries, spelled out *)
Lemma drew_meaning g g' roles k : drew g g' roles k ->
  exists ds, g_log g' = g_log g ++ ds /\ length ds = k /\
    map d_index ds = seq (g_next g) k /\
    map d_role ds = firstn k roles /\
    Forall (fun d => d_value d = g_stream g (d_index d)) ds /\
    g_next g' = g_next g + k /\ g_stream g' = g_stream g.
Proof.
  intros (Hs & Hn & Hk & Hl). exists (firstn k (planned g roles)).
  destruct (planned_spec g roles) as (Hi & Hr & Hv & _).
  split; [exact Hl|]. split; [rewrite firstn_length, planned_length; lia|].
  split.
  { rewrite <- firstn_map, Hi. clear - Hk. revert k Hk. generalize (g_next g) as c. generalize (length roles) as n.
    induction n as [|n IH]; intros c k Hk; [assert (k = 0) by lia; subst k; reflexivity|].
    destruct k as [|k]; [reflexivity|]. cbn [seq firstn]. f_equal. apply IH. lia. }
  split; [rewrite <- firstn_map, Hr; reflexivity|].
  split; [|split; [exact Hn|exact Hs]].
  apply Forall_forall. intros d Hd. rewrite Forall_forall in Hv. apply Hv.
  revert Hd. apply (In_firstn_weak d k (planned g roles)).
Qed.

(* ====================================================================================== *)
(** * 1. noise.rs: the token loop draws at most once, at token e, only without a pair       *)
(* ====================================================================================== *)
Section Lib.
Variable P : prims.

(* [write_token] looks at [fresh_e] only at token e without an ephemeral pair *)
Lemma write_token_indep (fe fe' : bytes) (acc : hs * bytes) (t : token) :
  t <> TE \/ (exists p, e_pair (fst acc) = Some p) ->
  write_token P fe acc t = write_token P fe' acc t.
Proof.
  intros H. destruct acc as [st buf]. cbn [fst] in H. unfold write_token.
  destruct t; try reflexivity.
  destruct H as [H|[p Hp]]; [congruence|]. rewrite Hp. reflexivity.
Qed.

(* after token e a pair is present; no token removes it *)
Lemma write_token_pair (fe : bytes) (acc acc' : hs * bytes) (t : token) :
  write_token P fe acc t = Ok acc' ->
  t = TE \/ (exists p, e_pair (fst acc) = Some p) ->
  exists p', e_pair (fst acc') = Some p'.
Proof.
  destruct acc as [st buf]. cbn [fst]. unfold write_token. intros H Hc.
  destruct t.
  - (* TE *)
    apply obind_ok in H. destruct H as (ep & _ & H).
    apply obind_ok in H. destruct H as (y & _ & H).
    injection H as <-. cbn [fst e_pair]. exists ep. reflexivity.
  - (* TS *)
    destruct Hc as [Hc|[p Hp]]; [discriminate Hc|].
    apply obind_ok in H. destruct H as (r & _ & H).
    injection H as <-. cbn [fst]. unfold with_sym. cbn [e_pair]. exists p. exact Hp.
  - discriminate H.
  - (* TES *)
    destruct Hc as [Hc|[p Hp]]; [discriminate Hc|].
    clear Hp. destruct (e_pair st) as [ep|] eqn:Eep; [|discriminate H]. destruct (rs st) as [r|]; [|discriminate H].
    apply obind_ok in H. destruct H as (sh & _ & H).
    apply obind_ok in H. destruct H as (y & _ & H).
    injection H as <-. cbn [fst]. unfold with_sym. cbn [e_pair]. exists ep. exact Eep.
  - discriminate H.
  - (* TSS *)
    destruct Hc as [Hc|[p Hp]]; [discriminate Hc|].
    destruct (rs st) as [r|]; [|discriminate H].
    apply obind_ok in H. destruct H as (sh & _ & H).
    apply obind_ok in H. destruct H as (y & _ & H).
    injection H as <-. cbn [fst]. unfold with_sym. cbn [e_pair]. exists p. exact Hp.
Qed.

Lemma write_token_r_TE_none (g : rsrc) (acc : hs * bytes) :
  e_pair (fst acc) = None ->
  write_token_r P g acc TE = (write_token P (g_stream g (g_next g)) acc TE, snd (rdraw REphemeralKey g)).
Proof. intros H. unfold write_token_r. rewrite H. reflexivity. Qed.

Lemma write_token_r_nodraw (g : rsrc) (acc : hs * bytes) (t : token) (fe : bytes) :
  t <> TE \/ (exists p, e_pair (fst acc) = Some p) ->
  write_token_r P g acc t = (write_token P fe acc t, g).
Proof.
  intros H. unfold write_token_r. rewrite (write_token_indep [] fe acc t H).
  destruct t; try reflexivity.
  destruct H as [H|[p Hp]]; [congruence|]. rewrite Hp. reflexivity.
Qed.

(* with a pair present the loop draws nothing and is [fold_tokens] for any fresh_e *)
Lemma fold_r_nodraw (fe : bytes) : forall (ts : list token) (acc : hs * bytes) (g : rsrc),
  (exists p, e_pair (fst acc) = Some p) ->
  fold_tokens_r P g acc ts = (fold_tokens (write_token P fe) acc ts, g).
Proof.
  induction ts as [|t r IH]; intros acc g Hp; cbn [fold_tokens_r fold_tokens]; [reflexivity|].
  rewrite (write_token_r_nodraw g acc t fe) by (right; exact Hp).
  destruct (write_token P fe acc t) as [acc'|x|w|] eqn:E; cbn [obind]; try reflexivity.
  apply IH. apply (write_token_pair fe acc acc' t E). right. exact Hp.
Qed.

(* in general: the loop is [fold_tokens] on the NEXT block of the stream, and it draws that block or nothing *)
Lemma fold_r_spec : forall (ts : list token) (acc : hs * bytes) (g : rsrc),
  fst (fold_tokens_r P g acc ts) = fold_tokens (write_token P (g_stream g (g_next g))) acc ts /\
  (snd (fold_tokens_r P g acc ts) = g \/ snd (fold_tokens_r P g acc ts) = snd (rdraw REphemeralKey g)).
Proof.
  induction ts as [|t r IH]; intros acc g; [cbn [fold_tokens_r fold_tokens fst snd]; split; [reflexivity|left; reflexivity]|].
  set (fe := g_stream g (g_next g)).
  destruct (e_pair (fst acc)) as [p|] eqn:Hp.
  { rewrite (fold_r_nodraw fe (t :: r) acc g) by (exists p; exact Hp). cbn [fst snd].
    split; [reflexivity|left; reflexivity]. }
  assert (Hother : t <> TE ->
    fst (fold_tokens_r P g acc (t :: r)) = fold_tokens (write_token P fe) acc (t :: r) /\
    (snd (fold_tokens_r P g acc (t :: r)) = g \/ snd (fold_tokens_r P g acc (t :: r)) = snd (rdraw REphemeralKey g))).
  { intros Hne. cbn [fold_tokens_r fold_tokens].
    rewrite (write_token_r_nodraw g acc t fe) by (left; exact Hne).
    destruct (write_token P fe acc t) as [acc'|x|w|] eqn:E; cbn [obind fst snd];
      try (split; [reflexivity|left; reflexivity]).
    apply IH. }
  destruct t; try (apply Hother; discriminate).
  (* TE without a pair: the draw *)
  cbn [fold_tokens_r fold_tokens]. rewrite (write_token_r_TE_none g acc Hp). fold fe.
  destruct (write_token P fe acc TE) as [acc'|x|w|] eqn:E; cbn [obind fst snd];
    try (split; [reflexivity|right; reflexivity]).
  rewrite (fold_r_nodraw fe r acc' (snd (rdraw REphemeralKey g))).
  - cbn [fst snd]. split; [reflexivity|right; reflexivity].
  - apply (write_token_pair fe acc acc' TE E). left. reflexivity.
Qed.

(* a loop that STARTS with token e and has no pair draws, whatever happens afterwards *)
Lemma fold_r_TE_first (g : rsrc) (acc : hs * bytes) (r : list token) :
  e_pair (fst acc) = None ->
  snd (fold_tokens_r P g acc (TE :: r)) = snd (rdraw REphemeralKey g).
Proof.
  intros Hp. cbn [fold_tokens_r]. rewrite (write_token_r_TE_none g acc Hp).
  set (fe := g_stream g (g_next g)).
  destruct (write_token P fe acc TE) as [acc'|x|w|] eqn:E; cbn [snd]; try reflexivity.
  rewrite (fold_r_nodraw fe r acc' (snd (rdraw REphemeralKey g))); [reflexivity|].
  apply (write_token_pair fe acc acc' TE E). left. reflexivity.
Qed.

(* the Noise X pattern read from noise.rs starts with token e *)
Lemma pattern_starts_with_e : exists r, x_noise_pattern = TE :: r.
Proof. eexists. reflexivity. Qed.

(* ---------- init_x: no error value; the pair it keeps ---------- *)
Lemma key_new_noerr (b : bytes) : noerr (key_new b).
Proof. intros x. unfold key_new. destruct (Nat.eqb (length b) 32); discriminate. Qed.

Lemma mix_hash_noerr (y : sym) (d : bytes) : noerr (mix_hash P y d).
Proof. intros x. unfold mix_hash. destruct (negb _); discriminate. Qed.

Lemma ss_new_noerr (name : bytes) : noerr (ss_new P name).
Proof.
  unfold ss_new. destruct (negb _); [intros x; discriminate|].
  apply obind_noerr; [apply key_new_noerr|]. intros c x. discriminate.
Qed.

Lemma init_x_noerr init prologue s spk e epk rs0 : noerr (init_x P init prologue s spk e epk rs0).
Proof.
  unfold init_x. apply obind_noerr; [apply ss_new_noerr|]. intros y.
  apply obind_noerr; [apply mix_hash_noerr|]. intros y1.
  apply obind_noerr.
  - destruct init; [destruct rs0 as [r|]; [apply mix_hash_noerr|intros x; discriminate]|apply mix_hash_noerr].
  - intros y2 x. discriminate.
Qed.

Lemma init_x_pair init prologue s spk e epk rs0 st :
  init_x P init prologue s spk e epk rs0 = Ok st ->
  e_pair st = match e, epk with Some a, Some b => Some (a, b) | _, _ => None end.
Proof.
  unfold init_x. intros H.
  apply obind_ok in H. destruct H as (y & _ & H).
  apply obind_ok in H. destruct H as (y1 & _ & H).
  apply obind_ok in H. destruct H as (y2 & _ & H).
  injection H as <-. reflexivity.
Qed.

(* ---------- noise_encrypt on the source ---------- *)
Lemma write_message_tail_eq fe st payload :
  write_message P fe st payload = write_message_tail P payload (fold_tokens (write_token P fe) (st, []) x_noise_pattern).
Proof. reflexivity. Qed.

Lemma noise_encrypt_r_spec g s spk r e epk prologue payload :
  fst (noise_encrypt_r P g s spk r e epk prologue payload)
    = noise_encrypt P (g_stream g (g_next g)) s spk r e epk prologue payload /\
  (if eph_injected e epk
   then snd (noise_encrypt_r P g s spk r e epk prologue payload) = g
   else snd (noise_encrypt_r P g s spk r e epk prologue payload) = snd (rdraw REphemeralKey g) \/
        (snd (noise_encrypt_r P g s spk r e epk prologue payload) = g /\
         ~ normal (fst (noise_encrypt_r P g s spk r e epk prologue payload)))).
Proof.
  unfold noise_encrypt_r, noise_encrypt.
  destruct (init_x P true prologue s spk e epk (Some r)) as [st|x|w|] eqn:Ei; cbn [obind].
  - rewrite write_message_tail_eq. unfold write_message_r.
    destruct (fold_r_spec x_noise_pattern (st, []) g) as (Hf & _).
    pose proof (init_x_pair _ _ _ _ _ _ _ _ Ei) as Hpair.
    destruct (fold_tokens_r P g (st, []) x_noise_pattern) as [o g1] eqn:Ef. cbn [fst snd] in *.
    split; [rewrite Hf; reflexivity|].
    destruct pattern_starts_with_e as (rest & Hpat).
    unfold eph_injected. destruct e as [a|]; [destruct epk as [b|]|].
    + (* pair injected: nothing drawn *)
      rewrite (fold_r_nodraw [] x_noise_pattern (st, []) g) in Ef by (cbn [fst]; eauto).
      injection Ef as _ <-. reflexivity.
    + left. rewrite Hpat in Ef. pose proof (fold_r_TE_first g (st, []) rest Hpair) as Hs.
      rewrite Ef in Hs. exact Hs.
    + left. rewrite Hpat in Ef.
      assert (Hnone : e_pair (fst (st, @nil N)) = None) by (cbn [fst]; rewrite Hpair; destruct epk; reflexivity).
      pose proof (fold_r_TE_first g (st, []) rest Hnone) as Hs. rewrite Ef in Hs. exact Hs.
  - exfalso. exact (init_x_noerr _ _ _ _ _ _ _ x Ei).
  - cbn [fst snd]. split; [reflexivity|].
    destruct (eph_injected e epk); [reflexivity|right; split; [reflexivity|intros H; exact H]].
  - cbn [fst snd]. split; [reflexivity|].
    destruct (eph_injected e epk); [reflexivity|right; split; [reflexivity|intros H; exact H]].
Qed.

(* ====================================================================================== *)
(** * 2. encrypt.rs::key_encrypt                                                            *)
(* ====================================================================================== *)
Lemma key_encrypt_tail_eq fpk fe s spk r e epk pk s0 :
  key_encrypt P fpk fe s spk r e epk pk s0 =
  (if negb (Nat.eqb (length (match pk with Some p => p | None => fpk end)) 32) then lift (Panic PUnwrap) s0
   else key_encrypt_tail P (match pk with Some p => p | None => fpk end)
          (noise_encrypt P fe s spk r e epk x_prologue (match pk with Some p => p | None => fpk end)) s0).
Proof.
  unfold key_encrypt, key_encrypt_tail. destruct pk as [p|]; cbv beta iota zeta.
  - destruct (negb (Nat.eqb (length p) 32)); [reflexivity|].
    destruct (noise_encrypt P fe s spk r e epk x_prologue p) as [[msg hh]|x|w|]; reflexivity.
  - destruct (negb (Nat.eqb (length fpk) 32)); [reflexivity|].
    destruct (noise_encrypt P fe s spk r e epk x_prologue fpk) as [[msg hh]|x|w|]; reflexivity.
Qed.

(* the I/O part passes a panic of the handshake on: a value at the end means the handshake returned a value *)
Lemma key_encrypt_tail_normal payload n s0 : normal (fst (key_encrypt_tail P payload n s0)) -> normal n.
Proof.
  destruct n as [[msg hh]|x|w|]; cbn [key_encrypt_tail lift fst normal]; intros H; [exact I|exact I|exact H|exact H].
Qed.

Theorem key_encrypt_r_spec g s spk r e epk pk s0 res g' :
  key_encrypt_r P g s spk r e epk pk s0 = (res, g') ->
  res = key_encrypt P (g_stream g (g_next g)) (g_stream g (g_next g + npk pk)) s spk r e epk pk s0 /\
  exists k, drew g g' (key_enc_roles pk e epk) k /\
            (normal (fst res) -> k = length (key_enc_roles pk e epk)).
Proof.
  unfold key_encrypt_r. rewrite key_encrypt_tail_eq. intros H.
  destruct pk as [p|]; cbn [npk key_enc_roles app].
  - (* payload key injected *)
    replace (g_next g + 0) with (g_next g) by lia.
    destruct (negb (Nat.eqb (length p) 32)).
    { injection H as <- <-. split; [reflexivity|]. exists 0. split; [apply drew_none|].
      cbn [lift fst normal]. intros []. }
    destruct (noise_encrypt_r_spec g s spk r e epk x_prologue p) as (Hf & Hs).
    destruct (noise_encrypt_r P g s spk r e epk x_prologue p) as [n g2]. cbn [fst snd] in Hf, Hs.
    injection H as <- <-. split; [rewrite Hf; reflexivity|].
    destruct (eph_injected e epk).
    + exists 0. subst g2. split; [apply drew_none|reflexivity].
    + destruct Hs as [Hs|(Hs & Hnn)].
      * exists 1. subst g2. split; [apply drew_one|reflexivity].
      * exists 0. subst g2. split; [apply drew_none|].
        intros Hn. exfalso. apply Hnn. exact (key_encrypt_tail_normal _ _ _ Hn).
  - (* payload key drawn first *)
    replace (g_next g + 1) with (S (g_next g)) by lia.
    cbn [rdraw fst snd] in H.
    set (g1 := snd (rdraw RPayloadKey g)) in *.
    change {| g_stream := g_stream g; g_next := S (g_next g);
              g_log := g_log g ++ [{| d_role := RPayloadKey; d_index := g_next g; d_value := g_stream g (g_next g) |}] |}
      with g1 in H.
    destruct (negb (Nat.eqb (length (g_stream g (g_next g))) 32)).
    { injection H as <- <-. split; [reflexivity|]. exists 1.
      split; [apply (drew_weaken g g1 [RPayloadKey]); apply drew_one|].
      cbn [lift fst normal]. intros []. }
    destruct (noise_encrypt_r_spec g1 s spk r e epk x_prologue (g_stream g (g_next g))) as (Hf & Hs).
    destruct (noise_encrypt_r P g1 s spk r e epk x_prologue (g_stream g (g_next g))) as [n g2].
    cbn [fst snd] in Hf, Hs. change (g_stream g1 (g_next g1)) with (g_stream g (S (g_next g))) in Hf.
    injection H as <- <-. split; [rewrite Hf; reflexivity|].
    destruct (eph_injected e epk).
    + exists 1. subst g2. split; [apply (drew_weaken g g1 [RPayloadKey]); apply drew_one|reflexivity].
    + destruct Hs as [Hs|(Hs & Hnn)].
      * exists 2. subst g2. split; [|reflexivity].
        apply drew_step. apply drew_one.
      * exists 1. subst g2. split; [apply (drew_weaken g g1 [RPayloadKey]); apply drew_one|].
        intros Hn. exfalso. apply Hnn. exact (key_encrypt_tail_normal _ _ _ Hn).
Qed.

(* the form for the operation as the CLI runs it (nothing injected): roles = op_roles OpKeyEncrypt *)
Theorem key_encrypt_draws g s spk r s0 res g' :
  key_encrypt_r P g s spk r None None None s0 = (res, g') ->
  res = key_encrypt P (g_stream g (g_next g)) (g_stream g (S (g_next g))) s spk r None None None s0 /\
  exists k, drew g g' (op_roles OpKeyEncrypt) k /\
            (normal (fst res) -> k = length (op_roles OpKeyEncrypt)).
Proof.
  intros H. destruct (key_encrypt_r_spec _ _ _ _ _ _ _ _ _ _ H) as (He & k & Hd & Hk).
  cbn [npk] in He. replace (g_next g + 1) with (S (g_next g)) in He by lia.
  split; [exact He|]. exists k. split; [exact Hd|exact Hk].
Qed.

End Lib.

(* ====================================================================================== *)
(** * 3. commands.rs                                                                        *)
(* ====================================================================================== *)

(* statuses a command cannot end with when it stopped BEFORE its library call / its output *)
Definition stopped (st : cmd_status) : Prop :=
  is_success st = false /\ (forall e, st <> SEncryptFailed e).
Definition pre_stopped {A} (m : pre A) : Prop := forall st, m = inl st -> stopped st.

Ltac stopped_status := split; [reflexivity|intros ?; discriminate].

Lemma pbind_stopped {A B} (m : pre A) (k : A -> pre B) :
  pre_stopped m -> (forall a, pre_stopped (k a)) -> pre_stopped (pbind m k).
Proof.
  intros Hm Hk st. destruct m as [st0|a]; cbn [pbind].
  - intros H. injection H as <-. apply (Hm st0). reflexivity.
  - apply Hk.
Qed.

Lemma inr_stopped {A} (a : A) : pre_stopped (inr a : pre A).
Proof. intros st H. discriminate H. Qed.

Lemma inl_stopped {A} (st : cmd_status) : stopped st -> pre_stopped (inl st : pre A).
Proof. intros Hs st' H. injection H as <-. exact Hs. Qed.

Lemma opt_or_stopped {A} (st : cmd_status) (o : option A) : stopped st -> pre_stopped (opt_or st o).
Proof. intros Hs. destruct o as [a|]; [apply inr_stopped|apply inl_stopped; exact Hs]. Qed.

Lemma of_outcome_stopped {E A} (f : E -> cmd_status) (o : outcome E A) :
  (forall e, stopped (f e)) -> pre_stopped (of_outcome f o).
Proof.
  intros Hf. destruct o as [a|e|t|]; cbn [of_outcome].
  - apply inr_stopped.
  - apply inl_stopped. apply Hf.
  - apply inl_stopped. stopped_status.
  - apply inl_stopped. stopped_status.
Qed.

Lemma open_io_stopped w a b : pre_stopped (open_io w a b).
Proof.
  unfold open_io. destruct (same_path a b); [apply inl_stopped; stopped_status|].
  apply pbind_stopped; [|intros x; apply inr_stopped].
  unfold open_input. destruct a as [p|]; [|apply inr_stopped].
  destruct (resolve (fs w) p) as [[cp [[c|]|]]|]; first [apply inr_stopped | apply inl_stopped; stopped_status].
Qed.

Lemma ask_pass_stopped w b : pre_stopped (ask_pass w b).
Proof.
  unfold ask_pass, read_env_pass. destruct b; [apply opt_or_stopped|apply inl_stopped]; stopped_status.
Qed.
Lemma confirm_password_stopped w b : pre_stopped (confirm_password w b).
Proof.
  unfold confirm_password, read_env_pass. destruct b; [apply opt_or_stopped|apply inl_stopped]; stopped_status.
Qed.
Lemma confirm_new_pass_stopped w b : pre_stopped (confirm_new_pass w b).
Proof.
  unfold confirm_new_pass, read_env_new_pass. destruct b; [apply opt_or_stopped|apply inl_stopped]; stopped_status.
Qed.

Section CliR.
Variable P : prims.
Variable pk_ok sk_ok : text -> bool.
Variable unlock : text -> bytes -> outcome kerr bytes.
Variable lock : bytes -> bytes -> bytes -> text.
Variable decode_pk : text -> outcome kerr bytes.
Variable encode_pk : bytes -> text.
Variable sk_string_ok : text -> bool.
Variable utf8_decode : bytes -> option text.
Variable utf8_encode : text -> bytes.

Lemma resolve_keyring_stopped w k : pre_stopped (resolve_keyring pk_ok sk_ok utf8_decode w k).
Proof.
  unfold resolve_keyring. apply pbind_stopped.
  { unfold keyring_path. destruct k as [loc|]; [apply inr_stopped|apply opt_or_stopped; stopped_status]. }
  intros path. apply pbind_stopped; [apply opt_or_stopped; stopped_status|].
  intros data. apply pbind_stopped; [apply opt_or_stopped; stopped_status|].
  intros txt. apply of_outcome_stopped. intros e. stopped_status.
Qed.

Lemma encrypt_plan_stopped w o : pre_stopped (encrypt_plan pk_ok sk_ok unlock decode_pk utf8_decode w o).
Proof.
  unfold encrypt_plan.
  apply pbind_stopped; [apply open_io_stopped|]. intros input.
  apply pbind_stopped; [apply resolve_keyring_stopped|]. intros keys.
  apply pbind_stopped; [apply opt_or_stopped; stopped_status|]. intros rk.
  apply pbind_stopped; [apply of_outcome_stopped; intros e; stopped_status|]. intros rpub.
  apply pbind_stopped; [apply opt_or_stopped; stopped_status|]. intros sk.
  apply pbind_stopped; [apply of_outcome_stopped; intros e; stopped_status|]. intros spub.
  apply pbind_stopped; [apply opt_or_stopped; stopped_status|]. intros locked.
  apply pbind_stopped; [apply ask_pass_stopped|]. intros pw.
  apply pbind_stopped; [unfold unlock_key; apply of_outcome_stopped; intros e; stopped_status|]. intros spriv.
  apply inr_stopped.
Qed.

Lemma to_public_stopped sk : pre_stopped (to_public P sk).
Proof. unfold to_public. apply of_outcome_stopped. intros e. stopped_status. Qed.

(* ---------- encrypt ---------- *)
Theorem cmd_encrypt_draws g w o res g' :
  cmd_encrypt_r P pk_ok sk_ok unlock decode_pk utf8_decode g w o = (res, g') ->
  res = cmd_encrypt P pk_ok sk_ok unlock decode_pk utf8_decode w o
          (g_stream g (g_next g)) (g_stream g (S (g_next g))) /\
  exists k, drew g g' (op_roles OpKeyEncrypt) k /\
    (is_success (status res) = true \/ (exists e, status res = SEncryptFailed e) ->
     k = length (op_roles OpKeyEncrypt)).
Proof.
  unfold cmd_encrypt_r, cmd_encrypt, stream_cmd. intros H.
  destruct (encrypt_plan pk_ok sk_ok unlock decode_pk utf8_decode w o) as [st|j] eqn:Ep.
  - injection H as <- <-. split; [reflexivity|]. exists 0. split; [apply drew_none|].
    destruct (encrypt_plan_stopped w o st Ep) as (Hns & Hne). cbn [fail_result mk_result status].
    intros [Hs|(e & He)]; [congruence|exfalso; exact (Hne e He)].
  - set (b1 := g_stream g (g_next g)) in *. set (b2 := g_stream g (S (g_next g))) in *.
    assert (Hf : forall inp, fst (lib_enc_r P g j inp) = lib_enc P b1 b2 j inp).
    { intros inp. unfold lib_enc_r, lib_enc.
      destruct (key_encrypt_r P g (ej_s j) (ej_spk j) (ej_r j) None None None (job_io inp (ej_dir j) (ej_bad j))) as [r0 g0] eqn:Ek0.
      now destruct (key_encrypt_draws P _ _ _ _ _ _ _ Ek0) as (He0 & _). }
    assert (Hfed : alias_fed (ej_alias j) (ej_input j) (fun inp => fst (lib_enc_r P g j inp)) = enc_fed P b1 b2 j).
    { unfold enc_fed, alias_fed. now rewrite Hf. }
    rewrite Hfed in H. unfold lib_enc_r in H.
    destruct (key_encrypt_r P g (ej_s j) (ej_spk j) (ej_r j) None None None
                (job_io (enc_fed P b1 b2 j) (ej_dir j) (ej_bad j))) as [r g1] eqn:Ek.
    injection H as <- <-.
    destruct (key_encrypt_draws P _ _ _ _ _ _ _ Ek) as (He & k & Hd & Hk).
    split; [rewrite He; reflexivity|]. exists k. split; [exact Hd|].
    intros Hfin. apply Hk. unfold stream_result in Hfin. cbn [mk_result status] in Hfin.
    destruct (fst r) as [u|e|t|]; cbn [fin_enc normal] in *; try exact I.
    + destruct Hfin as [Hs|(e & He')]; [discriminate Hs|discriminate He'].
    + destruct Hfin as [Hs|(e & He')]; [discriminate Hs|discriminate He'].
Qed.

(* ---------- password encrypt ---------- *)
Lemma pass_encrypt_before_fail w o salt st :
  pass_encrypt_before_draw w o = inl st -> cmd_pass_encrypt P w o salt = fail_result w st.
Proof.
  unfold pass_encrypt_before_draw, cmd_pass_encrypt, stream_cmd, pass_encrypt_plan.
  destruct (open_io w (po_infile o) (po_outfile o)) as [st1|input]; cbn [pbind].
  - intros H. injection H as <-. reflexivity.
  - destruct (confirm_password w (po_env_pass o)) as [st2|pw]; cbn [pbind].
    + intros H. injection H as <-. reflexivity.
    + intros H. discriminate H.
Qed.

Lemma pass_encrypt_before_stopped w o : pre_stopped (pass_encrypt_before_draw w o).
Proof.
  unfold pass_encrypt_before_draw.
  apply pbind_stopped; [apply open_io_stopped|]. intros input.
  apply pbind_stopped; [apply confirm_password_stopped|]. intros pw. apply inr_stopped.
Qed.

Theorem cmd_pass_encrypt_draws g w o res g' :
  cmd_pass_encrypt_r P g w o = (res, g') ->
  res = cmd_pass_encrypt P w o (g_stream g (g_next g)) /\
  exists k, drew g g' (op_roles OpPassEncryptCli) k /\
    (is_success (status res) = true \/ (exists e, status res = SEncryptFailed e) ->
     k = length (op_roles OpPassEncryptCli)).
Proof.
  unfold cmd_pass_encrypt_r. intros H.
  destruct (pass_encrypt_before_draw w o) as [st|u] eqn:Eb.
  - injection H as <- <-. split; [symmetry; apply pass_encrypt_before_fail; exact Eb|].
    exists 0. split; [apply drew_none|].
    destruct (pass_encrypt_before_stopped w o st Eb) as (Hns & Hne). cbn [fail_result mk_result status].
    intros [Hs|(e & He)]; [congruence|exfalso; exact (Hne e He)].
  - cbn [rdraw] in H. injection H as <- <-. split; [reflexivity|].
    exists 1. split; [apply (drew_one g RFileSalt [])|reflexivity].
Qed.

(* ---------- key generate ---------- *)
Lemma gen_key_before_fail w o sk salt st :
  gen_key_before_draw utf8_decode w o = inl st ->
  cmd_gen_key P lock encode_pk utf8_decode utf8_encode w o sk salt = fail_result w st.
Proof.
  unfold gen_key_before_draw, cmd_gen_key, gen_plan.
  destruct (ask_user_stdin utf8_decode w) as [st1|name]; cbn [pbind].
  - intros H. injection H as <-. reflexivity.
  - destruct (negb (valid_key_name name)).
    + intros H. injection H as <-. reflexivity.
    + destruct (confirm_password w (go_env_pass o)) as [st2|pw]; cbn [pbind].
      * intros H. injection H as <-. reflexivity.
      * intros H. discriminate H.
Qed.

Lemma gen_key_to_public_fail w o sk salt st :
  gen_key_before_draw utf8_decode w o = inr tt -> to_public P sk = inl st ->
  cmd_gen_key P lock encode_pk utf8_decode utf8_encode w o sk salt = fail_result w st.
Proof.
  unfold gen_key_before_draw, cmd_gen_key, gen_plan.
  destruct (ask_user_stdin utf8_decode w) as [st1|name]; cbn [pbind]; [intros H; discriminate H|].
  destruct (negb (valid_key_name name)); [intros H; discriminate H|].
  destruct (confirm_password w (go_env_pass o)) as [st2|pw]; cbn [pbind]; [intros H; discriminate H|].
  intros _ Ht. rewrite Ht. reflexivity.
Qed.

Lemma gen_key_before_stopped w o : pre_stopped (gen_key_before_draw utf8_decode w o).
Proof.
  unfold gen_key_before_draw. apply pbind_stopped.
  { unfold ask_user_stdin. apply pbind_stopped; [apply opt_or_stopped; stopped_status|]. intros l. apply inr_stopped. }
  intros name. destruct (negb (valid_key_name name)); [apply inl_stopped; stopped_status|].
  apply pbind_stopped; [apply confirm_password_stopped|]. intros pw. apply inr_stopped.
Qed.

Theorem cmd_gen_key_draws g w o res g' :
  cmd_gen_key_r P lock encode_pk utf8_decode utf8_encode g w o = (res, g') ->
  res = cmd_gen_key P lock encode_pk utf8_decode utf8_encode w o
          (g_stream g (g_next g)) (g_stream g (S (g_next g))) /\
  exists k, drew g g' (op_roles OpKeyGenerate) k /\
    (is_success (status res) = true -> k = length (op_roles OpKeyGenerate)).
Proof.
  unfold cmd_gen_key_r. intros H.
  destruct (gen_key_before_draw utf8_decode w o) as [st|u] eqn:Eb.
  - injection H as <- <-. split; [symmetry; apply gen_key_before_fail; exact Eb|].
    exists 0. split; [apply drew_none|].
    destruct (gen_key_before_stopped w o st Eb) as (Hns & _). cbn [fail_result mk_result status]. congruence.
  - destruct u. cbn [rdraw] in H.
    set (g1 := snd (rdraw RPrivateKey g)) in *.
    change {| g_stream := g_stream g; g_next := S (g_next g);
              g_log := g_log g ++ [{| d_role := RPrivateKey; d_index := g_next g; d_value := g_stream g (g_next g) |}] |}
      with g1 in H.
    destruct (to_public P (g_stream g (g_next g))) as [st|pk] eqn:Et.
    + (* to_public()? failed: the salt is never drawn *)
      injection H as <- <-. split; [symmetry; apply gen_key_to_public_fail; assumption|].
      exists 1. split; [apply (drew_one g RPrivateKey [RLockSalt])|].
      destruct (to_public_stopped _ st Et) as (Hns & _). cbn [fail_result mk_result status]. congruence.
    + change (g_stream g1 (g_next g1)) with (g_stream g (S (g_next g))) in H.
      injection H as <- <-. split; [reflexivity|].
      exists 2. split; [|reflexivity]. apply drew_step. apply (drew_one g1 RLockSalt []).
Qed.

(* ---------- key change-pass ---------- *)
Lemma change_pass_before_fail w key ep salt st :
  change_pass_before_draw unlock sk_string_ok w key ep = inl st ->
  cmd_change_pass unlock lock sk_string_ok utf8_encode w key ep salt = fail_result w st.
Proof.
  unfold change_pass_before_draw, cmd_change_pass.
  destruct (ask_pass w ep) as [st1|old_pass]; cbn [pbind].
  - intros H. injection H as <-. reflexivity.
  - destruct (confirm_new_pass w ep) as [st2|new_pass]; cbn [pbind].
    + intros H. injection H as <-. reflexivity.
    + destruct (negb (sk_string_ok key)).
      * intros H. injection H as <-. reflexivity.
      * destruct (of_outcome SUnlockError (unlock key old_pass)) as [st3|sk]; cbn [pbind].
        -- intros H. injection H as <-. reflexivity.
        -- intros H. discriminate H.
Qed.

Lemma change_pass_before_stopped w key ep : pre_stopped (change_pass_before_draw unlock sk_string_ok w key ep).
Proof.
  unfold change_pass_before_draw.
  apply pbind_stopped; [apply ask_pass_stopped|]. intros old_pass.
  apply pbind_stopped; [apply confirm_new_pass_stopped|]. intros new_pass.
  destruct (negb (sk_string_ok key)); [apply inl_stopped; stopped_status|].
  apply pbind_stopped; [apply of_outcome_stopped; intros e; stopped_status|]. intros sk. apply inr_stopped.
Qed.

Theorem cmd_change_pass_draws g w key ep res g' :
  cmd_change_pass_r unlock lock sk_string_ok utf8_encode g w key ep = (res, g') ->
  res = cmd_change_pass unlock lock sk_string_ok utf8_encode w key ep (g_stream g (g_next g)) /\
  exists k, drew g g' (op_roles OpChangePass) k /\
    (is_success (status res) = true -> k = length (op_roles OpChangePass)).
Proof.
  unfold cmd_change_pass_r. intros H.
  destruct (change_pass_before_draw unlock sk_string_ok w key ep) as [st|u] eqn:Eb.
  - injection H as <- <-. split; [symmetry; apply change_pass_before_fail; exact Eb|].
    exists 0. split; [apply drew_none|].
    destruct (change_pass_before_stopped w key ep st Eb) as (Hns & _). cbn [fail_result mk_result status]. congruence.
  - cbn [rdraw] in H. injection H as <- <-. split; [reflexivity|].
    exists 1. split; [apply (drew_one g RLockSalt [])|reflexivity].
Qed.

(* ---------- any of the four commands, and a history of them on one source ---------- *)
Notation run1 := (run_rcmd P pk_ok sk_ok unlock lock decode_pk encode_pk sk_string_ok utf8_decode utf8_encode).
Notation runs := (run_rcmds P pk_ok sk_ok unlock lock decode_pk encode_pk sk_string_ok utf8_decode utf8_encode).
Notation explicit := (run_rcmd_explicit P pk_ok sk_ok unlock lock decode_pk encode_pk sk_string_ok utf8_decode utf8_encode).

Theorem run_rcmd_draws g c res g' :
  run1 g c = (res, g') ->
  res = explicit c (g_stream g (g_next g)) (g_stream g (S (g_next g))) /\
  exists k, drew g g' (op_roles (rcmd_op c)) k /\
    (is_success (status res) = true -> k = length (op_roles (rcmd_op c))).
Proof.
  destruct c as [w o|w o|w o|w key ep]; cbn [run_rcmd run_rcmd_explicit rcmd_op]; intros H.
  - destruct (cmd_encrypt_draws _ _ _ _ _ H) as (He & k & Hd & Hk).
    split; [exact He|]. exists k. split; [exact Hd|]. intros Hs. apply Hk. left. exact Hs.
  - destruct (cmd_pass_encrypt_draws _ _ _ _ _ H) as (He & k & Hd & Hk).
    split; [exact He|]. exists k. split; [exact Hd|]. intros Hs. apply Hk. left. exact Hs.
  - exact (cmd_gen_key_draws _ _ _ _ _ H).
  - exact (cmd_change_pass_draws _ _ _ _ _ _ H).
Qed.

(* every history: the journal grows by entries with consecutive block indices carrying the stream's
   blocks; no block is skipped and none is used twice, whether or not commands fail *)
Theorem run_rcmds_consecutive : forall cs g results g',
  runs g cs = (results, g') ->
  length results = length cs /\
  exists ds, g_log g' = g_log g ++ ds /\
    map d_index ds = seq (g_next g) (length ds) /\
    g_next g' = g_next g + length ds /\ g_stream g' = g_stream g /\
    Forall (fun d => d_value d = g_stream g (d_index d)) ds.
Proof.
  induction cs as [|c rest IH]; intros g results g' H; cbn [run_rcmds] in H.
  - injection H as <- <-. split; [reflexivity|]. exists []. rewrite app_nil_r. cbn [length map seq].
    repeat split; [lia|constructor].
  - destruct (run1 g c) as [r g1] eqn:E1. destruct (runs g1 rest) as [rs' g2] eqn:E2.
    injection H as <- <-.
    destruct (run_rcmd_draws _ _ _ _ E1) as (_ & k & Hd & _).
    destruct (drew_meaning _ _ _ _ Hd) as (ds1 & Hl1 & Hlen1 & Hi1 & _ & Hv1 & Hn1 & Hs1).
    destruct (IH _ _ _ E2) as (Hlen & ds2 & Hl2 & Hi2 & Hn2 & Hs2 & Hv2).
    split; [cbn [length]; rewrite Hlen; reflexivity|].
    exists (ds1 ++ ds2). rewrite app_length, map_app, seq_app, Hi1, Hi2, Hlen1, Hn1, Hl2, Hl1, <- app_assoc.
    repeat split; [lia|congruence|].
    apply Forall_app. split; [exact Hv1|]. rewrite Hs1 in Hv2. exact Hv2.
Qed.

(* a history in which every command succeeds: the journal is exactly what Model/Rand.v's [run_history]
   assigns to the operations, and the source ends where [run_history] ends *)
Theorem run_rcmds_complete : forall cs g results g',
  runs g cs = (results, g') ->
  Forall (fun r => is_success (status r) = true) results ->
  g_log g' = g_log g ++ all_draws (fst (run_history (g_stream g) (g_next g) (map rcmd_op cs))) /\
  g_next g' = snd (run_history (g_stream g) (g_next g) (map rcmd_op cs)) /\
  g_stream g' = g_stream g.
Proof.
  induction cs as [|c rest IH]; intros g results g' H Hall; cbn [run_rcmds map run_history] in *.
  - injection H as <- <-. cbn [fst snd all_draws flat_map]. rewrite app_nil_r. repeat split.
  - destruct (run1 g c) as [r g1] eqn:E1. destruct (runs g1 rest) as [rs' g2] eqn:E2.
    injection H as <- <-. inversion Hall as [|r0 l0 Hr Hrest]; subst r0 l0.
    destruct (run_rcmd_draws _ _ _ _ E1) as (_ & k & Hd & Hk). specialize (Hk Hr). subst k.
    destruct Hd as (Hs1 & Hn1 & _ & Hl1).
    destruct (planned_spec g (op_roles (rcmd_op c))) as (_ & _ & _ & Hsnd).
    rewrite firstn_all2 in Hl1 by (rewrite planned_length; lia).
    destruct (IH _ _ _ E2 Hrest) as (Hl2 & Hn2 & Hs2).
    unfold planned in Hl1.
    destruct (draw_roles (g_stream g) (g_next g) (op_roles (rcmd_op c))) as [ds c1] eqn:Ed.
    cbn [fst snd] in Hl1, Hsnd. rewrite Hs1 in Hl2, Hn2.
    replace (g_next g1) with c1 in Hl2, Hn2 by lia.
    destruct (run_history (g_stream g) c1 (map rcmd_op rest)) as [hs c2] eqn:Eh.
    cbn [fst snd] in *. unfold all_draws in *. cbn [flat_map snd].
    rewrite Hl2, Hl1, <- app_assoc. repeat split; [exact Hn2|congruence].
Qed.

End CliR.

(* ====================================================================================== *)
(** * 4. Non-vacuity: complete runs and strict-prefix runs exist (toy primitives, by computation) *)
(* ====================================================================================== *)
Definition toy_prims (hashlen : nat) : prims :=
  {| p_hash := fun _ => zeros hashlen; p_hmac := fun _ _ => zeros 32; p_hkdf := fun _ _ _ n => zeros n;
     p_dh := fun _ _ => 1%N :: zeros 31; p_seal := fun _ _ _ m => m ++ zeros 16;
     p_open := fun _ _ _ c => Some (firstn (length c - 16) c); p_scrypt := fun _ _ _ _ _ l => zeros l |}.
Definition toy_blocks (short : bool) (i : nat) : bytes := if short then zeros 31 else repeat (N.of_nat i) 32.
Definition toy_run (hashlen : nat) (short : bool) (e epk pk : option bytes) : bool * list role * nat :=
  let x := key_encrypt_r (toy_prims hashlen) (g_init (toy_blocks short) 5) (zeros 32) (zeros 32) (zeros 32)
             e epk pk (mk_io [1; 2; 3]%N [] [] []) in
  (is_ok (fst (fst x)), map d_role (g_log (snd x)), g_next (snd x)).

(* nothing injected, the run succeeds: both roles, two blocks *)
Example toy_complete : toy_run 32 false None None None = (true, [RPayloadKey; REphemeralKey], 7).
Proof. vm_compute. reflexivity. Qed.
(* a hash primitive of the wrong output length makes init_x panic BEFORE token e: only the payload key was drawn *)
Example toy_prefix_early_panic : toy_run 0 false None None None = (false, [RPayloadKey], 6).
Proof. vm_compute. reflexivity. Qed.
(* a 31-byte block: PayloadKey::new panics after the first draw *)
Example toy_prefix_short_block : toy_run 32 true None None None = (false, [RPayloadKey], 6).
Proof. vm_compute. reflexivity. Qed.
(* half-injected ephemeral pair (e given, epk not): the ephemeral key is drawn all the same *)
Example toy_half_injected : toy_run 32 false (Some (zeros 32)) None (Some (zeros 32)) = (true, [REphemeralKey], 6).
Proof. vm_compute. reflexivity. Qed.
(* both halves and the payload key injected: no draw *)
Example toy_all_injected :
  toy_run 32 false (Some (zeros 32)) (Some (zeros 32)) (Some (zeros 32)) = (true, [], 5).
Proof. vm_compute. reflexivity. Qed.

Section Closure.
Print Assumptions key_encrypt_r_spec.
Print Assumptions key_encrypt_draws.
Print Assumptions cmd_encrypt_draws.
Print Assumptions cmd_pass_encrypt_draws.
Print Assumptions cmd_gen_key_draws.
Print Assumptions cmd_change_pass_draws.
Print Assumptions run_rcmd_draws.
Print Assumptions run_rcmds_consecutive.
Print Assumptions run_rcmds_complete.
Print Assumptions drew_meaning.
End Closure.
