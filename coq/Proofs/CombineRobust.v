(* Proofs/CombineRobust.v — FILE-level robustness of key_decrypt / pass_decrypt for EVERY io state
   (any offered bytes, any read/write/flush script, faults included): the result is Ok or Err, never
   Panic or OutOfFuel; every Read::read call asks for at most chunk_size + 16 bytes; the password
   path calls scrypt at most once, with the constant cost parameters. *)
From Kestrel Require Import Bytes BytesFacts Outcome IO IOFacts Prims.
From Kestrel.gen Require Import Extracted.
From Kestrel.Model Require Import AeadWrap Chunks Noise NoiseSpec Files EventPreds FilesSpec ChunksRobustDefs CombineDefs.
From Kestrel.Proofs Require Import MonadFacts ChunksDec NoiseFacts FilesFacts ChunksRobust CombineFiles.
From Coq Require Import ZifyBool ZifyNat ZifyN.
Local Open Scope N_scope.

Section NoPanic.
Variable P : prims.
Hypothesis Hh : hash_ok P.

Theorem key_decrypt_no_panic r rpk s res s' : length r = 32%nat ->
  key_decrypt P r rpk s = (res, s') -> normal res.
Proof.
  intros Hr E. unfold key_decrypt in E. unfold bind at 1 in E.
  destruct (m_read_exact d_read_err (N.to_nat x_dec_prologue_len) s) as [r1 s1] eqn:E1.
  pose proof (m_read_exact_cases _ _ _ _ _ E1) as (_ & d1 & _ & _ & H1).
  destruct r1 as [pro|e|w|]; try contradiction; [|injection E as <- _; exact I].
  clear H1. destruct (valid_file_format pro) as [[|]|]; try (injection E as <- _; exact I).
  unfold bind at 1 in E.
  destruct (m_read_exact d_read_err (N.to_nat x_dec_handshake_len) s1) as [r2 s2] eqn:E2.
  pose proof (m_read_exact_cases _ _ _ _ _ E2) as (_ & d2 & _ & _ & H2).
  destruct r2 as [hm|e|w|]; try contradiction; [|injection E as <- _; exact I].
  clear H2. pose proof (noise_no_panic P Hh r rpk pro hm Hr) as Hn.
  destruct (noise_decrypt P r rpk pro hm) as [[[payload spk] hh]|e|w|]; try contradiction;
    [|injection E as <- _; exact I].
  unfold bind in E.
  destruct (decrypt_chunks P (p_hkdf P [] payload hh (N.to_nat x_dec_hkdf_len)) [] cs_const s2) as [r3 s3] eqn:E3.
  apply dec_no_panic in E3; [|apply (file_key_len P payload hh Hh)].
  destruct E3 as [->|[e ->]]; injection E as <- _; exact I.
Qed.

Theorem pass_decrypt_no_panic pw s res s' :
  pass_decrypt P pw s = (res, s') -> normal res.
Proof.
  intros E. unfold pass_decrypt in E. unfold bind at 1 in E.
  destruct (m_read_exact d_read_err (N.to_nat x_dec_magic_len) s) as [r1 s1] eqn:E1.
  pose proof (m_read_exact_cases _ _ _ _ _ E1) as (_ & d1 & _ & _ & H1).
  destruct r1 as [magic|e|w|]; try contradiction; [|injection E as <- _; exact I].
  clear H1. destruct (valid_file_format magic) as [[|]|]; try (injection E as <- _; exact I).
  unfold bind at 1 in E.
  destruct (m_read_exact d_read_err (N.to_nat x_dec_salt_len) s1) as [r2 s2] eqn:E2.
  pose proof (m_read_exact_cases _ _ _ _ _ E2) as (_ & d2 & _ & _ & H2).
  destruct r2 as [salt|e|w|]; try contradiction; [|injection E as <- _; exact I].
  clear H2. cbv zeta in E. unfold bind, emit in E.
  match type of E with decrypt_chunks P ?k ?a ?c ?st = _ => destruct (decrypt_chunks P k a c st) as [r3 s3] eqn:E3 end.
  apply dec_no_panic in E3; [|apply (scrypt_len P Hh)].
  injection E as <- _. destruct E3 as [->|[e ->]]; exact I.
Qed.

Corollary key_decrypt_no_panic' r rpk s : length r = 32%nat ->
  (exists spk s', key_decrypt P r rpk s = (Ok spk, s')) \/ (exists e s', key_decrypt P r rpk s = (Err e, s')).
Proof.
  intros Hr. destruct (key_decrypt P r rpk s) as [res s'] eqn:E.
  pose proof (key_decrypt_no_panic r rpk s res s' Hr E) as Hn.
  destruct res; try contradiction; eauto.
Qed.

Corollary pass_decrypt_no_panic' pw s :
  (exists s', pass_decrypt P pw s = (Ok tt, s')) \/ (exists e s', pass_decrypt P pw s = (Err e, s')).
Proof.
  destruct (pass_decrypt P pw s) as [res s'] eqn:E.
  pose proof (pass_decrypt_no_panic pw s res s' E) as Hn.
  destruct res as [[]| | |]; try contradiction; eauto.
Qed.
End NoPanic.

(* ---------- which events a decrypt run can emit ---------- *)
Section Events.
Variable P : prims.
Variable Q : event -> Prop.
Hypothesis Qread : forall e, is_read_ev e -> Q e.
Hypothesis Qwrite : forall e, is_write_ev e -> Q e.
Hypothesis Qflush : forall r, Q (EvFlush r).
Hypothesis Qopen : forall k n ad ct r, Q (EvOpen k n ad ct r).

Lemma lq_read_exact {E} (rerr : ioerr -> E) n : log_all Q (m_read_exact rerr n).
Proof.
  intros s r s' E0. apply m_read_exact_cases in E0. destruct E0 as (_ & d & Hd & Hev & _).
  exists d. split; [exact Hd|]. eapply Forall_impl; [|exact Hev]. exact Qread.
Qed.
Lemma lq_read {E} (rerr : ioerr -> E) n : log_all Q (m_read rerr n).
Proof.
  intros s r s' E0. apply m_read_cases in E0. destruct E0 as (_ & H).
  destruct r as [b|e|w|]; try contradiction.
  - destruct H as (H & _). eexists [_]. split; [exact H|]. constructor; [apply Qread; exact I|constructor].
  - destruct H as (ie & _ & H & _). eexists [_]. split; [exact H|]. constructor; [apply Qread; exact I|constructor].
Qed.
Lemma lq_write_all {E} (werr : ioerr -> E) buf : log_all Q (m_write_all werr buf).
Proof.
  intros s r s' E0. apply m_write_all_cases in E0. destruct E0 as (_ & d & Hd & Hev & _).
  exists d. split; [exact Hd|]. eapply Forall_impl; [|exact Hev]. exact Qwrite.
Qed.
Lemma lq_flush {E} (werr : ioerr -> E) : log_all Q (m_flush werr).
Proof.
  intros s r s' E0. apply m_flush_cases in E0. destruct E0 as (_ & _ & H).
  destruct r as [b|e|w|]; try contradiction.
  - eexists [_]. split; [exact H|]. constructor; [apply Qflush|constructor].
  - destruct H as (ie & _ & H). eexists [_]. split; [exact H|]. constructor; [apply Qflush|constructor].
Qed.
Lemma lq_open {E} (aerr : E) key n ad ct : log_all Q (m_open P aerr key n ad ct).
Proof.
  intros s r s' E0. unfold m_open in E0.
  destruct (chapoly_decrypt_noise P key n ad ct); injection E0 as <- <-;
    (eexists [_]; split; [reflexivity|constructor; [apply Qopen|constructor]]) ||
    (exists []; split; [reflexivity|constructor]).
Qed.

Lemma dec_loop_events key aad cs : forall fuel n, log_all Q (decrypt_chunks_loop P fuel key aad cs n).
Proof.
  induction fuel as [|f IH]; intros n; [apply la_lift|].
  cbn [decrypt_chunks_loop].
  apply la_bind; [apply lq_read_exact|intros hdr].
  destruct (cs <? de32 (hdr_len hdr)); [apply la_fail|].
  apply la_bind; [apply lq_read_exact|intros ct].
  apply la_bind; [apply lq_open|intros pt].
  destruct (_ =? 1).
  - apply la_bind; [apply lq_read|intros chk]. destruct chk; [|apply la_fail].
    apply la_bind; [apply lq_write_all|intros _]. apply la_bind; [apply lq_flush|intros _]. apply la_ret.
  - apply la_bind; [apply lq_write_all|intros _]. apply la_bind; [apply lq_flush|intros _]. apply IH.
Qed.

Lemma decrypt_chunks_events key aad cs : log_all Q (decrypt_chunks P key aad cs).
Proof. intros s r s' E. unfold decrypt_chunks in E. exact (dec_loop_events key aad cs _ _ _ _ _ E). Qed.

Lemma key_decrypt_events r rpk : log_all Q (key_decrypt P r rpk).
Proof.
  unfold key_decrypt. apply la_bind; [apply lq_read_exact|intros pro].
  destruct (valid_file_format pro) as [[|]|]; try apply la_fail.
  apply la_bind; [apply lq_read_exact|intros hm].
  destruct (noise_decrypt P r rpk pro hm) as [[[payload spk] hh]|e|w|]; try apply la_fail; try apply la_lift.
  apply la_bind; [apply decrypt_chunks_events|intros _; apply la_ret].
Qed.
End Events.

Section Bounds.
Variable P : prims.

Lemma dec_ev_not_kdf e : dec_ev e -> not_kdf_ev e.
Proof. destruct e; cbn; auto. Qed.

(* every event of a key_decrypt run is a read, write, flush or AEAD-open event: in particular
   key_decrypt never calls scrypt and never seals *)
Theorem key_decrypt_event_classes r rpk s res s' :
  key_decrypt P r rpk s = (res, s') -> exists d, log s' = d ++ log s /\ Forall dec_ev d.
Proof.
  apply (key_decrypt_events P dec_ev); try (intros []; cbn; auto); cbn; auto.
Qed.

Theorem decrypt_chunks_event_classes key aad cs s res s' :
  decrypt_chunks P key aad cs s = (res, s') -> exists d, log s' = d ++ log s /\ Forall dec_ev d.
Proof.
  apply (decrypt_chunks_events P dec_ev); try (intros []; cbn; auto); cbn; auto.
Qed.

Notation FB := (N.to_nat cs_const + 16)%nat.
Lemma file_read_bound_val : N.of_nat FB = 65552.
Proof. unfold cs_const, x_lib_chunk_size. lia. Qed.
Lemma small_le_FB n : (n <= 128)%nat -> (n <= FB)%nat.
Proof. unfold cs_const, x_lib_chunk_size. lia. Qed.

(* every Read::read call of a key_decrypt run asks for at most 65536 + 16 bytes, whatever the file says *)
Theorem key_decrypt_bounded_reads r rpk s res s' :
  key_decrypt P r rpk s = (res, s') ->
  exists d, log s' = d ++ log s /\ Forall (read_req_le FB) d.
Proof.
  revert s res s'. change (log_all (read_req_le FB) (key_decrypt P r rpk)).
  unfold key_decrypt. apply la_bind.
  { apply (la_read_exact cs_const). apply small_le_FB. change (N.to_nat x_dec_prologue_len) with 4%nat. lia. }
  intros pro. destruct (valid_file_format pro) as [[|]|]; try apply la_fail.
  apply la_bind.
  { apply (la_read_exact cs_const). apply small_le_FB. change (N.to_nat x_dec_handshake_len) with 128%nat. lia. }
  intros hm.
  destruct (noise_decrypt P r rpk pro hm) as [[[payload spk] hh]|e|w|]; try apply la_fail; try apply la_lift.
  apply la_bind; [|intros _; apply la_ret].
  intros s res s' E. unfold decrypt_chunks in E. exact (dec_loop_bounded P _ _ cs_const _ _ _ _ _ E).
Qed.

(* the password path: reads bounded likewise; scrypt is called at most once, on (pw, the 32 bytes
   following the magic), with the constant parameters N = 32768, r = 8, p = 1 *)
Theorem pass_decrypt_bounded pw s res s' :
  pass_decrypt P pw s = (res, s') ->
  exists d, log s' = d ++ log s /\ Forall (read_req_le FB) d /\
    (kdf_events d = [] \/
     exists salt, length salt = 32%nat /\ kdf_events d = [EvKdf pw salt 32768 8 1]).
Proof.
  intros E. unfold pass_decrypt in E. unfold bind at 1 in E.
  destruct (m_read_exact d_read_err (N.to_nat x_dec_magic_len) s) as [r1 s1] eqn:E1.
  assert (B1 : exists d, log s1 = d ++ log s /\ Forall (read_req_le FB) d /\ Forall is_read_ev d).
  { pose proof (m_read_exact_cases _ _ _ _ _ E1) as (_ & d & Hd & Hev & _).
    destruct (la_read_exact cs_const (E:=derr) d_read_err (N.to_nat x_dec_magic_len)
                ltac:(apply small_le_FB; change (N.to_nat x_dec_magic_len) with 4%nat; lia)
                _ _ _ E1) as (d' & Hd' & Hq).
    assert (d' = d) as -> by (rewrite Hd in Hd'; apply app_inv_tail in Hd'; now symmetry).
    exists d. auto. }
  destruct B1 as (d1 & Hl1 & Hq1 & Hev1).
  assert (K1 : kdf_events d1 = []).
  { clear - Hev1. induction Hev1 as [|e d He _ IH]; [reflexivity|]. destruct e; cbn in He; try contradiction; exact IH. }
  assert (Stop1 : forall e, (res, s') = (Err e, s1) ->
    exists d, log s' = d ++ log s /\ Forall (read_req_le FB) d /\
      (kdf_events d = [] \/ exists salt, length salt = 32%nat /\ kdf_events d = [EvKdf pw salt 32768 8 1])).
  { intros e [= -> ->]. exists d1. auto. }
  destruct r1 as [magic|e|w|].
  2:{ eapply Stop1. symmetry. exact E. }
  2,3: (pose proof (m_read_exact_cases _ _ _ _ _ E1) as (_ & ? & _ & _ & []) ).
  destruct (valid_file_format magic) as [[|]|]; try (eapply Stop1; symmetry; exact E).
  clear Stop1. unfold bind at 1 in E.
  destruct (m_read_exact d_read_err (N.to_nat x_dec_salt_len) s1) as [r2 s2] eqn:E2.
  pose proof (m_read_exact_cases _ _ _ _ _ E2) as (_ & d2 & Hl2 & Hev2 & Hres2).
  destruct (la_read_exact cs_const (E:=derr) d_read_err (N.to_nat x_dec_salt_len)
                ltac:(apply small_le_FB; change (N.to_nat x_dec_salt_len) with 32%nat; lia)
                _ _ _ E2) as (d2' & Hd2' & Hq2).
  assert (d2' = d2) as -> by (rewrite Hl2 in Hd2'; apply app_inv_tail in Hd2'; now symmetry).
  assert (K2 : kdf_events d2 = []).
  { clear - Hev2. induction Hev2 as [|e d He _ IH]; [reflexivity|]. destruct e; cbn in He; try contradiction; exact IH. }
  assert (K12 : kdf_events (d2 ++ d1) = []) by (unfold kdf_events in *; rewrite filter_app, K1, K2; reflexivity).
  assert (Hl12 : log s2 = (d2 ++ d1) ++ log s) by (rewrite Hl2, Hl1, app_assoc; reflexivity).
  assert (Hq12 : Forall (read_req_le FB) (d2 ++ d1)) by (apply Forall_app; split; assumption).
  destruct r2 as [salt|e|w|]; try contradiction.
  2:{ injection E as <- <-. exists (d2 ++ d1). auto. }
  destruct Hres2 as (Hls & _). change (N.to_nat x_dec_salt_len) with 32%nat in Hls.
  cbv zeta in E. unfold bind, emit in E.
  match type of E with decrypt_chunks P ?k ?a ?c ?st = _ => set (st0 := st) in *; set (K := k) in * end.
  unfold decrypt_chunks in E.
  destruct (dec_loop_bounded P K magic cs_const _ _ _ _ _ E) as (d3 & Hl3 & Hq3).
  assert (Hde : log_all dec_ev (decrypt_chunks_loop P (S (length (r_data (rdr st0)))) K magic cs_const 0)).
  { apply (dec_loop_events P dec_ev); try (intros []; cbn; auto); cbn; auto. }
  destruct (Hde _ _ _ E) as (d3' & Hl3' & Hc3).
  assert (d3' = d3) as -> by (rewrite Hl3 in Hl3'; apply app_inv_tail in Hl3'; now symmetry).
  assert (K3 : kdf_events d3 = []).
  { clear - Hc3. induction Hc3 as [|e d He _ IH]; [reflexivity|]. destruct e; cbn in He; try contradiction; exact IH. }
  exists (d3 ++ EvKdf pw salt x_lib_scrypt_n x_lib_scrypt_r x_lib_scrypt_p :: d2 ++ d1).
  split; [|split].
  - rewrite Hl3. unfold st0. cbn [log with_log]. rewrite Hl12. rewrite <- !app_assoc. cbn [app]. rewrite <- app_assoc. reflexivity.
  - apply Forall_app. split; [exact Hq3|]. constructor; [exact I|exact Hq12].
  - right. exists salt. split; [exact Hls|].
    unfold kdf_events in *. rewrite filter_app. cbn [filter is_kdf_evb]. rewrite K3, K12. reflexivity.
Qed.

End Bounds.

Section Closure.
Print Assumptions key_decrypt_no_panic.
Print Assumptions pass_decrypt_no_panic.
Print Assumptions key_decrypt_no_panic'.
Print Assumptions pass_decrypt_no_panic'.
Print Assumptions key_decrypt_event_classes.
Print Assumptions key_decrypt_bounded_reads.
Print Assumptions pass_decrypt_bounded.
End Closure.
