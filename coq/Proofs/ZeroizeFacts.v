(* Proofs/ZeroizeFacts.v — facts about the key-container machine of Model/Zeroize.v.

   Headline: in every history of operations, every block that is released (every key container,
   including every clone) holds only zeros at the moment of release, has the length it was
   allocated with, is released at most once, and no live container refers to a released block.

   Everything here is about the MODEL (Model/Zeroize.v), not about the Rust source. *)
From Kestrel Require Import Bytes BytesFacts.
From Kestrel.Model Require Import Zeroize.

(* ================================================================== *)
(* 1. list lemmas                                                       *)
(* ================================================================== *)

Lemma NoDup_snoc {A} : forall (l : list A) (x : A), NoDup l -> ~ In x l -> NoDup (l ++ [x]).
Proof.
  induction l as [|a l IH]; intros x Hnd Hni; cbn.
  - constructor; [intros Hin; destruct Hin | constructor].
  - inversion Hnd as [|a' l' Ha Hl]; subst. constructor.
    + intros Hin. apply in_app_or in Hin. destruct Hin as [Hin|[Hin|Hin]].
      * now apply Ha.
      * subst. apply Hni. now left.
      * destruct Hin.
    + apply IH; [exact Hl|]. intros Hin. apply Hni. now right.
Qed.

Lemma zeros_length n : length (zeros n) = n.
Proof. unfold zeros. apply repeat_length. Qed.

Lemma zeros_fix n : zeros n = zeros (length (zeros n)).
Proof. now rewrite zeros_length. Qed.

(* ---- lookup ---- *)

Lemma lookup_In : forall l id c, lookup id l = Some c -> In (id, c) l.
Proof.
  induction l as [|[k c0] l IH]; intros id c H; cbn in H; [discriminate|].
  destruct (Nat.eqb_spec k id) as [E|E].
  - injection H as ->. subst. now left.
  - right. now apply IH.
Qed.

Lemma In_keys : forall (l : list (nat * bytes)) id c, In (id, c) l -> In id (map fst l).
Proof. intros l id c H. apply in_map_iff. exists (id, c). now split. Qed.

Lemma lookup_keys : forall l id c, lookup id l = Some c -> In id (map fst l).
Proof. intros l id c H. apply lookup_In in H. eapply In_keys; eassumption. Qed.

Lemma keys_lookup : forall l id, In id (map fst l) -> exists c, lookup id l = Some c.
Proof.
  induction l as [|[k c0] l IH]; intros id H; cbn in *; [contradiction|].
  destruct (Nat.eqb_spec k id) as [E|E]; [now exists c0|].
  destruct H as [H|H]; [contradiction|]. now apply IH.
Qed.

Lemma lookup_not_keys : forall l id, ~ In id (map fst l) -> lookup id l = None.
Proof.
  intros l id H. destruct (lookup id l) as [c|] eqn:E; [|reflexivity].
  exfalso. apply H. eapply lookup_keys; eassumption.
Qed.

Lemma In_lookup : forall l id c, NoDup (map fst l) -> In (id, c) l -> lookup id l = Some c.
Proof.
  induction l as [|[k c0] l IH]; intros id c Hnd Hin; cbn in *; [contradiction|].
  inversion Hnd as [|k' l' Hk Hl]; subst.
  destruct Hin as [Hin|Hin].
  - injection Hin as -> ->. now rewrite Nat.eqb_refl.
  - destruct (Nat.eqb_spec k id) as [E|E].
    + subst. exfalso. apply Hk. eapply In_keys; eassumption.
    + now apply IH.
Qed.

Lemma lookup_snoc : forall l id k c,
  lookup id (l ++ [(k, c)]) =
  match lookup id l with
  | Some x => Some x
  | None => if Nat.eqb k id then Some c else None
  end.
Proof.
  induction l as [|[k0 c0] l IH]; intros id k c; cbn; [reflexivity|].
  destruct (Nat.eqb k0 id); [reflexivity|apply IH].
Qed.

(* ---- update ---- *)

Lemma update_keys : forall l id c, map fst (update id c l) = map fst l.
Proof.
  induction l as [|[k c0] l IH]; intros id c; cbn; [reflexivity|].
  destruct (Nat.eqb k id); cbn; [reflexivity|now rewrite IH].
Qed.

Lemma lookup_update_same : forall l id c, In id (map fst l) -> lookup id (update id c l) = Some c.
Proof.
  induction l as [|[k c0] l IH]; intros id c H; cbn in *; [contradiction|].
  destruct (Nat.eqb k id) eqn:E; cbn; rewrite E; [reflexivity|].
  destruct H as [H|H]; [subst; rewrite Nat.eqb_refl in E; discriminate|]. now apply IH.
Qed.

Lemma lookup_update_other : forall l id j c, j <> id -> lookup j (update id c l) = lookup j l.
Proof.
  induction l as [|[k c0] l IH]; intros id j c H; cbn; [reflexivity|].
  destruct (Nat.eqb_spec k id) as [E|E]; cbn.
  - subst. destruct (Nat.eqb_spec id j) as [E'|E']; [congruence|reflexivity].
  - destruct (Nat.eqb k j); [reflexivity|now apply IH].
Qed.

(* ---- remove_block ---- *)

Lemma remove_update : forall l id z, remove_block id (update id z l) = remove_block id l.
Proof.
  induction l as [|[k c0] l IH]; intros id z; cbn; [reflexivity|].
  destruct (Nat.eqb k id) eqn:E; cbn; rewrite E; [reflexivity|now rewrite IH].
Qed.

Lemma remove_block_incl : forall l id p, In p (remove_block id l) -> In p l.
Proof.
  induction l as [|[k c0] l IH]; intros id p H; cbn in *; [contradiction|].
  destruct (Nat.eqb k id); [now right|].
  destruct H as [H|H]; [now left|right; eapply IH; eassumption].
Qed.

Lemma remove_block_keys_incl : forall l id x, In x (map fst (remove_block id l)) -> In x (map fst l).
Proof.
  intros l id x H. apply in_map_iff in H. destruct H as [[k c] [E H]]. cbn in E. subst.
  apply remove_block_incl in H. eapply In_keys; eassumption.
Qed.

Lemma remove_block_keys_other : forall l id x,
  x <> id -> In x (map fst l) -> In x (map fst (remove_block id l)).
Proof.
  induction l as [|[k c0] l IH]; intros id x Hne H; cbn in *; [contradiction|].
  destruct (Nat.eqb_spec k id) as [E|E].
  - destruct H as [H|H]; [congruence|exact H].
  - cbn. destruct H as [H|H]; [now left|right; now apply IH].
Qed.

Lemma remove_block_nodup : forall l id, NoDup (map fst l) -> NoDup (map fst (remove_block id l)).
Proof.
  induction l as [|[k c0] l IH]; intros id H; cbn in *; [constructor|].
  inversion H as [|k' l' Hk Hl]; subst.
  destruct (Nat.eqb k id); [exact Hl|]. cbn. constructor; [|now apply IH].
  intros Hin. apply Hk. eapply remove_block_keys_incl; eassumption.
Qed.

Lemma remove_block_not_in : forall l id, NoDup (map fst l) -> ~ In id (map fst (remove_block id l)).
Proof.
  induction l as [|[k c0] l IH]; intros id H; cbn in *; [intros Hin; exact Hin|].
  inversion H as [|k' l' Hk Hl]; subst.
  destruct (Nat.eqb_spec k id) as [E|E]; [now subst|].
  cbn. intros [Hin|Hin]; [contradiction|]. eapply IH; eassumption.
Qed.

Lemma remove_block_length : forall l id c,
  lookup id l = Some c -> S (length (remove_block id l)) = length l.
Proof.
  induction l as [|[k c0] l IH]; intros id c H; cbn in *; [discriminate|].
  destruct (Nat.eqb k id); [reflexivity|]. cbn. f_equal. eapply IH; eassumption.
Qed.

Lemma lookup_remove_block_other : forall l id j, j <> id -> lookup j (remove_block id l) = lookup j l.
Proof.
  induction l as [|[k c0] l IH]; intros id j H; cbn; [reflexivity|].
  destruct (Nat.eqb_spec k id) as [E|E]; cbn.
  - subst. destruct (Nat.eqb_spec id j) as [E'|E']; [congruence|reflexivity].
  - destruct (Nat.eqb k j); [reflexivity|now apply IH].
Qed.

(* ---- remove_nth ---- *)

Lemma remove_nth_incl {A} : forall (l : list A) i x, In x (remove_nth i l) -> In x l.
Proof.
  induction l as [|a l IH]; intros i x H; cbn in *; [contradiction|].
  destruct i as [|i]; [now right|].
  destruct H as [H|H]; [now left|right; eapply IH; eassumption].
Qed.

Lemma remove_nth_other {A} : forall (l : list A) i a x,
  nth_error l i = Some a -> x <> a -> In x l -> In x (remove_nth i l).
Proof.
  induction l as [|a0 l IH]; intros i a x Hn Hne Hin; cbn in *; [contradiction|].
  destruct i as [|i]; cbn in Hn.
  - injection Hn as ->. destruct Hin as [Hin|Hin]; [congruence|exact Hin].
  - destruct Hin as [Hin|Hin]; [now left|right; eapply IH; eassumption].
Qed.

Lemma remove_nth_nodup {A} : forall (l : list A) i, NoDup l -> NoDup (remove_nth i l).
Proof.
  induction l as [|a l IH]; intros i H; cbn; [constructor|].
  inversion H as [|a' l' Ha Hl]; subst.
  destruct i as [|i]; [exact Hl|]. constructor; [|now apply IH].
  intros Hin. apply Ha. eapply remove_nth_incl; eassumption.
Qed.

Lemma remove_nth_not_in {A} : forall (l : list A) i a,
  NoDup l -> nth_error l i = Some a -> ~ In a (remove_nth i l).
Proof.
  induction l as [|a0 l IH]; intros i a Hnd Hn; cbn in *; [intros Hin; exact Hin|].
  inversion Hnd as [|a' l' Ha Hl]; subst.
  destruct i as [|i]; cbn in Hn.
  - now injection Hn as ->.
  - intros [Hin|Hin].
    + subst. apply Ha. eapply nth_error_In; eassumption.
    + eapply IH; eassumption.
Qed.

Lemma nth_error_remove_nth_lt {A} : forall (l : list A) i j,
  j < i -> nth_error (remove_nth i l) j = nth_error l j.
Proof.
  induction l as [|a l IH]; intros i j H; cbn; [reflexivity|].
  destruct i as [|i]; [lia|]. destruct j as [|j]; cbn; [reflexivity|]. apply IH. lia.
Qed.

Lemma nth_error_remove_nth_ge {A} : forall (l : list A) i j,
  i <= j -> nth_error (remove_nth i l) j = nth_error l (S j).
Proof.
  induction l as [|a l IH]; intros i j H; cbn; [now destruct j|].
  destruct i as [|i]; [reflexivity|]. destruct j as [|j]; [lia|]. cbn. apply IH. lia.
Qed.

(* ================================================================== *)
(* 2. the invariant                                                     *)
(* ================================================================== *)

Record Inv (s : state) : Prop := {
  inv_blocks_nodup  : NoDup (map fst (live (heap_of s)));
  inv_journal_nodup : NoDup (map fst (journal (heap_of s)));
  inv_conts_nodup   : NoDup (conts s);
  inv_owned_live    : forall id, In id (conts s) -> In id (map fst (live (heap_of s)));
  inv_live_owned    : forall id, In id (map fst (live (heap_of s))) -> In id (conts s);
  inv_live_bound    : forall id, In id (map fst (live (heap_of s))) -> id < next (heap_of s);
  inv_journal_bound : forall id, In id (map fst (journal (heap_of s))) -> id < next (heap_of s);
  inv_live_not_freed: forall id, In id (map fst (live (heap_of s))) ->
                                 ~ In id (map fst (journal (heap_of s)));
  inv_freed_zero    : forall id c, In (id, c) (journal (heap_of s)) -> c = zeros (length c);
  inv_count         : next (heap_of s) = length (live (heap_of s)) + length (journal (heap_of s))
}.

Lemma Inv_init : Inv init.
Proof.
  constructor; cbn; try (constructor; fail); intros id H; contradiction.
Qed.

Lemma new_container_Inv : forall s b, Inv s -> Inv (new_container b s).
Proof.
  intros s b I. destruct I as [Hb Hj Hc Hol Hlo Hlb Hjb Hnf Hz Hcnt].
  unfold new_container, alloc. constructor; cbn.
  - rewrite map_app. cbn. apply NoDup_snoc; [exact Hb|].
    intros Hin. apply Hlb in Hin. lia.
  - exact Hj.
  - apply NoDup_snoc; [exact Hc|]. intros Hin. apply Hol in Hin. apply Hlb in Hin. lia.
  - intros id Hin. rewrite map_app. cbn. apply in_app_or in Hin. apply in_or_app.
    destruct Hin as [Hin|Hin]; [left; now apply Hol|now right].
  - intros id Hin. rewrite map_app in Hin. cbn in Hin. apply in_app_or in Hin. apply in_or_app.
    destruct Hin as [Hin|Hin]; [left; now apply Hlo|now right].
  - intros id Hin. rewrite map_app in Hin. cbn in Hin. apply in_app_or in Hin.
    destruct Hin as [Hin|[Hin|Hin]]; [apply Hlb in Hin; lia|lia|destruct Hin].
  - intros id Hin. apply Hjb in Hin. lia.
  - intros id Hin. rewrite map_app in Hin. cbn in Hin. apply in_app_or in Hin.
    destruct Hin as [Hin|[Hin|Hin]]; [now apply Hnf| |destruct Hin].
    subst. intros Hin. apply Hjb in Hin. lia.
  - exact Hz.
  - rewrite app_length. cbn. lia.
Qed.

(* the heap after "zeroize, then release" of a live block *)
Lemma drop_heap : forall h id c,
  lookup id (live h) = Some c ->
  release id (zeroize id h) =
  {| next := next h;
     live := remove_block id (live h);
     journal := journal h ++ [(id, zeros (length c))] |}.
Proof.
  intros h id c H. unfold zeroize. rewrite H. unfold release. cbn.
  rewrite lookup_update_same by (eapply lookup_keys; eassumption).
  now rewrite remove_update.
Qed.

Lemma drop_Inv : forall s i id,
  Inv s -> nth_error (conts s) i = Some id ->
  Inv {| heap_of := release id (zeroize id (heap_of s)); conts := remove_nth i (conts s) |}.
Proof.
  intros s i id I Hn. destruct I as [Hb Hj Hc Hol Hlo Hlb Hjb Hnf Hz Hcnt].
  assert (Hid : In id (map fst (live (heap_of s)))) by (apply Hol; eapply nth_error_In; eassumption).
  destruct (keys_lookup _ _ Hid) as [c Hlk].
  rewrite (drop_heap _ _ _ Hlk). constructor; cbn.
  - now apply remove_block_nodup.
  - rewrite map_app. cbn. apply NoDup_snoc; [exact Hj|now apply Hnf].
  - now apply remove_nth_nodup.
  - intros x Hin. apply remove_block_keys_other.
    + intros E. rewrite E in Hin. exact (remove_nth_not_in _ _ _ Hc Hn Hin).
    + apply Hol. eapply remove_nth_incl; eassumption.
  - intros x Hin. eapply remove_nth_other; [eassumption| |].
    + intros E. rewrite E in Hin. exact (remove_block_not_in _ _ Hb Hin).
    + apply Hlo. eapply remove_block_keys_incl; eassumption.
  - intros x Hin. apply Hlb. eapply remove_block_keys_incl; eassumption.
  - intros x Hin. rewrite map_app in Hin. cbn in Hin. apply in_app_or in Hin.
    destruct Hin as [Hin|[Hin|Hin]]; [now apply Hjb|subst; now apply Hlb|destruct Hin].
  - intros x Hin Hjn. rewrite map_app in Hjn. cbn in Hjn. apply in_app_or in Hjn.
    destruct Hjn as [Hjn|[Hjn|Hjn]].
    + eapply Hnf; [|eassumption]. eapply remove_block_keys_incl; eassumption.
    + rewrite <- Hjn in Hin. exact (remove_block_not_in _ _ Hb Hin).
    + destruct Hjn.
  - intros x d Hin. apply in_app_or in Hin. destruct Hin as [Hin|[Hin|Hin]].
    + eapply Hz; eassumption.
    + injection Hin as _ <-. apply zeros_fix.
    + destruct Hin.
  - rewrite app_length. cbn. pose proof (remove_block_length _ _ _ Hlk) as Hlen. lia.
Qed.

Theorem step_Inv : forall s o, Inv s -> Inv (step true s o).
Proof.
  intros s o I. destruct o as [b|i|i]; cbn.
  - now apply new_container_Inv.
  - destruct (nth_error (conts s) i) as [id|]; [|exact I].
    destruct (lookup id (live (heap_of s))) as [c|]; [|exact I].
    now apply new_container_Inv.
  - destruct (nth_error (conts s) i) as [id|] eqn:Hn; [|exact I].
    now apply drop_Inv.
Qed.

Lemma run_from_Inv : forall ops s, Inv s -> Inv (run_from true s ops).
Proof.
  unfold run_from. induction ops as [|o ops IH]; intros s I; cbn; [exact I|].
  apply IH. now apply step_Inv.
Qed.

Theorem run_Inv : forall ops, Inv (run true ops).
Proof. intros ops. apply run_from_Inv. apply Inv_init. Qed.

(* ================================================================== *)
(* 3. the facts, for every history                                      *)
(* ================================================================== *)

(* every released block is all zeros at release *)
Theorem freed_blocks_zero : forall ops id c,
  In (id, c) (journal (heap_of (run true ops))) -> c = zeros (length c).
Proof. intros ops id c H. eapply inv_freed_zero; [apply run_Inv|eassumption]. Qed.

(* the same, phrased on what the instrumented allocator reports *)
Theorem observe_all_zero : forall ops,
  Forall (fun c => c = zeros (length c)) (observe (run true ops)).
Proof.
  intros ops. apply Forall_forall. intros c H. unfold observe in H.
  apply in_map_iff in H. destruct H as [[id c'] [E H]]. cbn in E. subst.
  eapply freed_blocks_zero; eassumption.
Qed.

Theorem no_double_free : forall ops, NoDup (map fst (journal (heap_of (run true ops)))).
Proof. intros ops. apply inv_journal_nodup. apply run_Inv. Qed.

Theorem live_distinct : forall ops, NoDup (conts (run true ops)).
Proof. intros ops. apply inv_conts_nodup. apply run_Inv. Qed.

(* the same by handle: two different handles never own the same block *)
Corollary handles_distinct : forall ops j k a,
  nth_error (conts (run true ops)) j = Some a ->
  nth_error (conts (run true ops)) k = Some a -> j = k.
Proof.
  intros ops j k a Hj Hk.
  pose proof (live_distinct ops) as Hnd. rewrite NoDup_nth_error in Hnd.
  apply Hnd; [|congruence]. apply nth_error_Some. congruence.
Qed.

Theorem live_not_freed : forall ops id,
  In id (conts (run true ops)) -> ~ In id (map fst (journal (heap_of (run true ops)))).
Proof.
  intros ops id H. pose proof (run_Inv ops) as I.
  apply (inv_live_not_freed _ I). now apply (inv_owned_live _ I).
Qed.

Theorem owned_are_live : forall ops id,
  In id (conts (run true ops)) -> In id (map fst (live (heap_of (run true ops)))).
Proof. intros ops id H. now apply (inv_owned_live _ (run_Inv ops)). Qed.

(* no leaked block: every live block has an owner (which will zeroize it when dropped) *)
Theorem live_are_owned : forall ops id,
  In id (map fst (live (heap_of (run true ops)))) -> In id (conts (run true ops)).
Proof. intros ops id H. now apply (inv_live_owned _ (run_Inv ops)). Qed.

Theorem live_blocks_distinct : forall ops, NoDup (map fst (live (heap_of (run true ops)))).
Proof. intros ops. apply inv_blocks_nodup. apply run_Inv. Qed.

(* ================================================================== *)
(* 4. independence of clones                                            *)
(* ================================================================== *)

(* Dropping container i leaves every other live container in place, owning the same block with
   the same contents.  (The handle of j shifts down by one when j > i, as positions do.) *)
Lemma drop_preserves_others_Inv : forall s i j idj c,
  Inv s -> j <> i ->
  nth_error (conts s) j = Some idj ->
  lookup idj (live (heap_of s)) = Some c ->
  let s' := step true s (ODrop i) in
  lookup idj (live (heap_of s')) = Some c /\
  nth_error (conts s') (if j <? i then j else pred j) = Some idj.
Proof.
  intros s i j idj c I Hji Hj Hlk. cbn -[Nat.ltb].
  destruct (nth_error (conts s) i) as [idi|] eqn:Hi.
  - assert (Hne : idj <> idi).
    { intros E. subst. apply Hji.
      pose proof (inv_conts_nodup _ I) as Hnd. rewrite NoDup_nth_error in Hnd.
      apply Hnd; [|congruence]. apply nth_error_Some. congruence. }
    assert (Hidi : In idi (map fst (live (heap_of s)))).
    { apply (inv_owned_live _ I). eapply nth_error_In; eassumption. }
    destruct (keys_lookup _ _ Hidi) as [ci Hci].
    rewrite (drop_heap _ _ _ Hci). cbn -[Nat.ltb]. split.
    + rewrite lookup_remove_block_other by exact Hne. exact Hlk.
    + destruct (Nat.ltb_spec j i) as [Hlt|Hge].
      * rewrite nth_error_remove_nth_lt by exact Hlt. exact Hj.
      * destruct j as [|j]; [lia|]. cbn. rewrite nth_error_remove_nth_ge by lia. exact Hj.
  - split; [exact Hlk|]. apply nth_error_None in Hi.
    assert (Hjl : j < length (conts s)) by (apply nth_error_Some; congruence).
    destruct (Nat.ltb_spec j i) as [Hlt|Hge]; [exact Hj|lia].
Qed.

Theorem drop_preserves_others : forall ops i j idj c,
  let s := run true ops in
  j <> i ->
  nth_error (conts s) j = Some idj ->
  lookup idj (live (heap_of s)) = Some c ->
  let s' := step true s (ODrop i) in
  lookup idj (live (heap_of s')) = Some c /\ In idj (conts s').
Proof.
  intros ops i j idj c s Hji Hj Hlk s'.
  destruct (drop_preserves_others_Inv s i j idj c (run_Inv ops) Hji Hj Hlk) as [H1 H2].
  split; [exact H1|]. eapply nth_error_In. exact H2.
Qed.

(* After a successful OClone i the new container is the last one; it owns a fresh block, different
   from the block of every container that existed before, holding a copy of the source contents;
   the source is untouched. *)
Lemma clone_spec_Inv : forall s i,
  Inv s -> i < length (conts s) ->
  let s' := step true s (OClone i) in
  exists idi idn c,
    nth_error (conts s) i = Some idi /\
    lookup idi (live (heap_of s)) = Some c /\
    conts s' = conts s ++ [idn] /\
    ~ In idn (conts s) /\
    ~ In idn (map fst (journal (heap_of s'))) /\
    lookup idn (live (heap_of s')) = Some c /\
    lookup idi (live (heap_of s')) = Some c.
Proof.
  intros s i I Hi. cbn.
  destruct (nth_error (conts s) i) as [idi|] eqn:Hn; [|apply nth_error_None in Hn; lia].
  assert (Hidi : In idi (map fst (live (heap_of s)))).
  { apply (inv_owned_live _ I). eapply nth_error_In; eassumption. }
  destruct (keys_lookup _ _ Hidi) as [c Hc]. rewrite Hc.
  exists idi, (next (heap_of s)), c. unfold new_container, alloc. cbn.
  assert (Hfresh : ~ In (next (heap_of s)) (map fst (live (heap_of s)))).
  { intros Hin. apply (inv_live_bound _ I) in Hin. lia. }
  repeat split; try reflexivity; try exact Hc.
  - intros Hin. apply Hfresh. now apply (inv_owned_live _ I).
  - intros Hin. apply (inv_journal_bound _ I) in Hin. lia.
  - rewrite lookup_snoc. rewrite (lookup_not_keys _ _ Hfresh). now rewrite Nat.eqb_refl.
  - rewrite lookup_snoc. now rewrite Hc.
Qed.

(* clone_independent: in any history, clone container i.  The clone (handle n = old number of
   containers) and the original (handle i) own different blocks with equal contents c; dropping
   either one leaves the other one live with contents c. *)
Theorem clone_independent : forall ops i,
  let s := run true ops in
  let n := length (conts s) in
  i < n ->
  let s1 := step true s (OClone i) in
  exists idi idn c,
    nth_error (conts s1) i = Some idi /\
    nth_error (conts s1) n = Some idn /\
    idn <> idi /\
    (forall k idk, k <> n -> nth_error (conts s1) k = Some idk -> idk <> idn) /\
    lookup idi (live (heap_of s1)) = Some c /\
    lookup idn (live (heap_of s1)) = Some c /\
    (* drop the clone: the original keeps its contents *)
    lookup idi (live (heap_of (step true s1 (ODrop n)))) = Some c /\
    In idi (conts (step true s1 (ODrop n))) /\
    (* drop the original: the clone keeps its contents *)
    lookup idn (live (heap_of (step true s1 (ODrop i)))) = Some c /\
    In idn (conts (step true s1 (ODrop i))).
Proof.
  intros ops i s n Hi s1.
  pose proof (run_Inv ops) as I. fold s in I.
  assert (I1 : Inv s1) by (apply step_Inv; exact I).
  destruct (clone_spec_Inv s i I Hi) as (idi & idn & c & Hni & Hci & Hconts & Hfresh & _ & Hln & Hli).
  fold s1 in Hconts, Hln, Hli.
  assert (Hn1i : nth_error (conts s1) i = Some idi).
  { rewrite Hconts. rewrite nth_error_app1 by exact Hi. exact Hni. }
  assert (Hn1n : nth_error (conts s1) n = Some idn).
  { rewrite Hconts. rewrite nth_error_app2 by (unfold n; lia). unfold n. now rewrite Nat.sub_diag. }
  assert (Hne : idn <> idi).
  { intros E. subst. apply Hfresh. eapply nth_error_In; eassumption. }
  assert (Hin : i <> n) by lia.
  destruct (drop_preserves_others_Inv s1 n i idi c I1 Hin Hn1i Hli) as [Ha1 Ha2].
  destruct (drop_preserves_others_Inv s1 i n idn c I1 (not_eq_sym Hin) Hn1n Hln) as [Hb1 Hb2].
  exists idi, idn, c. repeat split; try assumption.
  - intros k idk Hk Hnk E. subst. apply Hk.
    pose proof (inv_conts_nodup _ I1) as Hnd. rewrite NoDup_nth_error in Hnd.
    apply Hnd; [|congruence]. apply nth_error_Some. congruence.
  - eapply nth_error_In. exact Ha2.
  - eapply nth_error_In. exact Hb2.
Qed.

(* ================================================================== *)
(* 5. conservation                                                      *)
(* ================================================================== *)

Lemma step_next : forall s o, Inv s ->
  next (heap_of (step true s o)) = next (heap_of s) + (if op_allocates s o then 1 else 0).
Proof.
  intros s o I. destruct o as [b|i|i]; cbn -[Nat.ltb].
  - lia.
  - destruct (nth_error (conts s) i) as [id|] eqn:Hn.
    + assert (Hlt : i < length (conts s)) by (apply nth_error_Some; congruence).
      apply Nat.ltb_lt in Hlt. rewrite Hlt.
      assert (Hid : In id (map fst (live (heap_of s)))).
      { apply (inv_owned_live _ I). eapply nth_error_In; eassumption. }
      destruct (keys_lookup _ _ Hid) as [c Hc]. rewrite Hc. cbn. lia.
    + apply nth_error_None in Hn. apply Nat.ltb_ge in Hn. rewrite Hn. cbn. lia.
  - destruct (nth_error (conts s) i) as [id|] eqn:Hn; [|lia].
    assert (Hid : In id (map fst (live (heap_of s)))).
    { apply (inv_owned_live _ I). eapply nth_error_In; eassumption. }
    destruct (keys_lookup _ _ Hid) as [c Hc]. rewrite (drop_heap _ _ _ Hc). cbn. lia.
Qed.

Lemma run_from_next : forall ops s, Inv s ->
  next (heap_of (run_from true s ops)) = next (heap_of s) + allocs_from true s ops.
Proof.
  unfold run_from. induction ops as [|o ops IH]; intros s I; cbn; [lia|].
  rewrite IH by (now apply step_Inv). rewrite step_next by exact I. lia.
Qed.

(* number of ONew + successful OClone = number of live blocks + number of released blocks *)
Theorem conservation : forall ops,
  allocs true ops =
  length (live (heap_of (run true ops))) + length (journal (heap_of (run true ops))).
Proof.
  intros ops. rewrite <- (inv_count _ (run_Inv ops)).
  unfold run, allocs. rewrite run_from_next by apply Inv_init. reflexivity.
Qed.

(* and, since blocks and containers are in bijection: *)
Theorem conservation_containers : forall ops,
  allocs true ops = length (conts (run true ops)) + length (journal (heap_of (run true ops))).
Proof.
  intros ops. rewrite conservation. f_equal.
  pose proof (run_Inv ops) as I.
  rewrite <- (map_length fst (live (heap_of (run true ops)))).
  apply Nat.le_antisymm; apply NoDup_incl_length.
  - apply (inv_blocks_nodup _ I).
  - intros x Hx. now apply (inv_live_owned _ I).
  - apply (inv_conts_nodup _ I).
  - intros x Hx. now apply (inv_owned_live _ I).
Qed.

(* ================================================================== *)
(* 6. lengths: a released block has the length of the ONew it descends from *)
(* ================================================================== *)

(* ghost invariant tying the origin table to the heap *)
Record GInv (sg : state * list (nat * bytes)) : Prop := {
  g_live    : forall id c, In (id, c) (live (heap_of (fst sg))) -> lookup id (snd sg) = Some c;
  g_journal : forall id c, In (id, c) (journal (heap_of (fst sg))) ->
                exists b, lookup id (snd sg) = Some b /\ length c = length b;
  g_bound   : forall id, In id (map fst (snd sg)) -> id < next (heap_of (fst sg))
}.

Lemma GInv_init : GInv (init, []).
Proof. constructor; cbn; [intros id c H|intros id c H|intros id H]; contradiction. Qed.

Lemma new_container_GInv : forall s g b,
  GInv (s, g) -> GInv (new_container b s, g ++ [(next (heap_of s), b)]).
Proof.
  intros s g b G. destruct G as [Gl Gj Gb]. cbn in *.
  unfold new_container, alloc. constructor; cbn.
  - intros id c Hin. rewrite lookup_snoc. apply in_app_or in Hin.
    destruct Hin as [Hin|[Hin|Hin]].
    + now rewrite (Gl _ _ Hin).
    + injection Hin as <- <-. rewrite lookup_not_keys; [now rewrite Nat.eqb_refl|].
      intros Hk. apply Gb in Hk. lia.
    + destruct Hin.
  - intros id c Hin. destruct (Gj _ _ Hin) as [b0 [Hb0 Hlen]].
    exists b0. split; [|exact Hlen]. rewrite lookup_snoc. now rewrite Hb0.
  - intros id Hin. rewrite map_app in Hin. cbn in Hin. apply in_app_or in Hin.
    destruct Hin as [Hin|[Hin|Hin]]; [apply Gb in Hin; lia|lia|destruct Hin].
Qed.

Lemma gstep_GInv : forall sg o, Inv (fst sg) -> GInv sg -> GInv (gstep true sg o).
Proof.
  intros [s g] o I G. cbn in I. unfold gstep. cbn [fst snd].
  destruct o as [b|i|i]; cbn.
  - now apply new_container_GInv.
  - destruct (nth_error (conts s) i) as [id|]; [|exact G].
    destruct (lookup id (live (heap_of s))) as [c|] eqn:Hc; [|exact G].
    pose proof (g_live _ G id c (lookup_In _ _ _ Hc)) as Hg. cbn in Hg. rewrite Hg.
    now apply new_container_GInv.
  - destruct (nth_error (conts s) i) as [id|] eqn:Hn; [|exact G].
    assert (Hid : In id (map fst (live (heap_of s)))).
    { apply (inv_owned_live _ I). eapply nth_error_In; eassumption. }
    destruct (keys_lookup _ _ Hid) as [c Hc]. rewrite (drop_heap _ _ _ Hc).
    destruct G as [Gl Gj Gb]. cbn in *. constructor; cbn.
    + intros x d Hin. apply Gl. eapply remove_block_incl; eassumption.
    + intros x d Hin. apply in_app_or in Hin. destruct Hin as [Hin|[Hin|Hin]].
      * now apply Gj.
      * injection Hin as <- <-. exists c. split; [|apply zeros_length].
        apply Gl. now apply lookup_In.
      * destruct Hin.
    + exact Gb.
Qed.

Lemma gfold_fst : forall z ops sg,
  fst (fold_left (gstep z) ops sg) = run_from z (fst sg) ops.
Proof.
  unfold run_from. induction ops as [|o ops IH]; intros sg; cbn; [reflexivity|].
  now rewrite IH.
Qed.

Lemma grun_fst : forall z ops, fst (grun z ops) = run z ops.
Proof. intros z ops. unfold grun. now rewrite gfold_fst. Qed.

Lemma gfold_GInv : forall ops sg, Inv (fst sg) -> GInv sg ->
  GInv (fold_left (gstep true) ops sg).
Proof.
  induction ops as [|o ops IH]; intros sg I G; cbn; [exact G|].
  apply IH; [|now apply gstep_GInv]. cbn. now apply step_Inv.
Qed.

Lemma grun_GInv : forall ops, GInv (grun true ops).
Proof. intros ops. apply gfold_GInv; [apply Inv_init|apply GInv_init]. Qed.

(* every origin is the argument of an ONew that occurs in the history (either variant) *)
Lemma origin_is_new_arg : forall z ops id b, origin z ops id = Some b -> In (ONew b) ops.
Proof.
  intros z ops. unfold origin. induction ops as [|o ops IH] using rev_ind; intros id b H.
  - cbn in H. discriminate.
  - unfold grun in H. rewrite fold_left_app in H. cbn in H. fold (grun z ops) in H.
    apply in_or_app.
    destruct o as [b0|i|i]; cbn in H.
    + rewrite lookup_snoc in H. destruct (lookup id (snd (grun z ops))) as [x|] eqn:E.
      * left. eapply IH. rewrite E. exact H.
      * destruct (Nat.eqb _ id); [|discriminate]. injection H as <-. right. now left.
    + destruct (nth_error (conts (fst (grun z ops))) i) as [id0|]; [|left; eapply IH; exact H].
      destruct (lookup id0 (live (heap_of (fst (grun z ops))))) as [c0|]; [|left; eapply IH; exact H].
      destruct (lookup id0 (snd (grun z ops))) as [b1|] eqn:E1; [|left; eapply IH; exact H].
      rewrite lookup_snoc in H. destruct (lookup id (snd (grun z ops))) as [x|] eqn:E.
      * left. eapply IH. rewrite E. exact H.
      * destruct (Nat.eqb _ id); [|discriminate]. injection H as <-. left. eapply IH. exact E1.
    + left. eapply IH. exact H.
Qed.

(* A live block still holds exactly the bytes of the ONew it descends from. *)
Theorem live_contents_origin : forall ops id c,
  In (id, c) (live (heap_of (run true ops))) ->
  origin true ops id = Some c /\ In (ONew c) ops.
Proof.
  intros ops id c H. rewrite <- grun_fst in H.
  pose proof (g_live _ (grun_GInv ops) _ _ H) as Ho. fold (origin true ops id) in Ho.
  split; [exact Ho|]. eapply origin_is_new_arg; eassumption.
Qed.

(* A released block has the length of the ONew contents it descends from
   (so together with freed_blocks_zero: ALL the secret bytes were overwritten, not a prefix). *)
Theorem freed_length : forall ops id c,
  In (id, c) (journal (heap_of (run true ops))) ->
  exists b, origin true ops id = Some b /\ In (ONew b) ops /\ length c = length b.
Proof.
  intros ops id c H. rewrite <- grun_fst in H.
  destruct (g_journal _ (grun_GInv ops) _ _ H) as [b [Ho Hlen]]. fold (origin true ops id) in Ho.
  exists b. split; [exact Ho|]. split; [|exact Hlen]. eapply origin_is_new_arg; eassumption.
Qed.

Corollary freed_is_zeros_of_origin : forall ops id c,
  In (id, c) (journal (heap_of (run true ops))) ->
  exists b, origin true ops id = Some b /\ In (ONew b) ops /\ c = zeros (length b).
Proof.
  intros ops id c H. destruct (freed_length _ _ _ H) as [b [Ho [Hin Hlen]]].
  exists b. split; [exact Ho|]. split; [exact Hin|].
  rewrite <- Hlen. eapply freed_blocks_zero; eassumption.
Qed.

(* ================================================================== *)
(* 7. non-vacuity                                                       *)
(* ================================================================== *)

(* Real code, history "new, clone, drop both": the allocator sees two all-zero 32-byte blocks. *)
Example demo_zeroized : observe (run true demo_ops) = [zeros 32; zeros 32].
Proof. vm_compute. reflexivity. Qed.

Example demo_all_released :
  live (heap_of (run true demo_ops)) = [] /\ conts (run true demo_ops) = [] /\
  map fst (journal (heap_of (run true demo_ops))) = [0; 1].
Proof. vm_compute. repeat split. Qed.

(* Broken variant (Drop without zeroize), same history: both blocks are released still holding
   the key, so the journal facts above really do depend on the zeroize call. *)
Example demo_broken_observed : observe (run false demo_ops) = [demo_key; demo_key].
Proof. vm_compute. reflexivity. Qed.

Example broken_variant_leaks :
  exists ops id c, In (id, c) (journal (heap_of (run false ops))) /\ c <> zeros (length c).
Proof.
  exists demo_ops, 0, demo_key. split.
  - vm_compute. left. reflexivity.
  - vm_compute. discriminate.
Qed.
