(* Proofs/PrimFacts.v — facts about the lib.rs wrappers (Model/AeadWrap.v) and their concrete RFC instance. *)
From Kestrel Require Import Bytes BytesFacts Outcome Prims.
From Kestrel.Model Require Import AeadWrap.
From Kestrel.Spec Require Import Sha256 Hmac Hkdf HashFacts ChaPoly ChaPolyFacts Concrete.
From Coq Require Import ZifyBool ZifyNat ZifyN.
Local Open Scope N_scope.

Lemma noise_nonce_layout n : noise_nonce n = [0; 0; 0; 0] ++ le64 n.
Proof. reflexivity. Qed.

Lemma noise_nonce_inj n m : n < 18446744073709551616 -> m < 18446744073709551616 ->
  noise_nonce n = noise_nonce m -> n = m.
Proof. intros Hn Hm E. unfold noise_nonce in E. apply app_inv_head in E. now apply le64_inj. Qed.

Section Wrap.
Variable P : prims.

(* repaired code: a ciphertext shorter than a tag is an error value *)
Lemma aead_short_is_error key nonce ct ad :
  length key = 32%nat -> length nonce = 12%nat -> (length ct < 16)%nat ->
  chapoly_decrypt_ietf P key nonce ct ad = Err ChaPolyDecryptError.
Proof.
  intros Hk Hn Hc. unfold chapoly_decrypt_ietf, chapoly_decrypt_ietf_gen. rewrite Hk, Hn. cbn [Nat.eqb negb].
  destruct (Nat.ltb_spec (length ct) 16) as [_|H]; [reflexivity|lia].
Qed.

Lemma aead_decrypt_normal key nonce ct ad :
  length key = 32%nat -> length nonce = 12%nat -> normal (chapoly_decrypt_ietf P key nonce ct ad).
Proof.
  intros Hk Hn. unfold chapoly_decrypt_ietf, chapoly_decrypt_ietf_gen. rewrite Hk, Hn. cbn [Nat.eqb negb].
  destruct (Nat.ltb _ _); [exact I|]. destruct (p_open _ _ _ _ _); exact I.
Qed.

(* the code before fix F1 panicked on such inputs *)
Lemma aead_legacy_refuted key nonce ad :
  length key = 32%nat -> length nonce = 12%nat ->
  exists ct, chapoly_decrypt_ietf_gen P true key nonce ct ad = Panic PArith.
Proof.
  intros Hk Hn. exists []. unfold chapoly_decrypt_ietf_gen. rewrite Hk, Hn. reflexivity.
Qed.

Lemma noise_decrypt_normal key n ct ad :
  length key = 32%nat -> normal (chapoly_decrypt_noise P key n ad ct).
Proof.
  intros Hk. unfold chapoly_decrypt_noise. rewrite Hk. cbn [Nat.eqb negb].
  apply aead_decrypt_normal; [assumption|reflexivity].
Qed.

Lemma x25519_zero_is_error k u : length k = 32%nat -> length u = 32%nat ->
  all_zero (p_dh P k u) = true -> x25519 P k u = Err DhError.
Proof. intros Hk Hu Hz. unfold x25519. rewrite Hk, Hu. cbn [Nat.eqb negb]. now rewrite Hz. Qed.

Lemma derive_public_is_base_mult sk : length sk = 32%nat ->
  x25519_derive_public P sk = Ok (p_dh P sk base_point).
Proof. intros H. unfold x25519_derive_public, dh_pub. now rewrite H. Qed.
End Wrap.

(* kestrel's own hkdf_noise is the first two blocks of RFC 5869 HKDF(salt = ck, ikm, info = "", 64) *)
Lemma hkdf_noise_is_hkdf scr ck ikm : ck <> [] ->
  let '(a, b) := hkdf_noise (rfc_prims scr) ck ikm in a ++ b = hkdf ck ikm [] 64.
Proof.
  intros Hne. unfold hkdf_noise. cbn [p_hmac rfc_prims]. rewrite hkdf_64_empty_info.
  destruct ck as [|c ck']; [congruence|]. reflexivity.
Qed.

Lemma hkdf_noise_lengths scr ck ikm :
  let '(a, b) := hkdf_noise (rfc_prims scr) ck ikm in length a = 32%nat /\ length b = 32%nat.
Proof. unfold hkdf_noise. cbn [p_hmac rfc_prims]. split; apply hmac_length. Qed.
