(* Proofs/PrimFacts.v — facts about the lib.rs wrappers (Model/AeadWrap.v) and their concrete RFC instance. *)
From Kestrel Require Import Bytes BytesFacts Outcome Prims.
From Kestrel.gen Require Import Extracted.
From Kestrel.Model Require Import AeadWrap.
From Kestrel.Spec Require Import Sha256 Hmac Hkdf HashFacts ChaPoly ChaPolyFacts Concrete.
From Coq Require Import ZifyBool ZifyNat ZifyN.
Local Open Scope N_scope.

Lemma noise_nonce_layout n : noise_nonce n = [0; 0; 0; 0] ++ le64 n.
Proof. reflexivity. Qed.

Lemma noise_nonce_inj n m : n < 18446744073709551616 -> m < 18446744073709551616 ->
  noise_nonce n = noise_nonce m -> n = m.
Proof. intros Hn Hm E. unfold noise_nonce in E. apply app_inv_head in E. now apply le64_inj. Qed.

Section Wrap.
Variable P : prims.

(* repaired code: a ciphertext shorter than a tag is an error value *)
Lemma aead_short_is_error key nonce ct ad :
  length key = 32%nat -> length nonce = 12%nat -> (length ct < 16)%nat ->
  chapoly_decrypt_ietf P key nonce ct ad = Err ChaPolyDecryptError.
Proof.
  intros Hk Hn Hc. unfold chapoly_decrypt_ietf, chapoly_decrypt_ietf_gen. rewrite Hk, Hn. cbn [Nat.eqb negb].
  destruct (Nat.ltb_spec (length ct) 16) as [_|H]; [reflexivity|lia].
Qed.

Lemma aead_decrypt_normal key nonce ct ad :
  length key = 32%nat -> length nonce = 12%nat -> normal (chapoly_decrypt_ietf P key nonce ct ad).
Proof.
  intros Hk Hn. unfold chapoly_decrypt_ietf, chapoly_decrypt_ietf_gen. rewrite Hk, Hn. cbn [Nat.eqb negb].
  destruct (Nat.ltb _ _); [exact I|]. destruct (p_open _ _ _ _ _); exact I.
Qed.

(* the code before fix F1 panicked on such inputs *)
Lemma aead_legacy_refuted key nonce ad :
  length key = 32%nat -> length nonce = 12%nat ->
  exists ct, chapoly_decrypt_ietf_gen P true key nonce ct ad = Panic PArith.
Proof.
  intros Hk Hn. exists []. unfold chapoly_decrypt_ietf_gen. rewrite Hk, Hn. reflexivity.
Qed.

Lemma noise_decrypt_normal key n ct ad :
  length key = 32%nat -> normal (chapoly_decrypt_noise P key n ad ct).
Proof.
  intros Hk. unfold chapoly_decrypt_noise. rewrite Hk. cbn [Nat.eqb negb].
  apply aead_decrypt_normal; [assumption|reflexivity].
Qed.

Lemma x25519_zero_is_error k u : length k = 32%nat -> length u = 32%nat ->
  all_zero (p_dh P k u) = true -> x25519 P k u = Err DhError.
Proof. intros Hk Hu Hz. unfold x25519. rewrite Hk, Hu. cbn [Nat.eqb negb]. now rewrite Hz. Qed.

Lemma derive_public_is_base_mult sk : length sk = 32%nat ->
  x25519_derive_public P sk = Ok (p_dh P sk base_point).
Proof. intros H. unfold x25519_derive_public, dh_pub. now rewrite H. Qed.

(* hkdf_sha256: the `derive_key(..).unwrap()` panics exactly for len = 0 and len > 8160 *)
Lemma hkdf_sha256_ok salt ikm info len : (1 <= len <= 255 * 32)%nat ->
  hkdf_sha256 P salt ikm info len = Ok (p_hkdf P salt ikm info len).
Proof.
  intros Hlen. unfold hkdf_sha256, hkdf_max_len.
  destruct (Nat.eqb_spec len 0) as [H0|_]; [lia|].
  destruct (Nat.ltb_spec (255 * 32) len) as [Hgt|_]; [lia|]. reflexivity.
Qed.

Lemma hkdf_sha256_panics salt ikm info len : (len = 0 \/ 255 * 32 < len)%nat ->
  hkdf_sha256 P salt ikm info len = Panic PUnwrap.
Proof.
  intros Hlen. unfold hkdf_sha256, hkdf_max_len.
  destruct (Nat.eqb_spec len 0) as [H0|Hn0]; [reflexivity|].
  destruct (Nat.ltb_spec (255 * 32) len) as [Hgt|Hle]; [reflexivity|lia].
Qed.

Lemma hkdf_sha256_cases salt ikm info len :
  hkdf_sha256 P salt ikm info len = Ok (p_hkdf P salt ikm info len) /\ (1 <= len <= 255 * 32)%nat \/
  hkdf_sha256 P salt ikm info len = Panic PUnwrap /\ (len = 0 \/ 255 * 32 < len)%nat.
Proof.
  destruct (Nat.eq_dec len 0) as [H0|Hn0]; [right; split; [apply hkdf_sha256_panics|]; lia|].
  destruct (Nat.le_gt_cases len (255 * 32)) as [Hle|Hgt].
  - left. split; [apply hkdf_sha256_ok|]; lia.
  - right. split; [apply hkdf_sha256_panics|]; lia.
Qed.

(* a value it returns has the requested length *)
Lemma hkdf_sha256_length salt ikm info len out : hash_ok P ->
  hkdf_sha256 P salt ikm info len = Ok out -> length out = len /\ (1 <= len <= 255 * 32)%nat.
Proof.
  intros HP H. destruct (hkdf_sha256_cases salt ikm info len) as [(E & Hr)|(E & _)]; rewrite E in H.
  - injection H as <-. split; [apply (hkdf_len P HP); lia|exact Hr].
  - discriminate H.
Qed.

(* kestrel's own two calls (encrypt.rs / decrypt.rs) pass the literal lengths carried by gen/Extracted.v;
   there the wrapper is Ok of the primitive's value, which is why Model/Files.v calls [p_hkdf] directly *)
Lemma hkdf_sha256_own_calls salt ikm info :
  hkdf_sha256 P salt ikm info (N.to_nat x_enc_hkdf_len) = Ok (p_hkdf P salt ikm info (N.to_nat x_enc_hkdf_len)) /\
  hkdf_sha256 P salt ikm info (N.to_nat x_dec_hkdf_len) = Ok (p_hkdf P salt ikm info (N.to_nat x_dec_hkdf_len)).
Proof.
  split; apply hkdf_sha256_ok.
  - change (N.to_nat x_enc_hkdf_len) with 32%nat. lia.
  - change (N.to_nat x_dec_hkdf_len) with 32%nat. lia.
Qed.
End Wrap.

(* kestrel's own hkdf_noise is the first two blocks of RFC 5869 HKDF(salt = ck, ikm, info = "", 64) *)
Lemma hkdf_noise_is_hkdf scr ck ikm : ck <> [] ->
  let '(a, b) := hkdf_noise (rfc_prims scr) ck ikm in a ++ b = hkdf ck ikm [] 64.
Proof.
  intros Hne. unfold hkdf_noise. cbn [p_hmac rfc_prims]. rewrite hkdf_64_empty_info.
  destruct ck as [|c ck']; [congruence|]. reflexivity.
Qed.

Lemma hkdf_noise_lengths scr ck ikm :
  let '(a, b) := hkdf_noise (rfc_prims scr) ck ikm in length a = 32%nat /\ length b = 32%nat.
Proof. unfold hkdf_noise. cbn [p_hmac rfc_prims]. split; apply hmac_length. Qed.

(* on the RFC instance a returned value is RFC 5869 HKDF-SHA-256 of the requested length *)
Lemma hkdf_sha256_is_rfc scr salt ikm info len out :
  hkdf_sha256 (rfc_prims scr) salt ikm info len = Ok out ->
  out = hkdf salt ikm info len /\ length out = len /\ (1 <= len <= 255 * 32)%nat.
Proof.
  intros H. destruct (hkdf_sha256_cases (rfc_prims scr) salt ikm info len) as [(E & Hr)|(E & _)]; rewrite E in H.
  - injection H as <-. cbn [p_hkdf rfc_prims]. split; [reflexivity|]. split; [apply hkdf_length_le; lia|exact Hr].
  - discriminate H.
Qed.
