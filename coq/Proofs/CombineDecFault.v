(* Proofs/CombineDecFault.v — the fault classification of Proofs/ChunksRobust.v lifted to the FILE level:
   key_decrypt and pass_decrypt, header phase included, for EVERY io state. *)
From Kestrel Require Import Bytes BytesFacts Outcome IO IOFacts Prims.
From Kestrel.gen Require Import Extracted.
From Kestrel.Model Require Import AeadWrap Chunks Noise NoiseSpec Files EventPreds FilesSpec ChunksRobustDefs CombineDefs DecFaultDefs.
From Kestrel.Proofs Require Import MonadFacts ChunksDec ChunksRobust NoiseFacts FilesFacts CombineFiles.
From Coq Require Import ZifyBool ZifyNat ZifyN.
Local Open Scope N_scope.

Section DecFault.
Variable P : prims.

Lemma fault_shape_elim {A} (d : list event) (res : outcome derr A) : fault_shape d res -> dec_fault_statement d res.
Proof.
  intros [[Hb Hi]|(e0 & d' & -> & Hb & Hnb & Hr)].
  - split; [intros _; exact Hb|]. split.
    + intros e Hin Hn. rewrite Forall_forall in Hb. destruct (Hn (Hb e Hin)).
    + intros Hr. destruct (Hi Hr) as [d' ->]. exists d'. split; [reflexivity|]. now inversion Hb.
  - split; [|split].
    + intros (a & ->). destruct e0; cbn in Hr; try contradiction.
      1,2: destruct Hr as (ie & _ & Hr); discriminate.
      all: destruct Hr as (ie & Hr); discriminate.
    + intros e [<-|Hin] Hn; [|rewrite Forall_forall in Hb; destruct (Hn (Hb e Hin))].
      split; [exists d'; auto|].
      destruct e0; cbn in Hr |- *; try contradiction; (split; [intros Hx|intros [Hx|Hx]]); try contradiction; try exact Hr.
    + intros ->. destruct e0; cbn in Hr; try contradiction.
      1,2: destruct Hr as (ie & Hne & Hr); injection Hr as <-; contradiction.
      all: destruct Hr as (ie & Hr); discriminate.
Qed.

Lemma fs_emit ev : benign ev -> fstop (@emit derr ev).
Proof.
  intros Hb s r s' E0. unfold emit in E0. injection E0 as <- <-. eexists [_]. split; [reflexivity|].
  left. split; [repeat constructor; exact Hb|discriminate].
Qed.

Lemma fs_lift_nonerr {A} (o : outcome derr A) : (forall e, o <> Err e) -> fstop (lift o).
Proof. intros Hn. apply fs_nil. intros s. exists o. split; [reflexivity|apply Hn]. Qed.

Lemma decrypt_chunks_fstop key aad cs : fstop (decrypt_chunks P key aad cs).
Proof. intros s r s' E. exact (dec_fault_shape P key aad cs s r s' E). Qed.

Lemma key_decrypt_fstop r rpk : fstop (key_decrypt P r rpk).
Proof.
  unfold key_decrypt. apply fs_bind; [apply fs_read_exact|intros pro].
  destruct (valid_file_format pro) as [[|]|]; try (apply fs_fail; discriminate).
  apply fs_bind; [apply fs_read_exact|intros hm].
  destruct (noise_decrypt P r rpk pro hm) as [[[payload spk] hh]|ne|w|].
  - apply fs_bind; [apply decrypt_chunks_fstop|intros _; apply fs_ret].
  - apply fs_fail; discriminate.
  - apply fs_lift_nonerr; discriminate.
  - apply fs_lift_nonerr; discriminate.
Qed.

Lemma pass_decrypt_fstop pw : fstop (pass_decrypt P pw).
Proof.
  unfold pass_decrypt. apply fs_bind; [apply fs_read_exact|intros magic].
  destruct (valid_file_format magic) as [[|]|]; try (apply fs_fail; discriminate).
  apply fs_bind; [apply fs_read_exact|intros salt]. cbv zeta.
  apply fs_bind; [apply fs_emit; exact I|intros _]. apply decrypt_chunks_fstop.
Qed.

Theorem key_decrypt_fault_is_error r rpk s res s' d :
  key_decrypt P r rpk s = (res, s') -> log s' = d ++ log s -> dec_fault_statement d res.
Proof.
  intros E Hd. destruct (key_decrypt_fstop r rpk _ _ _ E) as (d0 & Hd0 & Hs).
  rewrite Hd in Hd0. apply app_inv_tail in Hd0. subst d0. now apply fault_shape_elim.
Qed.

Theorem pass_decrypt_fault_is_error pw s res s' d :
  pass_decrypt P pw s = (res, s') -> log s' = d ++ log s -> dec_fault_statement d res.
Proof.
  intros E Hd. destruct (pass_decrypt_fstop pw _ _ _ E) as (d0 & Hd0 & Hs).
  rewrite Hd in Hd0. apply app_inv_tail in Hd0. subst d0. now apply fault_shape_elim.
Qed.

End DecFault.

Lemma dec_fault_statement_unfold {A} (d : list event) (res : outcome derr A) :
  dec_fault_statement d res <->
  ((exists a, res = Ok a) -> Forall benign d) /\
  (forall e, In e d -> ~ benign e ->
     (exists d', d = e :: d' /\ Forall benign d') /\
     (is_read_ev e -> exists ie, ie <> Interrupted /\ res = Err (DIORead ie)) /\
     (is_write_ev e \/ is_flush_event e -> exists ie, res = Err (DIOWrite ie))) /\
  (res = Err (DIORead Interrupted) -> exists d', d = EvReadErr 1 Interrupted :: d' /\ Forall benign d').
Proof. reflexivity. Qed.

Section Closure.
Print Assumptions key_decrypt_fault_is_error.
Print Assumptions pass_decrypt_fault_is_error.
End Closure.
