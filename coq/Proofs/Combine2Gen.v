(* Proofs/Combine2Gen.v — C14: key generation histories with the REAL keyring functions of Model/Keyring.v
   (lock_private_key, encode_public_key, the validators pk_string_ok / sk_string_ok) plugged into Model/Cli.v:
   every key written by a history of `key generate -o F` commands is accepted by the validators, unlocks with the
   password it was generated with to the private key drawn, and its public key decodes to the matching X25519 key;
   hence (Proofs/CliFacts.gen_history_reads_back_ theorems) the file reads back as the old entries followed by the new ones. *)
From Kestrel Require Import Bytes BytesFacts Outcome IO Prims.
From Kestrel.Spec Require Import Base64.
From Kestrel.Model Require Import AeadWrap KeyringText Cli CliGlue Combine2Defs.
From Kestrel.Model Require Keyring.
From Kestrel.Proofs Require Import KeyringRefine KeyringFacts CliFacts.
From Coq Require Import ZifyBool ZifyNat ZifyN.
Local Open Scope N_scope.

Section Gen.
Variable P : prims.
Hypothesis HA : aead_ok P.
Hypothesis HH : hash_ok P.
Hypothesis HB : Keyring.prims_bytes_ok P.
Variable utf8_decode : bytes -> option text.
Variable utf8_encode : text -> bytes.

Notation gen_plan := (gen_plan P (k_lock P) (k_encode_pk P) utf8_decode).
Notation cmd_gen_key := (cmd_gen_key P (k_lock P) (k_encode_pk P) utf8_decode utf8_encode).
Notation gen_history := (gen_history P (k_lock P) (k_encode_pk P) utf8_decode utf8_encode).
Notation gen_key_text := (gen_key_text P (k_lock P) (k_encode_pk P) utf8_decode).

(* what a generated key is, and that it is usable: [usable_key sk pw e] *)
Definition usable_key (sk pw : bytes) (e : entry) : Prop :=
  exists esk,
    k_pub e = b64_encode (Keyring.pk_blob P (dh_pub P sk)) /\ k_priv e = Some esk /\
    Keyring.pk_string_ok (k_pub e) = true /\ val_ok (k_pub e) /\
    Keyring.sk_string_ok esk = true /\ val_ok esk /\
    Keyring.unlock_private_key P esk pw = Ok sk /\
    Keyring.decode_public_key P (k_pub e) = Ok (dh_pub P sk) /\
    valid_key_name (k_name e) = true /\ trim (k_name e) = k_name e.

Lemma k_lock_eq sk pw salt : k_lock P sk pw salt = b64_encode (Keyring.kr_blob P sk pw salt).
Proof. unfold k_lock. now rewrite (lock_private_key_eq P HH). Qed.
Lemma k_encode_pk_eq pk : length pk = 32%nat -> k_encode_pk P pk = b64_encode (Keyring.pk_blob P pk).
Proof. intros H. unfold k_encode_pk. now rewrite (encode_public_key_eq P HH pk H). Qed.

(* one successful plan: the key text is the entry text of a usable key for (sk, the confirmed password) *)
Lemma gen_plan_usable w o sk salt k : gen_plan w o sk salt = inr k -> bytes_ok sk -> bytes_ok salt ->
  exists e pw, k = entry_text e /\ confirm_password w (go_env_pass o) = inr pw /\
    length sk = 32%nat /\ length salt = 32%nat /\ usable_key sk pw e.
Proof.
  unfold Cli.gen_plan, ask_user_stdin. intros H Bk Bs.
  apply pbind_inr in H. destruct H as (name & Hn & H).
  apply pbind_inr in Hn. destruct Hn as (line & Hl & [= <-]).
  destruct (valid_key_name (trim line)) eqn:Ev; cbn [negb] in H; [|discriminate].
  apply pbind_inr in H. destruct H as (pw & Hpw & H).
  apply pbind_inr in H. destruct H as (pk & Hpk & H). apply of_outcome_inr in Hpk.
  apply pbind_inr in H. destruct H as (u & Hc & [= <-]).
  assert (Lk : length sk = 32%nat).
  { unfold x25519_derive_public in Hpk. destruct (Nat.eqb (length sk) 32) eqn:E; cbn [negb] in Hpk; [|discriminate].
    now apply Nat.eqb_eq in E. }
  assert (Epk : pk = dh_pub P sk).
  { unfold x25519_derive_public in Hpk. rewrite Lk in Hpk. cbn in Hpk. now injection Hpk as <-. }
  assert (Ls : length salt = 32%nat).
  { unfold check32 in Hc. destruct (Nat.eqb (length salt) 32) eqn:E; [|discriminate]. now apply Nat.eqb_eq in E. }
  subst pk.
  pose proof (dh_pub_length P HH sk) as Lp. pose proof (dh_pub_ok P HB sk) as Bp.
  rewrite (k_encode_pk_eq _ Lp), k_lock_eq.
  exists (mk_entry (trim line) (b64_encode (Keyring.pk_blob P (dh_pub P sk)))
            (Some (b64_encode (Keyring.kr_blob P sk pw salt)))), pw.
  split; [reflexivity|]. split; [exact Hpw|]. split; [exact Lk|]. split; [exact Ls|].
  exists (b64_encode (Keyring.kr_blob P sk pw salt)). cbn [k_name k_pub k_priv].
  pose proof (pk_blob_ok P HB _ Bp) as Bpb. pose proof (pk_blob_length P HH _ Lp) as Lpb.
  pose proof (kr_blob_ok P HB sk pw salt Bk Bs) as Bkb.
  assert (Lkb : length (Keyring.kr_blob P sk pw salt) = 84%nat) by (rewrite (kr_blob_length P HA); lia).
  destruct (locked_blob_usable P HA HH HB sk pw salt Lk Bk Ls Bs) as (S1 & S2 & _).
  destruct (decode_encode_pk P HH HB (dh_pub P sk) Lp Bp) as (e' & D1 & _ & _ & D2).
  rewrite (encode_public_key_eq P HH _ Lp) in D1. injection D1 as <-.
  split; [reflexivity|]. split; [reflexivity|].
  split; [now apply pk_string_ok_encode|].
  split; [apply b64_encode_val_ok; [exact Bpb|intros E; rewrite E in Lpb; discriminate]|].
  split; [exact S1|].
  split; [apply b64_encode_val_ok; [exact Bkb|intros E; rewrite E in Lkb; discriminate]|].
  split; [exact S2|]. split; [exact D2|]. split; [exact Ev|apply trim_idem].
Qed.

(* a usable key whose name has no newline is one the parser reads back (gen_entry_ok with the REAL validators) *)
Lemma usable_gen_entry_ok sk pw e : usable_key sk pw e -> ~ In c_nl (k_name e) ->
  gen_entry_ok Keyring.pk_string_ok Keyring.sk_string_ok e.
Proof.
  intros (esk & _ & Hpriv & Hpk & Hvp & Hsk & Hvs & _ & _ & Hv & Ht) Hnl.
  split; [split; [exact Hv|split; [exact Ht|exact Hnl]]|]. split; [exact Hpk|]. split; [exact Hvp|].
  exists esk. auto.
Qed.

(* a whole history: one usable key per command, in order *)
Theorem gen_history_keys_usable F : forall ins l l' ks,
  gen_history F l ins = Some (l', ks) ->
  Forall (fun i => bytes_ok (gi_sk i) /\ bytes_ok (gi_salt i)) ins ->
  exists es, ks = map entry_text es /\
    Forall2 (fun i e => exists pw, gen_password i = Some pw /\ length (gi_sk i) = 32%nat /\
                                   usable_key (gi_sk i) pw e) ins es.
Proof.
  induction ins as [|i rest IH]; intros l l' ks H Hb.
  - injection H as <- <-. exists []. split; [reflexivity|constructor].
  - apply gen_history_cons in H. destruct H as (k & ks' & Ek & -> & _ & Hr & _).
    inversion Hb as [|i' r' [Bk Bs] Hb']; subst.
    destruct (IH _ _ _ Hr Hb') as (es & -> & Hes).
    destruct (gen_plan_usable _ _ _ _ _ Ek Bk Bs) as (e & pw & -> & Hpw & Lk & _ & Hu).
    exists (e :: es). split; [reflexivity|]. constructor; [|exact Hes].
    exists pw. split; [|split; [exact Lk|exact Hu]].
    unfold gen_password. unfold confirm_password, read_env_pass in Hpw. cbn [gen_world go_env_pass env_password] in Hpw.
    destruct (gi_env_pass i); [|discriminate]. destruct (gi_env_password i) as [p|]; [|discriminate].
    now injection Hpw as <-.
Qed.

(* ---------- reading the file back with the real validators ---------- *)
Section Utf8.
Hypothesis enc_app : forall a b, utf8_encode (a ++ b) = utf8_encode a ++ utf8_encode b.
Hypothesis dec_enc : forall t, utf8_decode (utf8_encode t) = Some t.

Notation resolve_keyring := (resolve_keyring Keyring.pk_string_ok Keyring.sk_string_ok utf8_decode).

Lemma usable_all_entry_ok ins es :
  Forall2 (fun i e => exists pw, gen_password i = Some pw /\ length (gi_sk i) = 32%nat /\
                                 usable_key (gi_sk i) pw e) ins es ->
  Forall (fun e => ~ In c_nl (k_name e)) es ->
  Forall (gen_entry_ok Keyring.pk_string_ok Keyring.sk_string_ok) es.
Proof.
  induction 1 as [|i e ins es (pw & _ & _ & Hu) _ IH]; intros Hn; [constructor|].
  inversion Hn as [|e' es' Hne Hn']; subst. constructor; [now apply (usable_gen_entry_ok _ _ _ Hu)|now apply IH].
Qed.

(* F existed and parsed as ks0 (the empty text parses as []): after any successful history of key generations with
   newline-free names, all names / public keys distinct from each other and from the old ones, `-k F` reads
   ks0 followed by the new keys, each of which is usable with its own password *)
Theorem gen_history_all_keys_usable_existing F l ins l' ks t0 ks0 w :
  fs_get l F = Some (utf8_encode t0) ->
  parse_config Keyring.pk_string_ok Keyring.sk_string_ok t0 = Ok ks0 ->
  gen_history F l ins = Some (l', ks) ->
  Forall (fun i => bytes_ok (gi_sk i) /\ bytes_ok (gi_salt i)) ins ->
  fs w = l' ->
  exists es, ks = map entry_text es /\
    Forall2 (fun i e => exists pw, gen_password i = Some pw /\ length (gi_sk i) = 32%nat /\
                                   usable_key (gi_sk i) pw e) ins es /\
    fs_get l' F = Some (utf8_encode (t0 ++ flat_map (fun e => c_nl :: entry_text e) es)) /\
    (Forall (fun e => ~ In c_nl (k_name e)) es ->
     NoDup (map k_name (ks0 ++ es)) -> NoDup (map k_pub (ks0 ++ es)) ->
     resolve_keyring w (Some F) = inr (ks0 ++ es)).
Proof.
  intros Hg Hp H Hb Hw. destruct (gen_history_keys_usable F _ _ _ _ H Hb) as (es & -> & Hes).
  exists es. split; [reflexivity|]. split; [exact Hes|]. split.
  - exact (gen_history_keyring_existing P Keyring.pk_string_ok Keyring.sk_string_ok (k_unlock P) (k_lock P) (k_decode_pk P)
             (k_encode_pk P) Keyring.sk_string_ok utf8_decode utf8_encode enc_app dec_enc F l ins l' es t0 Hg H).
  - intros Hn N1 N2.
    apply (gen_history_reads_back_existing P Keyring.pk_string_ok Keyring.sk_string_ok (k_unlock P) (k_lock P) (k_decode_pk P)
             (k_encode_pk P) Keyring.sk_string_ok utf8_decode utf8_encode enc_app dec_enc F l ins l' es t0 ks0 w); try assumption.
    now apply (usable_all_entry_ok ins).
Qed.

(* F did not exist *)
Theorem gen_history_all_keys_usable_fresh F l ins l' ks w :
  fs_get l F = None -> ins <> [] ->
  gen_history F l ins = Some (l', ks) ->
  Forall (fun i => bytes_ok (gi_sk i) /\ bytes_ok (gi_salt i)) ins ->
  fs w = l' ->
  exists es, ks = map entry_text es /\
    Forall2 (fun i e => exists pw, gen_password i = Some pw /\ length (gi_sk i) = 32%nat /\
                                   usable_key (gi_sk i) pw e) ins es /\
    fs_get l' F = Some (utf8_encode (keyring_text es)) /\
    (Forall (fun e => ~ In c_nl (k_name e)) es ->
     NoDup (map k_name es) -> NoDup (map k_pub es) ->
     resolve_keyring w (Some F) = inr es).
Proof.
  intros Hg Hne H Hb Hw. destruct (gen_history_keys_usable F _ _ _ _ H Hb) as (es & -> & Hes).
  assert (Hes_ne : es <> []).
  { intros ->. inversion Hes. subst. contradiction. }
  exists es. split; [reflexivity|]. split; [exact Hes|]. split.
  - exact (gen_history_keyring_fresh P Keyring.pk_string_ok Keyring.sk_string_ok (k_unlock P) (k_lock P) (k_decode_pk P)
             (k_encode_pk P) Keyring.sk_string_ok utf8_decode utf8_encode enc_app dec_enc F l ins l' es Hg H Hes_ne).
  - intros Hn N1 N2.
    apply (gen_history_reads_back_fresh P Keyring.pk_string_ok Keyring.sk_string_ok (k_unlock P) (k_lock P) (k_decode_pk P)
             (k_encode_pk P) Keyring.sk_string_ok utf8_decode utf8_encode enc_app dec_enc F l ins l' es w); try assumption.
    now apply (usable_all_entry_ok ins).
Qed.

End Utf8.
End Gen.

Print Assumptions gen_plan_usable.
Print Assumptions gen_history_keys_usable.
Print Assumptions gen_history_all_keys_usable_existing.
Print Assumptions gen_history_all_keys_usable_fresh.
