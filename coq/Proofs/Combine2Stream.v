(* Proofs/Combine2Stream.v — C11 at FILE level: the four library entry points (key_encrypt, pass_encrypt, key_decrypt,
   pass_decrypt; chunk size x_lib_chunk_size = 65536) are a short header phase followed by the streaming loop, so the
   look-ahead / release monitors and the buffer bounds of Proofs/MonitorFacts.v carry over to whole runs:
     trace s' = trace s ++ hd ++ d,   hd = header events (decrypt: reads + the scrypt call; encrypt: the scrypt call,
     writes, one flush),   d = the events of the chunk loop, accepted by the monitor and bounded by 65536 (+16). *)
From Kestrel Require Import Bytes BytesFacts Outcome IO IOFacts Prims.
From Kestrel.gen Require Import Extracted.
From Kestrel.Model Require Import AeadWrap Chunks Noise Files Monitors Combine2Defs.
From Kestrel.Proofs Require Import MonadFacts ChunksDec TraceShape MonitorFacts FilesFacts.
From Coq Require Import ZifyBool ZifyNat ZifyN.
Local Open Scope N_scope.

(* ---------- list surgery ---------- *)
Lemma split_at_notin {A} (hd d a : list A) e r :
  hd ++ d = a ++ e :: r -> ~ In e hd -> exists a', a = hd ++ a' /\ d = a' ++ e :: r.
Proof.
  revert a. induction hd as [|h hd IH]; intros a H Hn.
  - exists a. split; [reflexivity|exact H].
  - destruct a as [|x a].
    + cbn in H. injection H as -> _. exfalso. apply Hn. now left.
    + cbn in H. injection H as -> H. destruct (IH a H) as (a' & -> & Hd).
      * intros Hin. apply Hn. now right.
      * exists a'. split; [reflexivity|exact Hd].
Qed.

Lemma forallb_app_true {A} (f : A -> bool) a b : forallb f a = true -> forallb f b = true -> forallb f (a ++ b) = true.
Proof. intros Ha Hb. rewrite forallb_app, Ha, Hb. reflexivity. Qed.

(* ---------- header steps ---------- *)
Lemma rd_prog_hdr n e : rd_prog n e -> hdr_dec_evb e = true /\ hdr_read_le n e = true.
Proof.
  destruct e as [req got|req err| | | | | |]; cbn [rd_prog hdr_dec_evb hdr_read_le]; try contradiction.
  - destruct got as [|g got]; [contradiction|]. intros [H1 H2]. split; [reflexivity|]. apply andb_true_iff.
    split; now apply Nat.leb_le.
  - destruct err; try contradiction. intros H. split; [reflexivity|now apply Nat.leb_le].
Qed.
Lemma rd_term_hdr n e : rd_term n e -> hdr_dec_evb e = true /\ hdr_read_le n e = true.
Proof.
  destruct e as [req got|req err| | | | | |]; cbn [rd_term hdr_dec_evb hdr_read_le]; try contradiction.
  - destruct got as [|g got]; [|contradiction]. intros H. split; [reflexivity|]. apply andb_true_iff.
    split; apply Nat.leb_le; cbn [length]; lia.
  - intros [_ H]. split; [reflexivity|now apply Nat.leb_le].
Qed.
Lemma rx_ok_hdr n d : rx_ok n d -> forallb hdr_dec_evb d = true /\ forallb (hdr_read_le n) d = true.
Proof.
  induction 1 as [|e d He _ IH]; [split; reflexivity|]. destruct IH as [I1 I2].
  destruct (rd_prog_hdr n e He) as [H1 H2]. cbn [forallb]. now rewrite H1, H2, I1, I2.
Qed.
Lemma rx_err_hdr n d : rx_err n d -> forallb hdr_dec_evb d = true /\ forallb (hdr_read_le n) d = true.
Proof.
  intros (d' & e & -> & H1 & H2). destruct (rx_ok_hdr n d' H1) as [A1 A2]. destruct (rd_term_hdr n e H2) as [B1 B2].
  split; apply forallb_app_true; try assumption; cbn [forallb]; now rewrite ?B1, ?B2.
Qed.
Lemma hdr_read_le_mono n m e : (n <= m)%nat -> hdr_read_le n e = true -> hdr_read_le m e = true.
Proof.
  intros H. destruct e; cbn [hdr_read_le]; try reflexivity.
  - intros Hb. apply andb_true_iff in Hb. destruct Hb as [H1 H2]. apply Nat.leb_le in H1.
    apply andb_true_iff. split; [apply Nat.leb_le; lia|exact H2].
  - intros Hb. apply Nat.leb_le in Hb. apply Nat.leb_le. lia.
Qed.
Lemma forallb_hdr_mono n m d : (n <= m)%nat -> forallb (hdr_read_le n) d = true -> forallb (hdr_read_le m) d = true.
Proof.
  intros H Hd. apply forallb_forall. intros e He. rewrite forallb_forall in Hd. apply (hdr_read_le_mono n m e H), Hd, He.
Qed.

Lemma m_read_exact_hdr {E} (rerr : ioerr -> E) n s res s1 : m_read_exact rerr n s = (res, s1) ->
  exists d, trace s1 = trace s ++ d /\ forallb hdr_dec_evb d = true /\ forallb (hdr_read_le n) d = true.
Proof.
  intros E0. destruct (m_read_exact_tr rerr n s res s1 E0) as (_ & d & Ht & Hres).
  exists d. split; [exact Ht|]. destruct res as [b|e|w|]; try contradiction.
  - destruct Hres as [_ H]. now apply rx_ok_hdr.
  - destruct Hres as [_ H]. now apply rx_err_hdr.
Qed.

Lemma wa_tr_hdr buf d r acc : wa_tr buf d r acc -> forallb hdr_enc_evb d = true.
Proof. intros H. apply wa_tr_nonempty_events in H. apply forallb_forall. intros e He.
  rewrite Forall_forall in H. specialize (H e He). destruct e; cbn in *; try reflexivity; contradiction. Qed.

Lemma m_write_all_hdr {E} (werr : ioerr -> E) buf s res s1 : m_write_all werr buf s = (res, s1) ->
  exists d, trace s1 = trace s ++ d /\ forallb hdr_enc_evb d = true.
Proof.
  intros E0. destruct (m_write_all_tr werr buf s res s1 E0) as (_ & d & r & acc & Htr & Ht & _).
  exists d. split; [exact Ht|]. now apply (wa_tr_hdr buf d r acc).
Qed.

Lemma m_flush_hdr {E} (werr : ioerr -> E) s res s1 : m_flush werr s = (res, s1) ->
  exists d, trace s1 = trace s ++ d /\ forallb hdr_enc_evb d = true.
Proof.
  intros E0. destruct (m_flush_cases werr s res s1 E0) as (_ & _ & H). destruct res as [u|e|w|]; try contradiction.
  - eexists [_]. split; [apply trace_cons; exact H|reflexivity].
  - destruct H as (ie & _ & H). eexists [_]. split; [apply trace_cons; exact H|reflexivity].
Qed.

(* ---------- the chunk loops on any state ---------- *)
Section Loops.
Variable P : prims.
Hypothesis HA : aead_ok P.

Lemma decrypt_chunks_stream key aad cs s res s' : length key = 32%nat ->
  decrypt_chunks P key aad cs s = (res, s') ->
  exists d, trace s' = trace s ++ d /\ (exists m, lmon_run d = Some m) /\ forallb (dec_ev_ok (N.to_nat cs)) d = true.
Proof.
  intros Hk E. unfold decrypt_chunks in E.
  destruct (dec_loop_tr P key aad cs Hk _ _ _ _ _ E) as ((d & out & Htr & Ht & _) & _).
  exists d. split; [exact Ht|]. split; [exact (dec_tr_lmon P key aad cs _ _ _ _ Htr)|].
  apply evs_ok_forallb. exact (dec_tr_bounded P key aad cs HA _ _ _ _ Htr).
Qed.

Lemma encrypt_chunks_stream key aad cs s res s' :
  encrypt_chunks P key aad cs s = (res, s') ->
  exists d, trace s' = trace s ++ d /\ (exists m, emon_run d = Some m /\ (length (e_pend m) <= 2)%nat) /\
            forallb (enc_ev_ok (N.to_nat cs)) d = true.
Proof.
  intros E. destruct (enc_chunks_tr P key aad cs _ _ _ E) as (d & out & Htr & Ht & _).
  exists d. split; [exact Ht|]. split.
  - destruct (enc_top_emon P key aad cs HA _ _ _ Htr) as [m Hm]. exists m. split; [exact Hm|].
    apply (emon_fold_bound _ _ _ Hm). cbn. lia.
  - apply evs_ok_forallb. exact (enc_top_bounded P key aad cs HA _ _ _ Htr).
Qed.
End Loops.

(* dec_stream_shape / enc_stream_shape (Model/Combine2Defs.v): what a whole run looks like *)
Lemma dec_shape_hdr_only s s' hd : trace s' = trace s ++ hd -> forallb hdr_dec_evb hd = true ->
  forallb (hdr_read_le 128) hd = true -> dec_stream_shape s s'.
Proof. intros Ht H1 H2. exists hd, []. rewrite app_nil_r. repeat split; try assumption. exists lmon_init. reflexivity. Qed.
Lemma enc_shape_hdr_only s s' hd : trace s' = trace s ++ hd -> forallb hdr_enc_evb hd = true -> enc_stream_shape s s'.
Proof.
  intros Ht H1. exists hd, []. rewrite app_nil_r. repeat split; try assumption. exists emon_init. split; [reflexivity|cbn; lia].
Qed.

Section Files.
Variable P : prims.
Hypothesis HA : aead_ok P.
Hypothesis HH : hash_ok P.

Theorem pass_decrypt_stream pw s res s' : pass_decrypt P pw s = (res, s') -> dec_stream_shape s s'.
Proof.
  unfold pass_decrypt. intros E. unfold bind at 1 in E.
  destruct (m_read_exact d_read_err (N.to_nat x_dec_magic_len) s) as [r1 s1] eqn:E1.
  destruct (m_read_exact_hdr _ _ _ _ _ E1) as (d1 & T1 & A1 & B1).
  apply (forallb_hdr_mono _ 128) in B1; [|cbn; lia].
  destruct r1 as [magic|e|w|]; try (injection E as <- <-; now apply (dec_shape_hdr_only s s1 d1)).
  destruct (valid_file_format magic) as [[|]|]; try (injection E as <- <-; now apply (dec_shape_hdr_only s s1 d1)).
  unfold bind at 1 in E.
  destruct (m_read_exact d_read_err (N.to_nat x_dec_salt_len) s1) as [r2 s2] eqn:E2.
  destruct (m_read_exact_hdr _ _ _ _ _ E2) as (d2 & T2 & A2 & B2).
  apply (forallb_hdr_mono _ 128) in B2; [|cbn; lia].
  assert (T12 : trace s2 = trace s ++ d1 ++ d2) by (rewrite T2, T1; now rewrite app_assoc).
  destruct r2 as [salt|e|w|];
    try (injection E as <- <-; apply (dec_shape_hdr_only s s2 (d1 ++ d2) T12); now apply forallb_app_true).
  cbv zeta in E.
  set (ev := EvKdf pw salt x_lib_scrypt_n x_lib_scrypt_r x_lib_scrypt_p) in *.
  set (key := p_scrypt P pw salt x_lib_scrypt_n x_lib_scrypt_r x_lib_scrypt_p (N.to_nat x_dec_scrypt_len)) in *.
  assert (Hkey : length key = 32%nat) by (unfold key; rewrite (scrypt_len P HH); reflexivity).
  assert (Ee : @emit derr ev s2 = (Ok tt, with_log s2 ev)) by reflexivity.
  rewrite (bind_ok _ _ _ _ _ Ee) in E.
  destruct (decrypt_chunks_stream P HA key magic cs_const _ _ _ Hkey E) as (d3 & T3 & M3 & B3).
  exists ((d1 ++ d2) ++ [ev]), d3. split.
  - rewrite T3, trace_with_log, T12. now rewrite <- !app_assoc.
  - split; [apply forallb_app_true; [now apply forallb_app_true|reflexivity]|].
    split; [apply forallb_app_true; [now apply forallb_app_true|reflexivity]|]. split; assumption.
Qed.

Theorem key_decrypt_stream r rpk s res s' : key_decrypt P r rpk s = (res, s') -> dec_stream_shape s s'.
Proof.
  unfold key_decrypt. intros E. unfold bind at 1 in E.
  destruct (m_read_exact d_read_err (N.to_nat x_dec_prologue_len) s) as [r1 s1] eqn:E1.
  destruct (m_read_exact_hdr _ _ _ _ _ E1) as (d1 & T1 & A1 & B1).
  apply (forallb_hdr_mono _ 128) in B1; [|cbn; lia].
  destruct r1 as [prologue|e|w|]; try (injection E as <- <-; now apply (dec_shape_hdr_only s s1 d1)).
  destruct (valid_file_format prologue) as [[|]|]; try (injection E as <- <-; now apply (dec_shape_hdr_only s s1 d1)).
  unfold bind at 1 in E.
  destruct (m_read_exact d_read_err (N.to_nat x_dec_handshake_len) s1) as [r2 s2] eqn:E2.
  destruct (m_read_exact_hdr _ _ _ _ _ E2) as (d2 & T2 & A2 & B2).
  apply (forallb_hdr_mono _ 128) in B2; [|cbn; lia].
  assert (T12 : trace s2 = trace s ++ d1 ++ d2) by (rewrite T2, T1; now rewrite app_assoc).
  assert (A12 : forallb hdr_dec_evb (d1 ++ d2) = true) by now apply forallb_app_true.
  assert (B12 : forallb (hdr_read_le 128) (d1 ++ d2) = true) by now apply forallb_app_true.
  destruct r2 as [hm|e|w|]; try (injection E as <- <-; now apply (dec_shape_hdr_only s s2 (d1 ++ d2) T12)).
  destruct (noise_decrypt P r rpk prologue hm) as [[[payload spk] hh]|ne|w|];
    try (injection E as <- <-; now apply (dec_shape_hdr_only s s2 (d1 ++ d2) T12)).
  set (key := p_hkdf P [] payload hh (N.to_nat x_dec_hkdf_len)) in *.
  assert (Hkey : length key = 32%nat) by (unfold key; rewrite (hkdf_len P HH); [reflexivity|cbn; lia]).
  unfold bind at 1 in E.
  destruct (decrypt_chunks P key [] cs_const s2) as [r3 s3] eqn:E3.
  assert (Hs3 : s' = s3) by (destruct r3 as [u|e|w|]; injection E as <- <-; reflexivity). subst s'.
  destruct (decrypt_chunks_stream P HA key [] cs_const _ _ _ Hkey E3) as (d3 & T3 & M3 & B3).
  exists (d1 ++ d2), d3. split; [rewrite T3, T12; now rewrite <- !app_assoc|]. repeat split; assumption.
Qed.

Theorem pass_encrypt_stream pw salt s res s' : pass_encrypt P pw salt s = (res, s') -> enc_stream_shape s s'.
Proof.
  unfold pass_encrypt. cbv zeta. intros E.
  set (ev := EvKdf pw salt x_lib_scrypt_n x_lib_scrypt_r x_lib_scrypt_p) in *.
  assert (Ee : @emit eerr ev s = (Ok tt, with_log s ev)) by reflexivity.
  rewrite (bind_ok _ _ _ _ _ Ee) in E.
  assert (T0 : trace (with_log s ev) = trace s ++ [ev]) by apply trace_with_log.
  unfold bind at 1 in E.
  destruct (m_write_all EIOWrite x_pass_file_magic (with_log s ev)) as [r1 s1] eqn:E1.
  destruct (m_write_all_hdr _ _ _ _ _ E1) as (d1 & T1 & A1).
  assert (T01 : trace s1 = trace s ++ [ev] ++ d1) by (rewrite T1, T0; now rewrite <- app_assoc).
  assert (A01 : forallb hdr_enc_evb ([ev] ++ d1) = true) by (apply forallb_app_true; [reflexivity|exact A1]).
  destruct r1 as [u1|e|w|]; try (injection E as <- <-; now apply (enc_shape_hdr_only s s1 _ T01)).
  unfold bind at 1 in E.
  destruct (m_write_all EIOWrite salt s1) as [r2 s2] eqn:E2.
  destruct (m_write_all_hdr _ _ _ _ _ E2) as (d2 & T2 & A2).
  assert (T02 : trace s2 = trace s ++ ([ev] ++ d1) ++ d2) by (rewrite T2, T01; now rewrite <- !app_assoc).
  assert (A02 : forallb hdr_enc_evb (([ev] ++ d1) ++ d2) = true) by now apply forallb_app_true.
  destruct r2 as [u2|e|w|]; try (injection E as <- <-; now apply (enc_shape_hdr_only s s2 _ T02)).
  unfold bind at 1 in E.
  destruct (m_flush EIOWrite s2) as [r3 s3] eqn:E3.
  destruct (m_flush_hdr _ _ _ _ E3) as (d3 & T3 & A3).
  assert (T03 : trace s3 = trace s ++ (([ev] ++ d1) ++ d2) ++ d3) by (rewrite T3, T02; now rewrite <- !app_assoc).
  assert (A03 : forallb hdr_enc_evb ((([ev] ++ d1) ++ d2) ++ d3) = true) by now apply forallb_app_true.
  destruct r3 as [u3|e|w|]; try (injection E as <- <-; now apply (enc_shape_hdr_only s s3 _ T03)).
  destruct (encrypt_chunks_stream P HA _ _ _ _ _ _ E) as (d4 & T4 & M4 & B4).
  exists ((([ev] ++ d1) ++ d2) ++ d3), d4. split; [rewrite T4, T03; now rewrite <- !app_assoc|].
  repeat split; assumption.
Qed.

Theorem key_encrypt_stream fresh_pk fresh_e sk spk r e epk pk s res s' :
  key_encrypt P fresh_pk fresh_e sk spk r e epk pk s = (res, s') -> enc_stream_shape s s'.
Proof.
  unfold key_encrypt. cbv zeta. intros E.
  assert (Hnil : forall s0, trace s0 = trace s0 ++ []) by (intros s0; now rewrite app_nil_r).
  destruct (negb _); [injection E as <- <-; now apply (enc_shape_hdr_only s s [])|].
  destruct (noise_encrypt P fresh_e sk spk r e epk x_prologue _) as [[msg hh]|ne|w|];
    try (injection E as <- <-; now apply (enc_shape_hdr_only s s [])).
  unfold bind at 1 in E.
  destruct (m_write_all EIOWrite x_prologue s) as [r1 s1] eqn:E1.
  destruct (m_write_all_hdr _ _ _ _ _ E1) as (d1 & T1 & A1).
  destruct r1 as [u1|e1|w|]; try (injection E as <- <-; now apply (enc_shape_hdr_only s s1 _ T1)).
  unfold bind at 1 in E.
  destruct (m_write_all EIOWrite msg s1) as [r2 s2] eqn:E2.
  destruct (m_write_all_hdr _ _ _ _ _ E2) as (d2 & T2 & A2).
  assert (T02 : trace s2 = trace s ++ d1 ++ d2) by (rewrite T2, T1; now rewrite <- !app_assoc).
  assert (A02 : forallb hdr_enc_evb (d1 ++ d2) = true) by now apply forallb_app_true.
  destruct r2 as [u2|e2|w|]; try (injection E as <- <-; now apply (enc_shape_hdr_only s s2 _ T02)).
  unfold bind at 1 in E.
  destruct (m_flush EIOWrite s2) as [r3 s3] eqn:E3.
  destruct (m_flush_hdr _ _ _ _ E3) as (d3 & T3 & A3).
  assert (T03 : trace s3 = trace s ++ (d1 ++ d2) ++ d3) by (rewrite T3, T02; now rewrite <- !app_assoc).
  assert (A03 : forallb hdr_enc_evb ((d1 ++ d2) ++ d3) = true) by now apply forallb_app_true.
  destruct r3 as [u3|e3|w|]; try (injection E as <- <-; now apply (enc_shape_hdr_only s s3 _ T03)).
  destruct (encrypt_chunks_stream P HA _ _ _ _ _ _ E) as (d4 & T4 & M4 & B4).
  exists ((d1 ++ d2) ++ d3), d4. split; [rewrite T4, T03; now rewrite <- !app_assoc|].
  repeat split; assumption.
Qed.
End Files.

(* ---------- what the shapes mean on the trace of a whole run ---------- *)
(* decrypt (both modes): between the authentication of a chunk and the flush that releases it nothing is read except,
   after the final chunk, the 1-byte end-of-input probe *)
Theorem dec_shape_no_read_before_release s s' a k n ad ct pt b c :
  log s = [] -> dec_stream_shape s s' ->
  trace s' = a ++ [EvOpen k n ad ct (Some pt)] ++ b ++ c ->
  count_ev is_flush_okb b = 0%nat ->
  (count_ev is_read_evb b <= (if ad_final ad then 1 else 0))%nat /\
  (forall e, In e b -> is_read_evb e = true -> is_probe_evb e = true).
Proof.
  intros Hl (hd & d & Ht & Hh & _ & (m & Hm) & _) Hsplit Hc.
  unfold trace at 2 in Ht. rewrite Hl in Ht. cbn [rev app] in Ht. rewrite Ht in Hsplit. cbn [app] in Hsplit.
  destruct (split_at_notin hd d a _ _ Hsplit) as (a' & -> & Hd).
  { intros Hin. rewrite forallb_forall in Hh. specialize (Hh _ Hin). discriminate. }
  rewrite Hd in Hm. exact (lmon_lookahead a' k n ad ct pt b c m Hm Hc).
Qed.

(* encrypt (both modes): after any read call, at most ONE further read call is made before the next successful flush
   (the flush that completes a record); and never more than 2 reads are pending *)
Theorem enc_shape_lookahead_one s s' a r b c :
  log s = [] -> enc_stream_shape s s' ->
  trace s' = (a ++ [r]) ++ b ++ c -> is_read_evb r = true ->
  count_ev is_flush_okb b = 0%nat -> (count_ev is_read_evb b <= 1)%nat.
Proof.
  intros Hl (hd & d & Ht & Hh & (m & Hm & _) & _) Hsplit Hr Hc.
  unfold trace at 2 in Ht. rewrite Hl in Ht. cbn [rev app] in Ht. rewrite Ht in Hsplit.
  rewrite <- app_assoc in Hsplit. cbn [app] in Hsplit.
  destruct (split_at_notin hd d a _ _ Hsplit) as (a' & -> & Hd).
  { intros Hin. rewrite forallb_forall in Hh. specialize (Hh _ Hin). destruct r; cbn in *; discriminate. }
  assert (Hd' : d = (a' ++ [r]) ++ b ++ c) by (rewrite Hd; now rewrite <- app_assoc).
  rewrite Hd' in Hm. destruct (emon_lookahead _ _ _ _ Hm) as (m1 & H1 & H2 & H3).
  apply H3. pose proof (emon_after_read _ _ _ H1 Hr). lia.
Qed.

(* every buffer of a whole decrypt run: header reads ask for at most 128 bytes, everything else is bounded by the chunk
   size cs_const = x_lib_chunk_size = 65536 (+ 16 for ciphertext) *)
Theorem dec_shape_bounded s s' e :
  log s = [] -> dec_stream_shape s s' -> In e (trace s') ->
  match e with
  | EvRead req got => (req <= N.to_nat cs_const + 16 /\ length got <= req)%nat
  | EvReadErr req _ => (req <= N.to_nat cs_const + 16)%nat
  | EvWrite off _ | EvWriteErr off _ => (length off <= N.to_nat cs_const)%nat
  | EvOpen _ _ _ ct r => (length ct <= N.to_nat cs_const + 16)%nat /\ forall pt, r = Some pt -> (length pt <= N.to_nat cs_const)%nat
  | EvFlush _ | EvKdf _ _ _ _ _ => True
  | EvSeal _ _ _ _ => False
  end.
Proof.
  intros Hl (hd & d & Ht & Hh & Hb & _ & Hd) Hin. change cs_const with 65536 in *.
  unfold trace at 2 in Ht. rewrite Hl in Ht. cbn [rev app] in Ht. rewrite Ht in Hin.
  apply in_app_or in Hin. destruct Hin as [Hin|Hin].
  - rewrite forallb_forall in Hh, Hb. specialize (Hh _ Hin). specialize (Hb _ Hin).
    destruct e; cbn [hdr_dec_evb hdr_read_le] in *; try discriminate; try exact I.
    + apply andb_true_iff in Hb. destruct Hb as [H1 H2]. apply Nat.leb_le in H1, H2. lia.
    + apply Nat.leb_le in Hb. lia.
  - rewrite forallb_forall in Hd. specialize (Hd _ Hin).
    destruct e as [req got|req err|off took|off err|fr|k n ad ct r|k n ad pt|pw salt n r p];
      cbn [dec_ev_ok] in Hd; try discriminate; try exact I.
    + apply andb_true_iff in Hd. destruct Hd as [H1 H2]. apply Nat.leb_le in H1, H2. lia.
    + apply Nat.leb_le in Hd. lia.
    + now apply Nat.leb_le in Hd.
    + now apply Nat.leb_le in Hd.
    + apply andb_true_iff in Hd. destruct Hd as [H1 H2]. apply Nat.leb_le in H1. split; [lia|].
      intros pt ->. now apply Nat.leb_le in H2.
Qed.

(* ---------- the statements of Props/C11.v (nat scope) ---------- *)
Local Close Scope N_scope.

Theorem all_encrypt_every_moment :
  forall (P : prims) (key aad : bytes) (cs : N), aead_ok P ->
  forall (s : io) (res : outcome eerr unit) (s' : io) (a b c : list event),
  log s = [] -> encrypt_chunks P key aad cs s = (res, s') -> trace s' = a ++ b ++ c ->
  exists m1 : emon, emon_run a = Some m1 /\ length (e_pend m1) <= 2 /\
    (count_ev is_flush_okb b < length (e_pend m1) -> count_ev is_read_evb b <= 1).
Proof.
  intros P key aad cs Ha s res s' a b c Hl E Ht.
  destruct (enc_monitor_accepts P key aad cs Ha s res s' Hl E) as (m & Hm & _).
  rewrite Ht in Hm. exact (emon_lookahead a b c m Hm).
Qed.

Theorem all_events_bounded :
  forall (P : prims) (key aad : bytes) (cs : N), aead_ok P ->
  (forall (s : io) (res : outcome eerr unit) (s' : io),
     log s = [] -> encrypt_chunks P key aad cs s = (res, s') ->
     forallb (enc_ev_ok (N.to_nat cs)) (trace s') = true) /\
  (length key = 32 ->
   forall (s : io) (res : outcome derr unit) (s' : io),
     log s = [] -> decrypt_chunks P key aad cs s = (res, s') ->
     forallb (dec_ev_ok (N.to_nat cs)) (trace s') = true).
Proof.
  intros P key aad cs Ha. split.
  - exact (enc_events_bounded P key aad cs Ha).
  - intros Hk. exact (dec_events_bounded P key aad cs Ha Hk).
Qed.

Theorem all_file_decrypt_streams :
  forall (P : prims), aead_ok P -> hash_ok P ->
  (forall (pw : bytes) (s : io) (res : outcome derr unit) (s' : io),
     pass_decrypt P pw s = (res, s') ->
     exists hd d, trace s' = trace s ++ hd ++ d /\
       forallb hdr_dec_evb hd = true /\ forallb (hdr_read_le 128) hd = true /\
       (exists m, lmon_run d = Some m) /\ forallb (dec_ev_ok (N.to_nat cs_const)) d = true) /\
  (forall (r rpk : bytes) (s : io) (res : outcome derr bytes) (s' : io),
     key_decrypt P r rpk s = (res, s') ->
     exists hd d, trace s' = trace s ++ hd ++ d /\
       forallb hdr_dec_evb hd = true /\ forallb (hdr_read_le 128) hd = true /\
       (exists m, lmon_run d = Some m) /\ forallb (dec_ev_ok (N.to_nat cs_const)) d = true).
Proof. intros P HA HH; split; intros; [eapply pass_decrypt_stream|eapply key_decrypt_stream]; eauto. Qed.

Theorem all_file_encrypt_streams :
  forall (P : prims), aead_ok P -> hash_ok P ->
  (forall (pw salt : bytes) (s : io) (res : outcome eerr unit) (s' : io),
     pass_encrypt P pw salt s = (res, s') ->
     exists hd d, trace s' = trace s ++ hd ++ d /\ forallb hdr_enc_evb hd = true /\
       (exists m, emon_run d = Some m /\ length (e_pend m) <= 2) /\
       forallb (enc_ev_ok (N.to_nat cs_const)) d = true) /\
  (forall (fresh_pk fresh_e sk spk r : bytes) (e epk pk : option bytes) (s : io) (res : outcome eerr unit) (s' : io),
     key_encrypt P fresh_pk fresh_e sk spk r e epk pk s = (res, s') ->
     exists hd d, trace s' = trace s ++ hd ++ d /\ forallb hdr_enc_evb hd = true /\
       (exists m, emon_run d = Some m /\ length (e_pend m) <= 2) /\
       forallb (enc_ev_ok (N.to_nat cs_const)) d = true).
Proof. intros P HA HH; split; intros; [eapply pass_encrypt_stream|eapply key_encrypt_stream]; eauto. Qed.

Theorem all_file_decrypt_no_read_before_release :
  forall (P : prims), aead_ok P -> hash_ok P ->
  forall (a : list event) (k : bytes) (n : N) (ad ct pt : bytes) (b c : list event),
  count_ev is_flush_okb b = 0 ->
  (forall (pw : bytes) (s : io) (res : outcome derr unit) (s' : io),
     log s = [] -> pass_decrypt P pw s = (res, s') -> trace s' = a ++ [EvOpen k n ad ct (Some pt)] ++ b ++ c ->
     count_ev is_read_evb b <= (if ad_final ad then 1 else 0) /\
     (forall e, In e b -> is_read_evb e = true -> is_probe_evb e = true)) /\
  (forall (r rpk : bytes) (s : io) (res : outcome derr bytes) (s' : io),
     log s = [] -> key_decrypt P r rpk s = (res, s') -> trace s' = a ++ [EvOpen k n ad ct (Some pt)] ++ b ++ c ->
     count_ev is_read_evb b <= (if ad_final ad then 1 else 0) /\
     (forall e, In e b -> is_read_evb e = true -> is_probe_evb e = true)).
Proof.
  intros P HA HH a k n ad ct pt b c Hc; split; intros;
    (eapply dec_shape_no_read_before_release; [eassumption| |eassumption|exact Hc]);
    [eapply pass_decrypt_stream|eapply key_decrypt_stream]; eauto.
Qed.

Theorem all_file_encrypt_lookahead_one :
  forall (P : prims), aead_ok P -> hash_ok P ->
  forall (a : list event) (r : event) (b c : list event),
  is_read_evb r = true -> count_ev is_flush_okb b = 0 ->
  (forall (pw salt : bytes) (s : io) (res : outcome eerr unit) (s' : io),
     log s = [] -> pass_encrypt P pw salt s = (res, s') -> trace s' = (a ++ [r]) ++ b ++ c ->
     count_ev is_read_evb b <= 1) /\
  (forall (fresh_pk fresh_e sk spk rk : bytes) (e epk pk : option bytes) (s : io) (res : outcome eerr unit) (s' : io),
     log s = [] -> key_encrypt P fresh_pk fresh_e sk spk rk e epk pk s = (res, s') ->
     trace s' = (a ++ [r]) ++ b ++ c -> count_ev is_read_evb b <= 1).
Proof.
  intros P HA HH a r b c Hr Hc; split; intros;
    (eapply enc_shape_lookahead_one; [eassumption| |eassumption|exact Hr|exact Hc]);
    [eapply pass_encrypt_stream|eapply key_encrypt_stream]; eauto.
Qed.

Theorem all_file_decrypt_bounded :
  forall (P : prims), aead_ok P -> hash_ok P ->
  forall (ev : event),
  (forall (pw : bytes) (s : io) (res : outcome derr unit) (s' : io),
     log s = [] -> pass_decrypt P pw s = (res, s') -> In ev (trace s') ->
     match ev with
     | EvRead req got => req <= N.to_nat cs_const + 16 /\ length got <= req
     | EvReadErr req _ => req <= N.to_nat cs_const + 16
     | EvWrite off _ | EvWriteErr off _ => length off <= N.to_nat cs_const
     | EvOpen _ _ _ ct r => length ct <= N.to_nat cs_const + 16 /\ forall pt, r = Some pt -> length pt <= N.to_nat cs_const
     | EvFlush _ | EvKdf _ _ _ _ _ => True
     | EvSeal _ _ _ _ => False
     end) /\
  (forall (r rpk : bytes) (s : io) (res : outcome derr bytes) (s' : io),
     log s = [] -> key_decrypt P r rpk s = (res, s') -> In ev (trace s') ->
     match ev with
     | EvRead req got => req <= N.to_nat cs_const + 16 /\ length got <= req
     | EvReadErr req _ => req <= N.to_nat cs_const + 16
     | EvWrite off _ | EvWriteErr off _ => length off <= N.to_nat cs_const
     | EvOpen _ _ _ ct r => length ct <= N.to_nat cs_const + 16 /\ forall pt, r = Some pt -> length pt <= N.to_nat cs_const
     | EvFlush _ | EvKdf _ _ _ _ _ => True
     | EvSeal _ _ _ _ => False
     end).
Proof.
  intros P HA HH ev; split; intros;
    (eapply dec_shape_bounded; [eassumption| |eassumption]);
    [eapply pass_decrypt_stream|eapply key_decrypt_stream]; eauto.
Qed.

Print Assumptions pass_decrypt_stream.
Print Assumptions key_decrypt_stream.
Print Assumptions pass_encrypt_stream.
Print Assumptions key_encrypt_stream.
Print Assumptions dec_shape_no_read_before_release.
Print Assumptions enc_shape_lookahead_one.
Print Assumptions dec_shape_bounded.
Print Assumptions all_encrypt_every_moment.
Print Assumptions all_events_bounded.
Print Assumptions all_file_decrypt_streams.
Print Assumptions all_file_encrypt_streams.
Print Assumptions all_file_decrypt_no_read_before_release.
Print Assumptions all_file_encrypt_lookahead_one.
Print Assumptions all_file_decrypt_bounded.
