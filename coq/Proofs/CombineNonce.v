(* Proofs/CombineNonce.v — no (key, nonce) pair is used for two messages within one file:
   chunk i is sealed exactly once, under the 12-byte nonce 00 00 00 00 || le64(i); lifted to the file
   level (key_encrypt, pass_encrypt: every logged seal of the run is a chunk seal under the one file key). *)
From Kestrel Require Import Bytes BytesFacts Outcome IO IOFacts Prims.
From Kestrel.gen Require Import Extracted.
From Kestrel.Model Require Import AeadWrap Chunks Noise NoiseSpec Files EventPreds FilesSpec ChunksSpec CombineDefs.
From Kestrel.Proofs Require Import MonadFacts ChunksDec ChunksEnc NoiseFacts FilesFacts PrimFacts CombineFiles.
From Coq Require Import ZifyBool ZifyNat ZifyN.
Local Open Scope N_scope.

(* distinct counters below 2^64 give distinct 12-byte nonces *)
Lemma nonces12_nodup : forall m a, N.of_nat (a + m) <= 18446744073709551616 ->
  NoDup (map (fun i => noise_nonce (N.of_nat i)) (seq a m)).
Proof.
  induction m as [|m IH]; intros a Hb; [constructor|]. cbn [seq map]. constructor.
  - intros Hin. apply in_map_iff in Hin. destruct Hin as (j & Hj & Hjin). apply in_seq in Hjin.
    apply noise_nonce_inj in Hj; lia.
  - apply IH. lia.
Qed.

(* the chunk layer, every script: the seals of one encrypt_chunks run are all under [key], carry the
   counters 0, 1, ..., m-1 in order, each once; with fewer than 2^64 chunks their 12-byte nonces are
   pairwise distinct *)
Theorem enc_key_nonce_unique (P : prims) (key aad : bytes) (cs : N) (s s' : io) r :
  length key = 32%nat ->
  encrypt_chunks P key aad cs s = (r, s') ->
  exists tr m, trace s' = trace s ++ tr /\
    map seal_nonce (filter_seals tr) = map N.of_nat (seq 0 m) /\
    Forall (fun q => seal_key q = key) (filter_seals tr) /\
    NoDup (map seal_nonce (filter_seals tr)) /\
    (N.of_nat m <= 18446744073709551616 ->
     NoDup (map (fun q => noise_nonce (seal_nonce q)) (filter_seals tr))).
Proof.
  intros Hkey E. destruct (enc_seals_sequential P key aad cs s s' r Hkey E) as (tr & m & Htr & Hn & Hk & _).
  exists tr, m. split; [exact Htr|]. split; [exact Hn|]. split.
  { eapply Forall_impl; [|exact Hk]. intros q [Hq _]. exact Hq. }
  split.
  { rewrite Hn. apply FinFun.Injective_map_NoDup; [intros a b Hab; lia|apply seq_NoDup]. }
  intros Hm. rewrite <- (map_map seal_nonce noise_nonce), Hn, map_map. apply nonces12_nodup. exact Hm.
Qed.

Lemma filter_seals_out d : Forall is_out_ev d -> filter_seals d = [].
Proof.
  induction 1 as [|e d He _ IH]; [reflexivity|]. destruct e; cbn in He; try contradiction; exact IH.
Qed.
Lemma filter_seals_rev_out d : Forall is_out_ev d -> filter_seals (rev d) = [].
Proof. intros H. apply filter_seals_out. apply Forall_rev. exact H. Qed.

Lemma file_seals_ok_unfold (K : bytes) (tr : list event) :
  file_seals_ok K tr <->
  exists m, map seal_nonce (filter_seals tr) = map N.of_nat (seq 0 m) /\
    Forall (fun q => seal_key q = K) (filter_seals tr) /\
    NoDup (map seal_nonce (filter_seals tr)) /\
    (N.of_nat m <= 18446744073709551616 ->
     NoDup (map (fun q => noise_nonce (seal_nonce q)) (filter_seals tr))).
Proof. reflexivity. Qed.

Section FileLevel.
Variable P : prims.
Hypothesis Hh : hash_ok P.

Theorem pass_encrypt_seals pw salt s0 r s0' : writer_ok (wtr s0) ->
  pass_encrypt P pw salt s0 = (r, s0') ->
  exists tr, trace s0' = trace s0 ++ tr /\ file_seals_ok (kdf P pw salt) tr.
Proof.
  intros Hw0 E.
  destruct (pass_encrypt_header P pw salt s0 Hw0) as (sa & [_ _ _ (d & Hl & Hev & _)] & Ee).
  rewrite Ee in E.
  destruct (enc_key_nonce_unique P _ _ _ _ _ _ (kdf_len P pw salt Hh) E) as (tr & m & Htr & Hn & Hk & Hnd & Hnd12).
  exists (EvKdf pw salt x_lib_scrypt_n x_lib_scrypt_r x_lib_scrypt_p :: rev d ++ tr). split.
  - rewrite Htr. unfold trace. rewrite Hl. cbn [app]. rewrite rev_app_distr. cbn [rev].
    rewrite <- !app_assoc. reflexivity.
  - assert (Hf : filter_seals (EvKdf pw salt x_lib_scrypt_n x_lib_scrypt_r x_lib_scrypt_p :: rev d ++ tr) = filter_seals tr).
    { change (filter_seals (?e :: ?l)) with (filter_seals l). now rewrite filter_seals_app, filter_seals_rev_out. }
    exists m. rewrite Hf. auto.
Qed.

Theorem key_encrypt_seals fresh_pk fresh_e s spk rpk e epk pk s0 r s0' msg hh :
  length (payload_of fresh_pk pk) = 32%nat -> writer_ok (wtr s0) ->
  noise_encrypt P fresh_e s spk rpk e epk x_prologue (payload_of fresh_pk pk) = Ok (msg, hh) ->
  key_encrypt P fresh_pk fresh_e s spk rpk e epk pk s0 = (r, s0') ->
  exists tr, trace s0' = trace s0 ++ tr /\ file_seals_ok (file_key P (payload_of fresh_pk pk) hh) tr.
Proof.
  intros Hp Hw0 Hn E.
  destruct (key_encrypt_header P fresh_pk fresh_e s spk rpk e epk pk s0 msg hh Hp Hw0 Hn)
    as (sa & [_ _ _ (d & Hl & Hev & _)] & Ee).
  rewrite Ee in E.
  destruct (enc_key_nonce_unique P _ _ _ _ _ _ (file_key_len P _ _ Hh) E) as (tr & m & Htr & Hns & Hk & Hnd & Hnd12).
  exists (rev d ++ tr). split.
  - rewrite Htr. unfold trace. rewrite Hl. cbn [app]. rewrite rev_app_distr. rewrite <- !app_assoc. reflexivity.
  - assert (Hf : filter_seals (rev d ++ tr) = filter_seals tr) by (now rewrite filter_seals_app, filter_seals_rev_out).
    exists m. rewrite Hf. auto.
Qed.

End FileLevel.

Section Closure.
Print Assumptions enc_key_nonce_unique.
Print Assumptions pass_encrypt_seals.
Print Assumptions key_encrypt_seals.
End Closure.
