(* Proofs/TraceShape.v — the SHAPE of every event trace of decrypt_chunks_loop / encrypt_chunks_loop,
   for every io state (any data, any read/write/flush script, faults included), as inductive trace
   grammars ([dec_tr], [enc_tr]) in chronological order, together with the run result and the bytes the
   sink accepted.  One induction through the I/O monad per loop ([dec_loop_tr], [enc_loop_tr]); the
   monitor theorems of Proofs/MonitorFacts.v are then inductions over the grammars. *)
From Kestrel Require Import Bytes BytesFacts Outcome IO IOFacts Prims.
From Kestrel.Model Require Import AeadWrap Chunks.
From Kestrel.Proofs Require Import MonadFacts ChunksDec.
From Coq Require Import ZifyBool ZifyNat ZifyN.

(* ---------- traces ---------- *)
Lemma trace_app s s' d : log s' = rev d ++ log s -> trace s' = trace s ++ d.
Proof. unfold trace. intros ->. now rewrite rev_app_distr, rev_involutive. Qed.
Lemma trace_cons s s' e : log s' = e :: log s -> trace s' = trace s ++ [e].
Proof. unfold trace. intros ->. reflexivity. Qed.
Lemma trace_with_log s e : trace (with_log s e) = trace s ++ [e].
Proof. reflexivity. Qed.

(* ---------- read_exact: progress reads, then possibly one terminal read ---------- *)
Definition rd_prog (n : nat) (e : event) : Prop :=
  match e with
  | EvRead req got => match got with [] => False | _ :: _ => req <= n /\ length got <= req end
  | EvReadErr req Interrupted => req <= n
  | _ => False
  end.
Definition rd_term (n : nat) (e : event) : Prop :=
  match e with
  | EvRead req [] => req <= n
  | EvReadErr req err => err <> Interrupted /\ req <= n
  | _ => False
  end.
Definition rx_ok (n : nat) (d : list event) : Prop := Forall (rd_prog n) d.
Definition rx_err (n : nat) (d : list event) : Prop :=
  exists d' e, d = d' ++ [e] /\ Forall (rd_prog n) d' /\ rd_term n e.
Definition rx_res (n : nat) (res : option (ioerr + bytes)) (d : list event) : Prop :=
  match res with Some (inl _) => rx_err n d | _ => rx_ok n d end.

Lemma rd_prog_mono n n' e : n <= n' -> rd_prog n e -> rd_prog n' e.
Proof.
  intros H. destruct e as [req got|req err| | | | | |]; cbn; try tauto.
  - destruct got; [tauto|lia].
  - destruct err; try tauto. lia.
Qed.
Lemma rd_term_mono n n' e : n <= n' -> rd_term n e -> rd_term n' e.
Proof.
  intros H. destruct e as [req got|req err| | | | | |]; cbn; try tauto.
  - destruct got; [lia|tauto].
  - intros [H1 H2]. split; [assumption|lia].
Qed.
Lemma rx_res_cons n k res e d : rd_prog n e -> k <= n -> rx_res k res d -> rx_res n res (e :: d).
Proof.
  intros He Hk H. unfold rx_res in *.
  assert (Hok : rx_ok k d -> rx_ok n (e :: d)).
  { intros H0. constructor; [assumption|]. eapply Forall_impl; [|exact H0]. intros a. now apply rd_prog_mono. }
  destruct res as [[err|b]|]; try (now apply Hok).
  destruct H as (d' & e0 & -> & Hd' & He0). exists (e :: d'), e0. split; [reflexivity|]. split.
  - constructor; [assumption|]. eapply Forall_impl; [|exact Hd']. intros a. now apply rd_prog_mono.
  - now apply (rd_term_mono k).
Qed.

Lemma read_exact_loop_tr : forall fuel n acc s res s',
  read_exact_loop fuel n acc s = (res, s') ->
  exists d, log s' = rev d ++ log s /\ rx_res n res d.
Proof.
  induction fuel as [|f IH]; intros n acc s res s' E.
  { destruct n; cbn in E; injection E as <- <-; exists []; split; try reflexivity; constructor. }
  destruct n as [|n'].
  { cbn in E. injection E as <- <-. exists []. split; [reflexivity|constructor]. }
  cbn [read_exact_loop] in E.
  destruct (io_read (S n') s) as [r1 s1] eqn:Er.
  pose proof (io_read_spec _ _ _ _ Er) as (_ & Hl & _ & _ & Hd).
  destruct r1 as [err|got].
  - assert (Hcase : (err = Interrupted /\ read_exact_loop f (S n') acc s1 = (res, s')) \/
                    (err <> Interrupted /\ res = Some (inl err) /\ s' = s1)).
    { destruct err; [left; auto | right | right | right]; injection E as <- <-; repeat split; discriminate. }
    destruct Hcase as [[-> E1]|(Hne & -> & ->)].
    + destruct (IH _ _ _ _ _ E1) as (d & Hd1 & Hd2).
      exists (EvReadErr (S n') Interrupted :: d). split.
      * rewrite Hd1, Hl. cbn [rev]. now rewrite <- app_assoc.
      * apply (rx_res_cons _ (S n')); [cbn; lia | lia | assumption].
    + exists [EvReadErr (S n') err]. split; [rewrite Hl; reflexivity|].
      exists [], (EvReadErr (S n') err). split; [reflexivity|]. split; [constructor|]. split; [assumption|lia].
  - destruct Hd as [Hlen _].
    destruct got as [|g got'].
    + injection E as <- <-. exists [EvRead (S n') []]. split; [rewrite Hl; reflexivity|].
      exists [], (EvRead (S n') []). split; [reflexivity|]. split; [constructor|cbn; lia].
    + destruct (IH _ _ _ _ _ E) as (d & Hd1 & Hd2).
      exists (EvRead (S n') (g :: got') :: d). split.
      * rewrite Hd1, Hl. cbn [rev]. now rewrite <- app_assoc.
      * apply (rx_res_cons _ (S n' - length (g :: got'))); [cbn [rd_prog length] in *; lia | lia | assumption].
Qed.

(* ---------- write_all: the offered buffer is always the not yet accepted rest ---------- *)
Inductive wa_tr : bytes -> list event -> option ioerr -> bytes -> Prop :=
| wa_nil : wa_tr [] [] None []
| wa_intr buf d r acc : buf <> [] -> wa_tr buf d r acc ->
    wa_tr buf (EvWriteErr buf Interrupted :: d) r acc
| wa_err buf err : buf <> [] -> err <> Interrupted -> wa_tr buf [EvWriteErr buf err] (Some err) []
| wa_zero buf : buf <> [] -> wa_tr buf [EvWrite buf 0] (Some WriteZero) []
| wa_step buf k d r acc : buf <> [] -> 1 <= k <= length buf -> wa_tr (skipn k buf) d r acc ->
    wa_tr buf (EvWrite buf k :: d) r (firstn k buf ++ acc).

Lemma wa_tr_ok buf d r acc : wa_tr buf d r acc -> r = None -> acc = buf.
Proof.
  induction 1 as [|buf d r acc Hne H IH|buf err Hne He|buf Hne|buf k d r acc Hne Hk H IH]; intros Hr;
    try discriminate; auto.
  rewrite (IH Hr). apply firstn_skipn.
Qed.

Lemma wa_tr_err buf d r acc : wa_tr buf d r acc -> r <> None ->
  exists k, k < length buf /\ acc = firstn k buf.
Proof.
  induction 1 as [|buf d r acc Hne H IH|buf err Hne He|buf Hne|buf k d r acc Hne Hk H IH]; intros Hr.
  - congruence.
  - auto.
  - exists 0. destruct buf; [congruence|]. cbn. split; [lia|reflexivity].
  - exists 0. destruct buf; [congruence|]. cbn. split; [lia|reflexivity].
  - destruct (IH Hr) as (j & Hj & ->). rewrite skipn_length in Hj. exists (k + j). split; [lia|].
    now rewrite firstn_add.
Qed.

Lemma wa_tr_nonempty_events buf d r acc : wa_tr buf d r acc -> Forall is_write_ev d.
Proof. induction 1; repeat constructor; assumption. Qed.

Lemma write_all_loop_tr : forall fuel buf s res s',
  write_all_loop fuel buf s = (res, s') ->
  match res with
  | None => True
  | Some r => exists d acc, wa_tr buf d r acc /\ log s' = rev d ++ log s /\
                            w_out (wtr s') = w_out (wtr s) ++ acc
  end.
Proof.
  induction fuel as [|f IH]; intros buf s res s' E.
  { destruct buf; cbn in E; injection E as <- <-; [|exact I].
    exists [], []. rewrite app_nil_r. repeat split. constructor. }
  destruct buf as [|b0 buf'].
  { cbn in E. injection E as <- <-. exists [], []. rewrite app_nil_r. repeat split. constructor. }
  remember (b0 :: buf') as buf eqn:Eb.
  assert (Hne : buf <> []) by (subst buf; discriminate).
  rewrite write_all_loop_unfold in E by assumption.
  destruct (io_write buf s) as [r1 s1] eqn:Ew.
  pose proof (io_write_spec _ _ _ _ Ew) as (_ & Hl & _ & _ & _ & Ho).
  destruct r1 as [err|k].
  - assert (Hcase : (err = Interrupted /\ write_all_loop f buf s1 = (res, s')) \/
                    (err <> Interrupted /\ res = Some (Some err) /\ s' = s1)).
    { destruct err; [left; auto | right | right | right]; injection E as <- <-; repeat split; discriminate. }
    destruct Hcase as [[-> E1]|(Hnei & -> & ->)].
    + specialize (IH _ _ _ _ E1). destruct res as [r|]; [|exact I].
      destruct IH as (d & acc & Htr & Hlog & Hout).
      exists (EvWriteErr buf Interrupted :: d), acc. split; [now constructor|]. split.
      * rewrite Hlog, Hl. cbn [rev]. now rewrite <- app_assoc.
      * now rewrite Hout, Ho.
    + exists [EvWriteErr buf err], []. split; [now constructor|]. split; [rewrite Hl; reflexivity|].
      now rewrite Ho, app_nil_r.
  - destruct Ho as (Hk & Hout & _).
    destruct k as [|k'].
    + injection E as <- <-. exists [EvWrite buf 0], []. split; [now constructor|].
      split; [rewrite Hl; reflexivity|]. rewrite Hout. reflexivity.
    + specialize (IH _ _ _ _ E). destruct res as [r|]; [|exact I].
      destruct IH as (d & acc & Htr & Hlog & Hout').
      exists (EvWrite buf (S k') :: d), (firstn (S k') buf ++ acc). split; [constructor; [assumption|lia|assumption]|].
      split.
      * rewrite Hlog, Hl. cbn [rev]. now rewrite <- app_assoc.
      * now rewrite Hout', Hout, <- app_assoc.
Qed.

(* write_all followed by flush *)
Inductive wf_tr (buf : bytes) : list event -> option ioerr -> bytes -> Prop :=
| wf_werr d err acc : wa_tr buf d (Some err) acc -> wf_tr buf d (Some err) acc
| wf_ok d : wa_tr buf d None buf -> wf_tr buf (d ++ [EvFlush None]) None buf
| wf_ferr d err : wa_tr buf d None buf -> wf_tr buf (d ++ [EvFlush (Some err)]) (Some err) buf.

Lemma wf_tr_ok buf d r acc : wf_tr buf d r acc -> r = None -> acc = buf.
Proof. destruct 1; intros; try discriminate; reflexivity. Qed.

(* ---------- the primitives of the I/O monad, in trace form ---------- *)
Section Prim.
Variable P : prims.
Context {E : Type}.

Lemma m_read_exact_tr (rerr : ioerr -> E) n s res s1 :
  m_read_exact rerr n s = (res, s1) ->
  wtr s1 = wtr s /\ exists d, trace s1 = trace s ++ d /\
  match res with
  | Ok b => length b = n /\ rx_ok n d
  | Err e => (exists ie, e = rerr ie) /\ rx_err n d
  | _ => False
  end.
Proof.
  intros E0. pose proof (m_read_exact_cases _ _ _ _ _ E0) as (Hw & d0 & _ & _ & Hres).
  split; [assumption|].
  unfold m_read_exact, read_exact in E0.
  destruct (read_exact_loop _ n [] s) as [r s'] eqn:Er.
  apply read_exact_loop_tr in Er. destruct Er as (d & Hl & Hd).
  destruct r as [[err|b]|]; injection E0 as E0a E0b; subst res s1; try contradiction.
  - exists d. split; [now apply trace_app|]. destruct Hres as (Hie & _). split; assumption.
  - exists d. split; [now apply trace_app|]. destruct Hres as (Hlen & _). split; assumption.
Qed.

Lemma m_write_all_tr (werr : ioerr -> E) buf s res s1 :
  m_write_all werr buf s = (res, s1) ->
  rdr s1 = rdr s /\ exists d r acc, wa_tr buf d r acc /\ trace s1 = trace s ++ d /\
    w_out (wtr s1) = w_out (wtr s) ++ acc /\
    res = match r with None => Ok tt | Some e => Err (werr e) end.
Proof.
  intros E0. pose proof (m_write_all_cases _ _ _ _ _ E0) as (Hr & d0 & _ & _ & Hres).
  split; [assumption|].
  unfold m_write_all, write_all in E0.
  destruct (write_all_loop _ buf s) as [r s'] eqn:Ew.
  apply write_all_loop_tr in Ew.
  destruct r as [r|]; [|injection E0 as E0a E0b; subst res s1; contradiction].
  destruct Ew as (d & acc & Htr & Hl & Hout).
  exists d, r, acc. split; [assumption|].
  destruct r as [err|]; injection E0 as E0a E0b; subst res s1; (split; [now apply trace_app|]); split; auto.
Qed.

Lemma m_write_all_wok (werr : ioerr -> E) buf s res s1 :
  writer_ok (wtr s) -> m_write_all werr buf s = (res, s1) -> res = Ok tt /\ writer_ok (wtr s1).
Proof.
  intros Hok E0. destruct (write_all_ok buf s Hok) as (s' & Ew & _ & Hok' & _).
  unfold m_write_all in E0. rewrite Ew in E0. injection E0 as <- <-. auto.
Qed.

Lemma m_flush_wok (werr : ioerr -> E) s res s1 :
  writer_ok (wtr s) -> m_flush werr s = (res, s1) -> res = Ok tt /\ writer_ok (wtr s1).
Proof.
  intros Hok E0. destruct (io_flush_ok s Hok) as (s' & Ef & _ & Hok' & _).
  unfold m_flush in E0. rewrite Ef in E0. injection E0 as <- <-. auto.
Qed.

(* write_all then flush, as used by both loops *)
Lemma m_write_flush_tr (werr : ioerr -> E) buf s s5 r5 :
  m_write_all werr buf s = (r5, s5) ->
  match r5 with
  | Ok _ => forall r6 s6, m_flush werr s5 = (r6, s6) ->
      exists d r, wf_tr buf d r buf /\ trace s6 = trace s ++ d /\ rdr s6 = rdr s /\
                  w_out (wtr s6) = w_out (wtr s) ++ buf /\
                  r6 = match r with None => Ok tt | Some e => Err (werr e) end
  | Err e => exists d err acc, wf_tr buf d (Some err) acc /\ trace s5 = trace s ++ d /\ rdr s5 = rdr s /\
                  w_out (wtr s5) = w_out (wtr s) ++ acc /\ e = werr err
  | _ => False
  end.
Proof.
  intros E5. pose proof (m_write_all_tr _ _ _ _ _ E5) as (Hr5 & d & r & acc & Htr & Ht & Ho & Hres).
  destruct r as [err|]; subst r5.
  - exists d, err, acc. repeat split; try assumption. now constructor.
  - intros r6 s6 E6. pose proof (m_flush_cases _ _ _ _ E6) as (Hr6 & Ho6 & Hres6).
    assert (acc = buf) by (eapply wa_tr_ok; [exact Htr|reflexivity]). subst acc.
    destruct r6 as [u|e|w|]; try contradiction.
    + exists (d ++ [EvFlush None]), None. split; [now constructor|].
      split; [rewrite (trace_cons _ _ _ Hres6), Ht; now rewrite <- app_assoc|].
      split; [congruence|]. split; [congruence|]. now destruct u.
    + destruct Hres6 as (ie & -> & Hl6).
      exists (d ++ [EvFlush (Some ie)]), (Some ie). split; [now constructor|].
      split; [rewrite (trace_cons _ _ _ Hl6), Ht; now rewrite <- app_assoc|].
      split; [congruence|]. split; [congruence|]. reflexivity.
Qed.

Lemma m_seal_cases key n ad pt s res s1 :
  m_seal (E := E) P key n ad pt s = (res, s1) ->
  (res = Ok (p_seal P key (noise_nonce n) ad pt) /\ s1 = with_log s (EvSeal key n ad pt)) \/
  (exists w, res = Panic w /\ s1 = s).
Proof.
  unfold m_seal, chapoly_encrypt_noise, chapoly_encrypt_ietf.
  destruct (negb _); [intros [= <- <-]; right; eauto|].
  destruct (negb _); intros [= <- <-]; [right; eauto|left; auto].
Qed.

End Prim.

(* ================================================================================================
   decrypt_chunks_loop
   ================================================================================================ *)
Section DecShape.
Variable P : prims.
Variable key aad : bytes.
Variable cs : N.
Hypothesis Hkey : length key = 32.

Notation dec_loop := (decrypt_chunks_loop P).

(* header read, body read, AEAD open of chunk n *)
Definition dec_pre (n : N) (d : list event) (ad ct : bytes) (r : option bytes) (fin : bool) : Prop :=
  exists d1 d2 lastb lenb,
    d = d1 ++ d2 ++ [EvOpen key n ad ct r] /\
    rx_ok 16 d1 /\ rx_ok (N.to_nat (de32 lenb) + 16) d2 /\
    (de32 lenb <= cs)%N /\ length ct = N.to_nat (de32 lenb) + 16 /\
    length lastb = 4 /\ length lenb = 4 /\ ad = aad ++ lastb ++ lenb /\
    fin = (de32 lastb =? 1)%N /\
    (forall pt, r = Some pt -> p_open P key (noise_nonce n) ad ct = Some pt).

Inductive dec_tr : N -> list event -> outcome derr unit -> bytes -> Prop :=
| dt_fuel n : dec_tr n [] OutOfFuel []
| dt_hdr_err n d ie : rx_err 16 d -> dec_tr n d (Err (d_read_err ie)) []
| dt_chunk_len n d : rx_ok 16 d -> dec_tr n d (Err DChunkLen) []
| dt_ct_err n d1 d2 len ie : rx_ok 16 d1 -> (len <= cs)%N -> rx_err (N.to_nat len + 16) d2 ->
    dec_tr n (d1 ++ d2) (Err (d_read_err ie)) []
| dt_open_fail n d ad ct fin : dec_pre n d ad ct None fin -> dec_tr n d (Err DChaPolyDecrypt) []
| dt_probe_err n d ad ct pt ie : dec_pre n d ad ct (Some pt) true ->
    dec_tr n (d ++ [EvReadErr 1 ie]) (Err (d_read_err ie)) []
| dt_probe_data n d ad ct pt x : dec_pre n d ad ct (Some pt) true ->
    dec_tr n (d ++ [EvRead 1 [x]]) (Err DUnexpectedData) []
| dt_final n d ad ct pt d4 r acc : dec_pre n d ad ct (Some pt) true -> wf_tr pt d4 r acc ->
    dec_tr n (d ++ EvRead 1 [] :: d4) (match r with None => Ok tt | Some e => Err (DIOWrite e) end) acc
| dt_more_err n d ad ct pt d4 err acc : dec_pre n d ad ct (Some pt) false -> wf_tr pt d4 (Some err) acc ->
    dec_tr n (d ++ d4) (Err (DIOWrite err)) acc
| dt_more n d ad ct pt d4 d5 res out : dec_pre n d ad ct (Some pt) false -> wf_tr pt d4 None pt ->
    dec_tr (n + 1) d5 res out -> dec_tr n (d ++ d4 ++ d5) res (pt ++ out).

Lemma d_read_err_not_write ie ie0 : Err (A := unit) (d_read_err ie) <> Err (DIOWrite ie0).
Proof. destruct ie; discriminate. Qed.

Theorem dec_loop_tr : forall fuel n s res s',
  dec_loop fuel key aad cs n s = (res, s') ->
  (exists d out, dec_tr n d res out /\ trace s' = trace s ++ d /\
                 w_out (wtr s') = w_out (wtr s) ++ out) /\
  (writer_ok (wtr s) -> forall ie, res <> Err (DIOWrite ie)).
Proof.
  induction fuel as [|f IH]; intros n s res s' E.
  { cbn in E. injection E as <- <-. split; [|intros _ ie; discriminate].
    exists [], []. rewrite !app_nil_r. repeat split. constructor. }
  cbn [decrypt_chunks_loop] in E.
  (* header *)
  unfold bind at 1 in E. destruct (m_read_exact d_read_err 16 s) as [r1 s1] eqn:E1.
  pose proof (m_read_exact_tr _ _ _ _ _ E1) as (Hw1 & d1 & Ht1 & Hr1).
  destruct r1 as [hdr|e|w|]; try contradiction.
  2:{ injection E as <- <-. destruct Hr1 as ((ie & ->) & Hx). split; [|intros _ ie0; apply d_read_err_not_write].
      exists d1, []. rewrite app_nil_r, Hw1. repeat split; [now apply dt_hdr_err|assumption]. }
  destruct Hr1 as (Hlen16 & Hx1).
  destruct (cs <? de32 (hdr_len hdr))%N eqn:Ecs.
  { injection E as <- <-. split; [|intros _ ie0; discriminate].
    exists d1, []. rewrite app_nil_r, Hw1. repeat split; [now apply dt_chunk_len|assumption]. }
  apply N.ltb_ge in Ecs.
  (* body *)
  unfold bind at 1 in E.
  destruct (m_read_exact d_read_err (N.to_nat (de32 (hdr_len hdr)) + 16) s1) as [r2 s2] eqn:E2.
  pose proof (m_read_exact_tr _ _ _ _ _ E2) as (Hw2 & d2 & Ht2 & Hr2).
  destruct r2 as [ct|e|w|]; try contradiction.
  2:{ injection E as <- <-. destruct Hr2 as ((ie & ->) & Hx). split; [|intros _ ie0; apply d_read_err_not_write].
      exists (d1 ++ d2), []. rewrite app_nil_r, Hw2, Hw1. repeat split.
      - eapply dt_ct_err; eassumption.
      - now rewrite Ht2, Ht1, app_assoc. }
  destruct Hr2 as (Hlenct & Hx2).
  (* open *)
  unfold bind at 1 in E. rewrite (m_open_eq P key Hkey) in E.
  set (ad := aad ++ hdr_last hdr ++ hdr_len hdr) in *.
  assert (Hpre : forall r, (forall pt, r = Some pt -> p_open P key (noise_nonce n) ad ct = Some pt) ->
            dec_pre n (d1 ++ d2 ++ [EvOpen key n ad ct r]) ad ct r (de32 (hdr_last hdr) =? 1)%N).
  { intros r Hr. exists d1, d2, (hdr_last hdr), (hdr_len hdr).
    repeat split; try assumption; try reflexivity.
    - unfold hdr_last. rewrite firstn_length, skipn_length. lia.
    - unfold hdr_len. rewrite skipn_length. lia. }
  assert (Ht3 : forall r, trace (with_log s2 (EvOpen key n ad ct r)) = trace s ++ d1 ++ d2 ++ [EvOpen key n ad ct r]).
  { intros r. rewrite trace_with_log, Ht2, Ht1. now rewrite <- !app_assoc. }
  assert (Hfail : forall s3, wtr s3 = wtr s2 -> trace s3 = trace s ++ d1 ++ d2 ++ [EvOpen key n ad ct None] ->
            exists d out, dec_tr n d (Err DChaPolyDecrypt) out /\ trace s3 = trace s ++ d /\
                          w_out (wtr s3) = w_out (wtr s) ++ out).
  { intros s3 Hw3 Ht. exists (d1 ++ d2 ++ [EvOpen key n ad ct None]), [].
    rewrite app_nil_r, Hw3, Hw2, Hw1. repeat split; [|assumption].
    eapply dt_open_fail. apply Hpre. intros pt; discriminate. }
  destruct (Nat.ltb (length ct) 16).
  { injection E as <- <-. split; [|intros _ ie0; discriminate]. apply Hfail; [reflexivity|apply Ht3]. }
  destruct (p_open P key (noise_nonce n) ad ct) as [pt|] eqn:Eo.
  2:{ injection E as <- <-. split; [|intros _ ie0; discriminate]. apply Hfail; [reflexivity|apply Ht3]. }
  clear Hfail.
  specialize (Hpre (Some pt)). specialize (Ht3 (Some pt)).
  assert (Hpre' : dec_pre n (d1 ++ d2 ++ [EvOpen key n ad ct (Some pt)]) ad ct (Some pt) (de32 (hdr_last hdr) =? 1)%N).
  { apply Hpre. intros pt0 Hp. exact Hp. }
  clear Hpre.
  set (s3 := with_log s2 (EvOpen key n ad ct (Some pt))) in *.
  assert (Hw3 : wtr s3 = wtr s) by (unfold s3; cbn; now rewrite Hw2, Hw1).
  set (d3 := d1 ++ d2 ++ [EvOpen key n ad ct (Some pt)]) in *.
  clearbody s3 d3. clear E1 E2 Ht1 Ht2 Hw1 Hw2 Hx1 Hx2.
  destruct (de32 (hdr_last hdr) =? 1)%N eqn:Efin.
  - (* final chunk: probe, then write and flush *)
    unfold bind at 1 in E. destruct (m_read d_read_err 1 s3) as [r4 s4] eqn:E4.
    pose proof (m_read_cases _ _ _ _ _ E4) as (Hw4 & Hr4).
    destruct r4 as [chk|e|w|]; try contradiction.
    2:{ injection E as <- <-. destruct Hr4 as (ie & -> & Hl4 & _).
        split; [|intros _ ie0; apply d_read_err_not_write].
        exists (d3 ++ [EvReadErr 1 ie]), []. rewrite app_nil_r, Hw4, Hw3. repeat split.
        - eapply dt_probe_err; eassumption.
        - rewrite (trace_cons _ _ _ Hl4), Ht3. now rewrite <- app_assoc. }
    destruct Hr4 as (Hl4 & Hlen4 & _).
    destruct chk as [|x chk'].
    2:{ injection E as <- <-. split; [|intros _ ie0; discriminate].
        assert (chk' = []) by (destruct chk'; [reflexivity|cbn in Hlen4; lia]). subst chk'.
        exists (d3 ++ [EvRead 1 [x]]), []. rewrite app_nil_r, Hw4, Hw3. repeat split.
        - eapply dt_probe_data; eassumption.
        - rewrite (trace_cons _ _ _ Hl4), Ht3. now rewrite <- app_assoc. }
    assert (Ht4 : trace s4 = trace s ++ d3 ++ [EvRead 1 []]).
    { rewrite (trace_cons _ _ _ Hl4), Ht3. now rewrite <- app_assoc. }
    unfold bind at 1 in E. destruct (m_write_all DIOWrite pt s4) as [r5 s5] eqn:E5.
    pose proof (m_write_flush_tr _ _ _ _ _ E5) as H5.
    destruct r5 as [u|e|w|]; try contradiction.
    + unfold bind at 1 in E. destruct (m_flush DIOWrite s5) as [r6 s6] eqn:E6.
      destruct (H5 _ _ eq_refl) as (d & r & Htr & Ht & _ & Ho & Hr6).
      assert (Hres : (res, s') = (match r with None => Ok tt | Some e => Err (DIOWrite e) end, s6)).
      { subst r6. destruct r; unfold ret in E; symmetry; exact E. }
      injection Hres as -> ->. split.
      * exists (d3 ++ EvRead 1 [] :: d), pt. repeat split.
        -- eapply dt_final; eassumption.
        -- rewrite Ht, Ht4. rewrite <- !app_assoc. reflexivity.
        -- now rewrite Ho, Hw4, Hw3.
      * intros Hok ie0. rewrite <- Hw3, <- Hw4 in Hok.
        destruct (m_write_all_wok _ _ _ _ _ Hok E5) as (_ & Hok5).
        destruct (m_flush_wok _ _ _ _ Hok5 E6) as (Hr6' & _).
        subst r6. destruct r; [discriminate Hr6'|discriminate].
    + injection E as <- <-. destruct H5 as (d & err & acc & Htr & Ht & _ & Ho & ->). split.
      * exists (d3 ++ EvRead 1 [] :: d), acc. repeat split.
        -- apply (dt_final n d3 ad ct pt d (Some err) acc); assumption.
        -- rewrite Ht, Ht4. rewrite <- !app_assoc. reflexivity.
        -- now rewrite Ho, Hw4, Hw3.
      * intros Hok ie0. rewrite <- Hw3, <- Hw4 in Hok.
        destruct (m_write_all_wok _ _ _ _ _ Hok E5) as (Hr5' & _). discriminate Hr5'.
  - (* not final: write, flush, next chunk *)
    unfold bind at 1 in E. destruct (m_write_all DIOWrite pt s3) as [r5 s5] eqn:E5.
    pose proof (m_write_flush_tr _ _ _ _ _ E5) as H5.
    destruct r5 as [u|e|w|]; try contradiction.
    + unfold bind at 1 in E. destruct (m_flush DIOWrite s5) as [r6 s6] eqn:E6.
      destruct (H5 _ _ eq_refl) as (d & r & Htr & Ht & _ & Ho & Hr6).
      destruct r as [err|]; subst r6.
      * injection E as <- <-. split.
        -- exists (d3 ++ d), pt. repeat split.
           ++ eapply dt_more_err; eassumption.
           ++ rewrite Ht, Ht3. now rewrite <- app_assoc.
           ++ now rewrite Ho, Hw3.
        -- intros Hok ie0. rewrite <- Hw3 in Hok.
           destruct (m_write_all_wok _ _ _ _ _ Hok E5) as (_ & Hok5).
           destruct (m_flush_wok _ _ _ _ Hok5 E6) as (Hr6' & _). discriminate Hr6'.
      * destruct (IH _ _ _ _ E) as ((d5 & out & Htr5 & Ht5 & Ho5) & Hnw). split.
        -- exists (d3 ++ d ++ d5), (pt ++ out). repeat split.
           ++ eapply dt_more; eassumption.
           ++ rewrite Ht5, Ht, Ht3. now rewrite <- !app_assoc.
           ++ rewrite Ho5, Ho, Hw3. now rewrite <- app_assoc.
        -- intros Hok. apply Hnw. rewrite <- Hw3 in Hok.
           destruct (m_write_all_wok _ _ _ _ _ Hok E5) as (_ & Hok5).
           destruct (m_flush_wok _ _ _ _ Hok5 E6) as (_ & Hok6). exact Hok6.
    + injection E as <- <-. destruct H5 as (d & err & acc & Htr & Ht & _ & Ho & ->). split.
      * exists (d3 ++ d), acc. repeat split.
        -- eapply dt_more_err; eassumption.
        -- rewrite Ht, Ht3. now rewrite <- app_assoc.
        -- now rewrite Ho, Hw3.
      * intros Hok ie0. rewrite <- Hw3 in Hok.
        destruct (m_write_all_wok _ _ _ _ _ Hok E5) as (Hr5' & _). discriminate Hr5'.
Qed.

End DecShape.

(* ================================================================================================
   encrypt_chunks_loop / encrypt_chunks
   ================================================================================================ *)
Section EncShape.
Variable P : prims.
Variable key aad : bytes.
Variable cs : N.

Notation enc_loop := (encrypt_chunks_loop P).
Notation csn := (N.to_nat cs).

Definition is_nil (b : bytes) : bool := match b with [] => true | _ :: _ => false end.
(* the pieces of the record written for [prev] when the look-ahead read returned [cur] *)
Definition e_done (done : bool) (cur : bytes) : bool := done || is_nil cur.
Definition e_flagb (fin : bool) : bytes := be32 (if fin then 1 else 0)%N.
Definition e_lenb (prev : bytes) : bytes := be32 (N.of_nat (length prev)).
Definition e_ad (fin : bool) (prev : bytes) : bytes := aad ++ e_flagb fin ++ e_lenb prev.
Definition e_hdr (n : N) (fin : bool) (prev : bytes) : bytes := be64 n ++ e_flagb fin ++ e_lenb prev.
Definition e_ct (n : N) (fin : bool) (prev : bytes) : bytes :=
  p_seal P key (noise_nonce n) (e_ad fin prev) prev.

(* write_all header, write_all ciphertext, flush *)
Inductive rec_tr (hdr ct : bytes) : list event -> option ioerr -> bytes -> Prop :=
| rt_hdr_err d err acc : wa_tr hdr d (Some err) acc -> rec_tr hdr ct d (Some err) acc
| rt_rest d1 d2 r acc : wa_tr hdr d1 None hdr -> wf_tr ct d2 r acc -> rec_tr hdr ct (d1 ++ d2) r (hdr ++ acc).

Inductive enc_tr : N -> bytes -> bool -> list event -> outcome eerr unit -> bytes -> Prop :=
| et_fuel n prev done : enc_tr n prev done [] OutOfFuel []
| et_read_err n prev done ie : enc_tr n prev done [EvReadErr csn ie] (Err (EIORead ie)) []
| et_unexpected n prev x xs : length (x :: xs) <= csn ->
    enc_tr n prev true [EvRead csn (x :: xs)] (Err EUnexpectedData) []
| et_panic n prev done cur w : length cur <= csn -> enc_tr n prev done [EvRead csn cur] (Panic w) []
| et_rec_err n prev done cur d err acc : length cur <= csn -> (done = true -> cur = []) ->
    rec_tr (e_hdr n (e_done done cur) prev) (e_ct n (e_done done cur) prev) d (Some err) acc ->
    enc_tr n prev done (EvRead csn cur :: EvSeal key n (e_ad (e_done done cur) prev) prev :: d)
           (Err (EIOWrite err)) acc
| et_last n prev done cur d acc : length cur <= csn -> e_done done cur = true ->
    rec_tr (e_hdr n true prev) (e_ct n true prev) d None acc ->
    enc_tr n prev done (EvRead csn cur :: EvSeal key n (e_ad true prev) prev :: d) (Ok tt) acc
| et_more n prev done cur d acc d2 res out : length cur <= csn -> e_done done cur = false ->
    rec_tr (e_hdr n false prev) (e_ct n false prev) d None acc ->
    enc_tr (n + 1) cur false d2 res out ->
    enc_tr n prev done (EvRead csn cur :: EvSeal key n (e_ad false prev) prev :: d ++ d2) res (acc ++ out).

Inductive enc_top : list event -> outcome eerr unit -> bytes -> Prop :=
| top_err ie : enc_top [EvReadErr csn ie] (Err (EIORead ie)) []
| top_go first d res out : length first <= csn -> enc_tr 0 first (is_nil first) d res out ->
    enc_top (EvRead csn first :: d) res out.

Theorem enc_loop_tr : forall fuel n prev done s res s',
  enc_loop fuel key aad cs n prev done s = (res, s') ->
  exists d out, enc_tr n prev done d res out /\ trace s' = trace s ++ d /\
                w_out (wtr s') = w_out (wtr s) ++ out.
Proof.
  induction fuel as [|f IH]; intros n prev done s res s' E.
  { cbn in E. injection E as <- <-. exists [], []. rewrite !app_nil_r. repeat split. constructor. }
  cbn [encrypt_chunks_loop] in E.
  unfold bind at 1 in E. destruct (m_read EIORead csn s) as [r1 s1] eqn:E1.
  pose proof (m_read_cases _ _ _ _ _ E1) as (Hw1 & Hr1).
  destruct r1 as [cur|e|w|]; try contradiction.
  2:{ injection E as <- <-. destruct Hr1 as (ie & -> & Hl1 & _).
      exists [EvReadErr csn ie], []. rewrite app_nil_r, Hw1. repeat split; [constructor|].
      now apply trace_cons. }
  destruct Hr1 as (Hl1 & Hlen1 & _).
  pose proof (trace_cons _ _ _ Hl1) as Ht1.
  destruct ((match cur with [] => false | _ :: _ => true end) && done) eqn:Eun.
  { injection E as <- <-. destruct cur as [|x xs]; [discriminate Eun|]. cbn in Eun. subst done.
    exists [EvRead csn (x :: xs)], []. rewrite app_nil_r, Hw1. repeat split; [now constructor|assumption]. }
  assert (Hdc : done = true -> cur = []).
  { intros ->. destruct cur; [reflexivity|discriminate Eun]. }
  assert (Hdone : (done || negb (match cur with [] => false | _ :: _ => true end)) = e_done done cur).
  { unfold e_done. destruct cur; reflexivity. }
  rewrite Hdone in E. clear Eun Hdone.
  set (fin := e_done done cur) in *.
  change (be32 (if fin then 1 else 0)%N) with (e_flagb fin) in E.
  change (be32 (N.of_nat (length prev))) with (e_lenb prev) in E.
  change (aad ++ e_flagb fin ++ e_lenb prev) with (e_ad fin prev) in E.
  change (be64 n ++ e_flagb fin ++ e_lenb prev) with (e_hdr n fin prev) in E.
  unfold bind at 1 in E.
  destruct (m_seal P key n (e_ad fin prev) prev s1) as [r2 s2] eqn:E2.
  destruct (m_seal_cases _ _ _ _ _ _ _ _ E2) as [[-> ->]|(w & -> & ->)].
  2:{ injection E as <- <-. exists [EvRead csn cur], []. rewrite app_nil_r, Hw1.
      repeat split; [now constructor|assumption]. }
  fold (e_ct n fin prev) in E.
  set (s2 := with_log s1 (EvSeal key n (e_ad fin prev) prev)) in *.
  assert (Ht2 : trace s2 = trace s ++ [EvRead csn cur; EvSeal key n (e_ad fin prev) prev]).
  { unfold s2. rewrite trace_with_log, Ht1. now rewrite <- app_assoc. }
  assert (Hw2 : wtr s2 = wtr s) by (unfold s2; cbn; exact Hw1).
  clearbody s2. clear E1 E2 Hl1 Ht1 Hw1.
  (* header *)
  unfold bind at 1 in E. destruct (m_write_all EIOWrite (e_hdr n fin prev) s2) as [r3 s3] eqn:E3.
  pose proof (m_write_all_tr _ _ _ _ _ E3) as (_ & d3 & r & acc3 & Htr3 & Ht3 & Ho3 & Hres3).
  destruct r as [err|]; subst r3.
  { injection E as <- <-. exists (EvRead csn cur :: EvSeal key n (e_ad fin prev) prev :: d3), acc3.
    repeat split.
    - apply et_rec_err; try assumption. now apply rt_hdr_err.
    - rewrite Ht3, Ht2. now rewrite <- app_assoc.
    - now rewrite Ho3, Hw2. }
  assert (acc3 = e_hdr n fin prev) by (eapply wa_tr_ok; [exact Htr3|reflexivity]). subst acc3.
  (* ciphertext, flush *)
  unfold bind at 1 in E. destruct (m_write_all EIOWrite (e_ct n fin prev) s3) as [r5 s5] eqn:E5.
  pose proof (m_write_flush_tr _ _ _ _ _ E5) as H5.
  destruct r5 as [u|e|w|]; try contradiction.
  2:{ injection E as <- <-. destruct H5 as (d & err & acc & Htr & Ht & _ & Ho & ->).
      exists (EvRead csn cur :: EvSeal key n (e_ad fin prev) prev :: d3 ++ d), (e_hdr n fin prev ++ acc).
      repeat split.
      - apply et_rec_err; try assumption. now apply rt_rest.
      - rewrite Ht, Ht3, Ht2. now rewrite <- !app_assoc.
      - rewrite Ho, Ho3, Hw2. now rewrite <- app_assoc. }
  unfold bind at 1 in E. destruct (m_flush EIOWrite s5) as [r6 s6] eqn:E6.
  destruct (H5 _ _ eq_refl) as (d & r & Htr & Ht & _ & Ho & Hr6).
  assert (Ht6 : trace s6 = trace s ++ EvRead csn cur :: EvSeal key n (e_ad fin prev) prev :: d3 ++ d).
  { rewrite Ht, Ht3, Ht2. now rewrite <- !app_assoc. }
  assert (Ho6 : w_out (wtr s6) = w_out (wtr s) ++ e_hdr n fin prev ++ e_ct n fin prev).
  { rewrite Ho, Ho3, Hw2. now rewrite <- app_assoc. }
  destruct r as [err|]; subst r6.
  { injection E as <- <-. eexists _, _. split; [|split; [exact Ht6|exact Ho6]].
    apply et_rec_err; try assumption. now apply rt_rest. }
  assert (Hrec : rec_tr (e_hdr n fin prev) (e_ct n fin prev) (d3 ++ d) None (e_hdr n fin prev ++ e_ct n fin prev))
    by (now apply rt_rest).
  destruct fin eqn:Efin.
  - unfold ret in E. injection E as <- <-. eexists _, _. split; [|split; [exact Ht6|exact Ho6]].
    now apply et_last.
  - destruct (IH _ _ _ _ _ _ E) as (d7 & out & Htr7 & Ht7 & Ho7).
    exists (EvRead csn cur :: EvSeal key n (e_ad false prev) prev :: (d3 ++ d) ++ d7),
           ((e_hdr n false prev ++ e_ct n false prev) ++ out).
    split; [now apply et_more|]. split.
    + rewrite Ht7, Ht6. rewrite <- !app_assoc. cbn [app]. now rewrite <- ?app_assoc.
    + rewrite Ho7, Ho6. now rewrite <- !app_assoc.
Qed.

Theorem enc_chunks_tr s res s' :
  encrypt_chunks P key aad cs s = (res, s') ->
  exists d out, enc_top d res out /\ trace s' = trace s ++ d /\ w_out (wtr s') = w_out (wtr s) ++ out.
Proof.
  unfold encrypt_chunks. intros E.
  unfold bind at 1 in E. destruct (m_read EIORead csn s) as [r1 s1] eqn:E1.
  pose proof (m_read_cases _ _ _ _ _ E1) as (Hw1 & Hr1).
  destruct r1 as [first|e|w|]; try contradiction.
  2:{ injection E as <- <-. destruct Hr1 as (ie & -> & Hl1 & _).
      exists [EvReadErr csn ie], []. rewrite app_nil_r, Hw1. repeat split; [constructor|].
      now apply trace_cons. }
  destruct Hr1 as (Hl1 & Hlen1 & _).
  pose proof (trace_cons _ _ _ Hl1) as Ht1.
  replace (match first with [] => true | _ :: _ => false end) with (is_nil first) in E by reflexivity.
  destruct (enc_loop_tr _ _ _ _ _ _ _ E) as (d & out & Htr & Ht & Ho).
  exists (EvRead csn first :: d), out. split; [now apply top_go|]. split.
  - rewrite Ht, Ht1. now rewrite <- app_assoc.
  - now rewrite Ho, Hw1.
Qed.

End EncShape.
