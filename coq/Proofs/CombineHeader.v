(* Proofs/CombineHeader.v — header inversion of key_decrypt / pass_decrypt for EVERY io state (any offered
   bytes, any script): a run either stops in the header with the writer untouched, or it consumed
   magic ++ salt (resp. prologue ++ 128-byte handshake that verified) and continued as decrypt_chunks
   under the derived key on the remaining bytes. *)
From Kestrel Require Import Bytes BytesFacts Outcome IO IOFacts Prims.
From Kestrel.gen Require Import Extracted.
From Kestrel.Model Require Import AeadWrap Chunks Noise NoiseSpec Files EventPreds FilesSpec CombineDefs.
From Kestrel.Proofs Require Import MonadFacts ChunksDec NoiseFacts FilesFacts CombineFiles.
From Coq Require Import ZifyBool ZifyNat ZifyN.
Local Open Scope N_scope.

Section Header.
Variable P : prims.

Theorem pass_decrypt_inv pw s res s' :
  pass_decrypt P pw s = (res, s') ->
  (exists e d, res = Err e /\ header_err e /\ wtr s' = wtr s /\ log s' = d ++ log s /\ Forall is_read_ev d) \/
  (exists salt sb d, length salt = 32%nat /\
     r_data (rdr s) = x_pass_file_magic ++ salt ++ r_data (rdr sb) /\
     wtr sb = wtr s /\ log sb = kdf_ev pw salt :: d ++ log s /\ Forall is_read_ev d /\ Forall benign d /\
     decrypt_chunks P (kdf P pw salt) x_pass_file_magic cs_const sb = (res, s')).
Proof.
  intros E. unfold pass_decrypt in E. unfold bind at 1 in E.
  destruct (m_read_exact d_read_err (N.to_nat x_dec_magic_len) s) as [r1 s1] eqn:E1.
  pose proof (m_read_exact_cases _ _ _ _ _ E1) as (Hw1 & d1 & Hl1 & Hev1 & H1).
  destruct r1 as [magic|e|w|]; try contradiction.
  2:{ injection E as <- <-. left. exists e, d1. destruct H1 as ((ie & ->) & _).
      repeat split; try assumption. unfold d_read_err. destruct ie; exact I. }
  destruct H1 as (Hlm & Hd1 & Hb1).
  destruct (valid_file_format magic) as [[|]|] eqn:Ev.
  1,3: (injection E as <- <-; left; eexists; exists d1; repeat split; try eassumption; exact I).
  apply vff_pass_iff in Ev. subst magic.
  unfold bind at 1 in E.
  destruct (m_read_exact d_read_err (N.to_nat x_dec_salt_len) s1) as [r2 s2] eqn:E2.
  pose proof (m_read_exact_cases _ _ _ _ _ E2) as (Hw2 & d2 & Hl2 & Hev2 & H2).
  destruct r2 as [salt|e|w|]; try contradiction.
  2:{ injection E as <- <-. left. exists e, (d2 ++ d1). destruct H2 as ((ie & ->) & _).
      split; [reflexivity|]. split; [unfold d_read_err; destruct ie; exact I|].
      split; [now rewrite Hw2, Hw1|]. split; [rewrite Hl2, Hl1; now rewrite app_assoc|].
      apply Forall_app; split; assumption. }
  destruct H2 as (Hls & Hd2 & Hb2). change (N.to_nat x_dec_salt_len) with 32%nat in Hls.
  cbv zeta in E. unfold bind, emit in E. rewrite kdf_dec in E.
  right. exists salt, (with_log s2 (kdf_ev pw salt)), (d2 ++ d1).
  split; [exact Hls|]. split; [cbn [rdr with_log]; rewrite Hd1, Hd2; reflexivity|].
  split; [cbn [wtr with_log]; now rewrite Hw2, Hw1|].
  split; [cbn [log with_log]; rewrite Hl2, Hl1; now rewrite app_assoc|].
  split; [apply Forall_app; split; assumption|]. split; [apply Forall_app; split; assumption|].
  exact E.
Qed.

Theorem key_decrypt_inv r rpk s res s' :
  key_decrypt P r rpk s = (res, s') ->
  (* A: stopped before the handshake was complete *)
  (exists e d, res = Err e /\ pre_hs_err e /\ wtr s' = wtr s /\ log s' = d ++ log s /\ Forall is_read_ev d /\
     ((exists ie, e = DIORead ie) \/
      (exists pro, length pro = 4%nat /\ r_data (rdr s) = pro ++ r_data (rdr s') /\ pro <> x_prologue))) \/
  (* B: prologue and 128 handshake bytes were read, the handshake did not verify *)
  (exists msg d, length msg = 128%nat /\
     r_data (rdr s) = x_prologue ++ msg ++ r_data (rdr s') /\
     (forall x, noise_decrypt P r rpk x_prologue msg <> Ok x) /\
     res = noise_fail (noise_decrypt P r rpk x_prologue msg) /\
     wtr s' = wtr s /\ log s' = d ++ log s /\ Forall is_read_ev d /\ Forall benign d) \/
  (* C: the handshake verified; the chunk phase ran on the remaining bytes *)
  (exists msg sb d payload spk hh r3, length msg = 128%nat /\
     r_data (rdr s) = x_prologue ++ msg ++ r_data (rdr sb) /\
     noise_decrypt P r rpk x_prologue msg = Ok (payload, spk, hh) /\
     wtr sb = wtr s /\ log sb = d ++ log s /\ Forall is_read_ev d /\ Forall benign d /\
     decrypt_chunks P (file_key P payload hh) [] cs_const sb = (r3, s') /\
     res = with_sender spk r3).
Proof.
  intros E. unfold key_decrypt in E. unfold bind at 1 in E.
  destruct (m_read_exact d_read_err (N.to_nat x_dec_prologue_len) s) as [r1 s1] eqn:E1.
  pose proof (m_read_exact_cases _ _ _ _ _ E1) as (Hw1 & d1 & Hl1 & Hev1 & H1).
  destruct r1 as [pro|e|w|]; try contradiction.
  2:{ injection E as <- <-. left. destruct H1 as ((ie & ->) & _). eexists; exists d1.
      split; [reflexivity|]. split; [unfold d_read_err; destruct ie; exact I|].
      repeat (split; [assumption|]). left. unfold d_read_err. destruct ie; eauto. }
  destruct H1 as (Hlm & Hd1 & Hb1). change (N.to_nat x_dec_prologue_len) with 4%nat in Hlm.
  destruct (valid_file_format pro) as [[|]|] eqn:Ev.
  2,3: (injection E as <- <-; left; eexists; exists d1; split; [reflexivity|]; split; [exact I|];
        repeat (split; [assumption|]); right; exists pro; repeat (split; [assumption|]);
        intros ->; rewrite vff_prologue in Ev; discriminate Ev).
  apply vff_asym_iff in Ev. subst pro.
  unfold bind at 1 in E.
  destruct (m_read_exact d_read_err (N.to_nat x_dec_handshake_len) s1) as [r2 s2] eqn:E2.
  pose proof (m_read_exact_cases _ _ _ _ _ E2) as (Hw2 & d2 & Hl2 & Hev2 & H2).
  assert (Hw12 : wtr s2 = wtr s) by (now rewrite Hw2, Hw1).
  assert (Hl12 : log s2 = (d2 ++ d1) ++ log s) by (rewrite Hl2, Hl1; now rewrite app_assoc).
  assert (Hev12 : Forall is_read_ev (d2 ++ d1)) by (apply Forall_app; split; assumption).
  destruct r2 as [msg|e|w|]; try contradiction.
  2:{ injection E as <- <-. left. destruct H2 as ((ie & ->) & _). eexists; exists (d2 ++ d1).
      split; [reflexivity|]. split; [unfold d_read_err; destruct ie; exact I|].
      repeat (split; [assumption|]). left. unfold d_read_err. destruct ie; eauto. }
  destruct H2 as (Hls & Hd2 & Hb2). change (N.to_nat x_dec_handshake_len) with 128%nat in Hls.
  assert (Hb12 : Forall benign (d2 ++ d1)) by (apply Forall_app; split; assumption).
  assert (Hd12 : r_data (rdr s) = x_prologue ++ msg ++ r_data (rdr s2)) by (rewrite Hd1, Hd2; reflexivity).
  destruct (noise_decrypt P r rpk x_prologue msg) as [[[payload spk] hh]|ne|w|] eqn:En.
  2-4: (injection E as <- <-; right; left; exists msg, (d2 ++ d1); rewrite En;
        split; [exact Hls|]; split; [exact Hd12|]; split; [discriminate|]; split; [reflexivity|]; auto).
  right. right. rewrite file_key_dec in E. unfold bind in E.
  destruct (decrypt_chunks P (file_key P payload hh) [] cs_const s2) as [r3 s3] eqn:E3.
  exists msg, s2, (d2 ++ d1), payload, spk, hh, r3.
  split; [exact Hls|]. split; [exact Hd12|]. split; [exact En|].
  split; [exact Hw12|]. split; [exact Hl12|]. split; [exact Hev12|]. split; [exact Hb12|].
  destruct r3 as [[]|e|w|]; injection E as <- <-; (split; [exact E3|reflexivity]).
Qed.

End Header.

Section Closure.
Print Assumptions pass_decrypt_inv.
Print Assumptions key_decrypt_inv.
End Closure.
