(* Proofs/SalsaRefine.v — the Rust salsa_xor computes the RFC Salsa20/8 core of (tmp xor inn). *)
From Kestrel Require Import Bytes BytesFacts Outcome.
From Kestrel.Spec Require Import Salsa.
From Kestrel.Model Require Import ScryptImpl.
From Kestrel.Proofs Require Import ImplFacts.
From Coq Require Import ZifyBool ZifyNat ZifyN.
Local Open Scope N_scope.
Ltac Zify.zify_post_hook ::= Z.div_mod_to_equations.

Definition list_of (s : st16) : list N :=
  let '(x0, x1, x2, x3, x4, x5, x6, x7, x8, x9, x10, x11, x12, x13, x14, x15) := s in
  [x0; x1; x2; x3; x4; x5; x6; x7; x8; x9; x10; x11; x12; x13; x14; x15].

Ltac destruct_st16 s :=
  destruct s as [[[[[[[[[[[[[[[?x0 ?x1] ?x2] ?x3] ?x4] ?x5] ?x6] ?x7] ?x8] ?x9] ?x10] ?x11] ?x12] ?x13] ?x14] ?x15].

Lemma list_of_length s : length (list_of s) = 16%nat.
Proof. destruct_st16 s. reflexivity. Qed.

(* one pass of the Rust loop body is the RFC's 32 assignments *)
Lemma dround_spec s : double_round (list_of s) = list_of (dround s).
Proof. destruct_st16 s. reflexivity. Qed.

Lemma feed_forward_spec x w : add32_words (list_of x) (list_of w) = list_of (feed_forward x w).
Proof. destruct_st16 x. destruct_st16 w. reflexivity. Qed.

Lemma salsa_rounds_spec w :
  salsa20_8 (list_of w) = list_of (feed_forward (dround (dround (dround (dround w)))) w).
Proof. unfold salsa20_8. rewrite !dround_spec. apply feed_forward_spec. Qed.

(* destruct a list known to have at least 16 elements into 16 heads and a tail *)
Ltac destruct16 l H :=
  do 16 (destruct l as [|? l]; [exfalso; cbn [length] in H; lia|]).

Lemma read16_ok tmp inn : (16 <= length tmp)%nat -> (16 <= length inn)%nat ->
  exists w, read16 tmp inn = Ok w /\ list_of w = xor_bytes (firstn 16 tmp) (firstn 16 inn).
Proof.
  intros Ht Hi. destruct16 tmp Ht. destruct16 inn Hi.
  eexists. split; reflexivity.
Qed.

Lemma wr_ok out tmp i v : (N.to_nat i < length out)%nat -> (N.to_nat i < length tmp)%nat ->
  wr (out, tmp) i v = Ok (lupd out (N.to_nat i) v, lupd tmp (N.to_nat i) v).
Proof. intros Ho Ht. unfold wr. rewrite !set_idx_ok by assumption. reflexivity. Qed.

Lemma write16_ok out tmp x : (16 <= length out)%nat -> (16 <= length tmp)%nat ->
  write16 out tmp x = Ok (list_of x ++ skipn 16 out, list_of x ++ skipn 16 tmp).
Proof.
  intros Ho Ht. destruct_st16 x. destruct16 out Ho. destruct16 tmp Ht.
  unfold write16.
  repeat (rewrite wr_ok by (rewrite ?lupd_length; cbn [length]; lia); cbn [obind]).
  reflexivity.
Qed.

(* salsa_xor(tmp, inn, out): both tmp[..16] and out[..16] become Salsa20/8(tmp[..16] xor inn[..16]);
   no index is out of range as soon as the three slices have 16 elements. *)
Theorem salsa_xor_spec tmp inn out :
  (16 <= length tmp)%nat -> (16 <= length inn)%nat -> (16 <= length out)%nat ->
  salsa_xor tmp inn out =
    Ok (salsa20_8 (xor_bytes (firstn 16 tmp) (firstn 16 inn)) ++ skipn 16 tmp,
        salsa20_8 (xor_bytes (firstn 16 tmp) (firstn 16 inn)) ++ skipn 16 out).
Proof.
  intros Ht Hi Ho. unfold salsa_xor.
  destruct (read16_ok tmp inn Ht Hi) as (w & -> & Hw). cbn [obind].
  rewrite write16_ok by assumption. cbn [obind].
  rewrite <- Hw, salsa_rounds_spec. reflexivity.
Qed.

(* the special case of exactly sixteen words everywhere *)
Corollary salsa_xor_spec16 tmp inn out :
  length tmp = 16%nat -> length inn = 16%nat -> length out = 16%nat ->
  salsa_xor tmp inn out = Ok (salsa20_8 (xor_bytes tmp inn), salsa20_8 (xor_bytes tmp inn)).
Proof.
  intros Ht Hi Ho. rewrite salsa_xor_spec by lia.
  rewrite (firstn_all2 tmp), (firstn_all2 inn), (skipn_all2 tmp), (skipn_all2 out), !app_nil_r by lia.
  reflexivity.
Qed.
