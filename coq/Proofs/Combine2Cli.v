(* Proofs/Combine2Cli.v — CLI theorems (Proofs/CliFacts.v) composed with the library theorems
   (Proofs/Combine2Fail.v, Proofs/ChunksAuth.v, Proofs/FilesFacts.v).

   C13:  a decrypt command whose library run contains no successful AEAD open leaves the file system as it was;
         an encrypt command whose key exchange is refused leaves the file system as it was;
         whatever a decrypt command leaves at the output path is an authenticated prefix.
   C12:  a decrypt command that succeeds has delivered the complete authenticated plaintext. *)
From Kestrel Require Import Bytes BytesFacts Outcome IO IOFacts Prims.
From Kestrel.gen Require Import Extracted.
From Kestrel.Model Require Import AeadWrap Chunks Noise Files FilesSpec EventPreds KeyringText Cli Combine2Defs.
From Kestrel.Proofs Require Import MonadFacts ChunksDec ChunksAuth ChunksOpen FilesFacts CliFacts Combine2Fail.
From Coq Require Import ZifyBool ZifyNat ZifyN.
Local Open Scope N_scope.

Lemma read_evs_untouched s : Forall is_read_ev (log s) -> sink_touched s = false.
Proof. intros H. apply no_out_untouched. now apply read_evs_no_out. Qed.

Section Cli.
Variable P : prims.
Variable pk_ok sk_ok : text -> bool.
Variable unlock : text -> bytes -> outcome kerr bytes.
Variable decode_pk : text -> outcome kerr bytes.
Variable encode_pk : bytes -> text.
Variable utf8_decode : bytes -> option text.

Notation cmd_encrypt := (cmd_encrypt P pk_ok sk_ok unlock decode_pk utf8_decode).
Notation cmd_decrypt := (cmd_decrypt P pk_ok sk_ok unlock decode_pk encode_pk utf8_decode).
Notation encrypt_plan := (encrypt_plan pk_ok sk_ok unlock decode_pk utf8_decode).
Notation decrypt_plan := (decrypt_plan pk_ok sk_ok unlock decode_pk utf8_decode).

(* ====================================================================================== *)
(* C13, decrypt side                                                                       *)
(* ====================================================================================== *)
Section NoOpen.
Hypothesis HH : hash_ok P.

(* password decrypt: no successful AEAD open in the library run (wrong password, corrupted header / salt,
   corrupted or truncated first chunk, not a kestrel file, a key file) => no write/flush call was made, the file
   system is unchanged (nothing created, nothing truncated), stdout is empty, the exit code is 1 *)
Theorem pass_decrypt_cli_no_open_leaves_fs w o j :
  pass_decrypt_plan w o = inr j ->
  no_open_ok (log (snd (run_pdec P j))) ->
  sink_touched (snd (run_pdec P j)) = false /\
  new_fs (cmd_pass_decrypt P w o) = fs w /\
  stdout (cmd_pass_decrypt P w o) = [] /\
  exit_code (cmd_pass_decrypt P w o) = 1 /\
  (status (cmd_pass_decrypt P w o) = SPassDecryptAuth \/ exists e, status (cmd_pass_decrypt P w o) = SDecryptFailed e).
Proof.
  intros Hp Hno. destruct (run_pdec P j) as [res s'] eqn:Er. cbn [snd] in Hno.
  pose proof Er as Er0. rewrite run_pdec_eq in Er.
  destruct (pass_decrypt_no_open_no_output P HH _ _ _ _ (log s') Er) as (Ho & Hev & Hres);
    [cbn; now rewrite app_nil_r|exact Hno|].
  assert (Ht : sink_touched (snd (run_pdec P j)) = false).
  { rewrite Er0. cbn [snd]. now apply no_out_untouched. }
  split; [rewrite Er0 in Ht; exact Ht|].
  split; [exact (pass_decrypt_no_write_leaves_fs P w o j Hp Ht)|].
  unfold Cli.cmd_pass_decrypt.
  destruct (stream_plan_run w (po_outfile o) _ (run_pdec P) (fun _ => fin_pdec) j Hp) as (Hst & _ & Hso).
  split.
  { rewrite Hso. unfold out_stdout. rewrite Er0. cbn [snd]. destruct (po_outfile o); [reflexivity|].
    rewrite Ho. reflexivity. }
  assert (Hfst : exists e, fst (run_pdec P j) = Err e).
  { rewrite Er0. cbn [fst]. destruct Hres as [-> | [-> | [[e ->] | [-> | ->]]]]; eauto. }
  destruct Hfst as (e & He).
  destruct (stream_err w (po_outfile o) _ (run_pdec P) (fun _ => fin_pdec) j e Hp He) as [Hc Hs].
  split; [rewrite Hc; apply fin_pdec_err|]. rewrite Hs.
  destruct e; cbn [fin_pdec]; eauto.
Qed.

(* key decrypt: the same; a panic inside the handshake code would give exit code 101, so only "not 0" is claimed *)
Theorem decrypt_cli_no_open_leaves_fs w o j :
  decrypt_plan w o = inr j ->
  no_open_ok (log (snd (run_dec P j))) ->
  sink_touched (snd (run_dec P j)) = false /\
  new_fs (cmd_decrypt w o) = fs w /\
  stdout (cmd_decrypt w o) = [] /\
  is_success (status (cmd_decrypt w o)) = false /\
  exit_code (cmd_decrypt w o) <> 0 /\
  (forall e, fst (run_dec P j) = Err e -> exit_code (cmd_decrypt w o) = 1).
Proof.
  intros Hp Hno. destruct (run_dec P j) as [res s'] eqn:Er. cbn [snd] in Hno.
  pose proof Er as Er0. rewrite run_dec_eq in Er.
  destruct (key_decrypt_no_open_no_output P HH _ _ _ _ _ (log s') Er) as (Ho & Hev & Hres);
    [cbn; now rewrite app_nil_r|exact Hno|].
  assert (Ht : sink_touched (snd (run_dec P j)) = false).
  { rewrite Er0. cbn [snd]. now apply no_out_untouched. }
  split; [rewrite Er0 in Ht; exact Ht|].
  split; [exact (decrypt_no_write_leaves_fs P pk_ok sk_ok unlock decode_pk encode_pk utf8_decode w o j Hp Ht)|].
  unfold Cli.cmd_decrypt.
  destruct (stream_plan_run w (do_outfile o) _ (run_dec P) (fun j => fin_dec encode_pk (dj_keys j)) j Hp) as (Hst & _ & Hso).
  split.
  { rewrite Hso. unfold out_stdout. rewrite Er0. cbn [snd]. destruct (do_outfile o); [reflexivity|].
    rewrite Ho. reflexivity. }
  assert (Hns : is_success (status (stream_cmd w (do_outfile o) (decrypt_plan w o) (run_dec P)
                                      (fun j => fin_dec encode_pk (dj_keys j)))) = false).
  { rewrite Hst. rewrite Er0. cbn [fst].
    destruct Hres as [-> | [-> | [[e ->] | [-> | [-> | [[ne ->] | [[t ->] | ->]]]]]]]; reflexivity. }
  split; [exact Hns|]. split.
  - intros Hc. pose proof (stream_wf w (do_outfile o) (decrypt_plan w o) (run_dec P)
                             (fun j => fin_dec encode_pk (dj_keys j))) as Hwf.
    apply (wf_exit_iff _ Hwf) in Hc. rewrite Hc in Hns. discriminate.
  - intros e He.
    assert (He' : fst (run_dec P j) = Err e) by (rewrite Er0; exact He).
    destruct (stream_err w (do_outfile o) _ (run_dec P) (fun j => fin_dec encode_pk (dj_keys j)) j e Hp He') as [Hc _].
    rewrite Hc. apply fin_dec_err.
Qed.

End NoOpen.

(* ====================================================================================== *)
(* C13, encrypt side: a refused key exchange (an all-zero DH output makes noise_encrypt fail)  *)
(* ====================================================================================== *)
Theorem encrypt_cli_refused_exchange_leaves_fs w o j fresh_pk fresh_e ne :
  encrypt_plan w o = inr j -> length fresh_pk = 32%nat ->
  noise_encrypt P fresh_e (ej_s j) (ej_spk j) (ej_r j) None None x_prologue fresh_pk = Err ne ->
  new_fs (cmd_encrypt w o fresh_pk fresh_e) = fs w /\
  stdout (cmd_encrypt w o fresh_pk fresh_e) = [] /\
  exit_code (cmd_encrypt w o fresh_pk fresh_e) = 1 /\
  status (cmd_encrypt w o fresh_pk fresh_e) = SEncryptFailed EOther.
Proof.
  intros Hp Hl Hn.
  assert (Er : run_enc P fresh_pk fresh_e j = (Err EOther, job_io (enc_fed P fresh_pk fresh_e j) (ej_dir j) (ej_bad j))).
  { rewrite run_enc_eq. apply (key_encrypt_dh_zero P fresh_pk fresh_e _ _ _ None None None _ ne); [exact Hl|exact Hn]. }
  assert (Ht : sink_touched (snd (run_enc P fresh_pk fresh_e j)) = false) by (rewrite Er; reflexivity).
  split; [exact (encrypt_no_write_leaves_fs P pk_ok sk_ok unlock decode_pk utf8_decode w o fresh_pk fresh_e j Hp Ht)|].
  unfold Cli.cmd_encrypt.
  destruct (stream_plan_run w (eo_outfile o) _ (run_enc P fresh_pk fresh_e) (fun _ => fin_enc) j Hp) as (_ & _ & Hso).
  split; [rewrite Hso, Er; unfold out_stdout; now destruct (eo_outfile o)|].
  assert (He : fst (run_enc P fresh_pk fresh_e j) = Err EOther) by now rewrite Er.
  destruct (stream_err w (eo_outfile o) _ (run_enc P fresh_pk fresh_e) (fun _ => fin_enc) j EOther Hp He) as [Hc Hs].
  split; [exact Hc|exact Hs].
Qed.

(* the concrete trigger: one of the two DH results of the handshake is all zero *)
Theorem encrypt_cli_dh_zero_leaves_fs w o j fresh_pk fresh_e :
  hash_ok P ->
  encrypt_plan w o = inr j ->
  length fresh_pk = 32%nat -> length fresh_e = 32%nat -> length (ej_s j) = 32%nat -> length (ej_r j) = 32%nat ->
  all_zero (p_dh P fresh_e (ej_r j)) = true \/ all_zero (p_dh P (ej_s j) (ej_r j)) = true ->
  new_fs (cmd_encrypt w o fresh_pk fresh_e) = fs w /\
  stdout (cmd_encrypt w o fresh_pk fresh_e) = [] /\
  exit_code (cmd_encrypt w o fresh_pk fresh_e) = 1 /\
  status (cmd_encrypt w o fresh_pk fresh_e) = SEncryptFailed EOther.
Proof.
  intros HH Hp Hl He Hs Hr Hz.
  assert (Er : run_enc P fresh_pk fresh_e j = (Err EOther, job_io (enc_fed P fresh_pk fresh_e j) (ej_dir j) (ej_bad j))).
  { rewrite run_enc_eq.
    apply (key_encrypt_dh_zero_concrete P fresh_pk fresh_e (ej_s j) (ej_spk j) (ej_r j) None None None _
             fresh_e (dh_pub P fresh_e) HH); try assumption. reflexivity. }
  assert (Ht : sink_touched (snd (run_enc P fresh_pk fresh_e j)) = false) by (rewrite Er; reflexivity).
  split; [exact (encrypt_no_write_leaves_fs P pk_ok sk_ok unlock decode_pk utf8_decode w o fresh_pk fresh_e j Hp Ht)|].
  unfold Cli.cmd_encrypt.
  destruct (stream_plan_run w (eo_outfile o) _ (run_enc P fresh_pk fresh_e) (fun _ => fin_enc) j Hp) as (_ & _ & Hso).
  split; [rewrite Hso, Er; unfold out_stdout; now destruct (eo_outfile o)|].
  assert (He' : fst (run_enc P fresh_pk fresh_e j) = Err EOther) by now rewrite Er.
  destruct (stream_err w (eo_outfile o) _ (run_enc P fresh_pk fresh_e) (fun _ => fin_enc) j EOther Hp He') as [Hc Hst].
  split; [exact Hc|exact Hst].
Qed.

(* ====================================================================================== *)
(* C13 second sentence / C12: what a decrypt command leaves at the output is authenticated   *)
(* ====================================================================================== *)
Section Auth.
Hypothesis HA : aead_ok P.
Hypothesis HH : hash_ok P.

(* password decrypt with -o F, ANY outcome: either the file system is unchanged, or the input has a complete header
   and — for every honest chunk list such that no successful open of the run is a forgery — F holds a PREFIX of the
   honest plaintext (all of it when the command succeeded); no other path changed; a library error gives exit 1. *)
Theorem pass_decrypt_cli_authenticated_prefix w o j F :
  pass_decrypt_plan w o = inr j -> po_outfile o = Some F ->
  new_fs (cmd_pass_decrypt P w o) = fs w
  \/
  (exists salt rest, length salt = 32%nat /\ pdec_fed P j = x_pass_file_magic ++ salt ++ rest /\
     (forall q, fs_target (fs w) q <> fs_target (fs w) F -> fs_get (new_fs (cmd_pass_decrypt P w o)) q = fs_get (fs w) q) /\
     (forall e, fst (run_pdec P j) = Err e -> exit_code (cmd_pass_decrypt P w o) = 1) /\
     forall chunks,
       ChunksAuth.no_forgery P (kdf P (pj_pw j) salt) x_pass_file_magic chunks (log (snd (run_pdec P j))) ->
       exists written tl,
         fs_get (new_fs (cmd_pass_decrypt P w o)) F = Some written /\ written ++ tl = concat chunks /\
         (is_success (status (cmd_pass_decrypt P w o)) = true -> written = concat chunks)).
Proof.
  intros Hp Ho.
  destruct (sink_touched (snd (run_pdec P j))) eqn:Ht.
  2:{ left. exact (pass_decrypt_no_write_leaves_fs P w o j Hp Ht). }
  destruct (pass_decrypt_plan_inv w o j Hp) as (_ & _ & _ & Hends). rewrite Ho in Hends.
  destruct (pj_bad j) eqn:Hb.
  { left. destruct (fs_create_target (fs w) F) as [cp|] eqn:Hc.
    - pose proof (proj2 (job_ends_bad_iff _ _ _ _ _ _ _ Hends) (ex_intro _ cp Hc)) as Hf. discriminate Hf.
    - unfold Cli.cmd_pass_decrypt. now destruct (stream_bad_sink w (po_outfile o) _ (run_pdec P) (fun _ => fin_pdec) j F Hp Ho Hc). }
  destruct (proj1 (job_ends_bad_iff _ _ _ _ _ _ _ Hends) eq_refl) as [cp Hc].
  right.
  destruct (pass_decrypt_late_failure_keeps_prefix P w o j F cp Hp Ho Hc Ht) as (Hg & Hq & _ & Hex).
  destruct (run_pdec P j) as [res s'] eqn:Er. rewrite run_pdec_eq, Hb in Er. cbn [fst snd] in *.
  destruct (pass_decrypt_decompose P _ _ _ _ Er) as [(_ & _ & d & Hd & Hev)|(salt & s1 & d & Hls & Hw & _ & _ & Hdata & E3)].
  { exfalso. cbn in Hd. rewrite app_nil_r in Hd. rewrite <- Hd in Hev. rewrite (read_evs_untouched _ Hev) in Ht. discriminate. }
  exists salt, (r_data (rdr s1)). split; [exact Hls|]. split; [exact Hdata|]. split; [exact Hq|].
  split; [intros e He; now destruct (Hex e He)|].
  intros chunks NF.
  assert (Hkey : length (kdf P (pj_pw j) salt) = 32%nat) by (unfold kdf; rewrite (scrypt_len P HH); reflexivity).
  destruct (dec_auth_file P _ x_pass_file_magic cs_const Hkey HA chunks _ _ _ _ E3 NF) as [(wr & tl & H1 & H2) H3].
  cbn [wtr with_log] in H1, H3. rewrite Hw in H1, H3. cbn in H1, H3.
  exists wr, tl. split; [rewrite Hg, H1; reflexivity|]. split; [exact H2|].
  intros Hs. unfold Cli.cmd_pass_decrypt in Hs.
  destruct (stream_plan_run w (po_outfile o) _ (run_pdec P) (fun _ => fin_pdec) j Hp) as (Hst & _).
  rewrite Hst in Hs. rewrite run_pdec_eq, Hb in Hs. rewrite Er in Hs. cbn [fst] in Hs.
  apply fin_pdec_success in Hs. destruct Hs as ([] & ->). specialize (H3 eq_refl). rewrite H1 in H3. exact H3.
Qed.

Theorem decrypt_cli_authenticated_prefix w o j F :
  decrypt_plan w o = inr j -> do_outfile o = Some F ->
  new_fs (cmd_decrypt w o) = fs w
  \/
  (exists msg rest payload spk hh, length msg = 128%nat /\ dec_fed P j = x_prologue ++ msg ++ rest /\
     noise_decrypt P (dj_r j) (dj_rpk j) x_prologue msg = Ok (payload, spk, hh) /\
     (forall q, fs_target (fs w) q <> fs_target (fs w) F -> fs_get (new_fs (cmd_decrypt w o)) q = fs_get (fs w) q) /\
     (forall e, fst (run_dec P j) = Err e -> exit_code (cmd_decrypt w o) = 1) /\
     forall chunks,
       ChunksAuth.no_forgery P (file_key P payload hh) [] chunks (log (snd (run_dec P j))) ->
       exists written tl,
         fs_get (new_fs (cmd_decrypt w o)) F = Some written /\ written ++ tl = concat chunks /\
         (is_success (status (cmd_decrypt w o)) = true ->
            written = concat chunks /\ status (cmd_decrypt w o) = sender_status encode_pk (dj_keys j) spk)).
Proof.
  intros Hp Ho.
  destruct (sink_touched (snd (run_dec P j))) eqn:Ht.
  2:{ left. exact (decrypt_no_write_leaves_fs P pk_ok sk_ok unlock decode_pk encode_pk utf8_decode w o j Hp Ht). }
  destruct (decrypt_plan_inv pk_ok sk_ok unlock decode_pk utf8_decode w o j Hp)
    as (rk0 & locked0 & pw0 & _ & _ & _ & _ & _ & _ & _ & _ & Hends). rewrite Ho in Hends.
  destruct (dj_bad j) eqn:Hb.
  { left. destruct (fs_create_target (fs w) F) as [cp|] eqn:Hc.
    - pose proof (proj2 (job_ends_bad_iff _ _ _ _ _ _ _ Hends) (ex_intro _ cp Hc)) as Hf. discriminate Hf.
    - unfold Cli.cmd_decrypt.
      now destruct (stream_bad_sink w (do_outfile o) _ (run_dec P) (fun j => fin_dec encode_pk (dj_keys j)) j F Hp Ho Hc). }
  destruct (proj1 (job_ends_bad_iff _ _ _ _ _ _ _ Hends) eq_refl) as [cp Hc].
  right.
  destruct (decrypt_late_failure_keeps_prefix P pk_ok sk_ok unlock decode_pk encode_pk utf8_decode w o j F cp Hp Ho Hc Ht)
    as (Hg & Hq & _ & Hex).
  destruct (run_dec P j) as [res s'] eqn:Er. rewrite run_dec_eq, Hb in Er. cbn [fst snd] in *.
  destruct (key_decrypt_decompose P _ _ _ _ _ Er)
    as [(_ & _ & d & Hd & Hev)|(msg & payload & spk & hh & s1 & d & r3 & Hlm & En & Hw & _ & _ & Hdata & E3 & Hres)].
  { exfalso. cbn in Hd. rewrite app_nil_r in Hd. rewrite <- Hd in Hev. rewrite (read_evs_untouched _ Hev) in Ht. discriminate. }
  exists msg, (r_data (rdr s1)), payload, spk, hh. split; [exact Hlm|]. split; [exact Hdata|]. split; [exact En|].
  split; [exact Hq|]. split; [intros e He; now destruct (Hex e He)|].
  intros chunks NF.
  assert (Hkey : length (file_key P payload hh) = 32%nat).
  { unfold file_key. rewrite (hkdf_len P HH); [reflexivity|cbn; lia]. }
  destruct (dec_auth_file P _ [] cs_const Hkey HA chunks _ _ _ _ E3 NF) as [(wr & tl & H1 & H2) H3].
  rewrite Hw in H1, H3. cbn in H1, H3.
  exists wr, tl. split; [rewrite Hg, H1; reflexivity|]. split; [exact H2|].
  intros Hs. unfold Cli.cmd_decrypt in Hs |- *.
  destruct (stream_plan_run w (do_outfile o) _ (run_dec P) (fun j => fin_dec encode_pk (dj_keys j)) j Hp) as (Hst & _).
  rewrite Hst in Hs |- *. rewrite run_dec_eq, Hb in Hs |- *. rewrite Er in Hs |- *. cbn [fst] in Hs |- *.
  apply fin_dec_success in Hs. destruct Hs as (a & Ha). rewrite Ha in Hres.
  destruct r3 as [[]|e|t|]; cbn [obind] in Hres; try discriminate. injection Hres as ->.
  specialize (H3 eq_refl). rewrite H1 in H3. split; [exact H3|]. rewrite Ha. reflexivity.
Qed.

(* ---------- C12: exit 0 => the complete authenticated plaintext was delivered ---------- *)
(* delivered (Model/Combine2Defs.v): where the bytes go: the file named by -o, or stdout *)
Theorem cli_pass_decrypt_ok_is_complete_plaintext w o :
  is_success (status (cmd_pass_decrypt P w o)) = true ->
  exists input fed pw salt rest s',
    resolve_input w (po_infile o) = inr input /\ ask_pass w (po_env_pass o) = inr pw /\
    fed = x_pass_file_magic ++ salt ++ rest /\ length salt = 32%nat /\
    pass_decrypt P pw (io0 fed) = (Ok tt, s') /\
    delivered (po_outfile o) (cmd_pass_decrypt P w o) = Some (w_out (wtr s')) /\
    (forall chunks, ChunksAuth.no_forgery P (kdf P pw salt) x_pass_file_magic chunks (log s') ->
      delivered (po_outfile o) (cmd_pass_decrypt P w o) = Some (concat chunks)) /\
    (* the bytes fed to the library are the input's bytes, unless input and output are one file *)
    exists j, pass_decrypt_plan w o = inr j /\ fed = pdec_fed P j /\ (pj_alias j = false -> fed = input).
Proof.
  intros Hs. destruct (pass_decrypt_success_delivers P w o Hs) as (j & s' & Hp & Er & Hi & Hpw & _ & Hdel & Hal).
  destruct (pass_decrypt_decompose P _ _ _ _ Er) as [(Hn & _)|(salt & s1 & d & Hls & Hw & _ & _ & Hdata & E3)].
  { exfalso. exact (Hn tt eq_refl). }
  exists (pj_input j), (pdec_fed P j), (pj_pw j), salt, (r_data (rdr s1)), s'.
  split; [exact Hi|]. split; [exact Hpw|]. split; [exact Hdata|]. split; [exact Hls|]. split; [exact Er|].
  assert (Hd : delivered (po_outfile o) (cmd_pass_decrypt P w o) = Some (w_out (wtr s'))).
  { unfold delivered. destruct (po_outfile o) as [F|]; [now destruct Hdel|]. destruct Hdel as [-> _]. reflexivity. }
  split; [exact Hd|]. split; [|exists j; auto]. intros chunks NF. rewrite Hd. f_equal.
  assert (Hkey : length (kdf P (pj_pw j) salt) = 32%nat) by (unfold kdf; rewrite (scrypt_len P HH); reflexivity).
  destruct (dec_auth_file P _ x_pass_file_magic cs_const Hkey HA chunks _ _ _ _ E3 NF) as [_ H3].
  specialize (H3 eq_refl). cbn [wtr with_log] in H3. rewrite Hw in H3. exact H3.
Qed.

Theorem cli_decrypt_ok_is_complete_plaintext w o :
  is_success (status (cmd_decrypt w o)) = true ->
  exists j msg rest payload spk hh s',
    decrypt_plan w o = inr j /\ resolve_input w (do_infile o) = inr (dj_input j) /\
    dec_fed P j = x_prologue ++ msg ++ rest /\ length msg = 128%nat /\
    noise_decrypt P (dj_r j) (dj_rpk j) x_prologue msg = Ok (payload, spk, hh) /\
    key_decrypt P (dj_r j) (dj_rpk j) (io0 (dec_fed P j)) = (Ok spk, s') /\
    status (cmd_decrypt w o) = sender_status encode_pk (dj_keys j) spk /\
    delivered (do_outfile o) (cmd_decrypt w o) = Some (w_out (wtr s')) /\
    (forall chunks, ChunksAuth.no_forgery P (file_key P payload hh) [] chunks (log s') ->
      delivered (do_outfile o) (cmd_decrypt w o) = Some (concat chunks)) /\
    (* the bytes fed to the library are the input's bytes, unless input and output are one file *)
    (dj_alias j = false -> dec_fed P j = dj_input j).
Proof.
  intros Hs.
  destruct (decrypt_success_delivers P pk_ok sk_ok unlock decode_pk encode_pk utf8_decode w o Hs)
    as (j & sender & s' & Hp & Er & Hi & Hst & Hdel & Hal).
  destruct (key_decrypt_decompose P _ _ _ _ _ Er)
    as [(Hn & _)|(msg & payload & spk & hh & s1 & d & r3 & Hlm & En & Hw & _ & _ & Hdata & E3 & Hres)].
  { exfalso. exact (Hn sender eq_refl). }
  destruct r3 as [[]|e|t|]; cbn [obind] in Hres; try discriminate. injection Hres as ->.
  exists j, msg, (r_data (rdr s1)), payload, spk, hh, s'.
  split; [exact Hp|]. split; [exact Hi|]. split; [exact Hdata|]. split; [exact Hlm|]. split; [exact En|].
  split; [exact Er|]. split; [exact Hst|].
  assert (Hd : delivered (do_outfile o) (cmd_decrypt w o) = Some (w_out (wtr s'))).
  { unfold delivered. destruct (do_outfile o) as [F|]; [now destruct Hdel|]. destruct Hdel as [-> _]. reflexivity. }
  split; [exact Hd|]. split; [|exact Hal]. intros chunks NF. rewrite Hd. f_equal.
  assert (Hkey : length (file_key P payload hh) = 32%nat).
  { unfold file_key. rewrite (hkdf_len P HH); [reflexivity|cbn; lia]. }
  destruct (dec_auth_file P _ [] cs_const Hkey HA chunks _ _ _ _ E3 NF) as [_ H3].
  specialize (H3 eq_refl). rewrite Hw in H3. exact H3.
Qed.

End Auth.
End Cli.

Theorem all_no_write_leaves_fs :
  forall (P : prims) (pk_ok sk_ok : text -> bool) (unlock : text -> bytes -> outcome kerr bytes)
         (decode_pk : text -> outcome kerr bytes) (encode_pk : bytes -> text) (utf8_decode : bytes -> option text),
  (forall w o fpk fe j, encrypt_plan pk_ok sk_ok unlock decode_pk utf8_decode w o = inr j ->
     sink_touched (snd (run_enc P fpk fe j)) = false ->
     new_fs (cmd_encrypt P pk_ok sk_ok unlock decode_pk utf8_decode w o fpk fe) = fs w) /\
  (forall w o j, decrypt_plan pk_ok sk_ok unlock decode_pk utf8_decode w o = inr j ->
     sink_touched (snd (run_dec P j)) = false ->
     new_fs (cmd_decrypt P pk_ok sk_ok unlock decode_pk encode_pk utf8_decode w o) = fs w) /\
  (forall w o salt j, pass_encrypt_plan w o salt = inr j ->
     sink_touched (snd (run_penc P salt j)) = false -> new_fs (cmd_pass_encrypt P w o salt) = fs w) /\
  (forall w o j, pass_decrypt_plan w o = inr j ->
     sink_touched (snd (run_pdec P j)) = false -> new_fs (cmd_pass_decrypt P w o) = fs w).
Proof.
  intros P pk_ok sk_ok unlock decode_pk encode_pk utf8_decode. repeat split.
  - intros w o fpk fe j. apply encrypt_no_write_leaves_fs.
  - intros w o j. apply decrypt_no_write_leaves_fs.
  - intros w o salt j. apply pass_encrypt_no_write_leaves_fs.
  - intros w o j. apply pass_decrypt_no_write_leaves_fs.
Qed.

Print Assumptions pass_decrypt_no_open_no_output.
Print Assumptions key_decrypt_no_open_no_output.
Print Assumptions pass_decrypt_decompose.
Print Assumptions key_decrypt_decompose.
Print Assumptions pass_decrypt_auth_file.
Print Assumptions key_decrypt_auth_file.
Print Assumptions pass_decrypt_cli_no_open_leaves_fs.
Print Assumptions decrypt_cli_no_open_leaves_fs.
Print Assumptions encrypt_cli_refused_exchange_leaves_fs.
Print Assumptions encrypt_cli_dh_zero_leaves_fs.
Print Assumptions pass_decrypt_cli_authenticated_prefix.
Print Assumptions decrypt_cli_authenticated_prefix.
Print Assumptions cli_pass_decrypt_ok_is_complete_plaintext.
Print Assumptions cli_decrypt_ok_is_complete_plaintext.
Print Assumptions all_no_write_leaves_fs.
