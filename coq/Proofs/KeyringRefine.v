(* KeyringRefine.v — the keyring parser model (Model/KeyringText.v) refines, in both directions,
   the declarative specification (Model/KeyringSpec.v); consequences; the written file parses back. *)
From Kestrel Require Import Bytes BytesFacts Outcome.
From Kestrel.Model Require Import KeyringText KeyringSpec.
From Coq Require Import ZifyBool ZifyNat ZifyN.
Local Open Scope N_scope.

(* ====================================================================================== *)
(** * 1. Text primitives                                                                   *)
(* ====================================================================================== *)

Lemma text_eqb_eq : forall a b, text_eqb a b = true <-> a = b.
Proof.
  induction a as [|x a IH]; intros [|y b]; cbn [text_eqb]; split; intros H; try discriminate; auto.
  - apply andb_true_iff in H. destruct H as [Hx Hr]. apply N.eqb_eq in Hx. apply IH in Hr. now subst.
  - injection H as -> ->. apply andb_true_iff. split; [apply N.eqb_refl | now apply IH].
Qed.
Lemma text_eqb_refl a : text_eqb a a = true.
Proof. now apply text_eqb_eq. Qed.
Lemma text_eqb_neq a b : a <> b -> text_eqb a b = false.
Proof. intros H. destruct (text_eqb a b) eqn:E; [|reflexivity]. apply text_eqb_eq in E. contradiction. Qed.

(** starts_with p l  <->  p is a prefix of l *)
Lemma starts_with_iff : forall p l, starts_with p l = true <-> exists r, l = p ++ r.
Proof.
  induction p as [|a p IH]; intros l; cbn [starts_with].
  - split; [intros _; now exists l | reflexivity].
  - destruct l as [|b l].
    + split; [discriminate | intros [r Hr]; discriminate].
    + rewrite andb_true_iff, N.eqb_eq, IH. split.
      * intros [-> [r ->]]. now exists r.
      * intros [r Hr]. cbn in Hr. injection Hr as -> ->. split; [reflexivity | now exists r].
Qed.
Lemma starts_with_app p r : starts_with p (p ++ r) = true.
Proof. apply starts_with_iff. now exists r. Qed.

(** split_once('=') : the first '=' *)
Lemma split_once_eq_app : forall a b, ~ In c_eq a -> split_once_eq (a ++ c_eq :: b) = Some (a, b).
Proof.
  induction a as [|x a IH]; intros b Hn; cbn [app split_once_eq].
  - now rewrite N.eqb_refl.
  - destruct (N.eqb_spec x c_eq) as [->|Hx]; [exfalso; apply Hn; now left|].
    rewrite IH; [reflexivity|]. intros Hi. apply Hn. now right.
Qed.
Lemma split_once_eq_some : forall l a b,
  split_once_eq l = Some (a, b) <-> l = a ++ c_eq :: b /\ ~ In c_eq a.
Proof.
  intros l a b. split.
  - revert a b. induction l as [|x l IH]; intros a b H; cbn [split_once_eq] in H; [discriminate|].
    destruct (N.eqb_spec x c_eq) as [->|Hx].
    + injection H as <- <-. split; [reflexivity | intros []].
    + destruct (split_once_eq l) as [[a' b']|] eqn:E; [|discriminate].
      injection H as <- <-. destruct (IH a' b' eq_refl) as [-> Hn]. split; [reflexivity|].
      intros [Hi|Hi]; [now apply Hx | now apply Hn].
  - intros [-> Hn]. now apply split_once_eq_app.
Qed.
Lemma split_once_eq_none : forall l, split_once_eq l = None <-> ~ In c_eq l.
Proof.
  induction l as [|x l IH]; cbn [split_once_eq].
  - split; [intros _ [] | reflexivity].
  - destruct (N.eqb_spec x c_eq) as [->|Hx].
    + split; [discriminate | intros H; exfalso; apply H; now left].
    + destruct (split_once_eq l) as [[a' b']|] eqn:E.
      * split; [discriminate|]. intros H. exfalso. destruct IH as [_ IH].
        assert (Hn : ~ In c_eq l) by (intros Hi; apply H; now right). now specialize (IH Hn).
      * split; [|reflexivity]. intros _ [Hi|Hi]; [now apply Hx | now apply IH].
Qed.

(** remove_tabs *)
Lemma remove_tabs_app a b : remove_tabs (a ++ b) = remove_tabs a ++ remove_tabs b.
Proof. apply filter_app. Qed.
Lemma remove_tabs_length l : (length (remove_tabs l) <= length l)%nat.
Proof.
  induction l as [|x l IH]; cbn [remove_tabs filter length]; [lia|]. fold (remove_tabs l).
  destruct (negb (x =? c_tab)); cbn [length]; lia.
Qed.
Lemma remove_tabs_no_tab l : remove_tabs l = l <-> ~ In c_tab l.
Proof.
  induction l as [|x l IH]; cbn [remove_tabs filter].
  - split; [intros _ [] | reflexivity].
  - fold (remove_tabs l). destruct (N.eqb_spec x c_tab) as [->|Hx]; cbn [negb].
    + split; [|intros H; exfalso; apply H; now left].
      intros H. exfalso. assert (L : (length (remove_tabs l) <= length l)%nat) by apply remove_tabs_length.
      rewrite H in L. cbn [length] in L. lia.
    + split.
      * intros H. injection H as H. intros [Hi|Hi]; [now apply Hx | now apply IH].
      * intros H. f_equal. apply IH. intros Hi. apply H. now right.
Qed.
Lemma remove_tabs_In c l : In c (remove_tabs l) <-> In c l /\ c <> c_tab.
Proof.
  unfold remove_tabs. rewrite filter_In. split; intros [H1 H2]; split; auto.
  - intros ->. now rewrite N.eqb_refl in H2.
  - now destruct (N.eqb_spec c c_tab).
Qed.

(** trim *)
Lemma trim_start_app_nonempty : forall x y, trim_start x <> [] -> trim_start (x ++ y) = trim_start x ++ y.
Proof.
  induction x as [|c x IH]; intros y H; cbn [trim_start app] in *; [contradiction|].
  destruct (is_ws c); [now apply IH | reflexivity].
Qed.
Lemma trim_start_app_empty : forall x y, trim_start x = [] -> trim_start (x ++ y) = trim_start y.
Proof.
  induction x as [|c x IH]; intros y H; cbn [trim_start app] in *; [reflexivity|].
  destruct (is_ws c); [now apply IH | discriminate].
Qed.
Lemma trim_start_length l : (length (trim_start l) <= length l)%nat.
Proof. induction l as [|c l IH]; cbn [trim_start length]; [lia|]. destruct (is_ws c); cbn [length]; lia. Qed.
Lemma trim_start_fixed_len l : length (trim_start l) = length l -> trim_start l = l.
Proof.
  destruct l as [|c l]; cbn [trim_start length]; [reflexivity|].
  destruct (is_ws c); [|reflexivity]. intros H. pose proof (trim_start_length l). lia.
Qed.
Lemma trim_end_length l : (length (trim_end l) <= length l)%nat.
Proof. unfold trim_end. rewrite rev_length. pose proof (trim_start_length (rev l)) as H. now rewrite rev_length in H. Qed.
Lemma trim_end_nil : trim_end [] = [].
Proof. reflexivity. Qed.
Lemma trim_end_snoc_ws y c : is_ws c = true -> trim_end (y ++ [c]) = trim_end y.
Proof. intros H. unfold trim_end. rewrite rev_app_distr. cbn [rev app trim_start]. now rewrite H. Qed.
Lemma trim_end_app x y : trim_end y <> [] -> trim_end (x ++ y) = x ++ trim_end y.
Proof.
  intros H. unfold trim_end in *. rewrite rev_app_distr, trim_start_app_nonempty.
  - now rewrite rev_app_distr, rev_involutive.
  - intros E. apply H. now rewrite E.
Qed.
Lemma trim_cons_ws c l : is_ws c = true -> trim (c :: l) = trim l.
Proof. intros H. unfold trim. cbn [trim_start]. now rewrite H. Qed.
Lemma trim_cons_nonws c l : is_ws c = false -> trim (c :: l) = trim_end (c :: l).
Proof. intros H. unfold trim. cbn [trim_start]. now rewrite H. Qed.
Lemma trim_snoc_ws x c : is_ws c = true -> trim (x ++ [c]) = trim x.
Proof.
  intros H. unfold trim. destruct (trim_start x) as [|d r] eqn:E.
  - rewrite trim_start_app_empty by assumption. cbn [trim_start]. now rewrite H.
  - rewrite trim_start_app_nonempty by (rewrite E; discriminate). rewrite E. now apply trim_end_snoc_ws.
Qed.
(* a text is a fixed point of trim iff it is one of trim_start and of trim_end *)
Lemma trim_fixed l : trim l = l -> trim_start l = l /\ trim_end l = l.
Proof.
  intros H. assert (S : trim_start l = l).
  { apply trim_start_fixed_len. pose proof (trim_start_length l) as L1.
    pose proof (trim_end_length (trim_start l)) as L2. fold (trim l) in L2. rewrite H in L2. lia. }
  split; [exact S|]. unfold trim in H. now rewrite S in H.
Qed.
Lemma trim_start_no_ws l : Forall (fun c => is_ws c = false) l -> trim_start l = l.
Proof. intros H. destruct H as [|c l Hc Hl]; cbn [trim_start]; [reflexivity | now rewrite Hc]. Qed.
Lemma trim_no_ws l : Forall (fun c => is_ws c = false) l -> trim l = l.
Proof.
  intros H. unfold trim. rewrite trim_start_no_ws by assumption. unfold trim_end.
  rewrite trim_start_no_ws; [apply rev_involutive|]. apply Forall_rev. exact H.
Qed.

(** declarative characterisation of trim: the unique way of writing l = a ++ m ++ b with a, b
    white space only and m neither starting nor ending with white space *)
Definition all_ws (l : text) : Prop := Forall (fun c => is_ws c = true) l.
Definition no_ws_at_ends (m : text) : Prop :=
  (forall c r, m = c :: r -> is_ws c = false) /\ (forall r c, m = r ++ [c] -> is_ws c = false).

Lemma trim_start_split l : exists a, l = a ++ trim_start l /\ all_ws a /\
  (forall c r, trim_start l = c :: r -> is_ws c = false).
Proof.
  induction l as [|c l IH]; cbn [trim_start].
  - exists []. repeat split; [constructor | discriminate].
  - destruct (is_ws c) eqn:E.
    + destruct IH as [a [H1 [H2 H3]]]. exists (c :: a). cbn [app]. rewrite <- H1. repeat split; auto.
      now constructor.
    + exists []. repeat split; [constructor|]. intros c' r H. now injection H as <- <-.
Qed.
Lemma trim_start_all_ws l : all_ws l -> trim_start l = [].
Proof. intros H. induction H as [|c l Hc Hl IH]; cbn [trim_start]; [reflexivity | now rewrite Hc]. Qed.
Lemma trim_end_split l : exists b, l = trim_end l ++ b /\ all_ws b /\
  (forall r c, trim_end l = r ++ [c] -> is_ws c = false).
Proof.
  destruct (trim_start_split (rev l)) as [a [H1 [H2 H3]]]. exists (rev a). unfold trim_end. repeat split.
  - rewrite <- rev_app_distr, <- H1. now rewrite rev_involutive.
  - now apply Forall_rev.
  - intros r c H. apply (H3 c (rev r)). rewrite <- (rev_involutive (trim_start (rev l))), H.
    now rewrite rev_app_distr.
Qed.
Lemma trim_start_suffix_head l c r : trim_start l = c :: r -> exists a, l = a ++ c :: r.
Proof. intros H. destruct (trim_start_split l) as [a [H1 _]]. exists a. now rewrite <- H. Qed.

Lemma trim_iff l m :
  trim l = m <-> exists a b, l = a ++ m ++ b /\ all_ws a /\ all_ws b /\ no_ws_at_ends m.
Proof.
  split.
  - intros <-. destruct (trim_start_split l) as [a [H1 [H2 H3]]].
    destruct (trim_end_split (trim_start l)) as [b [H4 [H5 H6]]]. fold (trim l) in H4, H6.
    exists a, b. repeat split; auto.
    + now rewrite <- H4.
    + intros c r E. rewrite E in H4. cbn [app] in H4. now apply (H3 c (r ++ b)).
  - intros [a [b [-> [Ha [Hb [Hm1 Hm2]]]]]]. unfold trim.
    rewrite trim_start_app_empty by now apply trim_start_all_ws.
    destruct m as [|c m].
    + cbn [app]. now rewrite trim_start_all_ws.
    + cbn [app trim_start]. rewrite (Hm1 c m eq_refl).
      change (c :: m ++ b) with ((c :: m) ++ b). unfold trim_end. rewrite rev_app_distr.
      rewrite trim_start_app_empty by (apply trim_start_all_ws; now apply Forall_rev).
      destruct (rev (c :: m)) as [|d r] eqn:E.
      * apply (f_equal (@length N)) in E. rewrite rev_length in E. discriminate.
      * cbn [trim_start]. assert (Hd : is_ws d = false).
        { apply (Hm2 (rev r) d). rewrite <- (rev_involutive (c :: m)), E. reflexivity. }
        rewrite Hd, <- E. apply rev_involutive.
Qed.

(** lines: three equations that determine it on every text *)
Lemma split_inclusive_nl_line : forall l r, ~ In c_nl l ->
  split_inclusive_nl (l ++ c_nl :: r) = (l ++ [c_nl]) :: split_inclusive_nl r.
Proof.
  induction l as [|c l IH]; intros r Hn; cbn [app split_inclusive_nl].
  - now rewrite N.eqb_refl.
  - destruct (N.eqb_spec c c_nl) as [->|Hc]; [exfalso; apply Hn; now left|].
    rewrite IH; [reflexivity|]. intros Hi. apply Hn. now right.
Qed.
Lemma split_inclusive_nl_last : forall l, ~ In c_nl l -> l <> [] -> split_inclusive_nl l = [l].
Proof.
  induction l as [|c l IH]; intros Hn Hne; [contradiction|]. cbn [split_inclusive_nl].
  destruct (N.eqb_spec c c_nl) as [->|Hc]; [exfalso; apply Hn; now left|].
  destruct l as [|d l]; [reflexivity|]. rewrite IH; [reflexivity| |discriminate].
  intros Hi. apply Hn. now right.
Qed.

Lemma strip_suffix_snoc c l : strip_suffix c (l ++ [c]) = Some l.
Proof. unfold strip_suffix. rewrite rev_app_distr. cbn [rev app]. now rewrite N.eqb_refl, rev_involutive. Qed.
Lemma strip_suffix_not_in c l : ~ In c l -> strip_suffix c l = None.
Proof.
  intros Hn. unfold strip_suffix. destruct (rev l) as [|x r] eqn:E; [reflexivity|].
  destruct (N.eqb_spec x c) as [->|Hx]; [|reflexivity].
  exfalso. apply Hn. apply in_rev. rewrite E. now left.
Qed.
Lemma strip_line_no_nl l : ~ In c_nl l -> strip_line l = l.
Proof. intros H. unfold strip_line. now rewrite strip_suffix_not_in. Qed.

(* what str::lines does to one "...\n" piece: drop the '\n' and then at most one '\r' *)
Definition strip_cr (l : text) : text := match strip_suffix c_cr l with Some l' => l' | None => l end.
Lemma strip_line_nl l : strip_line (l ++ [c_nl]) = strip_cr l.
Proof. unfold strip_line, strip_cr. now rewrite strip_suffix_snoc. Qed.
Lemma strip_cr_cases l : strip_cr l = l \/ l = strip_cr l ++ [c_cr].
Proof.
  unfold strip_cr, strip_suffix. destruct (rev l) as [|x r] eqn:E; [now left|].
  destruct (N.eqb_spec x c_cr) as [->|Hx]; [|now left]. right.
  rewrite <- (rev_involutive l), E. reflexivity.
Qed.

Lemma lines_nil : lines [] = [].
Proof. reflexivity. Qed.
Lemma lines_line l r : ~ In c_nl l -> lines (l ++ c_nl :: r) = strip_cr l :: lines r.
Proof. intros H. unfold lines. rewrite split_inclusive_nl_line by assumption. cbn [map]. now rewrite strip_line_nl. Qed.
Lemma lines_last l : ~ In c_nl l -> l <> [] -> lines l = [l].
Proof. intros H Hne. unfold lines. rewrite split_inclusive_nl_last by assumption. cbn [map]. now rewrite strip_line_no_nl. Qed.

(** cleaning forgets the stripped '\r' *)
Lemma is_ws_cr : is_ws c_cr = true.
Proof. reflexivity. Qed.
Lemma clean_snoc_cr l : clean (l ++ [c_cr]) = clean l.
Proof. unfold clean. rewrite remove_tabs_app. change (remove_tabs [c_cr]) with [c_cr]. now apply trim_snoc_ws. Qed.
Lemma clean_strip_cr l : clean (strip_cr l) = clean l.
Proof. destruct (strip_cr_cases l) as [H|H]; [now rewrite H|]. rewrite H at 2. now rewrite clean_snoc_cr. Qed.

(** appending a line to an arbitrary text *)
Lemma split_inclusive_nl_app_nl : forall t r,
  split_inclusive_nl ((t ++ [c_nl]) ++ r) = split_inclusive_nl (t ++ [c_nl]) ++ split_inclusive_nl r.
Proof.
  induction t as [|c t IH]; intros r; cbn [app split_inclusive_nl].
  - now rewrite N.eqb_refl.
  - destruct (N.eqb_spec c c_nl) as [->|Hc].
    + now rewrite IH.
    + rewrite IH. destruct (split_inclusive_nl (t ++ [c_nl])) as [|l ls] eqn:E; [|reflexivity].
      exfalso. destruct t as [|d t]; cbn [app split_inclusive_nl] in E.
      * rewrite N.eqb_refl in E. discriminate.
      * destruct (d =? c_nl); [discriminate|]. destruct (split_inclusive_nl (t ++ [c_nl])); discriminate.
Qed.
Lemma split_inclusive_nl_snoc_nl : forall t, exists ps l,
  ~ In c_nl l /\
  split_inclusive_nl (t ++ [c_nl]) = ps ++ [l ++ [c_nl]] /\
  split_inclusive_nl t = ps ++ match l with [] => [] | _ => [l] end.
Proof.
  induction t as [|c t IH].
  - exists [], []. cbn. rewrite N.eqb_refl. repeat split. intros [].
  - destruct IH as [ps [l [Hn [H1 H2]]]]. cbn [app split_inclusive_nl].
    destruct (N.eqb_spec c c_nl) as [->|Hc].
    + exists ([c_nl] :: ps), l. rewrite H1, H2. repeat split; auto.
    + rewrite H1, H2. destruct ps as [|p ps].
      * exists [], (c :: l). cbn [app]. repeat split.
        -- intros [Hi|Hi]; [now apply Hc | now apply Hn].
        -- now destruct l.
      * exists ((c :: p) :: ps), l. cbn [app]. repeat split; auto.
Qed.

(* every text falls under exactly one of lines_nil / lines_line / lines_last *)
Lemma text_cases : forall t : text,
  t = [] \/ (exists l r, t = l ++ c_nl :: r /\ ~ In c_nl l) \/ (t <> [] /\ ~ In c_nl t).
Proof.
  induction t as [|c t IH]; [now left|]. right.
  destruct (N.eqb_spec c c_nl) as [->|Hc].
  - left. exists [], t. split; [reflexivity | intros []].
  - destruct IH as [->|[[l [r [-> Hn]]]|[Hne Hn]]].
    + right. split; [discriminate|]. intros [Hi|[]]. now apply Hc.
    + left. exists (c :: l), r. split; [reflexivity|]. intros [Hi|Hi]; [now apply Hc | now apply Hn].
    + right. split; [discriminate|]. intros [Hi|Hi]; [now apply Hc | now apply Hn].
Qed.

(** valid_key_name (repaired): non-empty, at most 128 UTF-8 bytes, no TAB *)
Lemma valid_key_name_iff n :
  valid_key_name n = true <-> n <> [] /\ utf8_len n <= 128 /\ ~ In c_tab n.
Proof.
  unfold valid_key_name, MAX_NAME_SIZE. rewrite negb_true_iff, !orb_false_iff, N.ltb_ge. split.
  - intros [[H1 H2] H3]. repeat split; auto.
    + intros ->. discriminate.
    + intros Hi. assert (E : existsb (fun c => c =? c_tab) n = true).
      { apply existsb_exists. exists c_tab. split; [exact Hi | apply N.eqb_refl]. }
      congruence.
  - intros [H1 [H2 H3]]. repeat split; auto.
    + destruct n; [contradiction | reflexivity].
    + destruct (existsb (fun c => c =? c_tab) n) eqn:E; [|reflexivity].
      apply existsb_exists in E. destruct E as [c [Hi Hc]]. apply N.eqb_eq in Hc. subst. contradiction.
Qed.

(* ====================================================================================== *)
(** * 2. The parser as a machine over classified lines                                     *)
(* ====================================================================================== *)

Definition E_ {A} (k : perr_kind) : outcome perr A := Err (ParseConfig k).

(* state right after a "[Key]" header, with [ks] the keys collected so far *)
Definition after_header (ks : list entry) : pstate := mk_pstate ks None None None true.

Section Refine.
  Variable pk_ok : text -> bool.
  Variable sk_ok : text -> bool.

  Notation step := (step pk_ok sk_ok).
  Notation run := (run pk_ok sk_ok).
  Notation parse_config := (parse_config pk_ok sk_ok).
  Notation section_ok := (section_ok pk_ok sk_ok).
  Notation accepts := (accepts pk_ok sk_ok).

  Definition stepc (st : pstate) (c : lclass) : outcome perr pstate :=
    match c with
    | LHeader =>
        if st_found st then
          match st_name st with
          | None => E_ KeyMustHaveName
          | Some _ =>
            match st_pub st with
            | None => E_ KeyMustHavePublicKey
            | Some _ => obind (add_key (st_keys st) (st_name st) (st_pub st) (st_priv st))
                          (fun keys' => Ok (after_header keys'))
            end
          end
        else Ok (mk_pstate (st_keys st) (st_name st) (st_pub st) (st_priv st) true)
    | LName v =>
        if negb (st_found st) then E_ NameOutsideSection
        else if is_some (st_name st) then E_ DuplicateName
        else if negb (valid_key_name v) then E_ InvalidName
        else Ok (mk_pstate (st_keys st) (Some v) (st_pub st) (st_priv st) (st_found st))
    | LNameNoEq =>
        if negb (st_found st) then E_ NameOutsideSection
        else if is_some (st_name st) then E_ DuplicateName
        else E_ NameMustBeSet
    | LPub v =>
        if negb (st_found st) then E_ PublicKeyOutsideSection
        else if is_some (st_pub st) then E_ DuplicatePublicKey
        else if negb (pk_ok v) then E_ MalformedPublicKey
        else Ok (mk_pstate (st_keys st) (st_name st) (Some v) (st_priv st) (st_found st))
    | LPubNoEq =>
        if negb (st_found st) then E_ PublicKeyOutsideSection
        else if is_some (st_pub st) then E_ DuplicatePublicKey
        else E_ PublicKeyMustBeSet
    | LPriv v =>
        if negb (st_found st) then E_ PrivateKeyOutsideSection
        else if is_some (st_priv st) then E_ DuplicatePrivateKey
        else if negb (sk_ok v) then E_ MalformedPrivateKey
        else Ok (mk_pstate (st_keys st) (st_name st) (st_pub st) (Some v) (st_found st))
    | LPrivNoEq =>
        if negb (st_found st) then E_ PrivateKeyOutsideSection
        else if is_some (st_priv st) then E_ DuplicatePrivateKey
        else E_ PrivateKeyMustBeSet
    | LSkip => Ok st
    | LJunk => E_ InvalidData
    end.

  Fixpoint runc (st : pstate) (cs : list lclass) : outcome perr pstate :=
    match cs with
    | [] => Ok st
    | c :: rest => obind (stepc st c) (fun st' => runc st' rest)
    end.

  (** the model's loop body only looks at the class of the cleaned line *)
  Lemma step_classify st cl : step st cl = stepc st (classify cl).
  Proof.
    unfold step, classify, field_value, stepc, E_, after_header.
    destruct (starts_with s_hdr cl); [reflexivity|].
    destruct (starts_with s_name cl); [destruct (split_once_eq cl) as [[a b]|]; reflexivity|].
    destruct (starts_with s_pub cl); [destruct (split_once_eq cl) as [[a b]|]; reflexivity|].
    destruct (starts_with s_priv cl); [destruct (split_once_eq cl) as [[a b]|]; reflexivity|].
    destruct (starts_with [c_hash] cl || is_empty cl); reflexivity.
  Qed.

  Lemma run_runc : forall ls st, run st ls = runc st (map (fun l => classify (clean l)) ls).
  Proof.
    induction ls as [|l ls IH]; intros st; cbn [KeyringText.run runc map]; [reflexivity|].
    rewrite step_classify. destruct (stepc st (classify (clean l))); cbn [obind]; auto.
  Qed.

  Lemma parse_config_classes t : parse_config t = obind (runc init_state (classes t)) (finish).
  Proof. unfold KeyringText.parse_config, classes. now rewrite run_runc. Qed.

  Lemma runc_app : forall a b st, runc st (a ++ b) = obind (runc st a) (fun st' => runc st' b).
  Proof.
    induction a as [|c a IH]; intros b st; cbn [app runc obind]; [reflexivity|].
    destruct (stepc st c); cbn [obind]; auto.
  Qed.

  Lemma runc_skip : forall x st r, Forall (fun c => c = LSkip) x -> runc st (x ++ r) = runc st r.
  Proof.
    induction x as [|c x IH]; intros st r H; [reflexivity|]. inversion H as [|c' x' Hc Hx]; subst.
    cbn [app runc stepc obind]. now apply IH.
  Qed.

  (** ** add_key *)
  Lemma check_dups_ok : forall ks n p,
    check_dups ks n p = Ok tt <-> ~ In n (map k_name ks) /\ ~ In p (map k_pub ks).
  Proof.
    induction ks as [|k ks IH]; intros n p; cbn [check_dups map In].
    - split; [intros _; split; intros [] | reflexivity].
    - destruct (text_eqb (k_name k) n) eqn:En.
      + apply text_eqb_eq in En. split; [discriminate | intros [H _]; exfalso; apply H; now left].
      + destruct (text_eqb (k_pub k) p) eqn:Ep.
        * apply text_eqb_eq in Ep. split; [discriminate | intros [_ H]; exfalso; apply H; now left].
        * rewrite IH. assert (Hn : k_name k <> n) by (intros Hc; apply text_eqb_eq in Hc; congruence).
          assert (Hp : k_pub k <> p) by (intros Hc; apply text_eqb_eq in Hc; congruence). tauto.
  Qed.
  Lemma check_dups_normal : forall ks n p, check_dups ks n p = Ok tt \/ exists e, check_dups ks n p = Err e.
  Proof.
    induction ks as [|k ks IH]; intros n p; cbn [check_dups]; [now left|].
    destruct (text_eqb (k_name k) n); [right; eauto|]. destruct (text_eqb (k_pub k) p); [right; eauto|]. apply IH.
  Qed.

  Lemma add_key_ok ks n p s ks' :
    add_key ks n p s = Ok ks' <->
    exists n' p', n = Some n' /\ p = Some p' /\
      ~ In n' (map k_name ks) /\ ~ In p' (map k_pub ks) /\ ks' = ks ++ [mk_entry n' p' s].
  Proof.
    unfold add_key. split.
    - intros H. destruct n as [n'|], p as [p'|]; try discriminate. exists n', p'.
      destruct (check_dups ks n' p') as [[]| | |] eqn:E; cbn [obind] in H; try discriminate.
      apply check_dups_ok in E. destruct E as [E1 E2]. injection H as <-. auto.
    - intros [n' [p' [-> [-> [H1 [H2 ->]]]]]]. assert (E : check_dups ks n' p' = Ok tt) by now apply check_dups_ok.
      now rewrite E.
  Qed.
  Lemma add_key_normal ks n p s : normal (add_key ks n p s).
  Proof.
    unfold add_key. destruct n as [n'|], p as [p'|]; cbn [normal]; auto.
    destruct (check_dups_normal ks n' p') as [E|[e E]]; rewrite E; exact I.
  Qed.

  (** ** totality *)
  Lemma stepc_normal st c : normal (stepc st c).
  Proof.
    unfold stepc, E_. destruct c;
      repeat match goal with
             | |- normal (if ?b then _ else _) => destruct b
             | |- normal (match ?o with Some _ => _ | None => _ end) => destruct o
             end; try exact I.
    match goal with
    | |- normal (obind (add_key ?a ?b ?c ?d) _) =>
        pose proof (add_key_normal a b c d) as H; destruct (add_key a b c d); cbn [obind normal] in *; auto
    end.
  Qed.
  Lemma runc_normal : forall cs st, normal (runc st cs).
  Proof.
    induction cs as [|c cs IH]; intros st; cbn [runc]; [exact I|].
    pose proof (stepc_normal st c) as H. destruct (stepc st c); cbn [obind normal] in *; auto.
  Qed.

  (** parse_config never panics and never runs out of fuel: it returns [Ok] or [Err]. *)
  Theorem parse_total t : normal (parse_config t).
  Proof.
    rewrite parse_config_classes. pose proof (runc_normal (classes t) init_state) as H.
    destruct (runc init_state (classes t)) as [st| | |]; cbn [obind normal] in *; auto.
    unfold finish. destruct (negb (st_found st)); [exact I | apply add_key_normal].
  Qed.

  (** ** lines before the first header *)
  Lemma runc_pre : forall pre st st', st_found st = false -> ~ In LHeader pre ->
    (runc st pre = Ok st' <-> Forall (fun c => c = LSkip) pre /\ st' = st).
  Proof.
    induction pre as [|c pre IH]; intros st st' Hf Hh; cbn [runc].
    - split; [intros H; injection H as <-; split; [constructor | reflexivity] | intros [_ ->]; reflexivity].
    - assert (Hh' : ~ In LHeader pre) by (intros Hi; apply Hh; now right).
      destruct c; cbn [stepc obind]; try rewrite Hf; cbn [negb obind E_];
        try (split; [discriminate | intros [Hall _]; inversion Hall as [|c' x' Hc Hx]; discriminate]).
      + exfalso. apply Hh. now left.
      + rewrite IH by assumption. split; intros [H1 H2]; split; auto.
        now inversion H1.
  Qed.

  (** ** one section body *)
  Definition all_true (f : text -> bool) (l : list text) : Prop := Forall (fun v => f v = true) l.

  Lemma opt_list_app_two {A} (o : option A) (x y : A) (l l' : list A) : opt_list o <> x :: l ++ y :: l'.
  Proof.
    intros H. apply (f_equal (@length A)) in H. destruct o; cbn [opt_list length] in H;
      try rewrite app_length in H; cbn [length] in H; lia.
  Qed.

  Ltac destr_conj := repeat match goal with H : _ /\ _ |- _ => destruct H end.
  Ltac body_fwd := let H := fresh in intros H; destr_conj; repeat split; auto;
    try (constructor; [first [exact I | assumption] | assumption]).
  Ltac body_bwd v := let H := fresh in intros H; destr_conj;
    match goal with H1 : Forall body_line (_ :: _) |- _ => inversion H1; subst; clear H1 end;
    match goal with H1 : Forall _ (v :: _) |- _ => inversion H1; subst; clear H1 end;
    repeat split; auto.

  Lemma runc_body : forall b st st', st_found st = true -> ~ In LHeader b ->
    (runc st b = Ok st' <->
       Forall body_line b
       /\ st_keys st' = st_keys st /\ st_found st' = true
       /\ opt_list (st_name st') = opt_list (st_name st) ++ names b /\ all_true valid_key_name (names b)
       /\ opt_list (st_pub st') = opt_list (st_pub st) ++ pubs b /\ all_true pk_ok (pubs b)
       /\ opt_list (st_priv st') = opt_list (st_priv st) ++ privs b /\ all_true sk_ok (privs b)).
  Proof.
    unfold all_true.
    induction b as [|c b IH]; intros st st' Hf Hh.
    - cbn [runc names pubs privs flat_map]. rewrite !app_nil_r. split.
      + intros H. injection H as <-. repeat split; auto.
      + intros [_ [H1 [H2 [H3 [_ [H4 [_ [H5 _]]]]]]]].
        destruct st as [k n p s f], st' as [k' n' p' s' f']; cbn in *. subst.
        destruct n, n', p, p', s, s'; cbn in *; congruence.
    - assert (Hh' : ~ In LHeader b) by (intros Hi; apply Hh; now right).
      assert (Hc : c <> LHeader) by (intros ->; apply Hh; now left).
      cbn [runc].
      destruct c; try contradiction; cbn [stepc]; rewrite ?Hf; cbn [negb];
        cbn [names pubs privs flat_map app]; fold (names b) (pubs b) (privs b).
      + (* LName *)
        destruct (st_name st) as [n|] eqn:En; cbn [is_some opt_list app].
        { cbn [obind E_]. split; [discriminate|]. intros H. exfalso.
          destruct H as [_ [_ [_ [H _]]]]. now apply (opt_list_app_two (st_name st') n v [] (names b)). }
        destruct (valid_key_name v) eqn:Ev; cbn [negb obind E_].
        * rewrite IH by (cbn; auto). cbn [st_keys st_found st_name st_pub st_priv opt_list app].
          rewrite ?Hf. split.
          -- body_fwd.
          -- body_bwd v.
        * split; [discriminate|]. intros H. exfalso. destruct H as [_ [_ [_ [_ [H _]]]]].
          inversion H; congruence.
      + (* LPub *)
        destruct (st_pub st) as [p|] eqn:Ep; cbn [is_some opt_list app].
        { cbn [obind E_]. split; [discriminate|]. intros H. exfalso.
          destruct H as [_ [_ [_ [_ [_ [H _]]]]]]. now apply (opt_list_app_two (st_pub st') p v [] (pubs b)). }
        destruct (pk_ok v) eqn:Ev; cbn [negb obind E_].
        * rewrite IH by (cbn; auto). cbn [st_keys st_found st_name st_pub st_priv opt_list app].
          rewrite ?Hf. split.
          -- body_fwd.
          -- body_bwd v.
        * split; [discriminate|]. intros H. exfalso. destruct H as [_ [_ [_ [_ [_ [_ [H _]]]]]]].
          inversion H; congruence.
      + (* LPriv *)
        destruct (st_priv st) as [s|] eqn:Es; cbn [is_some opt_list app].
        { cbn [obind E_]. split; [discriminate|]. intros H. exfalso.
          destruct H as [_ [_ [_ [_ [_ [_ [_ [H _]]]]]]]]. now apply (opt_list_app_two (st_priv st') s v [] (privs b)). }
        destruct (sk_ok v) eqn:Ev; cbn [negb obind E_].
        * rewrite IH by (cbn; auto). cbn [st_keys st_found st_name st_pub st_priv opt_list app].
          rewrite ?Hf. split.
          -- body_fwd.
          -- body_bwd v.
        * split; [discriminate|]. intros H. exfalso. destruct H as [_ [_ [_ [_ [_ [_ [_ [_ H]]]]]]]].
          inversion H; congruence.
      + (* LSkip *)
        cbn [obind]. rewrite IH by assumption. split.
        -- intros [H1 H2]. split; [constructor; [exact I | exact H1] | exact H2].
        -- intros [H1 H2]. split; [now inversion H1 | exact H2].
      + (* LNameNoEq *)
        destruct (is_some (st_name st)); cbn [obind E_]; (split; [discriminate|]);
          intros [H _]; inversion H as [|c' x' Hc' Hx]; contradiction.
      + destruct (is_some (st_pub st)); cbn [obind E_]; (split; [discriminate|]);
          intros [H _]; inversion H as [|c' x' Hc' Hx]; contradiction.
      + destruct (is_some (st_priv st)); cbn [obind E_]; (split; [discriminate|]);
          intros [H _]; inversion H as [|c' x' Hc' Hx]; contradiction.
      + cbn [obind E_]. split; [discriminate|]. intros [H _]; inversion H as [|c' x' Hc' Hx]; contradiction.
  Qed.

  (** ** the sequence of sections *)
  Definition sections_text (secs : list (list lclass)) : list lclass :=
    flat_map (fun body => LHeader :: body) secs.
  Definition header_free (b : list lclass) : Prop := ~ In LHeader b.

  (* the keys [es] can be added one after the other to [ks0] without a duplicate *)
  Fixpoint fresh (ks0 es : list entry) : Prop :=
    match es with
    | [] => True
    | e :: r => ~ In (k_name e) (map k_name ks0) /\ ~ In (k_pub e) (map k_pub ks0) /\ fresh (ks0 ++ [e]) r
    end.

  Lemma NoDup_snoc {A} (l : list A) (a : A) : NoDup (l ++ [a]) <-> NoDup l /\ ~ In a l.
  Proof.
    split.
    - intros H. apply NoDup_remove in H. rewrite app_nil_r in H. exact H.
    - intros [H1 H2]. apply NoDup_rev in H1. rewrite <- (rev_involutive (l ++ [a])), rev_app_distr.
      apply NoDup_rev. cbn [rev app]. constructor; [|exact H1]. now rewrite <- in_rev.
  Qed.

  Lemma NoDup_app_l {A} : forall (l l' : list A), NoDup (l ++ l') -> NoDup l.
  Proof.
    induction l as [|a l IH]; intros l' H; [constructor|]. cbn [app] in H.
    inversion H as [|a' x Hn Hd]; subst. constructor; [|now apply (IH l')].
    intros Hi. apply Hn. apply in_or_app. now left.
  Qed.

  Lemma fresh_nodup : forall es ks0,
    NoDup (map k_name ks0) -> NoDup (map k_pub ks0) ->
    (fresh ks0 es <-> NoDup (map k_name (ks0 ++ es)) /\ NoDup (map k_pub (ks0 ++ es))).
  Proof.
    induction es as [|e es IH]; intros ks0 Hn Hp; cbn [fresh].
    - rewrite app_nil_r. tauto.
    - replace (ks0 ++ e :: es) with ((ks0 ++ [e]) ++ es) by (rewrite <- app_assoc; reflexivity).
      split.
      + intros [H1 [H2 H3]]. apply IH; [| |exact H3]; rewrite map_app; cbn [map]; apply NoDup_snoc; auto.
      + intros [H1 H2].
        assert (N1 : NoDup (map k_name (ks0 ++ [e]))).
        { rewrite map_app in H1. apply NoDup_app_l in H1. exact H1. }
        assert (N2 : NoDup (map k_pub (ks0 ++ [e]))).
        { rewrite map_app in H2. apply NoDup_app_l in H2. exact H2. }
        pose proof N1 as N1'. pose proof N2 as N2'.
        rewrite map_app in N1', N2'. cbn [map] in N1', N2'. apply NoDup_snoc in N1', N2'.
        repeat split; try tauto. apply IH; auto.
  Qed.

  Lemma entry_eta e : mk_entry (k_name e) (k_pub e) (k_priv e) = e.
  Proof. now destruct e. Qed.

  (* reading a section body from the state just after its header *)
  Lemma runc_body_after_header b ks0 st' : header_free b ->
    (runc (after_header ks0) b = Ok st' <->
     Forall body_line b /\ st_keys st' = ks0 /\ st_found st' = true
     /\ opt_list (st_name st') = names b /\ all_true valid_key_name (names b)
     /\ opt_list (st_pub st') = pubs b /\ all_true pk_ok (pubs b)
     /\ opt_list (st_priv st') = privs b /\ all_true sk_ok (privs b)).
  Proof. intros Hh. now rewrite runc_body by (auto; reflexivity). Qed.

  (* a completed section body, seen from the resulting state *)
  Lemma body_state_section b ks0 st' n p :
    runc (after_header ks0) b = Ok st' -> header_free b ->
    st_name st' = Some n -> st_pub st' = Some p ->
    section_ok b (mk_entry n p (st_priv st')) /\ st_keys st' = ks0 /\ st_found st' = true.
  Proof.
    intros H Hh En Ep. apply runc_body_after_header in H; [|exact Hh].
    destruct H as [H1 [H2 [H3 [H4 [H5 [H6 [H7 [H8 H9]]]]]]]]. rewrite En in H4. rewrite Ep in H6.
    cbn [opt_list] in H4, H6. unfold all_true in *. unfold KeyringSpec.section_ok. cbn [k_name k_pub k_priv].
    repeat split; auto.
    - rewrite <- H4 in H5. now inversion H5.
    - rewrite <- H6 in H7. now inversion H7.
    - intros s Es. rewrite Es in H8. cbn [opt_list] in H8. rewrite <- H8 in H9. now inversion H9.
  Qed.

  Lemma section_body_state b ks0 e : section_ok b e ->
    runc (after_header ks0) b = Ok (mk_pstate ks0 (Some (k_name e)) (Some (k_pub e)) (k_priv e) true).
  Proof.
    intros [H1 [H2 [H3 [H4 [H5 [H6 H7]]]]]].
    assert (Hh : header_free b).
    { intros Hi. rewrite Forall_forall in H1. now apply H1 in Hi. }
    apply runc_body_after_header; [exact Hh|]. cbn [st_keys st_found st_name st_pub st_priv opt_list].
    unfold all_true. rewrite H2, H4, H6. repeat split; auto.
    destruct (k_priv e) as [s|]; cbn [opt_list]; constructor; auto.
  Qed.

  Lemma section_ok_header_free b e : section_ok b e -> header_free b.
  Proof. intros [H1 _] Hi. rewrite Forall_forall in H1. now apply H1 in Hi. Qed.

  Lemma runc_sections : forall secs b ks0 ks, header_free b -> Forall header_free secs ->
    (obind (runc (after_header ks0) (b ++ sections_text secs)) finish = Ok ks <->
     exists es, ks = ks0 ++ es /\ Forall2 section_ok (b :: secs) es /\ fresh ks0 es).
  Proof.
    induction secs as [|b' secs IH]; intros b ks0 ks Hb Hs; rewrite runc_app.
    - cbn [sections_text flat_map runc]. split.
      + intros H. destruct (runc (after_header ks0) b) as [st'| | |] eqn:Eb; cbn [obind] in H; try discriminate.
        unfold finish in H. destruct (st_found st') eqn:Ef; cbn [negb] in H; [|discriminate].
        apply add_key_ok in H. destruct H as [n [p [En [Ep [F1 [F2 ->]]]]]].
        destruct (body_state_section b ks0 st' n p Eb Hb En Ep) as [S [K _]]. rewrite K in *.
        exists [mk_entry n p (st_priv st')]. repeat split; cbn [k_name k_pub]; auto.
      + intros [es [-> [F2 Fr]]]. inversion F2 as [|b0 e bs es' S F2' E1 E2]; subst.
        inversion F2'; subst. rewrite (section_body_state b ks0 e S). cbn [obind]. unfold finish.
        cbn [st_found negb st_keys st_name st_pub st_priv]. apply add_key_ok.
        destruct Fr as [F1 [F3 _]]. exists (k_name e), (k_pub e). rewrite entry_eta. auto.
    - inversion Hs as [|b0 s0 Hb' Hs']; subst.
      cbn [sections_text flat_map]. fold (sections_text secs). cbn [app]. split.
      + intros H. destruct (runc (after_header ks0) b) as [st'| | |] eqn:Eb; cbn [obind] in H; try discriminate.
        cbn [runc stepc] in H.
        assert (Ef : st_found st' = true).
        { apply runc_body_after_header in Eb; [tauto | exact Hb]. }
        rewrite Ef in H.
        destruct (st_name st') as [n|] eqn:En; [|discriminate].
        destruct (st_pub st') as [p|] eqn:Ep; [|discriminate].
        destruct (add_key (st_keys st') (Some n) (Some p) (st_priv st')) as [ks1| | |] eqn:Ea;
          cbn [obind] in H; try discriminate.
        apply add_key_ok in Ea. destruct Ea as [n' [p' [En' [Ep' [F1 [F2 ->]]]]]].
        injection En' as <-. injection Ep' as <-.
        destruct (body_state_section b ks0 st' n p Eb Hb En Ep) as [S [K _]]. rewrite K in *.
        apply IH in H; [|assumption|assumption]. destruct H as [es [-> [F3 Fr]]].
        exists (mk_entry n p (st_priv st') :: es). rewrite <- app_assoc. repeat split; cbn [fresh k_name k_pub]; auto.
      + intros [es [-> [F2 Fr]]]. inversion F2 as [|b0 e bs es' S F2' E1 E2]; subst.
        rewrite (section_body_state b ks0 e S). cbn [obind runc stepc st_found st_name st_pub st_keys st_priv].
        destruct Fr as [F1 [F3 Fr]].
        assert (Ea : add_key ks0 (Some (k_name e)) (Some (k_pub e)) (k_priv e) = Ok (ks0 ++ [e])).
        { apply add_key_ok. exists (k_name e), (k_pub e). rewrite entry_eta. auto. }
        rewrite Ea. cbn [obind]. apply IH; [assumption|assumption|].
        exists es'. rewrite <- app_assoc. auto.
  Qed.

  (** ** the whole text, cut at its headers *)
  Lemma runc_text pre secs ks : header_free pre -> Forall header_free secs ->
    (obind (runc init_state (pre ++ sections_text secs)) finish = Ok ks <->
     Forall (fun c => c = LSkip) pre /\ secs <> [] /\ Forall2 section_ok secs ks
     /\ NoDup (map k_name ks) /\ NoDup (map k_pub ks)).
  Proof.
    intros Hp Hs. rewrite runc_app. split.
    - intros H. destruct (runc init_state pre) as [st| | |] eqn:Ep; cbn [obind] in H; try discriminate.
      apply runc_pre in Ep; [|reflexivity|exact Hp]. destruct Ep as [Hskip ->].
      destruct secs as [|b secs]; [discriminate|]. inversion Hs as [|b0 s0 Hb Hs']; subst.
      cbn [sections_text flat_map] in H. fold (sections_text secs) in H.
      cbn [app runc stepc init_state st_found st_keys st_name st_pub st_priv obind] in H.
      change (mk_pstate [] None None None true) with (after_header []) in H.
      apply runc_sections in H; [|assumption|assumption]. destruct H as [es [-> [F2 Fr]]].
      cbn [app]. apply fresh_nodup in Fr; [|constructor|constructor]. cbn [app] in Fr.
      repeat split; try tauto. discriminate.
    - intros [Hskip [Hne [F2 [N1 N2]]]].
      assert (Ep : runc init_state pre = Ok init_state) by (apply runc_pre; auto).
      rewrite Ep. cbn [obind]. destruct secs as [|b secs]; [contradiction|].
      inversion Hs as [|b0 s0 Hb Hs']; subst.
      cbn [sections_text flat_map]. fold (sections_text secs).
      cbn [app runc stepc init_state st_found st_keys st_name st_pub st_priv obind].
      change (mk_pstate [] None None None true) with (after_header []).
      apply runc_sections; [assumption|assumption|]. exists ks. repeat split; auto.
      apply fresh_nodup; [constructor|constructor|]. cbn [app]. auto.
  Qed.

  (* every list of classified lines can be cut at its headers *)
  Fixpoint split_hdr (cs : list lclass) : list lclass * list (list lclass) :=
    match cs with
    | [] => ([], [])
    | c :: r => let (pre, secs) := split_hdr r in
                match c with
                | LHeader => ([], pre :: secs)
                | _ => (c :: pre, secs)
                end
    end.
  Lemma split_hdr_ok : forall cs pre secs, split_hdr cs = (pre, secs) ->
    cs = pre ++ sections_text secs /\ header_free pre /\ Forall header_free secs.
  Proof.
    unfold header_free.
    induction cs as [|c cs IH]; intros pre secs H; cbn [split_hdr] in H.
    - injection H as <- <-. repeat split; auto.
    - destruct (split_hdr cs) as [pre' secs'] eqn:E. destruct (IH pre' secs' eq_refl) as [-> [H1 H2]].
      destruct c; injection H as <- <-; cbn [sections_text flat_map app]; fold (sections_text secs');
        repeat split; auto; try (intros [Hc|Hc]; [discriminate | now apply H1]).
  Qed.

  (* ====================================================================================== *)
  (** * 3. Refinement theorem and consequences                                               *)
  (* ====================================================================================== *)

  Theorem parse_refines_spec : forall t ks, parse_config t = Ok ks <-> accepts t ks.
  Proof.
    intros t ks. rewrite parse_config_classes. unfold KeyringSpec.accepts. split.
    - intros H. destruct (split_hdr (classes t)) as [pre secs] eqn:E.
      apply split_hdr_ok in E. destruct E as [E [Hp Hs]]. rewrite E in H.
      apply runc_text in H; [|assumption|assumption]. exists pre, secs. tauto.
    - intros [pre [secs [E [Hskip [Hne [F2 [N1 N2]]]]]]]. rewrite E. apply runc_text; auto.
      + intros Hi. rewrite Forall_forall in Hskip. apply Hskip in Hi. discriminate.
      + clear - F2. induction F2 as [|b e bs es S F2 IH]; constructor; auto.
        exact (section_ok_header_free b e S).
  Qed.

  Theorem parse_names_nodup t ks : parse_config t = Ok ks ->
    NoDup (map k_name ks) /\ NoDup (map k_pub ks).
  Proof. intros H. apply parse_refines_spec in H. destruct H as [pre [secs H]]. tauto. Qed.

  Theorem parse_entries_valid t ks : parse_config t = Ok ks ->
    Forall (fun k => valid_key_name (k_name k) = true /\ pk_ok (k_pub k) = true
                     /\ (forall s, k_priv k = Some s -> sk_ok s = true)) ks.
  Proof.
    intros H. apply parse_refines_spec in H. destruct H as [pre [secs [_ [_ [_ [F2 _]]]]]].
    induction F2 as [|b e bs es S F2 IH]; constructor; auto.
    destruct S as [_ [_ [H1 [_ [H2 [_ H3]]]]]]. auto.
  Qed.

  Theorem parse_nonempty t ks : parse_config t = Ok ks -> ks <> [].
  Proof.
    intros H. apply parse_refines_spec in H. destruct H as [pre [secs [_ [_ [Hne [F2 _]]]]]].
    intros ->. inversion F2; subst. contradiction.
  Qed.

  (** ** lookups *)
  Theorem get_key_unique : forall ks k, NoDup (map k_name ks) -> In k ks -> get_key ks (k_name k) = Some k.
  Proof.
    induction ks as [|k0 ks IH]; intros k Hn Hi; [destruct Hi|]. cbn [get_key map] in *.
    inversion Hn as [|a l Hnot Hn']; subst. destruct Hi as [->|Hi].
    - now rewrite text_eqb_refl.
    - rewrite text_eqb_neq; [now apply IH|]. intros E. apply Hnot. rewrite E. now apply in_map.
  Qed.
  Theorem get_name_unique : forall ks k, NoDup (map k_pub ks) -> In k ks ->
    get_name_from_key ks (k_pub k) = Some (k_name k).
  Proof.
    induction ks as [|k0 ks IH]; intros k Hn Hi; [destruct Hi|]. cbn [get_name_from_key map] in *.
    inversion Hn as [|a l Hnot Hn']; subst. destruct Hi as [->|Hi].
    - now rewrite text_eqb_refl.
    - rewrite text_eqb_neq; [now apply IH|]. intros E. apply Hnot. rewrite E. now apply in_map.
  Qed.
  (* and what the lookups return in general: the first match *)
  Lemma get_key_some : forall ks n k, get_key ks n = Some k -> In k ks /\ k_name k = n.
  Proof.
    induction ks as [|k0 ks IH]; intros n k H; cbn [get_key] in H; [discriminate|].
    destruct (text_eqb (k_name k0) n) eqn:E.
    - injection H as <-. apply text_eqb_eq in E. split; [now left | exact E].
    - destruct (IH n k H) as [H1 H2]. split; [now right | exact H2].
  Qed.
  Lemma get_key_none : forall ks n, get_key ks n = None <-> ~ In n (map k_name ks).
  Proof.
    induction ks as [|k0 ks IH]; intros n; cbn [get_key map In]; [tauto|].
    destruct (text_eqb (k_name k0) n) eqn:E.
    - apply text_eqb_eq in E. split; [discriminate | intros H; exfalso; apply H; now left].
    - rewrite IH. assert (k_name k0 <> n) by (intros Hc; apply text_eqb_eq in Hc; congruence). tauto.
  Qed.
  Lemma get_name_from_key_none : forall ks p, get_name_from_key ks p = None <-> ~ In p (map k_pub ks).
  Proof.
    induction ks as [|k0 ks IH]; intros p; cbn [get_name_from_key map In]; [tauto|].
    destruct (text_eqb (k_pub k0) p) eqn:E.
    - apply text_eqb_eq in E. split; [discriminate | intros H; exfalso; apply H; now left].
    - rewrite IH. assert (k_pub k0 <> p) by (intros Hc; apply text_eqb_eq in Hc; congruence). tauto.
  Qed.

  (* ====================================================================================== *)
  (** * 4. What the tool writes parses back                                                  *)
  (* ====================================================================================== *)

  Definition no_ws (v : text) : Prop := Forall (fun c => is_ws c = false) v.
  (* a name the key generator may write: valid (non-empty, <= 128 bytes, no TAB),
     no leading/trailing white space, no newline *)
  Definition gen_name_ok (n : text) : Prop := valid_key_name n = true /\ trim n = n /\ ~ In c_nl n.
  (* a value (base64 text): non-empty, no White_Space character; '=' is allowed *)
  Definition val_ok (v : text) : Prop := v <> [] /\ no_ws v.

  Definition entry_text (e : entry) : text :=
    serialize_key (k_name e) (k_pub e) (match k_priv e with Some s => s | None => [] end).
  Definition gen_entry_ok (e : entry) : Prop :=
    gen_name_ok (k_name e) /\ pk_ok (k_pub e) = true /\ val_ok (k_pub e)
    /\ exists s, k_priv e = Some s /\ sk_ok s = true /\ val_ok s.

  (* the file: the first key as serialize_key writes it, every later key preceded by "\n" *)
  Definition keyring_text (es : list entry) : text :=
    match es with
    | [] => []
    | e :: rest => entry_text e ++ flat_map (fun e' => c_nl :: entry_text e') rest
    end.

  (** ** classified lines of a text built line by line *)
  Lemma classes_nil : classes [] = [].
  Proof. reflexivity. Qed.
  Lemma classes_line l r : ~ In c_nl l -> classes (l ++ c_nl :: r) = classify (clean l) :: classes r.
  Proof. intros H. unfold classes. rewrite lines_line by assumption. cbn [map]. now rewrite clean_strip_cr. Qed.

  Lemma classes_app_nl t0 r : exists x, Forall (fun c => c = LSkip) x /\
    classes (t0 ++ c_nl :: r) = classes t0 ++ x ++ classes r.
  Proof.
    destruct (split_inclusive_nl_snoc_nl t0) as [ps [l [Hn [H1 H2]]]].
    replace (t0 ++ c_nl :: r) with ((t0 ++ [c_nl]) ++ r) by (rewrite <- app_assoc; reflexivity).
    unfold classes, lines. rewrite split_inclusive_nl_app_nl, H1, H2. rewrite !map_app. cbn [map].
    rewrite strip_line_nl, clean_strip_cr. rewrite <- !app_assoc. destruct l as [|c l].
    - exists [LSkip]. split; [constructor; [reflexivity | constructor] |].
      cbn [map app]. rewrite app_nil_r. reflexivity.
    - exists []. split; [constructor|]. cbn [map app]. rewrite strip_line_no_nl by assumption.
      rewrite <- app_assoc. reflexivity.
  Qed.

  Lemma not_in_by_compute c (l : text) : existsb (N.eqb c) l = false -> ~ In c l.
  Proof.
    intros H Hi. assert (E : existsb (N.eqb c) l = true) by (apply existsb_exists; exists c; split; [exact Hi | apply N.eqb_refl]).
    congruence.
  Qed.

  (** ** the three field lines *)
  Lemma trim_prefix_app c p v : is_ws c = false -> trim_end v = v -> v <> [] ->
    trim ((c :: p) ++ v) = (c :: p) ++ v.
  Proof.
    intros Hc Hv Hne. cbn [app]. rewrite trim_cons_nonws by assumption.
    change (c :: p ++ v) with ((c :: p) ++ v). rewrite trim_end_app; rewrite Hv; auto.
  Qed.

  (* [v] can be written after "Keyword = " and is read back unchanged *)
  Definition writable (v : text) : Prop := v <> [] /\ ~ In c_tab v /\ ~ In c_nl v /\ trim v = v.

  Lemma clean_field_line c kw v : is_ws c = false -> remove_tabs (c :: kw) = c :: kw -> writable v ->
    clean ((c :: kw) ++ s_sp_eq_sp ++ v) = (c :: kw) ++ s_sp_eq_sp ++ v.
  Proof.
    intros Hc Hk [Hne [Ht [_ Hv]]]. unfold clean. rewrite !remove_tabs_app, Hk.
    change (remove_tabs s_sp_eq_sp) with s_sp_eq_sp.
    assert (Ev : remove_tabs v = v) by now apply remove_tabs_no_tab. rewrite Ev.
    rewrite app_assoc. change ((c :: kw) ++ s_sp_eq_sp) with (c :: kw ++ s_sp_eq_sp).
    apply trim_prefix_app; auto. now apply trim_fixed.
  Qed.

  Lemma field_value_line kw v : ~ In c_eq kw -> field_value (kw ++ s_sp_eq_sp ++ v) = Some (trim v).
  Proof.
    intros Hk. unfold field_value.
    replace (kw ++ s_sp_eq_sp ++ v) with ((kw ++ [32]) ++ c_eq :: 32 :: v) by (rewrite <- app_assoc; reflexivity).
    rewrite split_once_eq_app.
    - now rewrite trim_cons_ws by reflexivity.
    - intros Hi. apply in_app_or in Hi. destruct Hi as [Hi|[Hi|[]]]; [now apply Hk | discriminate].
  Qed.

  Lemma classify_name_line v : classify (s_name ++ s_sp_eq_sp ++ v) = LName (trim v).
  Proof.
    unfold classify. rewrite field_value_line by (apply not_in_by_compute; reflexivity).
    change (starts_with s_hdr (s_name ++ s_sp_eq_sp ++ v)) with false.
    now rewrite starts_with_app.
  Qed.
  Lemma classify_pub_line v : classify (s_pub ++ s_sp_eq_sp ++ v) = LPub (trim v).
  Proof.
    unfold classify. rewrite field_value_line by (apply not_in_by_compute; reflexivity).
    change (starts_with s_hdr (s_pub ++ s_sp_eq_sp ++ v)) with false.
    change (starts_with s_name (s_pub ++ s_sp_eq_sp ++ v)) with false.
    now rewrite starts_with_app.
  Qed.
  Lemma classify_priv_line v : classify (s_priv ++ s_sp_eq_sp ++ v) = LPriv (trim v).
  Proof.
    unfold classify. rewrite field_value_line by (apply not_in_by_compute; reflexivity).
    change (starts_with s_hdr (s_priv ++ s_sp_eq_sp ++ v)) with false.
    change (starts_with s_name (s_priv ++ s_sp_eq_sp ++ v)) with false.
    change (starts_with s_pub (s_priv ++ s_sp_eq_sp ++ v)) with false.
    now rewrite starts_with_app.
  Qed.

  Lemma field_line_no_nl kw v : ~ In c_nl kw -> ~ In c_nl v -> ~ In c_nl (kw ++ s_sp_eq_sp ++ v).
  Proof.
    intros Hk Hv Hi. apply in_app_or in Hi. destruct Hi as [Hi|Hi]; [now apply Hk|].
    apply in_app_or in Hi. destruct Hi as [Hi|Hi]; [|now apply Hv].
    revert Hi. apply not_in_by_compute. reflexivity.
  Qed.

  Lemma serialize_key_lines n p s :
    serialize_key n p s =
    s_hdr ++ c_nl :: (s_name ++ s_sp_eq_sp ++ n) ++ c_nl :: (s_pub ++ s_sp_eq_sp ++ p) ++ c_nl ::
    (s_priv ++ s_sp_eq_sp ++ s) ++ c_nl :: [].
  Proof. unfold serialize_key. rewrite <- !app_assoc. reflexivity. Qed.

  Lemma classes_serialize_key n p s : writable n -> writable p -> writable s ->
    classes (serialize_key n p s) = [LHeader; LName n; LPub p; LPriv s].
  Proof.
    intros Wn Wp Ws. rewrite serialize_key_lines.
    pose proof Wn as [_ [_ [Nn Tn]]]. pose proof Wp as [_ [_ [Np Tp]]]. pose proof Ws as [_ [_ [Ns Ts]]].
    rewrite classes_line by (apply not_in_by_compute; reflexivity).
    rewrite classes_line by (apply field_line_no_nl; [apply not_in_by_compute; reflexivity | assumption]).
    rewrite classes_line by (apply field_line_no_nl; [apply not_in_by_compute; reflexivity | assumption]).
    rewrite classes_line by (apply field_line_no_nl; [apply not_in_by_compute; reflexivity | assumption]).
    rewrite classes_nil.
    change (classify (clean s_hdr)) with LHeader.
    unfold s_name at 1, s_pub at 1, s_priv at 1.
    rewrite !clean_field_line by (auto; reflexivity).
    fold s_name s_pub s_priv.
    now rewrite classify_name_line, classify_pub_line, classify_priv_line, Tn, Tp, Ts.
  Qed.

  Lemma no_ws_not_in c v : is_ws c = true -> no_ws v -> ~ In c v.
  Proof. intros Hc Hv Hi. unfold no_ws in Hv. rewrite Forall_forall in Hv. apply Hv in Hi. congruence. Qed.
  Lemma val_ok_writable v : val_ok v -> writable v.
  Proof.
    intros [Hne Hv]. repeat split; auto.
    - now apply no_ws_not_in.
    - now apply no_ws_not_in.
    - now apply trim_no_ws.
  Qed.
  Lemma gen_name_ok_writable n : gen_name_ok n -> writable n.
  Proof.
    intros [Hv [Ht Hn]]. unfold valid_key_name in Hv. apply negb_true_iff in Hv.
    apply orb_false_iff in Hv. destruct Hv as [Hv Htab]. apply orb_false_iff in Hv. destruct Hv as [He _].
    repeat split; auto.
    - intros ->. discriminate.
    - intros Hi. assert (E : existsb (fun c => c =? c_tab) n = true).
      { apply existsb_exists. exists c_tab. split; [exact Hi | apply N.eqb_refl]. }
      congruence.
  Qed.

  Lemma classes_entry_text e : gen_entry_ok e -> exists s, k_priv e = Some s /\
    classes (entry_text e) = [LHeader; LName (k_name e); LPub (k_pub e); LPriv s].
  Proof.
    intros [Hn [_ [Hp [s [Es [_ Hs]]]]]]. exists s. split; [exact Es|]. unfold entry_text. rewrite Es.
    apply classes_serialize_key; [now apply gen_name_ok_writable | now apply val_ok_writable | now apply val_ok_writable].
  Qed.

  (** ** running the machine over one written key *)
  Lemma runc_written_key st ks0 e s : gen_entry_ok e -> k_priv e = Some s ->
    stepc st LHeader = Ok (after_header ks0) ->
    ~ In (k_name e) (map k_name ks0) -> ~ In (k_pub e) (map k_pub ks0) ->
    obind (runc st [LHeader; LName (k_name e); LPub (k_pub e); LPriv s]) finish = Ok (ks0 ++ [e]).
  Proof.
    intros [[Hv _] [Hp [_ [s' [Es' [Hs _]]]]]] Es Hst F1 F2.
    rewrite Es in Es'. injection Es' as <-.
    cbn [runc]. rewrite Hst. cbn [obind stepc after_header st_found st_name st_pub st_priv st_keys negb is_some].
    rewrite Hv, Hp, Hs. cbn [negb obind]. unfold finish. cbn [st_found st_name st_pub st_priv st_keys negb].
    apply add_key_ok. exists (k_name e), (k_pub e). rewrite <- Es, entry_eta. auto.
  Qed.

  Theorem parse_single_key e : gen_entry_ok e -> parse_config (entry_text e) = Ok [e].
  Proof.
    intros He. rewrite parse_config_classes. destruct (classes_entry_text e He) as [s [Es ->]].
    apply (runc_written_key init_state [] e s); auto.
  Qed.

  (** Appending "\n" ++ serialize_key(..) to ANY accepted text (whether or not it ends with a
      newline, whatever its line endings, comments, ...) adds exactly that key at the end. *)
  Theorem parse_append_key t0 ks0 e :
    parse_config t0 = Ok ks0 -> gen_entry_ok e ->
    ~ In (k_name e) (map k_name ks0) -> ~ In (k_pub e) (map k_pub ks0) ->
    parse_config (t0 ++ [c_nl] ++ entry_text e) = Ok (ks0 ++ [e]).
  Proof.
    intros H0 He F1 F2. rewrite parse_config_classes in *. cbn [app].
    destruct (classes_app_nl t0 (entry_text e)) as [x [Hx ->]].
    destruct (classes_entry_text e He) as [s [Es ->]].
    rewrite runc_app. destruct (runc init_state (classes t0)) as [st| | |] eqn:E0; cbn [obind] in *; try discriminate.
    rewrite runc_skip by assumption.
    apply runc_written_key; auto.
    unfold finish in H0. destruct (st_found st) eqn:Ef; cbn [negb] in H0; [|discriminate].
    cbn [stepc]. rewrite Ef. pose proof H0 as H0'. apply add_key_ok in H0'.
    destruct H0' as [n [p [En [Ep _]]]]. rewrite En, Ep in *. now rewrite H0.
  Qed.

  Lemma parse_append_keys : forall rest t0 ks0,
    parse_config t0 = Ok ks0 -> Forall gen_entry_ok rest ->
    NoDup (map k_name (ks0 ++ rest)) -> NoDup (map k_pub (ks0 ++ rest)) ->
    parse_config (t0 ++ flat_map (fun e' => c_nl :: entry_text e') rest) = Ok (ks0 ++ rest).
  Proof.
    induction rest as [|e rest IH]; intros t0 ks0 H0 Hall N1 N2.
    - cbn [flat_map]. now rewrite !app_nil_r.
    - inversion Hall as [|e' r' He Hrest]; subst. cbn [flat_map].
      replace (ks0 ++ e :: rest) with ((ks0 ++ [e]) ++ rest) in * by (rewrite <- app_assoc; reflexivity).
      replace (t0 ++ (c_nl :: entry_text e) ++ flat_map (fun e' => c_nl :: entry_text e') rest)
        with ((t0 ++ [c_nl] ++ entry_text e) ++ flat_map (fun e' => c_nl :: entry_text e') rest)
        by (rewrite <- !app_assoc; reflexivity).
      apply IH; auto.
      rewrite map_app in N1, N2. apply NoDup_app_l in N1, N2.
      rewrite map_app in N1, N2. cbn [map] in N1, N2. apply NoDup_snoc in N1, N2.
      apply parse_append_key; tauto.
  Qed.

  Theorem written_parses_back es :
    es <> [] -> Forall gen_entry_ok es -> NoDup (map k_name es) -> NoDup (map k_pub es) ->
    parse_config (keyring_text es) = Ok es.
  Proof.
    intros Hne Hall N1 N2. destruct es as [|e rest]; [contradiction|].
    inversion Hall as [|e' r' He Hrest]; subst. cbn [keyring_text].
    apply (parse_append_keys rest (entry_text e) [e]); auto. now apply parse_single_key.
  Qed.
End Refine.

(* Axiom audit: each of these prints "Closed under the global context". *)
Print Assumptions parse_refines_spec.
Print Assumptions parse_total.
Print Assumptions parse_append_key.
Print Assumptions written_parses_back.
