(* Proofs/ChunksAuth.v — authenticity of decrypt_chunks for EVERY offered byte string and EVERY
   I/O script (short reads, zero reads, failing reads/writes/flushes): if no AEAD open of the run is
   a forgery w.r.t. the honest file's seals, what reaches the sink is the honest chunks, in order,
   whole (unless the sink itself cut a write), and Ok means all of them. *)
From Kestrel Require Import Bytes BytesFacts Outcome IO IOFacts Prims.
From Kestrel.Model Require Import AeadWrap Chunks.
From Kestrel.Proofs Require Import MonadFacts ChunksDec.
From Coq Require Import ZifyBool ZifyNat ZifyN.
Local Open Scope N_scope.

Definition is_last {A} (cks : list A) (i : nat) : bool := Nat.eqb (S i) (length cks).

Lemma nth_error_skipn' {A} : forall j m (l : list A), nth_error (skipn j l) m = nth_error l (j + m).
Proof. induction j as [|j IH]; intros m [|x l]; cbn; auto. now destruct m. Qed.

Section Auth.
Variable P : prims.
Variable key aad : bytes.
Variable cs : N.
Hypothesis Hkey : length key = 32%nat.
Hypothesis Haead : aead_ok P.
Variable chunks : list bytes.

Notation dec_loop := (decrypt_chunks_loop P).
Notation honest := (seal_log_from P key aad 0 chunks).

Lemma seal_log_In : forall cks n0 n ad ct,
  In (n, ad, ct) (seal_log_from P key aad n0 cks) ->
  exists i c, nth_error cks i = Some c /\ n = n0 + N.of_nat i /\
              ad = rec_ad aad (is_last cks i) c /\ ct = p_seal P key (noise_nonce n) ad c.
Proof.
  induction cks as [|c rest IH]; intros n0 n ad ct Hin; [destruct Hin|].
  destruct rest as [|c2 rest'].
  - destruct Hin as [[= <- <- <-]|[]]. exists 0%nat, c. cbn. repeat split; try reflexivity. lia.
  - change (seal_log_from P key aad n0 (c :: c2 :: rest')) with
      ((n0, rec_ad aad false c, p_seal P key (noise_nonce n0) (rec_ad aad false c) c)
       :: seal_log_from P key aad (n0 + 1) (c2 :: rest')) in Hin.
    destruct Hin as [[= <- <- <-]|Hin].
    + exists 0%nat, c. cbn. repeat split; try reflexivity. lia.
    + destruct (IH _ _ _ _ Hin) as (i & c' & Hn & -> & -> & ->).
      exists (S i), c'. cbn [nth_error]. repeat split; try assumption; try lia.
Qed.

(* no AEAD open that succeeded during the run is a forgery *)
Definition no_forgery (lg : list event) : Prop :=
  forall n ad ct pt, In (EvOpen key n ad ct (Some pt)) lg -> In (n, ad, ct) honest.

(* chunks j .. j'-1 *)
Definition span (j j' : nat) : bytes := concat (firstn (j' - j) (skipn j chunks)).

Lemma span_refl j : span j j = [].
Proof. unfold span. now rewrite Nat.sub_diag. Qed.

Lemma span_step j j' c : (j <= j')%nat -> nth_error chunks j' = Some c -> span j (S j') = span j j' ++ c.
Proof.
  intros Hle Hn. unfold span.
  replace (S j' - j)%nat with (S (j' - j)) by lia.
  assert (Hn' : nth_error (skipn j chunks) (j' - j) = Some c).
  { rewrite nth_error_skipn'. replace (j + (j' - j))%nat with j' by lia. exact Hn. }
  revert Hn'. generalize (skipn j chunks) as l. generalize (j' - j)%nat as m.
  induction m as [|m IH]; intros [|x l] Hn'; cbn in *; try discriminate.
  - injection Hn' as ->. now rewrite app_nil_r.
  - rewrite <- app_assoc. f_equal. now apply IH.
Qed.

Lemma span_cons j j' c : nth_error chunks j = Some c -> (j < j')%nat -> span j j' = c ++ span (S j) j'.
Proof.
  intros Hn Hlt. unfold span.
  assert (Hs : skipn j chunks = c :: skipn (S j) chunks).
  { clear Hlt. revert j Hn. induction chunks as [|x xs IH]; intros [|j] Hn; cbn in *; try discriminate.
    - now injection Hn as ->.
    - now apply IH. }
  rewrite Hs. replace (j' - j)%nat with (S (j' - S j)) by lia. reflexivity.
Qed.

Lemma span_all : span 0 (length chunks) = concat chunks.
Proof. unfold span. rewrite Nat.sub_0_r. cbn [skipn]. now rewrite firstn_all. Qed.

(* ---------- the log only grows ---------- *)
Definition log_mono {E A} (m : M E A) : Prop :=
  forall s r s', m s = (r, s') -> exists d, log s' = d ++ log s.

Lemma lm_bind {E A B} (m : M E A) (f : A -> M E B) :
  log_mono m -> (forall a, log_mono (f a)) -> log_mono (bind m f).
Proof.
  intros Hm Hf s r s' E0. unfold bind in E0. destruct (m s) as [r1 s1] eqn:E1.
  destruct (Hm _ _ _ E1) as [d1 H1].
  destruct r1 as [a|e|w|]; try (injection E0 as <- <-; eauto).
  destruct (Hf a _ _ _ E0) as [d2 H2]. exists (d2 ++ d1). now rewrite H2, H1, app_assoc.
Qed.
Lemma lm_ret {E A} (a : A) : log_mono (@ret E A a).
Proof. intros s r s' [= <- <-]. exists []. reflexivity. Qed.
Lemma lm_fail {E A} (e : E) : log_mono (@fail E A e).
Proof. intros s r s' [= <- <-]. exists []. reflexivity. Qed.
Lemma lm_lift {E A} (o : outcome E A) : log_mono (lift o).
Proof. intros s r s' [= <- <-]. exists []. reflexivity. Qed.
Lemma lm_read_exact {E} (rerr : ioerr -> E) n : log_mono (m_read_exact rerr n).
Proof. intros s r s' E0. apply m_read_exact_cases in E0. destruct E0 as (_ & d & Hd & _). eauto. Qed.
Lemma lm_read {E} (rerr : ioerr -> E) n : log_mono (m_read rerr n).
Proof.
  intros s r s' E0. apply m_read_cases in E0. destruct E0 as (_ & H).
  destruct r as [b|e|w|]; try contradiction.
  - destruct H as (H & _). eexists [_]. exact H.
  - destruct H as (ie & _ & H & _). eexists [_]. exact H.
Qed.
Lemma lm_write_all {E} (werr : ioerr -> E) buf : log_mono (m_write_all werr buf).
Proof. intros s r s' E0. apply m_write_all_cases in E0. destruct E0 as (_ & d & Hd & _). eauto. Qed.
Lemma lm_flush {E} (werr : ioerr -> E) : log_mono (m_flush werr).
Proof.
  intros s r s' E0. apply m_flush_cases in E0. destruct E0 as (_ & _ & H).
  destruct r as [b|e|w|]; try contradiction.
  - eexists [_]. exact H.
  - destruct H as (ie & _ & H). eexists [_]. exact H.
Qed.
Lemma lm_open {E} (aerr : E) n ad ct : log_mono (m_open P aerr key n ad ct).
Proof.
  intros s r s' E0. rewrite (m_open_eq P key Hkey) in E0.
  destruct (Nat.ltb _ _); [injection E0 as <- <-; eexists [_]; reflexivity|].
  destruct (p_open _ _ _ _ _); injection E0 as <- <-; eexists [_]; reflexivity.
Qed.

Lemma dec_loop_log_mono : forall fuel n, log_mono (dec_loop fuel key aad cs n).
Proof.
  induction fuel as [|f IH]; intros n; [apply lm_lift|].
  cbn [decrypt_chunks_loop].
  apply lm_bind; [apply lm_read_exact|intros hdr].
  destruct (cs <? _); [apply lm_fail|].
  apply lm_bind; [apply lm_read_exact|intros ct].
  apply lm_bind; [apply lm_open|intros pt].
  destruct (_ =? 1).
  - apply lm_bind; [apply lm_read|intros chk]. destruct chk; [|apply lm_fail].
    apply lm_bind; [apply lm_write_all|intros _]. apply lm_bind; [apply lm_flush|intros _]. apply lm_ret.
  - apply lm_bind; [apply lm_write_all|intros _]. apply lm_bind; [apply lm_flush|intros _]. apply IH.
Qed.

Definition post (j : nat) (s : io) (res : outcome derr unit) (s' : io) : Prop :=
  exists j' tail, (j <= j' <= length chunks)%nat /\
    w_out (wtr s') = w_out (wtr s) ++ span j j' ++ tail /\
    (tail = [] \/ exists c k e, nth_error chunks j' = Some c /\ (k < length c)%nat /\
                                tail = firstn k c /\ res = Err (DIOWrite e)) /\
    (res = Ok tt -> j' = length chunks /\ tail = []).

Lemma post_stay j s res s' : (j <= length chunks)%nat ->
  w_out (wtr s') = w_out (wtr s) -> res <> Ok tt -> post j s res s'.
Proof.
  intros Hj Ho Hne. exists j, []. rewrite span_refl, !app_nil_r. repeat split; auto; try lia; contradiction.
Qed.

Lemma hdr_parts hdr : length hdr = 16%nat -> length (hdr_last hdr) = 4%nat /\ length (hdr_len hdr) = 4%nat.
Proof.
  intros H. unfold hdr_last, hdr_len. rewrite firstn_length, !skipn_length. lia.
Qed.

Lemma ad_inj l1 l2 f len : length l1 = 4%nat -> length l2 = 4%nat ->
  aad ++ l1 ++ l2 = aad ++ be32 f ++ be32 len -> l1 = be32 f /\ l2 = be32 len.
Proof.
  intros H1 H2 E. apply app_inv_head in E. apply app_len_inj in E; [assumption | now rewrite H1].
Qed.

Lemma flag_is1 b : (de32 (be32 (flag b)) =? 1) = b.
Proof. destruct b; reflexivity. Qed.

Definition dec_tail (f : nat) (n : N) (pt : bytes) (lastf : bool) : M derr unit :=
  if lastf then
    bind (m_read d_read_err 1) (fun chk =>
      match chk with
      | _ :: _ => fail DUnexpectedData
      | [] => bind (m_write_all DIOWrite pt) (fun _ => bind (m_flush DIOWrite) (fun _ => ret tt))
      end)
  else
    bind (m_write_all DIOWrite pt) (fun _ => bind (m_flush DIOWrite) (fun _ =>
      dec_loop f key aad cs (n + 1))).

Lemma dec_tail_log_mono f n pt lastf : log_mono (dec_tail f n pt lastf).
Proof.
  unfold dec_tail. destruct lastf.
  - apply lm_bind; [apply lm_read|intros chk]. destruct chk; [|apply lm_fail].
    apply lm_bind; [apply lm_write_all|intros _]. apply lm_bind; [apply lm_flush|intros _]. apply lm_ret.
  - apply lm_bind; [apply lm_write_all|intros _]. apply lm_bind; [apply lm_flush|intros _]. apply dec_loop_log_mono.
Qed.

Theorem dec_auth : forall fuel j s res s',
  (j <= length chunks)%nat ->
  dec_loop fuel key aad cs (N.of_nat j) s = (res, s') ->
  no_forgery (log s') -> post j s res s'.
Proof.
  induction fuel as [|f IH]; intros j s res s' Hj E NF.
  { cbn in E. injection E as <- <-. apply post_stay; [lia|reflexivity|discriminate]. }
  cbn [decrypt_chunks_loop] in E.
  (* header *)
  unfold bind at 1 in E. destruct (m_read_exact d_read_err 16 s) as [r1 s1] eqn:E1.
  pose proof (m_read_exact_cases _ _ _ _ _ E1) as (Hw1 & d1 & _ & _ & Hr1).
  destruct r1 as [hdr|e|w|]; try contradiction.
  2:{ injection E as <- <-. apply post_stay; [lia|now rewrite Hw1|discriminate]. }
  destruct Hr1 as (Hlen16 & _ & _).
  destruct (cs <? de32 (hdr_len hdr)) eqn:Ecs.
  { injection E as <- <-. apply post_stay; [lia|now rewrite Hw1|discriminate]. }
  (* body *)
  unfold bind at 1 in E.
  destruct (m_read_exact d_read_err (N.to_nat (de32 (hdr_len hdr)) + 16) s1) as [r2 s2] eqn:E2.
  pose proof (m_read_exact_cases _ _ _ _ _ E2) as (Hw2 & d2 & _ & _ & Hr2).
  destruct r2 as [ct|e|w|]; try contradiction.
  2:{ injection E as <- <-. apply post_stay; [lia|now rewrite Hw2, Hw1|discriminate]. }
  clear Hr2.
  (* open *)
  unfold bind at 1 in E. rewrite (m_open_eq P key Hkey) in E.
  set (ad := aad ++ hdr_last hdr ++ hdr_len hdr) in *.
  destruct (Nat.ltb (length ct) 16).
  { injection E as <- <-. apply post_stay; [lia|cbn; now rewrite Hw2, Hw1|discriminate]. }
  destruct (p_open P key (noise_nonce (N.of_nat j)) ad ct) as [pt|] eqn:Eo.
  2:{ injection E as <- <-. apply post_stay; [lia|cbn; now rewrite Hw2, Hw1|discriminate]. }
  set (s3 := with_log s2 (EvOpen key (N.of_nat j) ad ct (Some pt))) in *.
  assert (Hw3 : wtr s3 = wtr s) by (unfold s3; cbn; now rewrite Hw2, Hw1).
  change (dec_tail f (N.of_nat j) pt (de32 (hdr_last hdr) =? 1) s3 = (res, s')) in E.
  (* the successful open is in the final log, hence honest *)
  destruct (dec_tail_log_mono _ _ _ _ _ _ _ E) as [d Hd].
  assert (Hin : In (EvOpen key (N.of_nat j) ad ct (Some pt)) (log s')).
  { rewrite Hd. apply in_or_app; right. unfold s3. cbn. left. reflexivity. }
  apply NF in Hin. apply seal_log_In in Hin.
  destruct Hin as (i & c & Hnth & Hn & Had & Hct). assert (i = j) by lia. subst i.
  destruct (hdr_parts hdr Hlen16) as [H4a H4b].
  unfold ad, rec_ad in Had. apply ad_inj in Had; [|assumption|assumption]. destruct Had as [Hla Hle].
  assert (pt = c) as ->.
  { rewrite Hct in Eo. unfold ad in Eo. rewrite Hla, Hle in Eo. fold (rec_ad aad (is_last chunks j) c) in Eo.
    rewrite (open_seal P Haead) in Eo. congruence. }
  assert (Hjlt : (j < length chunks)%nat) by (apply nth_error_Some; congruence).
  rewrite Hla, flag_is1 in E. clear d Hd. clearbody s3.
  unfold dec_tail, is_last in E.
  destruct (Nat.eqb_spec (S j) (length chunks)) as [Hend|Hmore].
  - (* last chunk: probe, then write *)
    unfold bind at 1 in E. destruct (m_read d_read_err 1 s3) as [r4 s4] eqn:E4.
    pose proof (m_read_cases _ _ _ _ _ E4) as (Hw4 & Hr4).
    destruct r4 as [chk|e|w|]; try contradiction.
    2:{ injection E as <- <-. apply post_stay; [lia|now rewrite Hw4, Hw3|discriminate]. }
    destruct chk as [|x chk'].
    2:{ injection E as <- <-. apply post_stay; [lia|now rewrite Hw4, Hw3|discriminate]. }
    unfold bind at 1 in E. destruct (m_write_all DIOWrite c s4) as [r5 s5] eqn:E5.
    pose proof (m_write_all_cases _ _ _ _ _ E5) as (_ & d5 & _ & _ & Hr5).
    destruct r5 as [u|e|w|]; try contradiction.
    2:{ injection E as <- <-. destruct Hr5 as ((ie & ->) & (k & Hk & Ho5) & _).
        exists j, (firstn k c). rewrite span_refl. cbn [app].
        split; [lia|]. split; [now rewrite Ho5, Hw4, Hw3|].
        split; [right; exists c, k, ie; auto|discriminate]. }
    destruct Hr5 as [Ho5 _].
    unfold bind at 1 in E. destruct (m_flush DIOWrite s5) as [r6 s6] eqn:E6.
    pose proof (m_flush_cases _ _ _ _ E6) as (_ & Ho6 & Hr6).
    assert (Hres : (res, s') = (match r6 with Ok _ => Ok tt | Err e => Err e | Panic w => Panic w | OutOfFuel => OutOfFuel end, s6)).
    { destruct r6; unfold ret in E; symmetry; exact E. }
    injection Hres as -> ->. clear E.
    exists (S j), []. rewrite app_nil_r. split; [lia|].
    split; [rewrite (span_step j j c) by (lia || assumption); rewrite span_refl; cbn [app];
            now rewrite Ho6, Ho5, Hw4, Hw3|].
    split; [left; reflexivity|]. intros _. split; [exact Hend|reflexivity].
  - (* not last: write, flush, continue *)
    unfold bind at 1 in E. destruct (m_write_all DIOWrite c s3) as [r5 s5] eqn:E5.
    pose proof (m_write_all_cases _ _ _ _ _ E5) as (_ & d5 & _ & _ & Hr5).
    destruct r5 as [u|e|w|]; try contradiction.
    2:{ injection E as <- <-. destruct Hr5 as ((ie & ->) & (k & Hk & Ho5) & _).
        exists j, (firstn k c). rewrite span_refl. cbn [app].
        split; [lia|]. split; [now rewrite Ho5, Hw3|].
        split; [right; exists c, k, ie; auto|discriminate]. }
    destruct Hr5 as [Ho5 _].
    unfold bind at 1 in E. destruct (m_flush DIOWrite s5) as [r6 s6] eqn:E6.
    pose proof (m_flush_cases _ _ _ _ E6) as (_ & Ho6 & Hr6).
    destruct r6 as [u6|e6|w6|]; try contradiction.
    2:{ injection E as <- <-.
        exists (S j), []. rewrite app_nil_r. split; [lia|].
        split; [rewrite (span_step j j c) by (lia || assumption); rewrite span_refl; cbn [app];
                now rewrite Ho6, Ho5, Hw3|].
        split; [left; reflexivity|discriminate]. }
    replace (N.of_nat j + 1) with (N.of_nat (S j)) in E by lia.
    destruct (IH (S j) s6 res s') as (j' & tail & Hj' & Hout & Htail & Hok); [lia|exact E|exact NF|].
    exists j', tail. split; [lia|].
    split; [|split; assumption].
    rewrite Hout, Ho6, Ho5, Hw3. rewrite (span_cons j j' c) by (assumption || lia).
    now rewrite <- !app_assoc.
Qed.

Lemma span0_split j : concat chunks = span 0 j ++ concat (skipn j chunks).
Proof.
  unfold span. rewrite Nat.sub_0_r. cbn [skipn]. rewrite <- concat_app. now rewrite firstn_skipn.
Qed.

Lemma skipn_nth {A} : forall j (l : list A) c, nth_error l j = Some c -> skipn j l = c :: skipn (S j) l.
Proof. induction j as [|j IH]; intros [|x l] c Hn; cbn in *; try discriminate; [now injection Hn as ->|now apply IH]. Qed.

(* from the start of the file: whatever was offered and however the run ended, the sink holds a
   prefix of the honest plaintext; Ok means all of it *)
Corollary dec_auth_file fuel s res s' :
  dec_loop fuel key aad cs 0 s = (res, s') -> no_forgery (log s') ->
  (exists written rest, w_out (wtr s') = w_out (wtr s) ++ written /\ written ++ rest = concat chunks) /\
  (res = Ok tt -> w_out (wtr s') = w_out (wtr s) ++ concat chunks).
Proof.
  intros E NF. destruct (dec_auth fuel 0 s res s') as (j' & tail & Hj' & Hout & Htail & Hok); [lia|exact E|exact NF|].
  split.
  - destruct Htail as [->|(c & k & e & Hnth & Hk & -> & _)].
    + exists (span 0 j'), (concat (skipn j' chunks)). rewrite app_nil_r in Hout. split; [exact Hout|].
      symmetry. apply span0_split.
    + exists (span 0 j' ++ firstn k c), (skipn k c ++ concat (skipn (S j') chunks)). split; [exact Hout|].
      rewrite (span0_split j'), (skipn_nth _ _ _ Hnth). cbn [concat].
      rewrite <- !app_assoc. f_equal. rewrite app_assoc, firstn_skipn. reflexivity.
  - intros Hr. destruct (Hok Hr) as [-> ->]. rewrite app_nil_r, span_all in Hout. exact Hout.
Qed.

End Auth.
