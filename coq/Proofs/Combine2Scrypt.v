(* Proofs/Combine2Scrypt.v — C18: scrypt.rs = RFC 7914 with the CONCRETE PBKDF2-HMAC-SHA256 of Spec/Pbkdf2.v
   (Proofs/ScryptRefine.v is parametrised by the PBKDF2 function and two facts about it; both are discharged here
   from Spec/HashFacts.v), and the model of the exported C function (Model/ScryptFfi.v). *)
From Kestrel Require Import Bytes BytesFacts Outcome.
From Kestrel.Spec Require Import Salsa Scrypt Pbkdf2 HashFacts ScryptConcrete.
From Kestrel.Model Require Import ScryptImpl ScryptFfi.
From Kestrel.Proofs Require Import ScryptRefine.
From Coq Require Import ZifyBool ZifyNat ZifyN.
Local Open Scope N_scope.

Lemma pbkdf2_1_length pw s n : length (pbkdf2_1 pw s n) = n.
Proof. apply pbkdf2_length. Qed.
Lemma pbkdf2_1_ok pw s n : bytes_ok (pbkdf2_1 pw s n).
Proof. apply pbkdf2_ok. Qed.

(* ---------- library ---------- *)
Theorem impl_scrypt_refines_rfc pw salt (k : N) (r p dklen : nat) :
  1 <= k -> (1 <= r)%nat -> (1 <= p)%nat ->
  N.of_nat r * N.of_nat p < 1073741824 ->
  N.of_nat r <= 18446744073709551615 / 128 / N.of_nat p ->
  N.of_nat r <= 18446744073709551615 / 256 ->
  2^k <= 18446744073709551615 / 128 / N.of_nat r ->
  128 * 2^k * N.of_nat r <= 9223372036854775807 ->
  (1 <= dklen)%nat -> N.of_nat dklen <= 137438953440 ->
  impl_scrypt pw salt (2^k) (N.of_nat r) (N.of_nat p) (N.of_nat dklen)
  = Ok (rfc_scrypt pw salt (N.to_nat (2^k)) r p dklen).
Proof. exact (scrypt_impl_refines_rfc pbkdf2_1 pbkdf2_1_length pbkdf2_1_ok pw salt k r p dklen). Qed.

Theorem impl_scrypt_total pw salt (k : N) (r p : nat) (dk : N) :
  1 <= k -> (1 <= r)%nat -> (1 <= p)%nat ->
  N.of_nat r * N.of_nat p < 1073741824 ->
  N.of_nat r <= 18446744073709551615 / 128 / N.of_nat p ->
  N.of_nat r <= 18446744073709551615 / 256 ->
  2^k <= 18446744073709551615 / 128 / N.of_nat r ->
  impl_scrypt pw salt (2^k) (N.of_nat r) (N.of_nat p) dk
  = if 128 * 2^k * N.of_nat r <=? 9223372036854775807 then
      if dk <=? 9223372036854775807 then
        if dk =? 0 then Panic PUnwrap
        else if 137438953440 <? dk then Panic PUnwrap
        else Ok (rfc_scrypt pw salt (N.to_nat (2^k)) r p (N.to_nat dk))
      else Panic PArith
    else Panic PArith.
Proof.
  intros. unfold impl_scrypt. rewrite (scrypt_total pbkdf2_1 pbkdf2_1_length pbkdf2_1_ok) by assumption.
  reflexivity.
Qed.

Theorem impl_scrypt_asserts pw salt n r p dk :
  impl_scrypt pw salt n r p dk = Panic PAssert <->
  n <= 1 \/ N.land n (n - 1) <> 0 \/
  (r * p <= 18446744073709551615 /\
    (1073741824 <= r * p \/
     (p <> 0 /\ (18446744073709551615 / 128 / p < r \/ 18446744073709551615 / 256 < r \/
                 (r <> 0 /\ 18446744073709551615 / 128 / r < n))))).
Proof. exact (scrypt_asserts pbkdf2_1 pbkdf2_1_length pbkdf2_1_ok pw salt n r p dk). Qed.

(* whatever the parameters: an Ok result has exactly dk_len bytes, each < 256 *)
Lemma obind_ok_inv {E A B} (m : outcome E A) (f : A -> outcome E B) (b : B) :
  obind m f = Ok b -> exists a, m = Ok a /\ f a = Ok b.
Proof. destruct m as [a|e|w|]; cbn [obind]; intros H; try discriminate. now exists a. Qed.

Lemma derive_key_ok_inv pbk pw salt n out :
  derive_key pbk pw salt n = Ok out -> out = pbk pw salt (N.to_nat n).
Proof.
  unfold derive_key. destruct (n =? 0); [discriminate|]. destruct (pbkdf2_max_len <? n); [discriminate|].
  intros H. now inversion H.
Qed.

Lemma scrypt_ok_shape pbk pw salt n r p dk out :
  ScryptImpl.scrypt pbk pw salt n r p dk = Ok out -> exists b, out = pbk pw b (N.to_nat dk).
Proof.
  unfold ScryptImpl.scrypt. intros H.
  repeat match type of H with
         | obind _ _ = Ok _ =>
             let a := fresh "a" in let Ha := fresh "Ha" in
             apply obind_ok_inv in H; destruct H as (a & Ha & H)
         | (let '(_, _) := ?t in _) = Ok _ => destruct t
         end.
  apply derive_key_ok_inv in H. eexists. exact H.
Qed.

Theorem impl_scrypt_ok_length pw salt n r p dk out :
  impl_scrypt pw salt n r p dk = Ok out -> length out = N.to_nat dk /\ bytes_ok out.
Proof.
  intros H. apply scrypt_ok_shape in H. destruct H as (b & ->). split; [apply pbkdf2_1_length|apply pbkdf2_1_ok].
Qed.

(* ---------- the abstract memory ---------- *)
Lemma mem_store_outside m ptr bs a :
  ~ (ptr <= a < ptr + N.of_nat (length bs)) -> mem_store m ptr bs a = m a.
Proof.
  intros H. unfold mem_store.
  destruct (N.leb_spec ptr a); destruct (N.ltb_spec a (ptr + N.of_nat (length bs))); cbn [andb]; try reflexivity.
  exfalso. apply H. lia.
Qed.

Lemma mem_store_inside m ptr bs i :
  (i < length bs)%nat -> mem_store m ptr bs (ptr + N.of_nat i) = nth i bs 0.
Proof.
  intros H. unfold mem_store.
  destruct (N.leb_spec ptr (ptr + N.of_nat i)); [|lia].
  destruct (N.ltb_spec (ptr + N.of_nat i) (ptr + N.of_nat (length bs))); [|lia].
  cbn [andb]. f_equal. lia.
Qed.

Lemma map_nth_seq (bs : bytes) : map (fun i => nth i bs 0) (seq 0 (length bs)) = bs.
Proof.
  induction bs as [|b bs IH]; [reflexivity|].
  cbn [length seq map nth]. f_equal. rewrite <- seq_shift, map_map. exact IH.
Qed.

Lemma mem_load_store m ptr bs : mem_load (mem_store m ptr bs) ptr (N.of_nat (length bs)) = bs.
Proof.
  unfold mem_load. rewrite Nat2N.id.
  etransitivity; [|apply map_nth_seq]. apply map_ext_in. intros i Hi. apply in_seq in Hi.
  apply mem_store_inside. lia.
Qed.

Lemma mem_load_length m ptr len : length (mem_load m ptr len) = N.to_nat len.
Proof. unfold mem_load. now rewrite map_length, seq_length. Qed.

(* ---------- the exported C function ---------- *)
(* For ALL arguments: copy_from_slice never panics (the library result has dk_len bytes by construction);
   the call either writes the library result into the region or propagates the library's panic. *)
Theorem ffi_scrypt_cases m password password_len salt salt_len n r p derived_key dk_len :
  ffi_scrypt pbkdf2_1 m password password_len salt salt_len n r p derived_key dk_len
  = match impl_scrypt (mem_load m password password_len) (mem_load m salt salt_len) n r p dk_len with
    | Ok dk => Ok (mem_store m derived_key dk)
    | Err e => Err e
    | Panic w => Panic w
    | OutOfFuel => OutOfFuel
    end.
Proof.
  unfold ffi_scrypt, lib_scrypt. fold (impl_scrypt (mem_load m password password_len) (mem_load m salt salt_len) n r p dk_len).
  destruct (impl_scrypt _ _ n r p dk_len) as [dk|e|w|] eqn:E; cbn [obind]; try reflexivity.
  apply impl_scrypt_ok_length in E. destruct E as [El _].
  unfold copy_from_slice. destruct (N.eqb_spec (N.of_nat (length dk)) dk_len); [reflexivity|lia].
Qed.

(* a library panic (assertion failure, capacity overflow, derive_key unwrap) is propagated and nothing is written *)
Theorem ffi_scrypt_panic_propagated m password password_len salt salt_len n r p derived_key dk_len w :
  impl_scrypt (mem_load m password password_len) (mem_load m salt salt_len) n r p dk_len = Panic w ->
  ffi_scrypt pbkdf2_1 m password password_len salt salt_len n r p derived_key dk_len = Panic w /\
  ffi_scrypt_mem pbkdf2_1 m password password_len salt salt_len n r p derived_key dk_len = m.
Proof.
  intros H. unfold ffi_scrypt_mem. rewrite ffi_scrypt_cases, H. split; reflexivity.
Qed.

(* whenever the call returns: the memory outside [derived_key, derived_key + dk_len) is what it was, and the region
   holds exactly the library result, which has dk_len bytes *)
Theorem ffi_scrypt_ok_frame m password password_len salt salt_len n r p derived_key dk_len m' :
  ffi_scrypt pbkdf2_1 m password password_len salt salt_len n r p derived_key dk_len = Ok m' ->
  exists dk,
    impl_scrypt (mem_load m password password_len) (mem_load m salt salt_len) n r p dk_len = Ok dk /\
    length dk = N.to_nat dk_len /\
    (forall a, ~ (derived_key <= a < derived_key + dk_len) -> m' a = m a) /\
    mem_load m' derived_key dk_len = dk.
Proof.
  rewrite ffi_scrypt_cases.
  destruct (impl_scrypt _ _ n r p dk_len) as [dk|e|w|] eqn:E; intros H; try discriminate.
  inversion H; subst m'; clear H. exists dk.
  destruct (impl_scrypt_ok_length _ _ _ _ _ _ _ E) as [El _].
  split; [reflexivity|]. split; [exact El|]. split.
  - intros a Ha. apply mem_store_outside. rewrite El, N2Nat.id. exact Ha.
  - replace dk_len with (N.of_nat (length dk)) by lia. apply mem_load_store.
Qed.

(* the headline: for parameters the library accepts, the call returns, the region holds the RFC 7914 value of the
   password and salt regions (as they were before the call), everything else is untouched *)
Theorem ffi_scrypt_writes_exactly_the_region m password password_len salt salt_len (k : N) (r p dklen : nat) derived_key :
  1 <= k -> (1 <= r)%nat -> (1 <= p)%nat ->
  N.of_nat r * N.of_nat p < 1073741824 ->
  N.of_nat r <= 18446744073709551615 / 128 / N.of_nat p ->
  N.of_nat r <= 18446744073709551615 / 256 ->
  2^k <= 18446744073709551615 / 128 / N.of_nat r ->
  128 * 2^k * N.of_nat r <= 9223372036854775807 ->
  (1 <= dklen)%nat -> N.of_nat dklen <= 137438953440 ->
  exists m',
    ffi_scrypt pbkdf2_1 m password password_len salt salt_len (2^k) (N.of_nat r) (N.of_nat p) derived_key (N.of_nat dklen)
      = Ok m' /\
    (forall a, ~ (derived_key <= a < derived_key + N.of_nat dklen) -> m' a = m a) /\
    mem_load m' derived_key (N.of_nat dklen)
      = rfc_scrypt (mem_load m password password_len) (mem_load m salt salt_len) (N.to_nat (2^k)) r p dklen /\
    length (mem_load m' derived_key (N.of_nat dklen)) = dklen.
Proof.
  intros Hk Hr Hp H3 H4 H5 H6 Hvec Hd1 Hd2.
  pose proof (impl_scrypt_refines_rfc (mem_load m password password_len) (mem_load m salt salt_len)
                k r p dklen Hk Hr Hp H3 H4 H5 H6 Hvec Hd1 Hd2) as E.
  eexists. rewrite ffi_scrypt_cases, E. split; [reflexivity|].
  pose proof (impl_scrypt_ok_length _ _ _ _ _ _ _ E) as [El _]. rewrite Nat2N.id in El.
  split; [|split].
  - intros a Ha. apply mem_store_outside. rewrite El. exact Ha.
  - set (v := rfc_scrypt _ _ _ r p dklen) in *. replace (N.of_nat dklen) with (N.of_nat (length v)) by lia.
    apply mem_load_store.
  - rewrite mem_load_length. lia.
Qed.

(* the same with the cost parameter as the Rust sees it: any n with n > 1 and n & (n-1) == 0 *)
Theorem impl_scrypt_refines_rfc_n pw salt (n : N) (r p dklen : nat) :
  1 < n -> N.land n (n - 1) = 0 -> (1 <= r)%nat -> (1 <= p)%nat ->
  N.of_nat r * N.of_nat p < 1073741824 ->
  N.of_nat r <= 18446744073709551615 / 128 / N.of_nat p ->
  N.of_nat r <= 18446744073709551615 / 256 ->
  n <= 18446744073709551615 / 128 / N.of_nat r ->
  128 * n * N.of_nat r <= 9223372036854775807 ->
  (1 <= dklen)%nat -> N.of_nat dklen <= 137438953440 ->
  impl_scrypt pw salt n (N.of_nat r) (N.of_nat p) (N.of_nat dklen)
  = Ok (rfc_scrypt pw salt (N.to_nat n) r p dklen).
Proof.
  intros H1 H2. destruct (pow2_of_land n H1 H2) as (k & Hk & ->). now apply impl_scrypt_refines_rfc.
Qed.

Print Assumptions impl_scrypt_refines_rfc_n.
Print Assumptions impl_scrypt_refines_rfc.
Print Assumptions impl_scrypt_total.
Print Assumptions impl_scrypt_asserts.
Print Assumptions impl_scrypt_ok_length.
Print Assumptions ffi_scrypt_cases.
Print Assumptions ffi_scrypt_panic_propagated.
Print Assumptions ffi_scrypt_ok_frame.
Print Assumptions ffi_scrypt_writes_exactly_the_region.
