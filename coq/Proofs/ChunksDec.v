(* Proofs/ChunksDec.v — decrypt_chunks over scripted I/O: round trip for every legal chunking and
   every conforming schedule; fuel sufficiency; no panic. *)
From Kestrel Require Import Bytes BytesFacts Outcome IO IOFacts Prims.
From Kestrel.Model Require Import AeadWrap Chunks.
From Coq Require Import ZifyBool ZifyNat ZifyN.
Local Open Scope N_scope.
Ltac Zify.zify_post_hook ::= Z.div_mod_to_equations.

Lemma noise_nonce_length n : length (noise_nonce n) = 12%nat.
Proof. reflexivity. Qed.

Section Monad.
Variable P : prims.
Lemma bind_ok {E A B} (m : M E A) (f : A -> M E B) s a s' : m s = (Ok a, s') -> bind m f s = f a s'.
Proof. unfold bind. now intros ->. Qed.
Lemma bind_err {E A B} (m : M E A) (f : A -> M E B) s e s' : m s = (Err e, s') -> bind m f s = (Err e, s').
Proof. unfold bind. now intros ->. Qed.
Lemma if_app {A B} (c : bool) (f g : A -> B) x : (if c then f else g) x = if c then f x else g x.
Proof. now destruct c. Qed.
Lemma m_read_exact_ok {E} (rerr : ioerr -> E) n s b s' :
  read_exact n s = (Some (inr b), s') -> m_read_exact rerr n s = (Ok b, s').
Proof. unfold m_read_exact. now intros ->. Qed.
Lemma m_read_ok {E} (rerr : ioerr -> E) n s b s' :
  io_read n s = (inr b, s') -> m_read rerr n s = (Ok b, s').
Proof. unfold m_read. now intros ->. Qed.
Lemma m_write_all_ok {E} (werr : ioerr -> E) buf s s' :
  write_all buf s = (Some None, s') -> m_write_all werr buf s = (Ok tt, s').
Proof. unfold m_write_all. now intros ->. Qed.
Lemma m_flush_ok {E} (werr : ioerr -> E) s s' :
  io_flush s = (None, s') -> m_flush werr s = (Ok tt, s').
Proof. unfold m_flush. now intros ->. Qed.
End Monad.

Section Dec.
Variable P : prims.
Variable key aad : bytes.
Variable cs : N.
Hypothesis Hkey : length key = 32%nat.

Notation dec_loop := (decrypt_chunks_loop P).
Notation record := (record P key aad).
Notation spec_from := (spec_chunks_from P key aad).

Lemma chapoly_decrypt_noise_eq n ad ct :
  chapoly_decrypt_noise P key n ad ct =
  if Nat.ltb (length ct) 16 then Err ChaPolyDecryptError
  else match p_open P key (noise_nonce n) ad ct with Some pt => Ok pt | None => Err ChaPolyDecryptError end.
Proof.
  unfold chapoly_decrypt_noise, chapoly_decrypt_ietf, chapoly_decrypt_ietf_gen.
  rewrite Hkey, noise_nonce_length. reflexivity.
Qed.

Lemma m_open_eq {E} (aerr : E) n ad ct s :
  m_open P aerr key n ad ct s =
  if Nat.ltb (length ct) 16 then (Err aerr, with_log s (EvOpen key n ad ct None))
  else match p_open P key (noise_nonce n) ad ct with
       | Some pt => (Ok pt, with_log s (EvOpen key n ad ct (Some pt)))
       | None => (Err aerr, with_log s (EvOpen key n ad ct None))
       end.
Proof.
  unfold m_open. rewrite chapoly_decrypt_noise_eq.
  destruct (Nat.ltb (length ct) 16); [reflexivity|]. destruct (p_open P key _ ad ct); reflexivity.
Qed.

(* ---------- one honest record, conforming fault-free I/O ---------- *)
Hypothesis Haead : aead_ok P.
Hypothesis Hcs : cs < 4294967296.

Lemma flag_de b : de32 (be32 (flag b)) = flag b.
Proof. destruct b; reflexivity. Qed.

Lemma record_split n b c :
  record n b c = (be64 n ++ be32 (flag b) ++ be32 (N.of_nat (length c))) ++
                 p_seal P key (noise_nonce n) (rec_ad aad b c) c.
Proof. unfold record. now rewrite <- !app_assoc. Qed.

Lemma firstn_app_exact {A} (a b : list A) : firstn (length a) (a ++ b) = a.
Proof. rewrite firstn_app, Nat.sub_diag, firstn_all. cbn. apply app_nil_r. Qed.
Lemma skipn_app_exact {A} (a b : list A) : skipn (length a) (a ++ b) = b.
Proof. rewrite skipn_app, Nat.sub_diag, skipn_all. reflexivity. Qed.

Lemma dec_record_ok fuel n b c rest s :
  chunk_ok cs c -> reader_ok (rdr s) -> writer_ok (wtr s) ->
  r_data (rdr s) = record n b c ++ rest ->
  (b = true -> rest = []) ->
  exists s1, reader_ok (rdr s1) /\ writer_ok (wtr s1) /\ r_data (rdr s1) = rest /\
             w_out (wtr s1) = w_out (wtr s) ++ c /\
             dec_loop (S fuel) key aad cs n s =
             if b then (Ok tt, s1) else dec_loop fuel key aad cs (n + 1) s1.
Proof.
  intros Hc Hr Hw Hd Hlast. unfold chunk_ok in Hc.
  cbn [decrypt_chunks_loop].
  set (h := be64 n ++ be32 (flag b) ++ be32 (N.of_nat (length c))).
  set (ct := p_seal P key (noise_nonce n) (rec_ad aad b c) c).
  assert (Hh : length h = 16%nat) by reflexivity.
  assert (Hct : length ct = (length c + 16)%nat) by (apply (seal_len P Haead)).
  rewrite record_split in Hd. fold h ct in Hd. rewrite <- app_assoc in Hd.
  destruct (read_exact_ok 16 s Hr) as (s1 & E1 & Hd1 & Hr1 & Hw1).
  { rewrite Hd, app_length. lia. }
  rewrite Hd in E1, Hd1. rewrite <- Hh in Hd1 at 1. rewrite skipn_app_exact in Hd1.
  rewrite <- Hh in E1 at 2. rewrite firstn_app_exact in E1.
  rewrite (bind_ok _ _ _ _ _ (m_read_exact_ok _ _ _ _ _ E1)).
  change (hdr_len h) with (be32 (N.of_nat (length c))).
  change (hdr_last h) with (be32 (flag b)).
  rewrite de32_be32 by lia.
  destruct (N.ltb_spec cs (N.of_nat (length c))) as [Hlt|_]; [lia|].
  rewrite Nnat.Nat2N.id.
  destruct (read_exact_ok (length c + 16) s1 Hr1) as (s2 & E2 & Hd2 & Hr2 & Hw2).
  { rewrite Hd1, app_length. lia. }
  rewrite Hd1 in E2, Hd2. rewrite <- Hct in Hd2 at 1. rewrite <- Hct in E2 at 2.
  rewrite skipn_app_exact in Hd2. rewrite firstn_app_exact in E2.
  rewrite (bind_ok _ _ _ _ _ (m_read_exact_ok _ _ _ _ _ E2)).
  assert (E3 : m_open P DChaPolyDecrypt key n (aad ++ be32 (flag b) ++ be32 (N.of_nat (length c))) ct s2 =
               (Ok c, with_log s2 (EvOpen key n (rec_ad aad b c) ct (Some c)))).
  { rewrite m_open_eq. rewrite Hct.
    destruct (Nat.ltb_spec (length c + 16) 16) as [Hlt|_]; [lia|].
    fold (rec_ad aad b c). unfold ct at 1. now rewrite (open_seal P Haead). }
  rewrite (bind_ok _ _ _ _ _ E3). clear E3.
  rewrite flag_de.
  set (s3 := with_log s2 _).
  assert (Hr3 : reader_ok (rdr s3)) by exact Hr2.
  assert (Hw3 : writer_ok (wtr s3)) by (unfold s3; cbn; rewrite Hw2, Hw1; exact Hw).
  assert (Hd3 : r_data (rdr s3) = rest) by exact Hd2.
  assert (Ho3 : w_out (wtr s3) = w_out (wtr s)) by (unfold s3; cbn; now rewrite Hw2, Hw1).
  clearbody s3. clear E1 E2 Hd1 Hd2 Hr1 Hr2 Hw1 Hw2 s1 s2.
  destruct b; cbn [flag].
  - (* last chunk: probe *)
    change (1 =? 1) with true. cbv iota.
    destruct (io_read_eof_ok 1 s3 Hr3) as (s4 & E4 & Hd4 & Hr4 & Hw4).
    { rewrite Hd3. now apply Hlast. }
    rewrite (bind_ok _ _ _ _ _ (m_read_ok _ _ _ _ _ E4)).
    assert (Hw4' : writer_ok (wtr s4)) by (rewrite Hw4; exact Hw3).
    destruct (write_all_ok c s4 Hw4') as (s5 & E5 & Ho5 & Hw5 & Hr5).
    rewrite (bind_ok _ _ _ _ _ (m_write_all_ok _ _ _ _ E5)).
    destruct (io_flush_ok s5 Hw5) as (s6 & E6 & Ho6 & Hw6 & Hr6).
    rewrite (bind_ok _ _ _ _ _ (m_flush_ok _ _ _ E6)). unfold ret.
    exists s6. refine (conj _ (conj Hw6 (conj _ (conj _ eq_refl)))).
    + rewrite Hr6, Hr5. exact Hr4.
    + rewrite Hr6, Hr5, Hd4. symmetry. now apply Hlast.
    + rewrite Ho6, Ho5, Hw4, Ho3. reflexivity.
  - change (0 =? 1) with false. cbv iota.
    destruct (write_all_ok c s3 Hw3) as (s5 & E5 & Ho5 & Hw5 & Hr5).
    rewrite (bind_ok _ _ _ _ _ (m_write_all_ok _ _ _ _ E5)).
    destruct (io_flush_ok s5 Hw5) as (s6 & E6 & Ho6 & Hw6 & Hr6).
    rewrite (bind_ok _ _ _ _ _ (m_flush_ok _ _ _ E6)).
    exists s6. refine (conj _ (conj Hw6 (conj _ (conj _ eq_refl)))).
    + rewrite Hr6, Hr5. exact Hr3.
    + rewrite Hr6, Hr5. exact Hd3.
    + rewrite Ho6, Ho5, Ho3. reflexivity.
Qed.

(* every legal chunking decrypts to the concatenation of its chunks, whatever the (conforming) schedule *)
Theorem dec_spec_chunks_ok : forall chunks n s fuel,
  chunks <> [] -> Forall (chunk_ok cs) chunks ->
  reader_ok (rdr s) -> writer_ok (wtr s) ->
  r_data (rdr s) = spec_from n chunks ->
  (length chunks <= fuel)%nat ->
  exists s', dec_loop fuel key aad cs n s = (Ok tt, s') /\
             w_out (wtr s') = w_out (wtr s) ++ concat chunks /\ r_data (rdr s') = [].
Proof.
  induction chunks as [|c rest IH]; intros n s fuel Hne Hok Hr Hw Hd Hf; [congruence|].
  inversion Hok as [|? ? Hc Hrest]; subst.
  destruct fuel as [|fuel]; [cbn in Hf; lia|].
  destruct rest as [|c2 rest'].
  - cbn [spec_chunks_from] in Hd. rewrite <- (app_nil_r (record n true c)) in Hd.
    destruct (dec_record_ok fuel n true c [] s Hc Hr Hw Hd (fun _ => eq_refl)) as (s1 & Hr1 & Hw1 & Hd1 & Ho1 & E).
    exists s1. rewrite E. cbn [concat]. rewrite app_nil_r. auto.
  - change (spec_from n (c :: c2 :: rest')) with (record n false c ++ spec_from (n + 1) (c2 :: rest')) in Hd.
    destruct (dec_record_ok fuel n false c _ s Hc Hr Hw Hd) as (s1 & Hr1 & Hw1 & Hd1 & Ho1 & E); [discriminate|].
    rewrite E.
    destruct (IH (n + 1) s1 fuel) as (s' & E' & Ho' & Hd'); try assumption; [discriminate | cbn in Hf |- *; lia |].
    exists s'. rewrite E'. repeat split; try assumption.
    rewrite Ho', Ho1. cbn [concat]. now rewrite <- app_assoc.
Qed.

End Dec.
