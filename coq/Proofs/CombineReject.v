(* Proofs/CombineReject.v — file-level rejection theorems:
   * password mode: no AEAD open under the key derived from the offered password succeeds  ==>  error,
     sink untouched (every script); on an honest file with a conforming reader the error is exactly
     ChaPolyDecrypt and the writer was never called;
   * key mode: a handshake that does not verify under the recipient key pair in use (wrong recipient,
     all-zero DH, tampered handshake) is rejected before anything is written; on success the reported
     sender key is the plaintext of the handshake's encrypted static-key field. *)
From Kestrel Require Import Bytes BytesFacts Outcome IO IOFacts Prims.
From Kestrel.gen Require Import Extracted.
From Kestrel.Model Require Import AeadWrap Chunks Noise NoiseSpec Files EventPreds FilesSpec ChunksSpec
  ChunksRobustDefs CombineDefs.
From Kestrel.Proofs Require Import MonadFacts ChunksDec ChunksEnc ChunksAuth ChunksOpen ChunksRobust NoiseFacts FilesFacts
  CombineFiles CombineChunks CombineRobust CombineHeader.
From Coq Require Import ZifyBool ZifyNat ZifyN.
Local Open Scope N_scope.

Section Reject.
Variable P : prims.
Hypothesis Hh : hash_ok P.

Lemma read_evs_no_out' d : Forall is_read_ev d -> Forall no_out_ev d.
Proof. exact (read_evs_no_out d). Qed.

(* ---------- password mode ---------- *)
(* ANY offered bytes that start with magic ++ salt, ANY script on both sides: if no AEAD open under
   scrypt(pw', salt) succeeds during the run, the run ends in an error and the sink is untouched *)
Theorem pass_no_open_no_output pw' salt rest s res s' d :
  length salt = 32%nat -> r_data (rdr s) = x_pass_file_magic ++ salt ++ rest ->
  pass_decrypt P pw' s = (res, s') -> log s' = d ++ log s ->
  (forall m ad ct pt, ~ In (EvOpen (kdf P pw' salt) m ad ct (Some pt)) d) ->
  (exists e, res = Err e /\ e <> DUnexpectedData /\ (forall ie, e <> DIOWrite ie)) /\
  w_out (wtr s') = w_out (wtr s) /\ Forall no_out_ev d.
Proof.
  intros Hls Hd E Hlog Hno.
  destruct (pass_decrypt_inv P pw' s res s' E) as [(e & d0 & -> & He & Hw & Hl & Hev)|
    (salt0 & sb & d0 & Hls0 & Hd0 & Hw & Hl & Hev & _ & Ec)].
  - assert (d0 = d) as -> by (rewrite Hl in Hlog; now apply app_inv_tail in Hlog).
    split; [|split; [now rewrite Hw|now apply read_evs_no_out]].
    exists e. split; [reflexivity|]. destruct e; try contradiction; split; intros; discriminate.
  - rewrite Hd in Hd0. apply app_inv_head in Hd0. apply app_len_inj in Hd0; [|now rewrite Hls, Hls0].
    destruct Hd0 as [<- _].
    destruct (decrypt_chunks_event_classes P _ _ _ _ _ _ Ec) as (d3 & Hl3 & _).
    assert (Hd' : d = d3 ++ kdf_ev pw' salt :: d0).
    { apply (app_inv_tail (log s)). rewrite <- Hlog, Hl3, Hl. rewrite <- app_assoc. reflexivity. }
    destruct (wrong_key_rejected_gen P (kdf P pw' salt) x_pass_file_magic cs_const (kdf_len P pw' salt Hh)
                sb res s' d3 Ec Hl3) as (Hres & Ho & Hev3).
    { intros m ad ct pt Hin. apply (Hno m ad ct pt). rewrite Hd'. apply in_or_app. now left. }
    split; [|split].
    + destruct Hres as [->|[->|[ie ->]]]; eexists; (split; [reflexivity|]); split; intros; discriminate.
    + now rewrite Ho, Hw.
    + rewrite Hd'. apply Forall_app. split; [exact Hev3|]. constructor; [exact I|now apply read_evs_no_out].
Qed.

(* the honest case: file written by pass_encrypt pw salt, read back through any conforming reader
   (writer arbitrary) with a password whose derived key opens nothing: exactly ChaPolyDecrypt, and
   the writer state is literally unchanged: no write call, no flush call *)
Theorem pass_wrong_password_rejected pw pw' salt s0 s0' F s1 res s1' d :
  aead_ok P -> length salt = 32%nat ->
  reader_ok (rdr s0) -> writer_ok (wtr s0) ->
  pass_encrypt P pw salt s0 = (Ok tt, s0') -> w_out (wtr s0') = w_out (wtr s0) ++ F ->
  reader_ok (rdr s1) -> r_data (rdr s1) = F ->
  pass_decrypt P pw' s1 = (res, s1') -> log s1' = d ++ log s1 ->
  (forall m ad ct pt, ~ In (EvOpen (kdf P pw' salt) m ad ct (Some pt)) d) ->
  res = Err DChaPolyDecrypt /\ wtr s1' = wtr s1 /\ Forall no_out_ev d.
Proof.
  intros Ha Hls Hr0 Hw0 Ee HF Hr1 Hd1 E Hlog Hno.
  destruct (pass_encrypt_output P pw salt s0 Hh Hr0 Hw0) as (s0x & Ee' & Ho & _).
  rewrite Ee in Ee'. injection Ee' as <-. rewrite Ho in HF. apply app_inv_head in HF. subst F.
  destruct (enc_chunks_legal s0 Hr0) as (Hne & Hck & _).
  set (chunks := chunks_of_reads (reads_of (N.to_nat cs_const) (rdr s0))) in *.
  unfold spec_pass_file in Hd1.
  destruct (pass_decrypt_header P pw' s1 salt _ Hr1 Hd1 Hls) as (t1 & [Hdt Hrt Hwt (dh & Hlh & Hevh & _)] & Ed).
  rewrite Ed in E.
  set (t2 := with_log t1 (EvKdf pw' salt x_lib_scrypt_n x_lib_scrypt_r x_lib_scrypt_p)) in *.
  destruct chunks as [|c tl] eqn:Echunks; [congruence|].
  inversion Hck as [|? ? Hc _]; subst.
  unfold spec_chunks in Hdt.
  destruct (spec_from_head P (kdf P pw salt) x_pass_file_magic 0 c tl) as (b & rest & Hhead).
  rewrite Hhead in Hdt.
  destruct (record_framing P (kdf P pw salt) x_pass_file_magic cs_const (kdf_len P pw salt Hh) Ha cs_const_hi 0 b c rest Hc)
    as (Esplit & Hh16 & Hle & Hct).
  rewrite Esplit in Hdt.
  destruct (decrypt_chunks_event_classes P _ _ _ _ _ _ E) as (d3 & Hl3 & _).
  assert (Hd' : d = d3 ++ EvKdf pw' salt x_lib_scrypt_n x_lib_scrypt_r x_lib_scrypt_p :: dh).
  { apply (app_inv_tail (log s1)). rewrite <- Hlog, Hl3. unfold t2. cbn [log with_log]. rewrite Hlh.
    rewrite <- app_assoc. reflexivity. }
  destruct (dec_first_record_wrong_key P (kdf P pw' salt) x_pass_file_magic cs_const (kdf_len P pw' salt Hh)
              t2 _ _ rest res s1' d3 Hrt Hdt Hh16 Hle Hct E Hl3) as (Hres & Hw & Hev3 & _).
  { intros m ad ct pt Hin. apply (Hno m ad ct pt). rewrite Hd'. apply in_or_app. now left. }
  split; [exact Hres|]. split; [rewrite Hw; unfold t2; cbn [wtr with_log]; exact Hwt|].
  rewrite Hd'. apply Forall_app. split; [exact Hev3|]. constructor; [exact I|now apply read_evs_no_out].
Qed.

(* ---------- key mode: the handshake ---------- *)
(* closed form of an accepted handshake *)
Theorem noise_decrypt_ok_inv r rpk prologue msg payload spk hh : length r = 32%nat ->
  noise_decrypt P r rpk prologue msg = Ok (payload, spk, hh) ->
  let re := firstn 32 msg in
  let c1 := firstn 48 (skipn 32 msg) in
  let c2 := skipn 80 msg in
  noise_len_ok (length msg) = true /\
  all_zero (p_dh P r re) = false /\
  p_open P (hs_k1 P (p_dh P r re)) (noise_nonce 0) (hs_h3 P prologue rpk re) c1 = Some spk /\
  length spk = 32%nat /\
  all_zero (p_dh P r spk) = false /\
  p_open P (hs_k2 P (p_dh P r re) (p_dh P r spk)) (noise_nonce 0) (mixh P (hs_h3 P prologue rpk re) c1) c2 = Some payload /\
  length payload = 32%nat /\
  hh = mixh P (mixh P (hs_h3 P prologue rpk re) c1) c2.
Proof.
  intros Hr E. rewrite (noise_decrypt_eq P Hh r rpk prologue msg Hr) in E.
  destruct (noise_len_ok (length msg)); [|discriminate]. cbv zeta. split; [reflexivity|].
  unfold noise_decrypt_spec in E. fold (hs_h3 P prologue rpk (firstn 32 msg)) in E.
  destruct (all_zero (p_dh P r (firstn 32 msg))); [discriminate|]. split; [reflexivity|].
  fold (hs_k1 P (p_dh P r (firstn 32 msg))) in E.
  destruct (p_open P (hs_k1 P (p_dh P r (firstn 32 msg))) (noise_nonce 0) (hs_h3 P prologue rpk (firstn 32 msg))
              (firstn 48 (skipn 32 msg))) as [rs0|]; [|discriminate].
  destruct (Nat.eqb_spec (length rs0) 32) as [Hl|]; [|discriminate]. cbn [negb] in E.
  destruct (all_zero (p_dh P r rs0)) eqn:Ez; [discriminate|].
  fold (hs_k2 P (p_dh P r (firstn 32 msg)) (p_dh P r rs0)) in E.
  destruct (p_open P (hs_k2 P (p_dh P r (firstn 32 msg)) (p_dh P r rs0)) (noise_nonce 0) _ (skipn 80 msg)) as [pl|] eqn:Eo;
    [|discriminate].
  destruct (Nat.eqb_spec (length pl) 32) as [Hlp|]; [|discriminate]. cbn [negb] in E.
  injection E as <- <- <-. repeat split; assumption.
Qed.

(* a handshake that does not verify under the key pair in use: for EVERY script the result is the
   noise error (or an I/O read error if the reader failed first) and the writer is untouched *)
Theorem key_decrypt_handshake_rejected r rpk s msg rest ne res s' :
  r_data (rdr s) = x_prologue ++ msg ++ rest -> length msg = 128%nat ->
  noise_decrypt P r rpk x_prologue msg = Err ne ->
  key_decrypt P r rpk s = (res, s') ->
  (res = Err (DOtherNoise ne) \/ exists ie, res = Err (DIORead ie)) /\
  wtr s' = wtr s /\ exists d, log s' = d ++ log s /\ Forall is_read_ev d.
Proof.
  intros Hd Hlm Hn E.
  destruct (key_decrypt_inv P r rpk s res s' E) as
    [(e & d & -> & He & Hw & Hl & Hev & Hcase)|[(msg0 & d & Hl0 & Hd0 & _ & Hres & Hw & Hl & Hev & _)|
     (msg0 & sb & d & payload & spk & hh & r3 & Hl0 & Hd0 & Hn0 & _)]].
  - split; [|split; [exact Hw|exists d; auto]].
    destruct Hcase as [(ie & ->)|(pro & Hlp & Hdp & Hne)]; [right; eauto|].
    exfalso. rewrite Hd in Hdp. apply app_len_inj in Hdp; [|now rewrite Hlp].
    destruct Hdp as [Hp _]. now apply Hne.
  - rewrite Hd in Hd0. apply app_inv_head in Hd0. apply app_len_inj in Hd0; [|now rewrite Hlm, Hl0].
    destruct Hd0 as [<- _]. rewrite Hn in Hres. cbn [noise_fail] in Hres.
    split; [left; exact Hres|]. split; [exact Hw|exists d; auto].
  - exfalso. rewrite Hd in Hd0. apply app_inv_head in Hd0. apply app_len_inj in Hd0; [|now rewrite Hlm, Hl0].
    destruct Hd0 as [<- _]. rewrite Hn in Hn0. discriminate Hn0.
Qed.

(* an all-zero X25519 output on the recipient side (low-order ephemeral key in the file) *)
Theorem key_decrypt_zero_dh_refused r rpk s msg rest res s' :
  length r = 32%nat ->
  r_data (rdr s) = x_prologue ++ msg ++ rest -> length msg = 128%nat ->
  all_zero (p_dh P r (firstn 32 msg)) = true ->
  key_decrypt P r rpk s = (res, s') ->
  (res = Err (DOtherNoise NDh) \/ exists ie, res = Err (DIORead ie)) /\ wtr s' = wtr s.
Proof.
  intros Hr Hd Hlm Hz E.
  assert (Hn : noise_decrypt P r rpk x_prologue msg = Err NDh).
  { apply (noise_decrypt_dh_zero P Hh); try assumption; rewrite Hlm; lia. }
  destruct (key_decrypt_handshake_rejected r rpk s msg rest NDh res s' Hd Hlm Hn E) as (H1 & H2 & _). auto.
Qed.

(* ... and in the static-static DH (low-order claimed sender key) *)
Theorem key_decrypt_zero_dh_static_refused r rpk s msg rest rs0 res s' :
  length r = 32%nat ->
  r_data (rdr s) = x_prologue ++ msg ++ rest -> length msg = 128%nat ->
  all_zero (p_dh P r (firstn 32 msg)) = false ->
  p_open P (hs_k1 P (p_dh P r (firstn 32 msg))) (noise_nonce 0)
    (hs_h3 P x_prologue rpk (firstn 32 msg)) (firstn 48 (skipn 32 msg)) = Some rs0 ->
  length rs0 = 32%nat -> all_zero (p_dh P r rs0) = true ->
  key_decrypt P r rpk s = (res, s') ->
  (res = Err (DOtherNoise NDh) \/ exists ie, res = Err (DIORead ie)) /\ wtr s' = wtr s.
Proof.
  intros Hr Hd Hlm Hz1 Ho Hl0 Hz2 E.
  assert (Hn : noise_decrypt P r rpk x_prologue msg = Err NDh).
  { apply (noise_decrypt_dh_zero_static P Hh r rpk x_prologue msg rs0); try assumption; rewrite Hlm; lia. }
  destruct (key_decrypt_handshake_rejected r rpk s msg rest NDh res s' Hd Hlm Hn E) as (H1 & H2 & _). auto.
Qed.

(* success, EVERY script: the reported sender key is the plaintext of handshake bytes 32..80 under the
   key derived from DH(recipient private, file's ephemeral public), and the payload key opened under a
   key that additionally depends on DH(recipient private, reported sender key) *)
Theorem key_decrypt_sender_is_decrypted_static r rpk s spk s' :
  length r = 32%nat ->
  key_decrypt P r rpk s = (Ok spk, s') ->
  exists msg rest payload, r_data (rdr s) = x_prologue ++ msg ++ rest /\ length msg = 128%nat /\
    let re := firstn 32 msg in
    let c1 := firstn 48 (skipn 32 msg) in
    let c2 := skipn 80 msg in
    all_zero (p_dh P r re) = false /\
    p_open P (hs_k1 P (p_dh P r re)) (noise_nonce 0) (hs_h3 P x_prologue rpk re) c1 = Some spk /\
    length spk = 32%nat /\ all_zero (p_dh P r spk) = false /\
    p_open P (hs_k2 P (p_dh P r re) (p_dh P r spk)) (noise_nonce 0)
      (mixh P (hs_h3 P x_prologue rpk re) c1) c2 = Some payload /\ length payload = 32%nat.
Proof.
  intros Hr E.
  destruct (key_decrypt_inv P r rpk s _ s' E) as
    [(e & d & Habs & _)|[(msg0 & d & _ & _ & _ & Hres & _)|
     (msg & sb & d & payload & spk0 & hh & r3 & Hlm & Hd & Hn & _ & _ & _ & _ & _ & Hres)]].
  - discriminate Habs.
  - exfalso. destruct (noise_decrypt P r rpk x_prologue msg0); discriminate Hres.
  - assert (spk0 = spk) as -> by (destruct r3; cbn in Hres; congruence).
    exists msg, (r_data (rdr sb)), payload. split; [exact Hd|]. split; [exact Hlm|].
    destruct (noise_decrypt_ok_inv r rpk x_prologue msg payload spk hh Hr Hn) as (_ & H1 & H2 & H3 & H4 & H5 & H6 & _).
    cbv zeta. auto 10.
Qed.

(* the two ways a handshake fails to open, in closed form: the static-key field does not open under the
   key derived from DH(r, file's ephemeral) — what a recipient other than the addressed one sees once keys
   derived from different DH outputs open nothing — or the payload field does not open under the key that
   additionally depends on DH(r, claimed sender key) — what happens when the claimed sender key is not the
   public key of the private key actually used *)
Theorem noise_decrypt_static_open_fails r rpk prologue msg :
  length r = 32%nat -> noise_len_ok (length msg) = true ->
  p_open P (hs_k1 P (p_dh P r (firstn 32 msg))) (noise_nonce 0) (hs_h3 P prologue rpk (firstn 32 msg))
    (firstn 48 (skipn 32 msg)) = None ->
  exists ne, noise_decrypt P r rpk prologue msg = Err ne /\ (ne = NDecrypt \/ ne = NDh).
Proof.
  intros Hr Hlen Ho. rewrite (noise_decrypt_eq P Hh r rpk prologue msg Hr), Hlen.
  unfold noise_decrypt_spec. fold (hs_h3 P prologue rpk (firstn 32 msg)).
  destruct (all_zero (p_dh P r (firstn 32 msg))); [eauto|].
  fold (hs_k1 P (p_dh P r (firstn 32 msg))). rewrite Ho. eauto.
Qed.

Theorem noise_decrypt_payload_open_fails r rpk prologue msg rs0 :
  length r = 32%nat -> noise_len_ok (length msg) = true ->
  p_open P (hs_k1 P (p_dh P r (firstn 32 msg))) (noise_nonce 0) (hs_h3 P prologue rpk (firstn 32 msg))
    (firstn 48 (skipn 32 msg)) = Some rs0 ->
  p_open P (hs_k2 P (p_dh P r (firstn 32 msg)) (p_dh P r rs0)) (noise_nonce 0)
    (mixh P (hs_h3 P prologue rpk (firstn 32 msg)) (firstn 48 (skipn 32 msg))) (skipn 80 msg) = None ->
  exists ne, noise_decrypt P r rpk prologue msg = Err ne.
Proof.
  intros Hr Hlen Ho1 Ho2. rewrite (noise_decrypt_eq P Hh r rpk prologue msg Hr), Hlen.
  unfold noise_decrypt_spec. fold (hs_h3 P prologue rpk (firstn 32 msg)).
  destruct (all_zero (p_dh P r (firstn 32 msg))); [eauto|].
  fold (hs_k1 P (p_dh P r (firstn 32 msg))). rewrite Ho1.
  destruct (negb (Nat.eqb (length rs0) 32)); [eauto|].
  destruct (all_zero (p_dh P r rs0)); [eauto|].
  fold (hs_k2 P (p_dh P r (firstn 32 msg)) (p_dh P r rs0)). rewrite Ho2. eauto.
Qed.

Lemma noise_len_ok_128 (msg : bytes) : length msg = 128%nat -> noise_len_ok (length msg) = true.
Proof. intros ->. apply noise_len_ok_iff. split; [apply Nat.leb_le|apply N.leb_le]; reflexivity. Qed.

(* file level, EVERY script: the recipient key pair in use does not open the static-key field *)
Theorem key_decrypt_wrong_recipient r rpk s msg rest res s' :
  length r = 32%nat ->
  r_data (rdr s) = x_prologue ++ msg ++ rest -> length msg = 128%nat ->
  p_open P (hs_k1 P (p_dh P r (firstn 32 msg))) (noise_nonce 0) (hs_h3 P x_prologue rpk (firstn 32 msg))
    (firstn 48 (skipn 32 msg)) = None ->
  key_decrypt P r rpk s = (res, s') ->
  (res = Err (DOtherNoise NDecrypt) \/ res = Err (DOtherNoise NDh) \/ exists ie, res = Err (DIORead ie)) /\
  wtr s' = wtr s.
Proof.
  intros Hr Hd Hlm Ho E.
  destruct (noise_decrypt_static_open_fails r rpk x_prologue msg Hr (noise_len_ok_128 msg Hlm) Ho) as (ne & Hn & Hne).
  destruct (key_decrypt_handshake_rejected r rpk s msg rest ne res s' Hd Hlm Hn E) as (H1 & H2 & _).
  split; [|exact H2]. destruct H1 as [->|H1]; [destruct Hne as [->| ->]; auto|auto].
Qed.

(* file level, EVERY script: the payload field does not open under the key bound to the claimed sender *)
Theorem key_decrypt_mismatched_sender r rpk s msg rest rs0 res s' :
  length r = 32%nat ->
  r_data (rdr s) = x_prologue ++ msg ++ rest -> length msg = 128%nat ->
  p_open P (hs_k1 P (p_dh P r (firstn 32 msg))) (noise_nonce 0) (hs_h3 P x_prologue rpk (firstn 32 msg))
    (firstn 48 (skipn 32 msg)) = Some rs0 ->
  p_open P (hs_k2 P (p_dh P r (firstn 32 msg)) (p_dh P r rs0)) (noise_nonce 0)
    (mixh P (hs_h3 P x_prologue rpk (firstn 32 msg)) (firstn 48 (skipn 32 msg))) (skipn 80 msg) = None ->
  key_decrypt P r rpk s = (res, s') ->
  ((exists ne, res = Err (DOtherNoise ne)) \/ exists ie, res = Err (DIORead ie)) /\ wtr s' = wtr s.
Proof.
  intros Hr Hd Hlm Ho1 Ho2 E.
  destruct (noise_decrypt_payload_open_fails r rpk x_prologue msg rs0 Hr (noise_len_ok_128 msg Hlm) Ho1 Ho2) as (ne & Hn).
  destruct (key_decrypt_handshake_rejected r rpk s msg rest ne res s' Hd Hlm Hn E) as (H1 & H2 & _).
  split; [|exact H2]. destruct H1 as [->|H1]; eauto.
Qed.

End Reject.

Section Closure.
Print Assumptions pass_no_open_no_output.
Print Assumptions pass_wrong_password_rejected.
Print Assumptions noise_decrypt_ok_inv.
Print Assumptions key_decrypt_handshake_rejected.
Print Assumptions key_decrypt_zero_dh_refused.
Print Assumptions key_decrypt_zero_dh_static_refused.
Print Assumptions key_decrypt_sender_is_decrypted_static.
Print Assumptions noise_decrypt_static_open_fails.
Print Assumptions noise_decrypt_payload_open_fails.
Print Assumptions key_decrypt_wrong_recipient.
Print Assumptions key_decrypt_mismatched_sender.
End Closure.
