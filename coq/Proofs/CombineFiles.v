(* Proofs/CombineFiles.v — end-to-end FILE-level round trips: key_encrypt followed by key_decrypt,
   pass_encrypt followed by pass_decrypt, for every plaintext and every conforming fault-free
   read/write schedule on both sides.  Combines FilesFacts (headers), NoiseFacts (handshake) and
   ChunksEnc (chunk stream). *)
From Kestrel Require Import Bytes BytesFacts Outcome IO IOFacts Prims.
From Kestrel.gen Require Import Extracted.
From Kestrel.Model Require Import AeadWrap Chunks Noise NoiseSpec Files EventPreds FilesSpec ChunksSpec CombineDefs.
From Kestrel.Proofs Require Import MonadFacts ChunksDec ChunksEnc NoiseFacts FilesFacts.
From Coq Require Import ZifyBool ZifyNat ZifyN.
Local Open Scope N_scope.

Lemma cs_const_lo : 1 <= cs_const.
Proof. unfold cs_const, x_lib_chunk_size. lia. Qed.
Lemma cs_const_hi : cs_const < 4294967296.
Proof. unfold cs_const, x_lib_chunk_size. lia. Qed.
Lemma cs_const_val : cs_const = 65536.
Proof. reflexivity. Qed.

Section CombineFiles.
Variable P : prims.

Lemma file_key_len payload hh : hash_ok P -> length (file_key P payload hh) = 32%nat.
Proof. intros Hh. unfold file_key. apply (hkdf_len P Hh). change (N.to_nat x_enc_hkdf_len) with 32%nat. lia. Qed.

Lemma kdf_len pw salt : hash_ok P -> length (kdf P pw salt) = 32%nat.
Proof. intros Hh. unfold kdf. apply (scrypt_len P Hh). Qed.

(* ---------- key mode ---------- *)
(* General form: injected or fresh ephemeral / payload key (eph_of / payload_of select), the sink of
   the encryptor may already hold bytes: F is what this run appended. *)
Theorem key_file_roundtrip_gen fresh_pk fresh_e s r e epk pk e' :
  aead_ok P -> hash_ok P -> dh_comm P ->
  eph_of P fresh_e e epk = (e', dh_pub P e') ->
  length e' = 32%nat -> length s = 32%nat -> length r = 32%nat ->
  length (payload_of fresh_pk pk) = 32%nat ->
  all_zero (p_dh P e' (dh_pub P r)) = false -> all_zero (p_dh P s (dh_pub P r)) = false ->
  forall s0, reader_ok (rdr s0) -> writer_ok (wtr s0) ->
  exists s0' F,
    key_encrypt P fresh_pk fresh_e s (dh_pub P s) (dh_pub P r) e epk pk s0 = (Ok tt, s0') /\
    w_out (wtr s0') = w_out (wtr s0) ++ F /\
    forall s1, reader_ok (rdr s1) -> writer_ok (wtr s1) -> r_data (rdr s1) = F ->
    exists s1', key_decrypt P r (dh_pub P r) s1 = (Ok (dh_pub P s), s1') /\
                w_out (wtr s1') = w_out (wtr s1) ++ r_data (rdr s0) /\ r_data (rdr s1') = [].
Proof.
  intros Ha Hh Hc Hep He Hs Hr Hp Hz1 Hz2 s0 Hr0 Hw0.
  destruct (key_header_agree P fresh_pk fresh_e s r e epk pk e' Ha Hh Hc Hep He Hs Hr Hp Hz1 Hz2)
    as (msg & hh & Hlm & Henc & Hdec).
  destruct (Henc s0 Hw0) as (sa & [Hoa Hra Hwa _] & Ee).
  set (K := file_key P (payload_of fresh_pk pk) hh) in *.
  assert (HK : length K = 32%nat) by (apply file_key_len; exact Hh).
  assert (Hrsa : reader_ok (rdr sa)) by (rewrite Hra; exact Hr0).
  destruct (enc_spec_ok P K [] cs_const sa HK cs_const_lo Hrsa Hwa) as (s0' & Ec & Hoc & _).
  exists s0'. eexists. split; [rewrite Ee; exact Ec|]. split.
  { rewrite Hoc, Hoa. rewrite <- app_assoc. reflexivity. }
  intros s1 Hr1 Hw1 Hd1.
  rewrite <- !app_assoc in Hd1.
  destruct (Hdec s1 _ Hr1 Hd1) as (t1 & [Hdt Hrt Hwt _] & Ed).
  assert (Hwt1 : writer_ok (wtr t1)) by (rewrite Hwt; exact Hw1).
  destruct (chunk_roundtrip_gen P K [] cs_const sa s0' t1 (Ok tt) Ha HK cs_const_lo cs_const_hi
              Hrsa Hwa Ec Hrt Hwt1) as (_ & s1' & Edc & Ho1 & Hd1').
  { rewrite Hoc, Hdt. reflexivity. }
  exists s1'. split.
  - rewrite Ed. unfold bind. rewrite Edc. reflexivity.
  - split; [|exact Hd1']. rewrite Ho1, Hwt, Hra. reflexivity.
Qed.

(* injected ephemeral and payload keys, empty sinks: the form of property C01 *)
Theorem key_file_roundtrip fresh_pk fresh_e s e r pk spk epk rpk :
  aead_ok P -> hash_ok P -> dh_comm P ->
  length s = 32%nat -> length e = 32%nat -> length r = 32%nat -> length pk = 32%nat ->
  spk = dh_pub P s -> epk = dh_pub P e -> rpk = dh_pub P r ->
  all_zero (p_dh P e rpk) = false -> all_zero (p_dh P s rpk) = false ->
  forall s0, reader_ok (rdr s0) -> writer_ok (wtr s0) -> w_out (wtr s0) = [] ->
  exists s0',
    key_encrypt P fresh_pk fresh_e s spk rpk (Some e) (Some epk) (Some pk) s0 = (Ok tt, s0') /\
    forall s1, reader_ok (rdr s1) -> writer_ok (wtr s1) ->
      r_data (rdr s1) = w_out (wtr s0') -> w_out (wtr s1) = [] ->
    exists s1', key_decrypt P r rpk s1 = (Ok spk, s1') /\ w_out (wtr s1') = r_data (rdr s0).
Proof.
  intros Ha Hh Hc Hs He Hr Hp -> -> -> Hz1 Hz2 s0 Hr0 Hw0 Ho0.
  destruct (key_file_roundtrip_gen fresh_pk fresh_e s r (Some e) (Some (dh_pub P e)) (Some pk) e
              Ha Hh Hc eq_refl He Hs Hr Hp Hz1 Hz2 s0 Hr0 Hw0) as (s0' & F & Ee & Ho & Hdec).
  exists s0'. split; [exact Ee|]. intros s1 Hr1 Hw1 Hd1 Ho1.
  rewrite Ho, Ho0 in Hd1. cbn [app] in Hd1.
  destruct (Hdec s1 Hr1 Hw1 Hd1) as (s1' & Ed & Hout & _).
  exists s1'. split; [exact Ed|]. rewrite Hout, Ho1. reflexivity.
Qed.

(* fresh (non-injected) ephemeral and payload keys: the 32 random bytes drawn are fresh_pk, fresh_e *)
Theorem key_file_roundtrip_fresh fresh_pk fresh_e s r spk rpk :
  aead_ok P -> hash_ok P -> dh_comm P ->
  length s = 32%nat -> length fresh_e = 32%nat -> length r = 32%nat -> length fresh_pk = 32%nat ->
  spk = dh_pub P s -> rpk = dh_pub P r ->
  all_zero (p_dh P fresh_e rpk) = false -> all_zero (p_dh P s rpk) = false ->
  forall s0, reader_ok (rdr s0) -> writer_ok (wtr s0) -> w_out (wtr s0) = [] ->
  exists s0',
    key_encrypt P fresh_pk fresh_e s spk rpk None None None s0 = (Ok tt, s0') /\
    forall s1, reader_ok (rdr s1) -> writer_ok (wtr s1) ->
      r_data (rdr s1) = w_out (wtr s0') -> w_out (wtr s1) = [] ->
    exists s1', key_decrypt P r rpk s1 = (Ok spk, s1') /\ w_out (wtr s1') = r_data (rdr s0).
Proof.
  intros Ha Hh Hc Hs He Hr Hp -> -> Hz1 Hz2 s0 Hr0 Hw0 Ho0.
  destruct (key_file_roundtrip_gen fresh_pk fresh_e s r None None None fresh_e
              Ha Hh Hc eq_refl He Hs Hr Hp Hz1 Hz2 s0 Hr0 Hw0) as (s0' & F & Ee & Ho & Hdec).
  exists s0'. split; [exact Ee|]. intros s1 Hr1 Hw1 Hd1 Ho1.
  rewrite Ho, Ho0 in Hd1. cbn [app] in Hd1.
  destruct (Hdec s1 Hr1 Hw1 Hd1) as (s1' & Ed & Hout & _).
  exists s1'. split; [exact Ed|]. rewrite Hout, Ho1. reflexivity.
Qed.

(* ---------- password mode ---------- *)
Theorem pass_file_roundtrip_gen pw salt :
  aead_ok P -> hash_ok P -> length salt = 32%nat ->
  forall s0, reader_ok (rdr s0) -> writer_ok (wtr s0) ->
  exists s0' F,
    pass_encrypt P pw salt s0 = (Ok tt, s0') /\
    w_out (wtr s0') = w_out (wtr s0) ++ F /\
    firstn 36 F = x_pass_file_magic ++ salt /\
    forall s1, reader_ok (rdr s1) -> writer_ok (wtr s1) -> r_data (rdr s1) = F ->
    exists s1', pass_decrypt P pw s1 = (Ok tt, s1') /\
                w_out (wtr s1') = w_out (wtr s1) ++ r_data (rdr s0) /\ r_data (rdr s1') = [].
Proof.
  intros Ha Hh Hls s0 Hr0 Hw0.
  destruct (pass_encrypt_header P pw salt s0 Hw0) as (sa & [Hoa Hra Hwa _] & Ee).
  set (K := kdf P pw salt) in *.
  assert (HK : length K = 32%nat) by (apply kdf_len; exact Hh).
  assert (Hrsa : reader_ok (rdr sa)) by (rewrite Hra; exact Hr0).
  destruct (enc_spec_ok P K x_pass_file_magic cs_const sa HK cs_const_lo Hrsa Hwa) as (s0' & Ec & Hoc & _).
  exists s0'. eexists. split; [rewrite Ee; exact Ec|]. split.
  { rewrite Hoc, Hoa. rewrite <- app_assoc. reflexivity. }
  split.
  { assert (Hl36 : length (x_pass_file_magic ++ salt) = 36%nat) by (rewrite app_length, Hls; reflexivity).
    rewrite <- Hl36 at 1. apply firstn_app_exact. }
  intros s1 Hr1 Hw1 Hd1.
  rewrite <- !app_assoc in Hd1.
  destruct (pass_decrypt_header P pw s1 salt _ Hr1 Hd1 Hls) as (t1 & [Hdt Hrt Hwt _] & Ed).
  set (t2 := with_log t1 (EvKdf pw salt x_lib_scrypt_n x_lib_scrypt_r x_lib_scrypt_p)) in *.
  assert (Hwt2 : writer_ok (wtr t2)) by (unfold t2; cbn [wtr with_log]; rewrite Hwt; exact Hw1).
  assert (Hrt2 : reader_ok (rdr t2)) by exact Hrt.
  destruct (chunk_roundtrip_gen P K x_pass_file_magic cs_const sa s0' t2 (Ok tt) Ha HK cs_const_lo cs_const_hi
              Hrsa Hwa Ec Hrt2 Hwt2) as (_ & s1' & Edc & Ho1 & Hd1').
  { rewrite Hoc. unfold t2. cbn [rdr with_log]. rewrite Hdt. reflexivity. }
  exists s1'. split; [rewrite Ed; exact Edc|].
  split; [|exact Hd1']. rewrite Ho1. unfold t2. cbn [wtr with_log]. rewrite Hwt, Hra. reflexivity.
Qed.

Theorem pass_file_roundtrip pw salt :
  aead_ok P -> hash_ok P -> length salt = 32%nat ->
  forall s0, reader_ok (rdr s0) -> writer_ok (wtr s0) -> w_out (wtr s0) = [] ->
  exists s0',
    pass_encrypt P pw salt s0 = (Ok tt, s0') /\
    forall s1, reader_ok (rdr s1) -> writer_ok (wtr s1) ->
      r_data (rdr s1) = w_out (wtr s0') -> w_out (wtr s1) = [] ->
    exists s1', pass_decrypt P pw s1 = (Ok tt, s1') /\ w_out (wtr s1') = r_data (rdr s0).
Proof.
  intros Ha Hh Hls s0 Hr0 Hw0 Ho0.
  destruct (pass_file_roundtrip_gen pw salt Ha Hh Hls s0 Hr0 Hw0) as (s0' & F & Ee & Ho & _ & Hdec).
  exists s0'. split; [exact Ee|]. intros s1 Hr1 Hw1 Hd1 Ho1.
  rewrite Ho, Ho0 in Hd1. cbn [app] in Hd1.
  destruct (Hdec s1 Hr1 Hw1 Hd1) as (s1' & Ed & Hout & _).
  exists s1'. split; [exact Ed|]. rewrite Hout, Ho1. reflexivity.
Qed.

End CombineFiles.


(* ================= what the encryptors write (format conformance, lengths, cleartext) ================= *)
Section Output.
Variable P : prims.

Notation reads s := (reads_of (N.to_nat cs_const) (rdr s)).

Lemma cs_const_nat_lo : (1 <= N.to_nat cs_const)%nat.
Proof. pose proof cs_const_lo. lia. Qed.

Lemma enc_chunks_legal s : reader_ok (rdr s) ->
  chunks_of_reads (reads s) <> [] /\ Forall (chunk_ok cs_const) (chunks_of_reads (reads s)) /\
  concat (chunks_of_reads (reads s)) = r_data (rdr s).
Proof.
  intros Hr. split; [apply chunks_of_reads_ne|]. split.
  - apply chunks_of_reads_ok. apply reads_of_pieces; [exact cs_const_nat_lo|exact Hr].
  - rewrite chunks_of_reads_concat. apply reads_of_concat; [exact cs_const_nat_lo|exact Hr].
Qed.

(* pass_encrypt writes exactly the documented password file for the chunking given by its reads *)
Theorem pass_encrypt_output pw salt s0 : hash_ok P -> reader_ok (rdr s0) -> writer_ok (wtr s0) ->
  exists s0', pass_encrypt P pw salt s0 = (Ok tt, s0') /\
    w_out (wtr s0') = w_out (wtr s0) ++ spec_pass_file P pw salt (chunks_of_reads (reads s0)) /\
    r_data (rdr s0') = [] /\ reader_ok (rdr s0') /\ writer_ok (wtr s0').
Proof.
  intros Hh Hr0 Hw0.
  destruct (pass_encrypt_header P pw salt s0 Hw0) as (sa & [Hoa Hra Hwa _] & Ee).
  assert (Hrsa : reader_ok (rdr sa)) by (rewrite Hra; exact Hr0).
  destruct (enc_spec_ok P (kdf P pw salt) x_pass_file_magic cs_const sa (kdf_len P pw salt Hh) cs_const_lo Hrsa Hwa)
    as (s0' & Ec & Hoc & Hrest).
  exists s0'. split; [rewrite Ee; exact Ec|]. split; [|exact Hrest].
  rewrite Hoc, Hoa, Hra. unfold spec_pass_file. rewrite <- !app_assoc. reflexivity.
Qed.

(* key_encrypt writes exactly the documented key file: prologue, the handshake message the Noise layer
   produced, chunk stream under the derived file key *)
Theorem key_encrypt_output fresh_pk fresh_e s spk rpk e epk pk s0 msg hh :
  hash_ok P -> length (payload_of fresh_pk pk) = 32%nat ->
  noise_encrypt P fresh_e s spk rpk e epk x_prologue (payload_of fresh_pk pk) = Ok (msg, hh) ->
  reader_ok (rdr s0) -> writer_ok (wtr s0) ->
  exists s0', key_encrypt P fresh_pk fresh_e s spk rpk e epk pk s0 = (Ok tt, s0') /\
    w_out (wtr s0') = w_out (wtr s0) ++
      spec_key_file P msg hh (payload_of fresh_pk pk) (chunks_of_reads (reads s0)) /\
    r_data (rdr s0') = [] /\ reader_ok (rdr s0') /\ writer_ok (wtr s0').
Proof.
  intros Hh Hp Hn Hr0 Hw0.
  destruct (key_encrypt_header P fresh_pk fresh_e s spk rpk e epk pk s0 msg hh Hp Hw0 Hn) as (sa & [Hoa Hra Hwa _] & Ee).
  assert (Hrsa : reader_ok (rdr sa)) by (rewrite Hra; exact Hr0).
  destruct (enc_spec_ok P (file_key P (payload_of fresh_pk pk) hh) [] cs_const sa
              (file_key_len P _ _ Hh) cs_const_lo Hrsa Hwa) as (s0' & Ec & Hoc & Hrest).
  exists s0'. split; [rewrite Ee; exact Ec|]. split; [|exact Hrest].
  rewrite Hoc, Hoa, Hra. unfold spec_key_file. rewrite <- !app_assoc. reflexivity.
Qed.

(* the handshake message in closed form: cleartext ephemeral public key, then two AEAD outputs *)
Theorem noise_msg_shape e epk s spk rpk prologue payload msg hh :
  noise_encrypt_spec P e epk s spk rpk prologue payload = Ok (msg, hh) ->
  all_zero (p_dh P e rpk) = false /\ all_zero (p_dh P s rpk) = false /\
  msg = epk ++ hs_c1 P prologue rpk epk spk (p_dh P e rpk)
            ++ hs_c2 P prologue rpk epk spk (p_dh P e rpk) (p_dh P s rpk) payload.
Proof.
  unfold noise_encrypt_spec.
  destruct (all_zero (p_dh P e rpk)); [discriminate|].
  destruct (all_zero (p_dh P s rpk)); [discriminate|].
  intros [= <- _]. repeat split.
Qed.

Theorem noise_msg_length e epk s spk rpk prologue payload msg hh : aead_ok P ->
  noise_encrypt_spec P e epk s spk rpk prologue payload = Ok (msg, hh) ->
  length msg = (length epk + (length spk + 16) + (length payload + 16))%nat.
Proof.
  intros Ha H. apply noise_msg_shape in H. destruct H as (_ & _ & ->).
  unfold hs_c1, hs_c2. rewrite !app_length, !(seal_len P Ha). lia.
Qed.

(* ---- lengths ---- *)
Theorem spec_pass_file_length pw salt chunks : aead_ok P ->
  length (spec_pass_file P pw salt chunks) = (4 + length salt + 32 * length chunks + length (concat chunks))%nat.
Proof.
  intros Ha. unfold spec_pass_file. rewrite !app_length, (spec_chunks_length P _ _ (seal_len P Ha)).
  change (length x_pass_file_magic) with 4%nat. lia.
Qed.

Theorem spec_key_file_length msg hh payload chunks : aead_ok P ->
  length (spec_key_file P msg hh payload chunks) = (4 + length msg + 32 * length chunks + length (concat chunks))%nat.
Proof.
  intros Ha. unfold spec_key_file. rewrite !app_length, (spec_chunks_length P _ _ (seal_len P Ha)).
  change (length x_prologue) with 4%nat. lia.
Qed.

(* password file: 36 + 32 per chunk + plaintext length; #chunks = max 1 (#non-empty reads) *)
Theorem pass_file_length pw salt s0 s0' r : aead_ok P -> hash_ok P -> length salt = 32%nat ->
  reader_ok (rdr s0) -> writer_ok (wtr s0) ->
  pass_encrypt P pw salt s0 = (r, s0') ->
  r = Ok tt /\
  length (w_out (wtr s0')) =
    (length (w_out (wtr s0)) + 36 + 32 * Nat.max 1 (length (reads s0)) + length (r_data (rdr s0)))%nat.
Proof.
  intros Ha Hh Hls Hr0 Hw0 E.
  destruct (pass_encrypt_output pw salt s0 Hh Hr0 Hw0) as (s1 & E1 & Ho & _).
  rewrite E1 in E. injection E as <- <-. split; [reflexivity|].
  destruct (enc_chunks_legal s0 Hr0) as (_ & _ & Hcat).
  rewrite Ho, app_length, (spec_pass_file_length _ _ _ Ha), Hls, chunks_of_reads_length, Hcat. lia.
Qed.

(* key file: 132 + 32 per chunk + plaintext length — whenever the public keys have 32 bytes and the
   key exchange is not refused (otherwise nothing is written, see key_encrypt_dh_zero) *)
Theorem key_file_length fresh_pk fresh_e s spk rpk e epk pk e' epk' s0 s0' r :
  aead_ok P -> hash_ok P ->
  eph_of P fresh_e e epk = (e', epk') ->
  length e' = 32%nat -> length epk' = 32%nat -> length s = 32%nat -> length spk = 32%nat -> length rpk = 32%nat ->
  length (payload_of fresh_pk pk) = 32%nat ->
  all_zero (p_dh P e' rpk) = false -> all_zero (p_dh P s rpk) = false ->
  reader_ok (rdr s0) -> writer_ok (wtr s0) ->
  key_encrypt P fresh_pk fresh_e s spk rpk e epk pk s0 = (r, s0') ->
  r = Ok tt /\
  length (w_out (wtr s0')) =
    (length (w_out (wtr s0)) + 132 + 32 * Nat.max 1 (length (reads s0)) + length (r_data (rdr s0)))%nat.
Proof.
  intros Ha Hh Hep He Hepk Hs Hspk Hrpk Hp Hz1 Hz2 Hr0 Hw0 E.
  pose proof (noise_encrypt_eq P Hh fresh_e s spk rpk e epk x_prologue (payload_of fresh_pk pk) e' epk' Hep He Hs Hrpk) as Hn.
  destruct (noise_encrypt_spec P e' epk' s spk rpk x_prologue (payload_of fresh_pk pk)) as [[msg hh]|ne|w|] eqn:Hspec.
  2-4: (unfold noise_encrypt_spec in Hspec; rewrite Hz1, Hz2 in Hspec; discriminate Hspec).
  destruct (key_encrypt_output fresh_pk fresh_e s spk rpk e epk pk s0 msg hh Hh Hp Hn Hr0 Hw0) as (s1 & E1 & Ho & _).
  rewrite E1 in E. injection E as <- <-. split; [reflexivity|].
  destruct (enc_chunks_legal s0 Hr0) as (_ & _ & Hcat).
  pose proof (noise_msg_length _ _ _ _ _ _ _ _ _ Ha Hspec) as Hlm. rewrite Hepk, Hspk, Hp in Hlm.
  rewrite Ho, app_length, (spec_key_file_length _ _ _ _ Ha), Hlm, chunks_of_reads_length, Hcat. lia.
Qed.

(* ---- cleartext fields of a key file ---- *)
(* the complete structure: 4-byte prologue, the ephemeral public key in clear, then AEAD outputs and records *)
Theorem key_file_structure fresh_pk fresh_e s spk rpk e epk pk e' epk' s0 s0' r :
  hash_ok P ->
  eph_of P fresh_e e epk = (e', epk') ->
  length e' = 32%nat -> length s = 32%nat -> length rpk = 32%nat ->
  length (payload_of fresh_pk pk) = 32%nat ->
  reader_ok (rdr s0) -> writer_ok (wtr s0) ->
  key_encrypt P fresh_pk fresh_e s spk rpk e epk pk s0 = (r, s0') ->
  (r = Err EOther /\ s0' = s0 /\ (all_zero (p_dh P e' rpk) = true \/ all_zero (p_dh P s rpk) = true)) \/
  (r = Ok tt /\ all_zero (p_dh P e' rpk) = false /\ all_zero (p_dh P s rpk) = false /\
   exists hh,
   w_out (wtr s0') = w_out (wtr s0) ++ x_prologue ++ epk'
      ++ hs_c1 P x_prologue rpk epk' spk (p_dh P e' rpk)
      ++ hs_c2 P x_prologue rpk epk' spk (p_dh P e' rpk) (p_dh P s rpk) (payload_of fresh_pk pk)
      ++ spec_chunks P (file_key P (payload_of fresh_pk pk) hh) [] (chunks_of_reads (reads s0))).
Proof.
  intros Hh Hep He Hs Hrpk Hp Hr0 Hw0 E.
  pose proof (noise_encrypt_eq P Hh fresh_e s spk rpk e epk x_prologue (payload_of fresh_pk pk) e' epk' Hep He Hs Hrpk) as Hn.
  destruct (noise_encrypt_spec P e' epk' s spk rpk x_prologue (payload_of fresh_pk pk)) as [[msg hh]|ne|w|] eqn:Hspec.
  - right. destruct (noise_msg_shape _ _ _ _ _ _ _ _ _ Hspec) as (Hz1 & Hz2 & Hmsg).
    destruct (key_encrypt_output fresh_pk fresh_e s spk rpk e epk pk s0 msg hh Hh Hp Hn Hr0 Hw0) as (s1 & E1 & Ho & _).
    rewrite E1 in E. injection E as <- <-. split; [reflexivity|]. split; [exact Hz1|]. split; [exact Hz2|].
    exists hh. rewrite Ho. unfold spec_key_file. rewrite Hmsg. rewrite <- !app_assoc. reflexivity.
  - left. rewrite (key_encrypt_dh_zero P fresh_pk fresh_e s spk rpk e epk pk s0 ne Hp Hn) in E.
    injection E as <- <-. split; [reflexivity|]. split; [reflexivity|].
    unfold noise_encrypt_spec in Hspec. destruct (all_zero (p_dh P e' rpk)); [now left|].
    destruct (all_zero (p_dh P s rpk)); [now right|discriminate Hspec].
  - exfalso. unfold noise_encrypt_spec in Hspec. destruct (all_zero (p_dh P e' rpk)); [discriminate|].
    destruct (all_zero (p_dh P s rpk)); discriminate.
  - exfalso. unfold noise_encrypt_spec in Hspec. destruct (all_zero (p_dh P e' rpk)); [discriminate|].
    destruct (all_zero (p_dh P s rpk)); discriminate.
Qed.

(* bytes 0..36 of what key_encrypt appends are prologue ++ ephemeral public key: they do not depend on
   the sender's or the recipient's identity *)
Theorem key_file_cleartext_header fresh_pk fresh_e s spk rpk e epk pk e' epk' s0 s0' F :
  hash_ok P ->
  eph_of P fresh_e e epk = (e', epk') ->
  length e' = 32%nat -> length epk' = 32%nat -> length s = 32%nat -> length rpk = 32%nat ->
  length (payload_of fresh_pk pk) = 32%nat ->
  reader_ok (rdr s0) -> writer_ok (wtr s0) ->
  key_encrypt P fresh_pk fresh_e s spk rpk e epk pk s0 = (Ok tt, s0') ->
  w_out (wtr s0') = w_out (wtr s0) ++ F ->
  firstn 36 F = x_prologue ++ epk'.
Proof.
  intros Hh Hep He Hepk Hs Hrpk Hp Hr0 Hw0 E HF.
  destruct (key_file_structure fresh_pk fresh_e s spk rpk e epk pk e' epk' s0 s0' (Ok tt) Hh Hep He Hs Hrpk Hp Hr0 Hw0 E)
    as [(Habs & _)|(_ & _ & _ & hh & Ho)]; [discriminate Habs|].
  rewrite Ho in HF. apply app_inv_head in HF. subst F.
  rewrite app_assoc.
  assert (Hl : length (x_prologue ++ epk') = 36%nat) by (rewrite app_length, Hepk; reflexivity).
  rewrite <- Hl. apply firstn_app_exact.
Qed.

End Output.

(* ================= the cleartext view (C08) ================= *)
Section View.
Variable P : prims.

Lemma spec_chunks_from_view key aad : forall chunks n,
  spec_chunks_from P key aad n chunks =
  stream_of (chunk_headers_from n chunks) (chunk_cts_from P key aad n chunks).
Proof.
  induction chunks as [|c tl IH]; intros n; [reflexivity|].
  destruct tl as [|c2 tl'].
  - cbn [spec_chunks_from chunk_headers_from chunk_cts_from]. unfold stream_of. cbn [combine map concat fst snd].
    rewrite app_nil_r. unfold record, rec_hdr, rec_ct. rewrite <- !app_assoc. reflexivity.
  - change (spec_chunks_from P key aad n (c :: c2 :: tl'))
      with (record P key aad n false c ++ spec_chunks_from P key aad (n + 1) (c2 :: tl')).
    change (chunk_headers_from n (c :: c2 :: tl')) with (rec_hdr n false c :: chunk_headers_from (n + 1) (c2 :: tl')).
    change (chunk_cts_from P key aad n (c :: c2 :: tl'))
      with (rec_ct P key aad n false c :: chunk_cts_from P key aad (n + 1) (c2 :: tl')).
    rewrite IH. unfold stream_of. cbn [combine map concat fst snd].
    unfold record, rec_hdr, rec_ct. rewrite <- !app_assoc. reflexivity.
Qed.

Lemma chunk_headers_length : forall chunks n, length (chunk_headers_from n chunks) = length chunks.
Proof.
  induction chunks as [|c tl IH]; intros n; [reflexivity|]. destruct tl as [|c2 tl']; [reflexivity|].
  change (chunk_headers_from n (c :: c2 :: tl')) with (rec_hdr n false c :: chunk_headers_from (n + 1) (c2 :: tl')).
  cbn [length]. now rewrite IH.
Qed.

Lemma chunk_headers_16 : forall chunks n, Forall (fun h => length h = 16%nat) (chunk_headers_from n chunks).
Proof.
  induction chunks as [|c tl IH]; intros n; [constructor|]. destruct tl as [|c2 tl'].
  - constructor; [reflexivity|constructor].
  - change (chunk_headers_from n (c :: c2 :: tl')) with (rec_hdr n false c :: chunk_headers_from (n + 1) (c2 :: tl')).
    constructor; [reflexivity|apply IH].
Qed.

(* the AEAD outputs of a chunk stream: one per chunk, each 16 bytes longer than its chunk, whatever the key *)
Lemma chunk_cts_lengths key aad : aead_ok P -> forall chunks n,
  map (@length N) (chunk_cts_from P key aad n chunks) = map (fun c => (length c + 16)%nat) chunks.
Proof.
  intros Ha. induction chunks as [|c tl IH]; intros n; [reflexivity|]. destruct tl as [|c2 tl'].
  - cbn [chunk_cts_from map]. unfold rec_ct. now rewrite (seal_len P Ha).
  - change (chunk_cts_from P key aad n (c :: c2 :: tl'))
      with (rec_ct P key aad n false c :: chunk_cts_from P key aad (n + 1) (c2 :: tl')).
    cbn [map]. rewrite IH. unfold rec_ct. now rewrite (seal_len P Ha).
Qed.

(* a key file, split into its cleartext and its AEAD outputs: cleartext = prologue, ephemeral public key,
   the record headers; everything else is output of p_seal *)
Theorem key_file_cleartext_view fresh_pk fresh_e s spk rpk e epk pk e' epk' s0 s0' :
  hash_ok P ->
  eph_of P fresh_e e epk = (e', epk') ->
  length e' = 32%nat -> length s = 32%nat -> length rpk = 32%nat ->
  length (payload_of fresh_pk pk) = 32%nat ->
  reader_ok (rdr s0) -> writer_ok (wtr s0) ->
  key_encrypt P fresh_pk fresh_e s spk rpk e epk pk s0 = (Ok tt, s0') ->
  exists hh,
   let chunks := chunks_of_reads (reads_of (N.to_nat cs_const) (rdr s0)) in
   let K := file_key P (payload_of fresh_pk pk) hh in
   w_out (wtr s0') = w_out (wtr s0) ++ x_prologue ++ epk'
      ++ hs_c1 P x_prologue rpk epk' spk (p_dh P e' rpk)
      ++ hs_c2 P x_prologue rpk epk' spk (p_dh P e' rpk) (p_dh P s rpk) (payload_of fresh_pk pk)
      ++ stream_of (chunk_headers_from 0 chunks) (chunk_cts_from P K [] 0 chunks).
Proof.
  intros Hh Hep He Hs Hrpk Hp Hr0 Hw0 E.
  destruct (key_file_structure P fresh_pk fresh_e s spk rpk e epk pk e' epk' s0 s0' (Ok tt) Hh Hep He Hs Hrpk Hp Hr0 Hw0 E)
    as [(Habs & _)|(_ & _ & _ & hh & Ho)]; [discriminate Habs|].
  exists hh. cbv zeta. rewrite Ho. unfold spec_chunks. rewrite spec_chunks_from_view. reflexivity.
Qed.

(* two encryptions that differ only in the identities involved (sender private/public key, recipient key —
   and, harmlessly, payload key), same ephemeral key, same plaintext source and read script: the two files
   have the same length and the same cleartext at the same offsets — prologue, ephemeral public key and all
   record headers coincide; they differ only inside AEAD outputs of pairwise equal lengths *)
Theorem key_file_cleartext_independent fresh_pk1 fresh_pk2 fresh_e e epk e' epk'
    s1 spk1 rpk1 pk1 s2 spk2 rpk2 pk2 sa sa' sb sb' :
  aead_ok P -> hash_ok P ->
  eph_of P fresh_e e epk = (e', epk') -> length e' = 32%nat ->
  length s1 = 32%nat -> length spk1 = 32%nat -> length rpk1 = 32%nat -> length (payload_of fresh_pk1 pk1) = 32%nat ->
  length s2 = 32%nat -> length spk2 = 32%nat -> length rpk2 = 32%nat -> length (payload_of fresh_pk2 pk2) = 32%nat ->
  reader_ok (rdr sa) -> writer_ok (wtr sa) -> reader_ok (rdr sb) -> writer_ok (wtr sb) ->
  rdr sb = rdr sa ->
  key_encrypt P fresh_pk1 fresh_e s1 spk1 rpk1 e epk pk1 sa = (Ok tt, sa') ->
  key_encrypt P fresh_pk2 fresh_e s2 spk2 rpk2 e epk pk2 sb = (Ok tt, sb') ->
  exists hdrs c1 c2 cts d1 d2 dts,
    w_out (wtr sa') = w_out (wtr sa) ++ x_prologue ++ epk' ++ c1 ++ c2 ++ stream_of hdrs cts /\
    w_out (wtr sb') = w_out (wtr sb) ++ x_prologue ++ epk' ++ d1 ++ d2 ++ stream_of hdrs dts /\
    length c1 = 48%nat /\ length d1 = 48%nat /\ length c2 = 48%nat /\ length d2 = 48%nat /\
    map (@length N) cts = map (@length N) dts /\ length cts = length hdrs /\
    Forall (fun h => length h = 16%nat) hdrs.
Proof.
  intros Ha Hh Hep He Hs1 Hspk1 Hrpk1 Hp1 Hs2 Hspk2 Hrpk2 Hp2 Hra Hwa Hrb Hwb Hrdr E1 E2.
  destruct (key_file_cleartext_view fresh_pk1 fresh_e s1 spk1 rpk1 e epk pk1 e' epk' sa sa' Hh Hep He Hs1 Hrpk1 Hp1 Hra Hwa E1)
    as (hh1 & Ho1).
  destruct (key_file_cleartext_view fresh_pk2 fresh_e s2 spk2 rpk2 e epk pk2 e' epk' sb sb' Hh Hep He Hs2 Hrpk2 Hp2 Hrb Hwb E2)
    as (hh2 & Ho2).
  cbv zeta in Ho1, Ho2. rewrite Hrdr in Ho2.
  set (chunks := chunks_of_reads (reads_of (N.to_nat cs_const) (rdr sa))) in *.
  exists (chunk_headers_from 0 chunks).
  eexists. eexists. eexists. eexists. eexists. eexists.
  split; [exact Ho1|]. split; [exact Ho2|].
  unfold hs_c1, hs_c2. rewrite !(seal_len P Ha), Hspk1, Hspk2, Hp1, Hp2.
  repeat (split; [reflexivity|]).
  split; [now rewrite !(chunk_cts_lengths _ _ Ha)|].
  split; [|apply chunk_headers_16].
  rewrite chunk_headers_length. rewrite <- (map_length (@length N)), (chunk_cts_lengths _ _ Ha), map_length. reflexivity.
Qed.

(* a password file, split likewise: cleartext = magic, salt, record headers; the rest is AEAD output.
   The cleartext does not depend on the password (hdrs is a function of the chunk lengths only) *)
Theorem pass_file_cleartext_view pw salt s0 s0' :
  hash_ok P -> reader_ok (rdr s0) -> writer_ok (wtr s0) ->
  pass_encrypt P pw salt s0 = (Ok tt, s0') ->
  let chunks := chunks_of_reads (reads_of (N.to_nat cs_const) (rdr s0)) in
  w_out (wtr s0') = w_out (wtr s0) ++ x_pass_file_magic ++ salt
    ++ stream_of (chunk_headers_from 0 chunks) (chunk_cts_from P (kdf P pw salt) x_pass_file_magic 0 chunks).
Proof.
  intros Hh Hr0 Hw0 E. destruct (pass_encrypt_output P pw salt s0 Hh Hr0 Hw0) as (s1 & E1 & Ho & _).
  rewrite E1 in E. injection E as <-. cbv zeta. rewrite Ho. unfold spec_pass_file, spec_chunks.
  rewrite spec_chunks_from_view. reflexivity.
Qed.

End View.

(* ================= every file conforming to the documented format decrypts ================= *)
Section AnyLegalFile.
Variable P : prims.
Hypothesis Ha : aead_ok P.
Hypothesis Hh : hash_ok P.

(* ANY non-empty list of chunks of 0..65536 bytes — not only chunkings the encryptor emits *)
Theorem spec_pass_file_decrypts pw salt chunks s :
  length salt = 32%nat -> chunks <> [] -> Forall (chunk_ok cs_const) chunks ->
  reader_ok (rdr s) -> writer_ok (wtr s) ->
  r_data (rdr s) = spec_pass_file P pw salt chunks ->
  exists s', pass_decrypt P pw s = (Ok tt, s') /\
             w_out (wtr s') = w_out (wtr s) ++ concat chunks /\ r_data (rdr s') = [].
Proof.
  intros Hls Hne Hck Hr Hw Hd. unfold spec_pass_file in Hd.
  destruct (pass_decrypt_header P pw s salt _ Hr Hd Hls) as (t1 & [Hdt Hrt Hwt _] & Ed).
  rewrite Ed. unfold decrypt_chunks.
  set (t2 := with_log t1 _).
  destruct (dec_spec_chunks_ok P (kdf P pw salt) x_pass_file_magic cs_const (kdf_len P pw salt Hh) Ha cs_const_hi
              chunks 0 t2 (S (length (r_data (rdr t2)))) Hne Hck Hrt) as (s' & E & Ho & Hd').
  { unfold t2. cbn [wtr with_log]. rewrite Hwt. exact Hw. }
  { exact Hdt. }
  { unfold t2. cbn [rdr with_log]. rewrite Hdt. rewrite (spec_chunks_length P _ _ (seal_len P Ha)). lia. }
  exists s'. split; [exact E|]. split; [|exact Hd'].
  rewrite Ho. unfold t2. cbn [wtr with_log]. now rewrite Hwt.
Qed.

(* key file: prologue, any 128-byte handshake message that (r, rpk) accepts, any legal chunking under the
   derived file key: decrypts to the concatenation of the chunks and reports the handshake's sender key *)
Theorem spec_key_file_decrypts r rpk msg hh payload spk chunks s :
  length msg = 128%nat -> noise_decrypt P r rpk x_prologue msg = Ok (payload, spk, hh) ->
  chunks <> [] -> Forall (chunk_ok cs_const) chunks ->
  reader_ok (rdr s) -> writer_ok (wtr s) ->
  r_data (rdr s) = spec_key_file P msg hh payload chunks ->
  exists s', key_decrypt P r rpk s = (Ok spk, s') /\
             w_out (wtr s') = w_out (wtr s) ++ concat chunks /\ r_data (rdr s') = [].
Proof.
  intros Hlm Hn Hne Hck Hr Hw Hd. unfold spec_key_file in Hd.
  destruct (key_decrypt_header P r rpk s msg _ payload spk hh Hr Hd Hlm Hn) as (t1 & [Hdt Hrt Hwt _] & Ed).
  rewrite Ed. unfold bind, decrypt_chunks.
  destruct (dec_spec_chunks_ok P (file_key P payload hh) [] cs_const (file_key_len P payload hh Hh) Ha cs_const_hi
              chunks 0 t1 (S (length (r_data (rdr t1)))) Hne Hck Hrt) as (s' & E & Ho & Hd').
  { rewrite Hwt. exact Hw. }
  { exact Hdt. }
  { rewrite Hdt. rewrite (spec_chunks_length P _ _ (seal_len P Ha)). lia. }
  rewrite E. exists s'. split; [reflexivity|]. split; [|exact Hd']. now rewrite Ho, Hwt.
Qed.

End AnyLegalFile.

(* ================= the documented layout, literally ================= *)
Theorem record_layout (P : prims) key aad n (is_last : bool) c :
  record P key aad n is_last c =
  be64 n ++ be32 (if is_last then 1 else 0) ++ be32 (N.of_nat (length c)) ++
  p_seal P key (zeros 4 ++ le64 n) (aad ++ be32 (if is_last then 1 else 0) ++ be32 (N.of_nat (length c))) c.
Proof. destruct is_last; reflexivity. Qed.

Theorem file_key_layout (P : prims) payload hh : file_key P payload hh = p_hkdf P [] payload hh 32.
Proof. reflexivity. Qed.

Theorem kdf_layout (P : prims) pw salt : kdf P pw salt = p_scrypt P pw salt 32768 8 1 32.
Proof. reflexivity. Qed.

Theorem layout_constants :
  x_prologue = [101; 103; 107; 16] /\ x_pass_file_magic = [101; 103; 107; 32] /\
  x_dec_asym_v1 = x_prologue /\ x_dec_pass_v1 = x_pass_file_magic /\
  valid_file_format x_prologue = Some AsymV1 /\ valid_file_format x_pass_file_magic = Some PassV1 /\
  x_lib_chunk_size = 65536 /\ x_lib_tag_size = 16 /\
  x_lib_scrypt_n = 32768 /\ x_lib_scrypt_r = 8 /\ x_lib_scrypt_p = 1 /\
  x_enc_scrypt_args_const = 1 /\ x_dec_scrypt_args_const = 1 /\ x_enc_scrypt_len = 32 /\ x_dec_scrypt_len = 32 /\
  x_enc_hkdf_salt_empty = 1 /\ x_dec_hkdf_salt_empty = 1 /\ x_enc_hkdf_len = 32 /\ x_dec_hkdf_len = 32 /\
  x_enc_key_aad_empty = 1 /\ x_dec_key_aad_empty = 1 /\
  x_enc_key_cs_is_const = 1 /\ x_dec_key_cs_is_const = 1 /\ x_enc_pass_cs_is_const = 1 /\ x_dec_pass_cs_is_const = 1 /\
  x_dec_prologue_len = 4 /\ x_dec_handshake_len = 128 /\ x_dec_magic_len = 4 /\ x_dec_salt_len = 32 /\
  x_enc_chunk_header_len = 16 /\ x_dec_chunk_header_len = 16 /\ x_dec_last_flag = 1 /\
  x_noise_nonce_len = 12 /\ x_noise_nonce_off_enc = 4 /\ x_noise_nonce_off_dec = 4 /\
  x_noise_pattern = [TE; TES; TS; TSS] /\ x_noise_hash_len = 32 /\ x_noise_dh_len = 32 /\
  length x_noise_protocol_name = 31%nat.
Proof. repeat split; reflexivity. Qed.

Section Closure.
Print Assumptions key_file_cleartext_view.
Print Assumptions pass_file_cleartext_view.
Print Assumptions key_file_cleartext_independent.
Print Assumptions spec_pass_file_decrypts.
Print Assumptions spec_key_file_decrypts.
Print Assumptions record_layout.
Print Assumptions layout_constants.
Print Assumptions pass_encrypt_output.
Print Assumptions key_encrypt_output.
Print Assumptions noise_msg_shape.
Print Assumptions pass_file_length.
Print Assumptions key_file_length.
Print Assumptions key_file_structure.
Print Assumptions key_file_cleartext_header.
Print Assumptions key_file_roundtrip_gen.
Print Assumptions key_file_roundtrip.
Print Assumptions key_file_roundtrip_fresh.
Print Assumptions pass_file_roundtrip_gen.
Print Assumptions pass_file_roundtrip.
End Closure.
