(* Proofs/CliArgsFacts.v — main.rs::convert_args followed by the argument parser (Model/CliArgs.v::cli_parse_bytes):
   EVERY vector of byte strings gives a value (never a panic, never out of fuel): either the ordinary error
   "Arguments must be valid UTF-8" at the first argument the strict decoder refuses, or the command cli_parse
   computes on the decoded vector. *)
From Kestrel Require Import Bytes BytesFacts Outcome.
From Kestrel.Model Require Import KeyringText CliParse Utf8 CliArgs.
From Kestrel.Proofs Require Import Utf8Facts.
From Kestrel.Proofs Require CliParseFacts.
From Coq Require Import ZifyBool ZifyNat ZifyN.
Local Open Scope N_scope.

(* ---------- convert_args ---------- *)
Lemma convert_args_from_ok : forall argv i0 ts,
  convert_args_from i0 argv = inr ts <-> Forall2 (fun a t => utf8_decode a = Some t) argv ts.
Proof.
  induction argv as [|a rest IH]; intros i0 ts; cbn [convert_args_from].
  - split; [intros [= <-]; constructor | intros H; inversion H; reflexivity].
  - split.
    + intros H. destruct (utf8_decode a) as [t|] eqn:Ea; [|discriminate].
      destruct (convert_args_from (S i0) rest) as [i|ts'] eqn:Er; [discriminate|]. injection H as <-.
      constructor; [exact Ea | now apply (IH (S i0))].
    + intros H. inversion H as [|a' t rest' ts' Ea Hr]; subst. rewrite Ea.
      rewrite (proj2 (IH (S i0) ts') Hr). reflexivity.
Qed.

Lemma convert_args_from_err : forall argv i0 i,
  convert_args_from i0 argv = inl i <->
  exists pre a post, argv = pre ++ a :: post /\ i = (i0 + length pre)%nat /\
    Forall (fun x => utf8_decode x <> None) pre /\ utf8_decode a = None.
Proof.
  induction argv as [|a rest IH]; intros i0 i; cbn [convert_args_from].
  - split; [discriminate|]. intros (pre & a & post & E & _). destruct pre; discriminate.
  - split.
    + intros H. destruct (utf8_decode a) as [t|] eqn:Ea.
      * destruct (convert_args_from (S i0) rest) as [j|ts'] eqn:Er; [|discriminate]. injection H as <-.
        apply IH in Er. destruct Er as (pre & b & post & -> & -> & Hp & Hb).
        exists (a :: pre), b, post. split; [reflexivity|]. split; [cbn [length]; lia|].
        split; [constructor; [congruence|exact Hp]|exact Hb].
      * injection H as <-. exists [], a, rest. split; [reflexivity|]. split; [cbn [length]; lia|].
        split; [constructor|exact Ea].
    + intros (pre & b & post & E & -> & Hp & Hb). destruct pre as [|p pre]; cbn [app] in E; injection E as <- ->.
      * rewrite Hb. f_equal. cbn [length]. lia.
      * inversion Hp as [|p' pre' Hpa Hp']; subst. destruct (utf8_decode a) as [t|]; [|congruence].
        assert (Er : convert_args_from (S i0) (pre ++ b :: post) = inl (S i0 + length pre)%nat).
        { apply IH. exists pre, b, post. auto. }
        rewrite Er. f_equal. cbn [length]. lia.
Qed.

(* every vector is either converted or refused at a definite first argument *)
Lemma convert_args_total argv :
  (exists ts, convert_args argv = inr ts) \/ (exists i, convert_args argv = inl i /\ (i < length argv)%nat).
Proof.
  unfold convert_args. destruct (convert_args_from 0 argv) as [i|ts] eqn:E; [right|left; now exists ts].
  exists i. split; [reflexivity|]. apply convert_args_from_err in E.
  destruct E as (pre & a & post & -> & -> & _). rewrite app_length. cbn [length]. lia.
Qed.

(* ---------- cli_parse_bytes ---------- *)
(* all arguments valid UTF-8: the result is cli_parse on the decoded vector *)
Theorem cli_parse_bytes_valid argv ts :
  Forall2 (fun a t => utf8_decode a = Some t) argv ts ->
  cli_parse_bytes argv = obind (cli_parse ts) (fun c => Ok (ArgCmd c)).
Proof.
  intros H. unfold cli_parse_bytes, convert_args. now rewrite (proj2 (convert_args_from_ok argv 0%nat ts) H).
Qed.

(* ... which is a command *)
Corollary cli_parse_bytes_valid_cmd argv ts :
  Forall2 (fun a t => utf8_decode a = Some t) argv ts ->
  exists c, cli_parse ts = Ok c /\ cli_parse_bytes argv = Ok (ArgCmd c).
Proof.
  intros H. destruct (CliParseFacts.cli_parse_no_panic ts) as [c Hc]. exists c. split; [exact Hc|].
  rewrite (cli_parse_bytes_valid argv ts H), Hc. reflexivity.
Qed.

(* the arguments a shell passes for texts of scalar values *)
Corollary cli_parse_bytes_encode ts : Forall (Forall scalar_ok) ts ->
  cli_parse_bytes (map utf8_encode ts) = obind (cli_parse ts) (fun c => Ok (ArgCmd c)).
Proof.
  intros H. apply cli_parse_bytes_valid. induction H as [|t ts Ht _ IH]; cbn [map]; constructor;
    [now apply utf8_decode_encode|exact IH].
Qed.

(* the first invalid argument: the ordinary error, whatever follows *)
Theorem cli_parse_bytes_invalid pre a post :
  Forall (fun x => utf8_decode x <> None) pre -> utf8_decode a = None ->
  cli_parse_bytes (pre ++ a :: post) = Ok (ArgErr (length pre)).
Proof.
  intros Hp Ha. unfold cli_parse_bytes, convert_args.
  rewrite (proj2 (convert_args_from_err (pre ++ a :: post) 0%nat (length pre))); [reflexivity|].
  exists pre, a, post. auto.
Qed.

(* conversely *)
Theorem cli_parse_bytes_argerr_inv argv i : cli_parse_bytes argv = Ok (ArgErr i) ->
  exists pre a post, argv = pre ++ a :: post /\ i = length pre /\
    Forall (fun x => utf8_decode x <> None) pre /\ utf8_decode a = None.
Proof.
  unfold cli_parse_bytes, convert_args. intros H. destruct (convert_args_from 0 argv) as [j|ts] eqn:E.
  - injection H as ->. apply convert_args_from_err in E. destruct E as (pre & a & post & E1 & E2 & E3 & E4).
    exists pre, a, post. auto.
  - destruct (cli_parse ts); discriminate.
Qed.

Theorem cli_parse_bytes_cmd_inv argv c : cli_parse_bytes argv = Ok (ArgCmd c) ->
  exists ts, Forall2 (fun a t => utf8_decode a = Some t) argv ts /\ cli_parse ts = Ok c.
Proof.
  unfold cli_parse_bytes, convert_args. intros H. destruct (convert_args_from 0 argv) as [j|ts] eqn:E; [discriminate|].
  exists ts. split; [now apply (convert_args_from_ok argv 0%nat)|].
  destruct (cli_parse ts) as [c'| | |]; try discriminate. cbn [obind] in H. now injection H as ->.
Qed.

(* every vector of byte strings gives a value: never Panic, never OutOfFuel, never Err *)
Theorem cli_parse_bytes_no_panic : forall argv : list bytes, exists r, cli_parse_bytes argv = Ok r.
Proof.
  intros argv. unfold cli_parse_bytes. destruct (convert_args argv) as [i|ts]; [now exists (ArgErr i)|].
  destruct (CliParseFacts.cli_parse_no_panic ts) as [c Hc]. exists (ArgCmd c). now rewrite Hc.
Qed.

(* the message is the string literal of convert_args *)
Example m_args_utf8_kat :
  utf8_encode argerr_text = [65;114;103;117;109;101;110;116;115;32;109;117;115;116;32;98;101;32;118;97;108;105;100;32;85;84;70;45;56].
Proof. reflexivity. Qed.

Print Assumptions cli_parse_bytes_no_panic.
Print Assumptions cli_parse_bytes_valid.
Print Assumptions cli_parse_bytes_valid_cmd.
Print Assumptions cli_parse_bytes_encode.
Print Assumptions cli_parse_bytes_invalid.
Print Assumptions cli_parse_bytes_argerr_inv.
Print Assumptions cli_parse_bytes_cmd_inv.
