(* Proofs/CliEnds.v — the four library functions on a BROKEN end (Model/Cli.v::job_io):
     - a sink that cannot be created (the first write call and the first flush call fail): the run never returns Ok;
     - an input that is a directory (the first read call fails): the run never returns Ok.
   Both by one structural pass over the functions: an invariant of the broken end is kept by every operation on
   the other end, and the first operation on the broken end that would have to succeed fails.
   Consequence (Proofs/CliFacts.v): a command whose -o path cannot be created, or whose input path is a
   directory, never exits 0. *)
From Kestrel Require Import Bytes BytesFacts Outcome IO IOFacts Prims.
From Kestrel.Model Require Import AeadWrap Chunks Noise Files Cli.
From Kestrel.gen Require Import Extracted.
From Kestrel.Proofs Require Import MonadFacts FilesFacts.
Local Open Scope N_scope.

Section Never.
Variable I : io -> Prop.
(* the invariant looks at the reader and the writer only *)
Hypothesis I_ends : forall s s', rdr s' = rdr s -> wtr s' = wtr s -> I s -> I s'.

(* from a state with the invariant, the computation keeps it or does not return Ok *)
Definition keeps {E A} (m : M E A) : Prop :=
  forall s r s', I s -> m s = (r, s') -> I s' \/ (forall a, r <> Ok a).
(* from a state with the invariant, the computation does not return Ok *)
Definition never {E A} (m : M E A) : Prop :=
  forall s r s', I s -> m s = (r, s') -> forall a, r <> Ok a.

Lemma never_keeps {E A} (m : M E A) : never m -> keeps m.
Proof. intros H s r s' Hi E0. right. exact (H s r s' Hi E0). Qed.

Lemma keeps_bind {E A B} (m : M E A) (f : A -> M E B) : keeps m -> (forall a, keeps (f a)) -> keeps (bind m f).
Proof.
  intros Hm Hf s r s' Hi E0. unfold bind in E0. destruct (m s) as [[a|e|t|] s1] eqn:E1;
    try (injection E0 as <- <-; right; intros a; discriminate).
  destruct (Hm _ _ _ Hi E1) as [Hi1|Hn]; [exact (Hf a _ _ _ Hi1 E0) | exfalso; exact (Hn a eq_refl)].
Qed.
Lemma never_bind_l {E A B} (m : M E A) (f : A -> M E B) : never m -> never (bind m f).
Proof.
  intros Hm s r s' Hi E0 b. unfold bind in E0. destruct (m s) as [[a|e|t|] s1] eqn:E1;
    try (injection E0 as <- <-; discriminate).
  exfalso. exact (Hm _ _ _ Hi E1 a eq_refl).
Qed.
Lemma never_bind_r {E A B} (m : M E A) (f : A -> M E B) : keeps m -> (forall a, never (f a)) -> never (bind m f).
Proof.
  intros Hm Hf s r s' Hi E0 b. unfold bind in E0. destruct (m s) as [[a|e|t|] s1] eqn:E1;
    try (injection E0 as <- <-; discriminate).
  destruct (Hm _ _ _ Hi E1) as [Hi1|Hn]; [exact (Hf a _ _ _ Hi1 E0 b) | exfalso; exact (Hn a eq_refl)].
Qed.

Lemma keeps_ret {E A} (a : A) : keeps (@ret E A a).
Proof. intros s r s' Hi [= <- <-]. now left. Qed.
Lemma never_fail {E A} (e : E) : never (@fail E A e).
Proof. intros s r s' Hi [= <- <-] a. discriminate. Qed.
Lemma never_lift_panic {E A} t : never (@lift E A (Panic t)).
Proof. intros s r s' Hi [= <- <-] a. discriminate. Qed.
Lemma never_lift_fuel {E A} : never (@lift E A OutOfFuel).
Proof. intros s r s' Hi [= <- <-] a. discriminate. Qed.
Lemma keeps_emit {E} ev : keeps (@emit E ev).
Proof. intros s r s' Hi [= <- <-]. left. now apply (I_ends s). Qed.
Lemma keeps_seal {E} (P : prims) key n ad pt : keeps (@m_seal P E key n ad pt).
Proof.
  intros s r s' Hi E0. unfold m_seal in E0. destruct (chapoly_encrypt_noise P key n ad pt); injection E0 as <- <-;
    first [left; now apply (I_ends s) | right; intros a; discriminate].
Qed.
Lemma keeps_open {E} (P : prims) (aerr : E) key n ad ct : keeps (m_open P aerr key n ad ct).
Proof.
  intros s r s' Hi E0. unfold m_open in E0. destruct (chapoly_decrypt_noise P key n ad ct); injection E0 as <- <-;
    first [left; now apply (I_ends s) | right; intros a; discriminate].
Qed.
End Never.

(* ====================================================================================== *)
(** * 1. A sink that cannot be created                                                     *)
(* ====================================================================================== *)
Definition bad_sink (s : io) : Prop :=
  w_script (wtr s) = [WFail OtherErr] /\ w_fscript (wtr s) = [FFail OtherErr].

Lemma bad_sink_ends s s' : rdr s' = rdr s -> wtr s' = wtr s -> bad_sink s -> bad_sink s'.
Proof. unfold bad_sink. intros _ ->. auto. Qed.

Lemma job_io_bad_sink input dir : bad_sink (job_io input dir true).
Proof. split; reflexivity. Qed.

Section BadSink.
Variable P : prims.
Notation keeps := (keeps bad_sink).
Notation never := (never bad_sink).

Lemma bs_read_exact {E} (rerr : ioerr -> E) n : keeps (m_read_exact rerr n).
Proof. intros s r s' Hi E0. left. apply m_read_exact_cases in E0. destruct E0 as (Hw & _). destruct Hi. unfold bad_sink. now rewrite Hw. Qed.
Lemma bs_read {E} (rerr : ioerr -> E) n : keeps (m_read rerr n).
Proof. intros s r s' Hi E0. left. apply m_read_cases in E0. destruct E0 as (Hw & _). destruct Hi. unfold bad_sink. now rewrite Hw. Qed.

(* write_all of nothing makes no call; of something, the first call fails *)
Lemma bs_write_all {E} (werr : ioerr -> E) buf : keeps (m_write_all werr buf).
Proof.
  intros s r s' [Hw Hf] E0. unfold m_write_all, write_all in E0. rewrite Hw in E0. cbn [length Nat.add] in E0.
  destruct buf as [|b buf]; cbn [write_all_loop] in E0.
  - injection E0 as <- <-. left. split; assumption.
  - unfold io_write, wr in E0. rewrite Hw in E0. injection E0 as <- <-. right. intros a. discriminate.
Qed.
Lemma bs_flush {E} (werr : ioerr -> E) : never (m_flush werr).
Proof.
  intros s r s' [Hw Hf] E0 a. unfold m_flush, io_flush, fl in E0. rewrite Hf in E0. injection E0 as <- <-. discriminate.
Qed.

Lemma bs_dec_loop : forall fuel key aad cs n, never (decrypt_chunks_loop P fuel key aad cs n).
Proof.
  intros fuel key aad cs n. destruct fuel as [|f]; [apply never_lift_fuel|].
  cbn [decrypt_chunks_loop]. apply never_bind_r; [apply bs_read_exact|intros hdr]. cbv zeta.
  destruct (cs <? _); [apply never_fail|].
  apply never_bind_r; [apply bs_read_exact|intros ct].
  apply never_bind_r; [apply keeps_open, bad_sink_ends|intros pt]. destruct (_ =? 1).
  - apply never_bind_r; [apply bs_read|intros chk]. destruct chk; [|apply never_fail].
    apply never_bind_r; [apply bs_write_all|intros _]. apply never_bind_l, bs_flush.
  - apply never_bind_r; [apply bs_write_all|intros _]. apply never_bind_l, bs_flush.
Qed.
Lemma bs_decrypt_chunks key aad cs : never (decrypt_chunks P key aad cs).
Proof. intros s r s' Hi E0. unfold decrypt_chunks in E0. exact (bs_dec_loop _ _ _ _ _ _ _ _ Hi E0). Qed.

Theorem key_decrypt_bad_sink r rpk : never (key_decrypt P r rpk).
Proof.
  unfold key_decrypt. apply never_bind_r; [apply bs_read_exact|intros prologue].
  destruct (valid_file_format prologue) as [[|]|]; [|apply never_fail|apply never_fail].
  apply never_bind_r; [apply bs_read_exact|intros hm].
  destruct (noise_decrypt P r rpk prologue hm) as [[[payload spk] hh]|e|t|];
    [|apply never_fail|apply never_lift_panic|apply never_lift_fuel].
  apply never_bind_l, bs_decrypt_chunks.
Qed.

Theorem pass_decrypt_bad_sink pw : never (pass_decrypt P pw).
Proof.
  unfold pass_decrypt. apply never_bind_r; [apply bs_read_exact|intros magic].
  destruct (valid_file_format magic) as [[|]|]; [apply never_fail| |apply never_fail].
  apply never_bind_r; [apply bs_read_exact|intros salt]. cbv zeta.
  apply never_bind_r; [apply keeps_emit, bad_sink_ends|intros _]. apply bs_decrypt_chunks.
Qed.

Theorem key_encrypt_bad_sink fpk fe s spk r e epk pk : never (key_encrypt P fpk fe s spk r e epk pk).
Proof.
  unfold key_encrypt. cbv zeta. destruct (negb _); [apply never_lift_panic|].
  destruct (noise_encrypt _ _ _ _ _ _ _ _ _) as [[msg hh]|e0|t|];
    [|apply never_fail|apply never_lift_panic|apply never_lift_fuel].
  apply never_bind_r; [apply bs_write_all|intros _]. apply never_bind_r; [apply bs_write_all|intros _].
  apply never_bind_l, bs_flush.
Qed.

Theorem pass_encrypt_bad_sink pw salt : never (pass_encrypt P pw salt).
Proof.
  unfold pass_encrypt. cbv zeta. apply never_bind_r; [apply keeps_emit, bad_sink_ends|intros _].
  apply never_bind_r; [apply bs_write_all|intros _]. apply never_bind_r; [apply bs_write_all|intros _].
  apply never_bind_l, bs_flush.
Qed.
End BadSink.

(* ====================================================================================== *)
(** * 2. An input that is a directory                                                      *)
(* ====================================================================================== *)
Definition dir_reader (s : io) : Prop := r_script (rdr s) = [RFail OtherErr].

Lemma dir_reader_ends s s' : rdr s' = rdr s -> wtr s' = wtr s -> dir_reader s -> dir_reader s'.
Proof. unfold dir_reader. intros -> _. auto. Qed.

Lemma job_io_dir_reader input bad : dir_reader (job_io input true bad).
Proof. reflexivity. Qed.

Section DirReader.
Variable P : prims.
Notation keeps := (keeps dir_reader).
Notation never := (never dir_reader).

Lemma dr_write_all {E} (werr : ioerr -> E) buf : keeps (m_write_all werr buf).
Proof. intros s r s' Hi E0. left. apply m_write_all_cases in E0. destruct E0 as (Hr & _). unfold dir_reader. now rewrite Hr. Qed.
Lemma dr_flush {E} (werr : ioerr -> E) : keeps (m_flush werr).
Proof. intros s r s' Hi E0. left. apply m_flush_cases in E0. destruct E0 as (Hr & _). unfold dir_reader. now rewrite Hr. Qed.

Lemma dr_read {E} (rerr : ioerr -> E) n : never (m_read rerr n).
Proof.
  intros s r s' Hi E0 a. unfold m_read, io_read, rd in E0. rewrite Hi in E0. injection E0 as <- <-. discriminate.
Qed.
(* read_exact of nothing makes no call; of something, the first call fails *)
Lemma dr_read_exact {E} (rerr : ioerr -> E) n : keeps (m_read_exact rerr n).
Proof.
  intros s r s' Hi E0. unfold m_read_exact, read_exact in E0. rewrite Hi in E0. cbn [length Nat.add] in E0.
  destruct n as [|n]; cbn [read_exact_loop] in E0.
  - injection E0 as <- <-. now left.
  - unfold io_read, rd in E0. rewrite Hi in E0. injection E0 as <- <-. right. intros a. discriminate.
Qed.
Lemma dr_read_exact_pos {E} (rerr : ioerr -> E) n : never (m_read_exact rerr (S n)).
Proof.
  intros s r s' Hi E0 a. unfold m_read_exact, read_exact in E0. rewrite Hi in E0. cbn [length Nat.add read_exact_loop] in E0.
  unfold io_read, rd in E0. rewrite Hi in E0. injection E0 as <- <-. discriminate.
Qed.

Lemma dr_dec_loop : forall fuel key aad cs n, never (decrypt_chunks_loop P fuel key aad cs n).
Proof.
  intros fuel key aad cs n. destruct fuel as [|f]; [apply never_lift_fuel|].
  cbn [decrypt_chunks_loop]. apply never_bind_l. apply (dr_read_exact_pos d_read_err 15).
Qed.
Lemma dr_decrypt_chunks key aad cs : never (decrypt_chunks P key aad cs).
Proof. intros s r s' Hi E0. unfold decrypt_chunks in E0. exact (dr_dec_loop _ _ _ _ _ _ _ _ Hi E0). Qed.

Lemma dr_encrypt_chunks key aad cs : never (encrypt_chunks P key aad cs).
Proof.
  intros s r s' Hi E0. unfold encrypt_chunks in E0.
  refine (never_bind_l dir_reader _ _ _ s r s' Hi E0). apply dr_read.
Qed.

Theorem key_decrypt_dir_reader r rpk : never (key_decrypt P r rpk).
Proof.
  unfold key_decrypt. apply never_bind_r; [apply dr_read_exact|intros prologue].
  destruct (valid_file_format prologue) as [[|]|]; [|apply never_fail|apply never_fail].
  apply never_bind_r; [apply dr_read_exact|intros hm].
  destruct (noise_decrypt P r rpk prologue hm) as [[[payload spk] hh]|e|t|];
    [|apply never_fail|apply never_lift_panic|apply never_lift_fuel].
  apply never_bind_l, dr_decrypt_chunks.
Qed.

Theorem pass_decrypt_dir_reader pw : never (pass_decrypt P pw).
Proof.
  unfold pass_decrypt. apply never_bind_r; [apply dr_read_exact|intros magic].
  destruct (valid_file_format magic) as [[|]|]; [apply never_fail| |apply never_fail].
  apply never_bind_r; [apply dr_read_exact|intros salt]. cbv zeta.
  apply never_bind_r; [apply keeps_emit, dir_reader_ends|intros _]. apply dr_decrypt_chunks.
Qed.

Theorem key_encrypt_dir_reader fpk fe s spk r e epk pk : never (key_encrypt P fpk fe s spk r e epk pk).
Proof.
  unfold key_encrypt. cbv zeta. destruct (negb _); [apply never_lift_panic|].
  destruct (noise_encrypt _ _ _ _ _ _ _ _ _) as [[msg hh]|e0|t|];
    [|apply never_fail|apply never_lift_panic|apply never_lift_fuel].
  apply never_bind_r; [apply dr_write_all|intros _]. apply never_bind_r; [apply dr_write_all|intros _].
  apply never_bind_r; [apply dr_flush|intros _]. apply dr_encrypt_chunks.
Qed.

Theorem pass_encrypt_dir_reader pw salt : never (pass_encrypt P pw salt).
Proof.
  unfold pass_encrypt. cbv zeta. apply never_bind_r; [apply keeps_emit, dir_reader_ends|intros _].
  apply never_bind_r; [apply dr_write_all|intros _]. apply never_bind_r; [apply dr_write_all|intros _].
  apply never_bind_r; [apply dr_flush|intros _]. apply dr_encrypt_chunks.
Qed.
End DirReader.

(* ====================================================================================== *)
(** * 3. What the run on a directory input does, exactly                                    *)
(* ====================================================================================== *)
Section DirExact.
Variable P : prims.

(* a read call on a directory handle *)
Lemma dir_read {E} (rerr : ioerr -> E) n s : dir_reader s ->
  exists s', m_read rerr n s = (Err (rerr OtherErr), s') /\ wtr s' = wtr s /\ log s' = EvReadErr n OtherErr :: log s.
Proof.
  intros Hi. unfold m_read, io_read, rd. rewrite Hi. eexists. split; [reflexivity|]. split; reflexivity.
Qed.
Lemma dir_read_exact {E} (rerr : ioerr -> E) n s : dir_reader s ->
  exists s', m_read_exact rerr (S n) s = (Err (rerr OtherErr), s') /\ wtr s' = wtr s /\
             log s' = EvReadErr (S n) OtherErr :: log s.
Proof.
  intros Hi. unfold m_read_exact, read_exact. rewrite Hi. cbn [length Nat.add read_exact_loop].
  unfold io_read, rd. rewrite Hi. eexists. split; [reflexivity|]. split; reflexivity.
Qed.

Lemma sink_touched_read_err s s' n e : wtr s' = wtr s -> log s' = EvReadErr n e :: log s -> sink_touched s' = sink_touched s.
Proof. intros _ Hl. unfold sink_touched. rewrite Hl. reflexivity. Qed.

(* the two decryptors: the first read fails, nothing has been written, no write or flush call was made *)
Theorem pass_decrypt_dir pw s : dir_reader s ->
  exists s', pass_decrypt P pw s = (Err (DIORead OtherErr), s') /\ wtr s' = wtr s /\ sink_touched s' = sink_touched s.
Proof.
  intros Hi. unfold pass_decrypt, bind. destruct (N.to_nat x_dec_magic_len) as [|n] eqn:En; [vm_compute in En; discriminate|].
  destruct (dir_read_exact d_read_err n s Hi) as (s' & -> & Hw & Hl). exists s'. split; [reflexivity|].
  split; [exact Hw | exact (sink_touched_read_err _ _ _ _ Hw Hl)].
Qed.
Theorem key_decrypt_dir r rpk s : dir_reader s ->
  exists s', key_decrypt P r rpk s = (Err (DIORead OtherErr), s') /\ wtr s' = wtr s /\ sink_touched s' = sink_touched s.
Proof.
  intros Hi. unfold key_decrypt, bind. destruct (N.to_nat x_dec_prologue_len) as [|n] eqn:En; [vm_compute in En; discriminate|].
  destruct (dir_read_exact d_read_err n s Hi) as (s' & -> & Hw & Hl). exists s'. split; [reflexivity|].
  split; [exact Hw | exact (sink_touched_read_err _ _ _ _ Hw Hl)].
Qed.

Lemma encrypt_chunks_dir key aad cs s : dir_reader s ->
  exists s', encrypt_chunks P key aad cs s = (Err (EIORead OtherErr), s') /\ wtr s' = wtr s /\
             sink_touched s' = sink_touched s.
Proof.
  intros Hi. unfold encrypt_chunks, bind. destruct (dir_read EIORead (N.to_nat cs) s Hi) as (s' & -> & Hw & Hl).
  exists s'. split; [reflexivity|]. split; [exact Hw | exact (sink_touched_read_err _ _ _ _ Hw Hl)].
Qed.

Lemma flushed_touched s s' : log s' = EvFlush None :: log s -> sink_touched s' = true.
Proof. intros Hl. unfold sink_touched. rewrite Hl. reflexivity. Qed.

(* password encrypt: magic and salt are written and flushed, then the first read fails: the sink holds the
   36-byte header and nothing else *)
Theorem pass_encrypt_dir pw salt s : dir_reader s -> writer_ok (wtr s) ->
  exists s', pass_encrypt P pw salt s = (Err (EIORead OtherErr), s') /\
    w_out (wtr s') = w_out (wtr s) ++ x_pass_file_magic ++ salt /\ sink_touched s' = true.
Proof.
  intros Hi Hw. unfold pass_encrypt. cbv zeta. unfold bind at 1. unfold emit at 1.
  set (s1 := with_log s _).
  assert (Hi1 : dir_reader s1) by exact Hi. assert (Hw1 : writer_ok (wtr s1)) by exact Hw.
  unfold bind at 1.
  destruct (step_write_all EIOWrite x_pass_file_magic s1 Hw1) as (s2 & d2 & -> & Ho2 & Hw2 & Hr2 & _).
  assert (Hi2 : dir_reader s2) by (unfold dir_reader; now rewrite Hr2).
  unfold bind at 1.
  destruct (step_write_all EIOWrite salt s2 Hw2) as (s3 & d3 & -> & Ho3 & Hw3 & Hr3 & _).
  assert (Hi3 : dir_reader s3) by (unfold dir_reader; now rewrite Hr3).
  unfold bind at 1.
  destruct (step_flush EIOWrite s3 Hw3) as (s4 & -> & Ho4 & Hw4 & Hr4 & Hl4).
  assert (Hi4 : dir_reader s4) by (unfold dir_reader; now rewrite Hr4).
  destruct (encrypt_chunks_dir (kdf P pw salt) x_pass_file_magic cs_const s4 Hi4) as (s5 & -> & Hw5 & Ht5).
  exists s5. split; [reflexivity|]. split.
  - rewrite Hw5, Ho4, Ho3, Ho2. subst s1. cbn [with_log wtr]. now rewrite <- app_assoc.
  - rewrite Ht5. exact (flushed_touched _ _ Hl4).
Qed.

(* key encrypt: the prologue and the handshake message are written and flushed, then the first read fails *)
Theorem key_encrypt_dir fpk fe sk spk r s msg hh : dir_reader s -> writer_ok (wtr s) -> length fpk = 32%nat ->
  noise_encrypt P fe sk spk r None None x_prologue fpk = Ok (msg, hh) ->
  exists s', key_encrypt P fpk fe sk spk r None None None s = (Err (EIORead OtherErr), s') /\
    w_out (wtr s') = w_out (wtr s) ++ x_prologue ++ msg /\ sink_touched s' = true.
Proof.
  intros Hi Hw Hl Hn. unfold key_encrypt. cbv zeta. rewrite Hl. cbn [Nat.eqb negb]. rewrite Hn.
  unfold bind at 1.
  destruct (step_write_all EIOWrite x_prologue s Hw) as (s2 & d2 & -> & Ho2 & Hw2 & Hr2 & _).
  assert (Hi2 : dir_reader s2) by (unfold dir_reader; now rewrite Hr2).
  unfold bind at 1.
  destruct (step_write_all EIOWrite msg s2 Hw2) as (s3 & d3 & -> & Ho3 & Hw3 & Hr3 & _).
  assert (Hi3 : dir_reader s3) by (unfold dir_reader; now rewrite Hr3).
  unfold bind at 1.
  destruct (step_flush EIOWrite s3 Hw3) as (s4 & -> & Ho4 & Hw4 & Hr4 & Hl4).
  assert (Hi4 : dir_reader s4) by (unfold dir_reader; now rewrite Hr4).
  destruct (encrypt_chunks_dir (file_key P fpk hh) [] cs_const s4 Hi4) as (s5 & -> & Hw5 & Ht5).
  exists s5. split; [reflexivity|]. split.
  - rewrite Hw5, Ho4, Ho3, Ho2. now rewrite <- app_assoc.
  - rewrite Ht5. exact (flushed_touched _ _ Hl4).
Qed.
End DirExact.

Lemma job_io_writer_ok input dir : writer_ok (wtr (job_io input dir false)).
Proof. split; constructor. Qed.

Print Assumptions key_decrypt_bad_sink.
Print Assumptions pass_decrypt_bad_sink.
Print Assumptions key_encrypt_bad_sink.
Print Assumptions pass_encrypt_bad_sink.
Print Assumptions key_decrypt_dir_reader.
Print Assumptions pass_decrypt_dir_reader.
Print Assumptions key_encrypt_dir_reader.
Print Assumptions pass_encrypt_dir_reader.
Print Assumptions pass_decrypt_dir.
Print Assumptions key_decrypt_dir.
Print Assumptions pass_encrypt_dir.
Print Assumptions key_encrypt_dir.
