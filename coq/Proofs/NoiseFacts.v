(* Proofs/NoiseFacts.v — the Noise X handshake of Model/Noise.v: closed forms for the concrete token
   list (Model/NoiseSpec.v), absence of panics on the read side for EVERY message, refutation of
   the pre-repair code, DH-zero rejection, and the encrypt/decrypt round trip (under dh_comm). *)
From Kestrel Require Import Bytes BytesFacts Outcome Prims.
From Kestrel.gen Require Import Extracted.
From Kestrel.Model Require Import AeadWrap Noise NoiseSpec.
From Kestrel.Proofs Require Import ChunksDec.
From Coq Require Import ZifyBool ZifyNat ZifyN.
Local Open Scope N_scope.

Section NF.
Variable P : prims.
Hypothesis Hh : hash_ok P.

Lemma key_new_ok b : length b = 32%nat -> key_new b = Ok b.
Proof. intros H. unfold key_new. now rewrite H. Qed.

Lemma ss_new_eq : ss_new P x_noise_protocol_name = Ok {| ck := nx_h0; h := nx_h0; k := None; nn := 0 |}.
Proof. reflexivity. Qed.

Lemma mix_hash_eq s d : mix_hash P s d = Ok {| ck := ck s; h := mixh P (h s) d; k := k s; nn := nn s |}.
Proof. unfold mix_hash, mixh. now rewrite (hash_len P Hh). Qed.

Lemma hk_ck_len c i : length (hk_ck P c i) = 32%nat.
Proof. apply (hmac_len P Hh). Qed.
Lemma hk_k_len c i : length (hk_k P c i) = 32%nat.
Proof. apply (hmac_len P Hh). Qed.

Lemma mix_key_eq s i : mix_key P s i = Ok {| ck := hk_ck P (ck s) i; h := h s; k := Some (hk_k P (ck s) i); nn := 0 |}.
Proof.
  unfold mix_key. rewrite (surjective_pairing (hkdf_noise P (ck s) i)).
  fold (hk_ck P (ck s) i) (hk_k P (ck s) i).
  rewrite !key_new_ok by (apply hk_ck_len || apply hk_k_len). reflexivity.
Qed.

Lemma split_check_eq s : split_check P s = Ok tt.
Proof.
  unfold split_check. rewrite (surjective_pairing (hkdf_noise P (ck s) [])).
  fold (hk_ck P (ck s) []) (hk_k P (ck s) []).
  rewrite !key_new_ok by (apply hk_ck_len || apply hk_k_len). reflexivity.
Qed.

Lemma bump0 : bump_nonce 0 = Ok 1.
Proof. reflexivity. Qed.

Lemma x25519_eq a b : length a = 32%nat -> length b = 32%nat ->
  x25519 P a b = if all_zero (p_dh P a b) then Err DhError else Ok (p_dh P a b).
Proof. intros Ha Hb. unfold x25519. now rewrite Ha, Hb. Qed.

Lemma slice_ok m a b : (a <= b)%nat -> (b <= length m)%nat -> slice m a b = Ok (firstn (b - a) (skipn a m)).
Proof.
  intros H1 H2. unfold slice.
  destruct (Nat.leb_spec a b); [|lia]. destruct (Nat.leb_spec b (length m)); [|lia]. reflexivity.
Qed.

Lemma chapoly_encrypt_noise_eq key n ad pt : length key = 32%nat ->
  chapoly_encrypt_noise P key n ad pt = Ok (p_seal P key (noise_nonce n) ad pt).
Proof. intros Hk. unfold chapoly_encrypt_noise, chapoly_encrypt_ietf. now rewrite Hk. Qed.


Lemma encrypt_and_hash_eq y key pt : k y = Some key -> nn y = 0 -> length key = 32%nat ->
  encrypt_and_hash P y pt =
  Ok ({| ck := ck y; h := mixh P (h y) (p_seal P key (noise_nonce 0) (h y) pt); k := k y; nn := 1 |},
      p_seal P key (noise_nonce 0) (h y) pt).
Proof.
  intros Hy Hn Hk. unfold encrypt_and_hash. rewrite Hy, Hn.
  rewrite chapoly_encrypt_noise_eq by assumption. cbn [lift_aead obind]. rewrite bump0. cbn [obind].
  rewrite mix_hash_eq. cbn [ck h k nn]. reflexivity.
Qed.

Lemma decrypt_and_hash_eq y key ct : k y = Some key -> nn y = 0 -> length key = 32%nat ->
  decrypt_and_hash P y ct =
  if Nat.ltb (length ct) 16 then Err NDecrypt else
  match p_open P key (noise_nonce 0) (h y) ct with
  | None => Err NDecrypt
  | Some pt => Ok ({| ck := ck y; h := mixh P (h y) ct; k := k y; nn := 1 |}, pt)
  end.
Proof.
  intros Hy Hn Hk. unfold decrypt_and_hash. rewrite Hy, Hn.
  rewrite (chapoly_decrypt_noise_eq P key Hk).
  destruct (Nat.ltb (length ct) 16); [reflexivity|].
  destruct (p_open P key (noise_nonce 0) (h y) ct) as [pt|]; [|reflexivity].
  cbn [lift_aead obind]. rewrite bump0. cbn [obind]. rewrite mix_hash_eq. cbn [ck h k nn]. reflexivity.
Qed.

Lemma init_x_resp prologue r rpk :
  init_x P false prologue r rpk None None None =
  Ok {| sym_st := {| ck := nx_h0; h := mixh P (mixh P nx_h0 prologue) rpk; k := None; nn := 0 |};
        s_priv := r; s_pub := rpk; e_pair := None; rs := None; re := None; initiator := false |}.
Proof.
  unfold init_x. rewrite ss_new_eq. cbn [obind]. rewrite mix_hash_eq. cbn [obind].
  rewrite mix_hash_eq. reflexivity.
Qed.

Lemma init_x_init prologue s spk e epk rpk :
  init_x P true prologue s spk e epk (Some rpk) =
  Ok {| sym_st := {| ck := nx_h0; h := mixh P (mixh P nx_h0 prologue) rpk; k := None; nn := 0 |};
        s_priv := s; s_pub := spk;
        e_pair := match e, epk with Some a, Some b => Some (a, b) | _, _ => None end;
        rs := Some rpk; re := None; initiator := true |}.
Proof.
  unfold init_x. rewrite ss_new_eq. cbn [obind]. rewrite mix_hash_eq. cbn [obind].
  rewrite mix_hash_eq. reflexivity.
Qed.

(* ---- one token of read_message ---- *)
Lemma rd_TE msg st idx : (idx + 32 <= length msg)%nat ->
  read_token P msg (st, idx) TE =
  Ok ({| sym_st := {| ck := ck (sym_st st); h := mixh P (h (sym_st st)) (firstn 32 (skipn idx msg));
                      k := k (sym_st st); nn := nn (sym_st st) |};
         s_priv := s_priv st; s_pub := s_pub st; e_pair := e_pair st; rs := rs st;
         re := Some (firstn 32 (skipn idx msg)); initiator := initiator st |}, (idx + 32)%nat).
Proof.
  intros Hi. unfold read_token. change (N.to_nat x_noise_dh_len) with 32%nat.
  rewrite slice_ok by lia. cbn [obind]. replace (idx + 32 - idx)%nat with 32%nat by lia.
  assert (Hre : length (firstn 32 (skipn idx msg)) = 32%nat) by (rewrite firstn_length, skipn_length; lia).
  rewrite Hre. cbn [Nat.eqb negb]. rewrite mix_hash_eq. reflexivity.
Qed.

Lemma rd_TES msg st idx x : re st = Some x -> length (s_priv st) = 32%nat -> length x = 32%nat ->
  read_token P msg (st, idx) TES =
  if all_zero (p_dh P (s_priv st) x) then Err NDh else
  Ok (with_sym st {| ck := hk_ck P (ck (sym_st st)) (p_dh P (s_priv st) x); h := h (sym_st st);
                     k := Some (hk_k P (ck (sym_st st)) (p_dh P (s_priv st) x)); nn := 0 |}, idx).
Proof.
  intros Hre Hs Hx. unfold read_token. rewrite Hre. rewrite x25519_eq by assumption.
  destruct (all_zero _); [reflexivity|]. cbn [lift_dh obind]. rewrite mix_key_eq. reflexivity.
Qed.

Lemma rd_TSS msg st idx x : rs st = Some x -> length (s_priv st) = 32%nat -> length x = 32%nat ->
  read_token P msg (st, idx) TSS =
  if all_zero (p_dh P (s_priv st) x) then Err NDh else
  Ok (with_sym st {| ck := hk_ck P (ck (sym_st st)) (p_dh P (s_priv st) x); h := h (sym_st st);
                     k := Some (hk_k P (ck (sym_st st)) (p_dh P (s_priv st) x)); nn := 0 |}, idx).
Proof.
  intros Hre Hs Hx. unfold read_token. rewrite Hre. rewrite x25519_eq by assumption.
  destruct (all_zero _); [reflexivity|]. cbn [lift_dh obind]. rewrite mix_key_eq. reflexivity.
Qed.

Lemma rd_TS msg st idx key : k (sym_st st) = Some key -> nn (sym_st st) = 0 -> length key = 32%nat ->
  (idx + 48 <= length msg)%nat ->
  read_token P msg (st, idx) TS =
  match p_open P key (noise_nonce 0) (h (sym_st st)) (firstn 48 (skipn idx msg)) with
  | None => Err NDecrypt
  | Some pt =>
    if negb (Nat.eqb (length pt) 32) then Err NOther else
    Ok ({| sym_st := {| ck := ck (sym_st st); h := mixh P (h (sym_st st)) (firstn 48 (skipn idx msg));
                        k := k (sym_st st); nn := 1 |};
           s_priv := s_priv st; s_pub := s_pub st; e_pair := e_pair st; rs := Some pt;
           re := re st; initiator := initiator st |}, (idx + 48)%nat)
  end.
Proof.
  intros Hk Hn Hkl Hi. unfold read_token. change (N.to_nat x_noise_dh_len) with 32%nat.
  rewrite Hk. change (32 + 16)%nat with 48%nat.
  rewrite slice_ok by lia. cbn [obind]. replace (idx + 48 - idx)%nat with 48%nat by lia.
  assert (Hc : length (firstn 48 (skipn idx msg)) = 48%nat) by (rewrite firstn_length, skipn_length; lia).
  rewrite (decrypt_and_hash_eq _ key) by assumption. rewrite Hc. cbn [Nat.ltb Nat.leb].
  destruct (p_open P key _ _ _) as [pt|]; [|reflexivity]. cbn [obind snd fst]. now rewrite Hk.
Qed.

(* the one place where the VALUES of the two literals of the length guard enter the proofs: every theorem
   that speaks of 96 / 65535 goes through these lemmas, so it is re-checked against the literals the
   translator reads from noise.rs on every run *)
Lemma guard_values : guard_min = 96%nat /\ guard_max = 65535.
Proof. split; reflexivity. Qed.

Lemma read_len_guard_reads_extracted len :
  read_len_guard false len =
  (if Nat.leb (N.to_nat x_noise_guard_min) len && (N.of_nat len <=? x_noise_guard_max) then Ok tt else Err NOther) /\
  noise_len_ok len = (Nat.leb (N.to_nat x_noise_guard_min) len && (N.of_nat len <=? x_noise_guard_max))%bool.
Proof. split; reflexivity. Qed.

Lemma noise_len_ok_iff len : noise_len_ok len = true <-> (96 <= len)%nat /\ N.of_nat len <= 65535.
Proof.
  unfold noise_len_ok. destruct guard_values as [-> ->].
  rewrite andb_true_iff, Nat.leb_le, N.leb_le. reflexivity.
Qed.

Lemma read_len_guard_ok legacy len : noise_len_ok len = true -> read_len_guard legacy len = Ok tt.
Proof.
  intros Hg. pose proof Hg as Hg'. apply noise_len_ok_iff in Hg'. destruct Hg' as [Hg1 Hg2].
  unfold read_len_guard. destruct legacy.
  - destruct (Nat.leb_spec 64 len) as [_|Hlt]; [|lia]. apply N.leb_le in Hg2. rewrite Hg2. reflexivity.
  - unfold noise_len_ok in Hg. rewrite Hg. reflexivity.
Qed.

Theorem noise_decrypt_gen_eq legacy r rpk prologue msg :
  length r = 32%nat -> noise_len_ok (length msg) = true ->
  noise_decrypt_gen P legacy r rpk prologue msg = noise_decrypt_spec P r rpk prologue msg.
Proof.
  intros Hr Hg. pose proof Hg as Hg'. apply noise_len_ok_iff in Hg'.
  destruct Hg' as [Hg1 _].
  unfold noise_decrypt_gen, noise_decrypt_spec. rewrite init_x_resp. cbn [obind].
  unfold read_message_gen. rewrite read_len_guard_ok by assumption. cbn [obind].
  unfold x_noise_pattern. cbn [fold_tokens].
  rewrite rd_TE by (cbn [Nat.add]; lia). cbn [obind Nat.add]. change (skipn 0 msg) with msg.
  cbn [sym_st s_priv s_pub e_pair rs re initiator ck h k nn].
  assert (Hre : length (firstn 32 msg) = 32%nat) by (rewrite firstn_length; lia).
  rewrite (rd_TES _ _ _ (firstn 32 msg)) by (reflexivity || assumption).
  cbn [sym_st s_priv s_pub e_pair rs re initiator ck h k nn with_sym].
  destruct (all_zero (p_dh P r (firstn 32 msg))); [reflexivity|]. cbn [obind].
  rewrite (rd_TS _ _ _ (hk_k P nx_h0 (p_dh P r (firstn 32 msg)))); [|reflexivity|reflexivity|apply hk_k_len|lia].
  cbn [sym_st s_priv s_pub e_pair rs re initiator ck h k nn with_sym].
  destruct (p_open P _ _ _ (firstn 48 (skipn 32 msg))) as [rs0|]; [|reflexivity].
  destruct (Nat.eqb_spec (length rs0) 32) as [Hrs|Hrs]; cbn [negb]; [|reflexivity]. cbn [obind].
  rewrite (rd_TSS _ _ _ rs0) by (reflexivity || assumption).
  cbn [sym_st s_priv s_pub e_pair rs re initiator ck h k nn with_sym].
  destruct (all_zero (p_dh P r rs0)); [reflexivity|]. cbn [obind Nat.add].
  rewrite slice_ok by lia. cbn [obind].
  cbn [sym_st s_priv s_pub e_pair rs re initiator ck h k nn with_sym].
  assert (Hc2 : firstn (length msg - 80) (skipn 80 msg) = skipn 80 msg).
  { apply firstn_all2. rewrite skipn_length. lia. }
  rewrite Hc2.
  rewrite (decrypt_and_hash_eq _ (hk_k P (hk_ck P nx_h0 (p_dh P r (firstn 32 msg))) (p_dh P r rs0)));
    [|reflexivity|reflexivity|apply hk_k_len].
  assert (Hl2 : Nat.ltb (length (skipn 80 msg)) 16 = false).
  { apply Nat.ltb_ge. rewrite skipn_length. lia. }
  rewrite Hl2. cbn [ck h k nn].
  destruct (p_open P _ _ _ (skipn 80 msg)) as [pl|]; [|reflexivity].
  cbn [obind fst snd]. rewrite split_check_eq. cbn [obind ck h k nn].
  destruct (negb (length pl =? 32)%nat); reflexivity.
Qed.


(* ---- one token of write_message ---- *)
Lemma wr_TE fresh_e st buf : length (fst (ep_of P fresh_e st)) = 32%nat ->
  write_token P fresh_e (st, buf) TE =
  Ok ({| sym_st := {| ck := ck (sym_st st); h := mixh P (h (sym_st st)) (snd (ep_of P fresh_e st));
                      k := k (sym_st st); nn := nn (sym_st st) |};
         s_priv := s_priv st; s_pub := s_pub st; e_pair := Some (ep_of P fresh_e st); rs := rs st;
         re := re st; initiator := initiator st |}, buf ++ snd (ep_of P fresh_e st)).
Proof.
  unfold ep_of, write_token. destruct (e_pair st) as [p|]; intros Hl.
  - cbn [obind]. rewrite mix_hash_eq. reflexivity.
  - cbn [fst] in Hl. unfold x25519_derive_public. rewrite Hl. cbn [Nat.eqb negb lift_dh obind snd].
    rewrite mix_hash_eq. reflexivity.
Qed.

Lemma wr_TES fresh_e st buf ep x : e_pair st = Some ep -> rs st = Some x ->
  length (fst ep) = 32%nat -> length x = 32%nat ->
  write_token P fresh_e (st, buf) TES =
  if all_zero (p_dh P (fst ep) x) then Err NDh else
  Ok (with_sym st {| ck := hk_ck P (ck (sym_st st)) (p_dh P (fst ep) x); h := h (sym_st st);
                     k := Some (hk_k P (ck (sym_st st)) (p_dh P (fst ep) x)); nn := 0 |}, buf).
Proof.
  intros He Hrs Hl Hx. unfold write_token. rewrite He, Hrs. rewrite x25519_eq by assumption.
  destruct (all_zero _); [reflexivity|]. cbn [lift_dh obind]. rewrite mix_key_eq. reflexivity.
Qed.

Lemma wr_TSS fresh_e st buf x : rs st = Some x -> length (s_priv st) = 32%nat -> length x = 32%nat ->
  write_token P fresh_e (st, buf) TSS =
  if all_zero (p_dh P (s_priv st) x) then Err NDh else
  Ok (with_sym st {| ck := hk_ck P (ck (sym_st st)) (p_dh P (s_priv st) x); h := h (sym_st st);
                     k := Some (hk_k P (ck (sym_st st)) (p_dh P (s_priv st) x)); nn := 0 |}, buf).
Proof.
  intros Hrs Hl Hx. unfold write_token. rewrite Hrs. rewrite x25519_eq by assumption.
  destruct (all_zero _); [reflexivity|]. cbn [lift_dh obind]. rewrite mix_key_eq. reflexivity.
Qed.

Lemma wr_TS fresh_e st buf key : k (sym_st st) = Some key -> nn (sym_st st) = 0 -> length key = 32%nat ->
  write_token P fresh_e (st, buf) TS =
  Ok (with_sym st {| ck := ck (sym_st st);
                     h := mixh P (h (sym_st st)) (p_seal P key (noise_nonce 0) (h (sym_st st)) (s_pub st));
                     k := k (sym_st st); nn := 1 |},
      buf ++ p_seal P key (noise_nonce 0) (h (sym_st st)) (s_pub st)).
Proof.
  intros Hk Hn Hl. unfold write_token. rewrite (encrypt_and_hash_eq _ key) by assumption. reflexivity.
Qed.

Lemma eph_of_ep_of fresh_e e epk st :
  e_pair st = match e, epk with Some a, Some b => Some (a, b) | _, _ => None end ->
  ep_of P fresh_e st = eph_of P fresh_e e epk.
Proof. unfold ep_of, eph_of. intros ->. destruct e, epk; reflexivity. Qed.

(* noise_encrypt in closed form; [e'], [epk'] is the ephemeral pair actually used *)
Theorem noise_encrypt_eq fresh_e s spk rpk e epk prologue payload e' epk' :
  eph_of P fresh_e e epk = (e', epk') ->
  length e' = 32%nat -> length s = 32%nat -> length rpk = 32%nat ->
  noise_encrypt P fresh_e s spk rpk e epk prologue payload =
  noise_encrypt_spec P e' epk' s spk rpk prologue payload.
Proof.
  intros Hep He Hs Hr. unfold noise_encrypt, noise_encrypt_spec. rewrite init_x_init. cbn [obind].
  unfold write_message, x_noise_pattern. cbn [fold_tokens].
  set (st0 := {| sym_st := _ |}).
  assert (Hep0 : ep_of P fresh_e st0 = (e', epk')) by (rewrite <- Hep; now apply eph_of_ep_of).
  rewrite wr_TE by (rewrite Hep0; exact He). rewrite Hep0. subst st0.
  cbn [obind fst snd app sym_st s_priv s_pub e_pair rs re initiator ck h k nn].
  rewrite (wr_TES _ _ _ (e', epk') rpk) by (reflexivity || assumption).
  cbn [fst snd sym_st s_priv s_pub e_pair rs re initiator ck h k nn with_sym].
  destruct (all_zero (p_dh P e' rpk)); [reflexivity|]. cbn [obind].
  rewrite (wr_TS _ _ _ (hk_k P nx_h0 (p_dh P e' rpk))); [|reflexivity|reflexivity|apply hk_k_len].
  cbn [obind fst snd sym_st s_priv s_pub e_pair rs re initiator ck h k nn with_sym].
  rewrite (wr_TSS _ _ _ rpk) by (reflexivity || assumption).
  cbn [fst snd sym_st s_priv s_pub e_pair rs re initiator ck h k nn with_sym].
  destruct (all_zero (p_dh P s rpk)); [reflexivity|]. cbn [obind].
  rewrite (encrypt_and_hash_eq _ (hk_k P (hk_ck P nx_h0 (p_dh P e' rpk)) (p_dh P s rpk)));
    [|reflexivity|reflexivity|apply hk_k_len].
  cbn [obind fst snd ck h k nn]. rewrite split_check_eq. cbn [obind ck h k nn].
  rewrite <- app_assoc. reflexivity.
Qed.

(* ---------- the repaired read side: total, never panics ---------- *)
Lemma read_len_guard_bad len : noise_len_ok len = false -> read_len_guard false len = Err NOther.
Proof. unfold noise_len_ok, read_len_guard. now intros ->. Qed.

Theorem noise_decrypt_eq r rpk prologue msg : length r = 32%nat ->
  noise_decrypt P r rpk prologue msg =
  if noise_len_ok (length msg) then noise_decrypt_spec P r rpk prologue msg else Err NOther.
Proof.
  intros Hr. destruct (noise_len_ok (length msg)) eqn:Hg.
  - now apply noise_decrypt_gen_eq.
  - unfold noise_decrypt, noise_decrypt_gen. rewrite init_x_resp. cbn [obind].
    unfold read_message_gen. rewrite read_len_guard_bad by assumption. reflexivity.
Qed.

Lemma noise_decrypt_spec_normal r rpk prologue msg : normal (noise_decrypt_spec P r rpk prologue msg).
Proof.
  unfold noise_decrypt_spec.
  destruct (all_zero _); [exact I|].
  destruct (p_open P _ _ _ _) as [rs0|]; [|exact I].
  destruct (negb _); [exact I|].
  destruct (all_zero _); [exact I|].
  destruct (p_open P _ _ _ _) as [pl|]; [|exact I].
  destruct (negb _); exact I.
Qed.

Theorem noise_no_panic r rpk prologue msg : length r = 32%nat ->
  normal (noise_decrypt P r rpk prologue msg).
Proof.
  intros Hr. rewrite noise_decrypt_eq by assumption.
  destruct (noise_len_ok _); [apply noise_decrypt_spec_normal|exact I].
Qed.

Corollary noise_no_panic' r rpk prologue msg : length r = 32%nat ->
  (exists x, noise_decrypt P r rpk prologue msg = Ok x) \/
  (exists e, noise_decrypt P r rpk prologue msg = Err e).
Proof.
  intros Hr. pose proof (noise_no_panic r rpk prologue msg Hr) as Hn.
  destruct (noise_decrypt P r rpk prologue msg) as [x|e|w|]; [left; eauto|right; eauto|destruct Hn|destruct Hn].
Qed.

(* the pre-repair code (assert! on the length) panics on every message shorter than 64 bytes *)
Theorem noise_legacy_short_panics r rpk prologue msg : (length msg < 64)%nat ->
  noise_decrypt_gen P true r rpk prologue msg = Panic PAssert.
Proof.
  intros Hl. unfold noise_decrypt_gen. rewrite init_x_resp. cbn [obind].
  unfold read_message_gen, read_len_guard.
  destruct (Nat.leb_spec 64 (length msg)); [lia|]. reflexivity.
Qed.

Theorem noise_legacy_refuted r rpk prologue :
  exists msg, noise_decrypt_gen P true r rpk prologue msg = Panic PAssert.
Proof. exists []. apply noise_legacy_short_panics. cbn. lia. Qed.


(* ---------- all-zero DH outputs are rejected on both sides ---------- *)
Theorem noise_encrypt_dh_zero_gen fresh_e s spk rpk e epk prologue payload e' epk' :
  eph_of P fresh_e e epk = (e', epk') ->
  length e' = 32%nat -> length s = 32%nat -> length rpk = 32%nat ->
  all_zero (p_dh P e' rpk) = true \/ all_zero (p_dh P s rpk) = true ->
  noise_encrypt P fresh_e s spk rpk e epk prologue payload = Err NDh.
Proof.
  intros Hep He Hs Hr Hz. rewrite (noise_encrypt_eq _ _ _ _ _ _ _ _ e' epk') by assumption.
  unfold noise_encrypt_spec. destruct (all_zero (p_dh P e' rpk)); [reflexivity|].
  destruct Hz as [Hz|Hz]; [discriminate Hz|]. now rewrite Hz.
Qed.

Theorem noise_encrypt_dh_zero fresh s spk rpk e epk prologue payload :
  length e = 32%nat -> length s = 32%nat -> length rpk = 32%nat ->
  all_zero (p_dh P e rpk) = true \/ all_zero (p_dh P s rpk) = true ->
  noise_encrypt P fresh s spk rpk (Some e) (Some epk) prologue payload = Err NDh.
Proof. intros He Hs Hr Hz. now apply (noise_encrypt_dh_zero_gen _ _ _ _ _ _ _ _ e epk). Qed.

Theorem noise_encrypt_dh_zero_fresh fresh_e s spk rpk prologue payload :
  length fresh_e = 32%nat -> length s = 32%nat -> length rpk = 32%nat ->
  all_zero (p_dh P fresh_e rpk) = true \/ all_zero (p_dh P s rpk) = true ->
  noise_encrypt P fresh_e s spk rpk None None prologue payload = Err NDh.
Proof.
  intros He Hs Hr Hz. now apply (noise_encrypt_dh_zero_gen _ _ _ _ _ _ _ _ fresh_e (dh_pub P fresh_e)).
Qed.

Lemma noise_len_ok_intro len : (96 <= len)%nat -> N.of_nat len <= 65535 -> noise_len_ok len = true.
Proof.
  intros H1 H2. apply noise_len_ok_iff. split; assumption.
Qed.

Theorem noise_decrypt_dh_zero r rpk prologue msg :
  length r = 32%nat -> (96 <= length msg)%nat -> N.of_nat (length msg) <= 65535 ->
  all_zero (p_dh P r (firstn 32 msg)) = true ->
  noise_decrypt P r rpk prologue msg = Err NDh.
Proof.
  intros Hr H1 H2 Hz. rewrite noise_decrypt_eq by assumption. rewrite noise_len_ok_intro by assumption.
  unfold noise_decrypt_spec. now rewrite Hz.
Qed.

(* the second DH (static-static): the decrypted sender key is checked the same way *)
Theorem noise_decrypt_dh_zero_static r rpk prologue msg rs0 :
  length r = 32%nat -> (96 <= length msg)%nat -> N.of_nat (length msg) <= 65535 ->
  all_zero (p_dh P r (firstn 32 msg)) = false ->
  p_open P (hk_k P nx_h0 (p_dh P r (firstn 32 msg))) (noise_nonce 0)
    (mixh P (mixh P (mixh P nx_h0 prologue) rpk) (firstn 32 msg)) (firstn 48 (skipn 32 msg)) = Some rs0 ->
  length rs0 = 32%nat -> all_zero (p_dh P r rs0) = true ->
  noise_decrypt P r rpk prologue msg = Err NDh.
Proof.
  intros Hr H1 H2 Hnz Ho Hl Hz. rewrite noise_decrypt_eq by assumption. rewrite noise_len_ok_intro by assumption.
  unfold noise_decrypt_spec. rewrite Hnz, Ho, Hl, Hz. reflexivity.
Qed.

(* ---------- round trip ---------- *)
Lemma firstn_app_len {A} n (a b : list A) : length a = n -> firstn n (a ++ b) = a.
Proof. intros <-. apply firstn_app_exact. Qed.
Lemma skipn_app_len {A} n (a b : list A) : length a = n -> skipn n (a ++ b) = b.
Proof. intros <-. apply skipn_app_exact. Qed.

Section RoundTrip.
Hypothesis Ha : aead_ok P.
Hypothesis Hcomm : dh_comm P.

Lemma spec_roundtrip e s r prologue payload :
  length payload = 32%nat ->
  all_zero (p_dh P e (dh_pub P r)) = false -> all_zero (p_dh P s (dh_pub P r)) = false ->
  exists msg hh,
    noise_encrypt_spec P e (dh_pub P e) s (dh_pub P s) (dh_pub P r) prologue payload = Ok (msg, hh) /\
    length msg = 128%nat /\
    noise_decrypt_spec P r (dh_pub P r) prologue msg = Ok (payload, dh_pub P s, hh).
Proof.
  intros Hp Hz1 Hz2. unfold noise_encrypt_spec. rewrite Hz1, Hz2.
  set (epk := dh_pub P e) in *. set (spk := dh_pub P s) in *. set (rpk := dh_pub P r) in *.
  set (h3 := mixh P (mixh P (mixh P nx_h0 prologue) rpk) epk).
  set (dh1 := p_dh P e rpk) in *. set (dh2 := p_dh P s rpk) in *.
  set (ct1 := p_seal P (hk_k P nx_h0 dh1) (noise_nonce 0) h3 spk).
  set (h4 := mixh P h3 ct1).
  set (ct2 := p_seal P (hk_k P (hk_ck P nx_h0 dh1) dh2) (noise_nonce 0) h4 payload).
  assert (Lepk : length epk = 32%nat) by apply (dh_len P Hh).
  assert (Lspk : length spk = 32%nat) by apply (dh_len P Hh).
  assert (Lct1 : length ct1 = 48%nat) by (unfold ct1; rewrite (seal_len P Ha), Lspk; reflexivity).
  assert (Lct2 : length ct2 = 48%nat) by (unfold ct2; rewrite (seal_len P Ha), Hp; reflexivity).
  exists (epk ++ ct1 ++ ct2), (mixh P h4 ct2). split; [reflexivity|]. split.
  { rewrite !app_length, Lepk, Lct1, Lct2. reflexivity. }
  unfold noise_decrypt_spec.
  assert (E1 : firstn 32 (epk ++ ct1 ++ ct2) = epk) by (now apply firstn_app_len).
  assert (E2 : firstn 48 (skipn 32 (epk ++ ct1 ++ ct2)) = ct1).
  { rewrite (skipn_app_len 32) by assumption. now apply firstn_app_len. }
  assert (E3 : skipn 80 (epk ++ ct1 ++ ct2) = ct2).
  { rewrite app_assoc. apply skipn_app_len. rewrite app_length, Lepk, Lct1. reflexivity. }
  rewrite E1, E2, E3.
  assert (D1 : p_dh P r epk = dh1) by (unfold epk, dh1, rpk; apply Hcomm).
  assert (D2 : p_dh P r spk = dh2) by (unfold spk, dh2, rpk; apply Hcomm).
  rewrite D1, Hz1. fold h3. fold ct1. unfold ct1 at 1. rewrite (open_seal P Ha).
  rewrite Lspk. cbn [Nat.eqb negb]. rewrite D2, Hz2. fold ct1. fold h4.
  unfold ct2 at 1. rewrite (open_seal P Ha). rewrite Hp. cbn [Nat.eqb negb]. reflexivity.
Qed.

Theorem noise_roundtrip_gen fresh_e e epk s r prologue payload e' :
  eph_of P fresh_e e epk = (e', dh_pub P e') ->
  length e' = 32%nat -> length s = 32%nat -> length r = 32%nat -> length payload = 32%nat ->
  all_zero (p_dh P e' (dh_pub P r)) = false -> all_zero (p_dh P s (dh_pub P r)) = false ->
  exists msg hh,
    noise_encrypt P fresh_e s (dh_pub P s) (dh_pub P r) e epk prologue payload = Ok (msg, hh) /\
    length msg = 128%nat /\
    noise_decrypt P r (dh_pub P r) prologue msg = Ok (payload, dh_pub P s, hh).
Proof.
  intros Hep He Hs Hr Hp Hz1 Hz2.
  destruct (spec_roundtrip e' s r prologue payload Hp Hz1 Hz2) as (msg & hh & Henc & Hlen & Hdec).
  exists msg, hh. split; [|split; [exact Hlen|]].
  - rewrite (noise_encrypt_eq _ _ _ _ _ _ _ _ e' (dh_pub P e')); try assumption. apply (dh_len P Hh).
  - rewrite noise_decrypt_eq by assumption. rewrite Hlen. exact Hdec.
Qed.

(* injected ephemeral key *)
Theorem noise_roundtrip fresh s spk e epk r rpk prologue payload :
  length s = 32%nat -> length e = 32%nat -> length r = 32%nat -> length payload = 32%nat ->
  spk = dh_pub P s -> epk = dh_pub P e -> rpk = dh_pub P r ->
  all_zero (p_dh P e rpk) = false -> all_zero (p_dh P s rpk) = false ->
  exists msg hh,
    noise_encrypt P fresh s spk rpk (Some e) (Some epk) prologue payload = Ok (msg, hh) /\
    length msg = 128%nat /\
    noise_decrypt P r rpk prologue msg = Ok (payload, spk, hh).
Proof.
  intros Hs He Hr Hp -> -> -> Hz1 Hz2.
  apply (noise_roundtrip_gen fresh (Some e) (Some (dh_pub P e)) s r prologue payload e); auto.
Qed.

(* fresh ephemeral key: the 32 random bytes [fresh_e] become the ephemeral private key *)
Theorem noise_roundtrip_fresh fresh_e s spk r rpk prologue payload :
  length s = 32%nat -> length fresh_e = 32%nat -> length r = 32%nat -> length payload = 32%nat ->
  spk = dh_pub P s -> rpk = dh_pub P r ->
  all_zero (p_dh P fresh_e rpk) = false -> all_zero (p_dh P s rpk) = false ->
  exists msg hh,
    noise_encrypt P fresh_e s spk rpk None None prologue payload = Ok (msg, hh) /\
    length msg = 128%nat /\
    noise_decrypt P r rpk prologue msg = Ok (payload, spk, hh).
Proof.
  intros Hs He Hr Hp -> -> Hz1 Hz2.
  apply (noise_roundtrip_gen fresh_e None None s r prologue payload fresh_e); auto.
Qed.

End RoundTrip.

End NF.

(* ---------- Model/AeadWrap.v: chapoly_decrypt_* ---------- *)
Section Aead.
Variable P : prims.

Theorem aead_legacy_refuted key nonce ad : length key = 32%nat -> length nonce = 12%nat ->
  chapoly_decrypt_ietf_gen P true key nonce [] ad = Panic PArith.
Proof. intros Hk Hn. unfold chapoly_decrypt_ietf_gen. now rewrite Hk, Hn. Qed.

Theorem aead_no_panic key nonce ct ad : length key = 32%nat -> length nonce = 12%nat ->
  normal (chapoly_decrypt_ietf P key nonce ct ad).
Proof.
  intros Hk Hn. unfold chapoly_decrypt_ietf, chapoly_decrypt_ietf_gen. rewrite Hk, Hn. cbn [Nat.eqb negb].
  destruct (Nat.ltb _ _); [exact I|]. destruct (p_open P key nonce ad ct); exact I.
Qed.

Theorem aead_noise_no_panic key n ad ct : length key = 32%nat ->
  normal (chapoly_decrypt_noise P key n ad ct).
Proof.
  intros Hk. rewrite (chapoly_decrypt_noise_eq P key Hk).
  destruct (Nat.ltb _ _); [exact I|]. destruct (p_open P key _ ad ct); exact I.
Qed.

End Aead.

Section Closure.
Print Assumptions noise_decrypt_gen_eq.
Print Assumptions noise_decrypt_eq.
Print Assumptions noise_encrypt_eq.
Print Assumptions noise_no_panic.
Print Assumptions noise_no_panic'.
Print Assumptions noise_legacy_refuted.
Print Assumptions aead_legacy_refuted.
Print Assumptions aead_no_panic.
Print Assumptions aead_noise_no_panic.
Print Assumptions noise_encrypt_dh_zero.
Print Assumptions noise_encrypt_dh_zero_fresh.
Print Assumptions noise_decrypt_dh_zero.
Print Assumptions noise_decrypt_dh_zero_static.
Print Assumptions noise_roundtrip.
Print Assumptions noise_roundtrip_fresh.
End Closure.
