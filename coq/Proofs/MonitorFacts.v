(* Proofs/MonitorFacts.v — the monitors of Model/Monitors.v accept every trace of the chunk loops, for
   every io state (any data, any read / write / flush script, faults included).  Because a monitor run
   stops at the first violation ([mon_fold_prefix]), acceptance of the final trace is a statement about
   every intermediate moment of the run. *)
From Kestrel Require Import Bytes BytesFacts Outcome IO IOFacts Prims.
From Kestrel.Model Require Import AeadWrap Chunks Monitors.
From Kestrel.Proofs Require Import MonadFacts ChunksDec TraceShape.
From Coq Require Import ZifyBool ZifyNat ZifyN.

(* ---------- generic facts about monitor runs ---------- *)
Section FoldFacts.
Context {St : Type}.
Variable step : St -> event -> option St.

Lemma mon_fold_app m a b :
  mon_fold step m (a ++ b) =
  match mon_fold step m a with Some m1 => mon_fold step m1 b | None => None end.
Proof.
  revert m. induction a as [|e a IH]; intros m; cbn [app mon_fold]; [reflexivity|].
  destruct (step m e) as [m1|]; [apply IH|reflexivity].
Qed.

(* a monitor that accepts a trace has accepted every prefix of it *)
Lemma mon_fold_prefix m a b m' :
  mon_fold step m (a ++ b) = Some m' -> exists m1, mon_fold step m a = Some m1 /\ mon_fold step m1 b = Some m'.
Proof. rewrite mon_fold_app. destruct (mon_fold step m a) as [m1|]; [eauto|discriminate]. Qed.

Lemma mon_fold_trans m a m1 b m2 :
  mon_fold step m a = Some m1 -> mon_fold step m1 b = Some m2 -> mon_fold step m (a ++ b) = Some m2.
Proof. intros H1 H2. now rewrite mon_fold_app, H1. Qed.

(* an invariant of the step function holds after every accepted trace *)
Lemma mon_fold_inv (I : St -> Prop) :
  (forall m e m', step m e = Some m' -> I m -> I m') ->
  forall d m m', mon_fold step m d = Some m' -> I m -> I m'.
Proof.
  intros Hstep. induction d as [|e d IH]; intros m m' H Hm; cbn in H.
  - now injection H as <-.
  - destruct (step m e) as [m1|] eqn:E1; [|discriminate]. eapply IH; [exact H|]. eapply Hstep; eassumption.
Qed.
End FoldFacts.

Lemma beq_refl a : beq a a = true.
Proof. induction a as [|x a IH]; cbn; [reflexivity|]. now rewrite N.eqb_refl, IH. Qed.
Lemma beq_eq a b : beq a b = true -> a = b.
Proof.
  revert b. induction a as [|x a IH]; intros [|y b] H; cbn in H; try discriminate; [reflexivity|].
  apply andb_true_iff in H. destruct H as [H1 H2]. apply N.eqb_eq in H1. subst y. f_equal. now apply IH.
Qed.

Lemma ad_final_eq aad lastb lenb : length lastb = 4 -> length lenb = 4 ->
  ad_final (aad ++ lastb ++ lenb) = (de32 lastb =? 1)%N.
Proof.
  intros H1 H2. unfold ad_final, ad_flag. rewrite !app_length, H1, H2.
  replace (length aad + (4 + 4) - 8) with (length aad) by lia.
  rewrite skipn_app_exact. rewrite <- H1. now rewrite firstn_app_exact.
Qed.

Lemma concat_snoc (l : list bytes) (x : bytes) : concat (l ++ [x]) = concat l ++ x.
Proof. rewrite concat_app. cbn. now rewrite app_nil_r. Qed.

Lemma rd_prog_is_read n e : rd_prog n e -> is_read_ev e.
Proof. destruct e; cbn; tauto. Qed.
Lemma rd_term_is_read n e : rd_term n e -> is_read_ev e.
Proof. destruct e; cbn; tauto. Qed.
Lemma rx_ok_reads n d : rx_ok n d -> Forall is_read_ev d.
Proof. intros H. eapply Forall_impl; [|exact H]. apply rd_prog_is_read. Qed.
Lemma rx_err_reads n d : rx_err n d -> Forall is_read_ev d.
Proof.
  intros (d' & e & -> & H1 & H2). apply Forall_app. split; [now apply (rx_ok_reads n)|].
  constructor; [now apply (rd_term_is_read n)|constructor].
Qed.

(* ================================================================================================
   A. release after authentication
   ================================================================================================ *)
Notation DM := Build_dmon.

Lemma dmon_step_prog n e au pe : rd_prog n e ->
  dmon_step (DM au (concat au) false pe false) e = Some (DM au (concat au) false pe false).
Proof.
  intros H. unfold dmon_step, dm_all_out. cbn [dead last_seen written authed]. rewrite beq_refl.
  destruct e as [req got|req err| | | | | |]; cbn in H; try contradiction.
  - destruct got; [contradiction|reflexivity].
  - destruct err; try contradiction. reflexivity.
Qed.

Lemma dmon_step_term n e au pe : rd_term n e ->
  dmon_step (DM au (concat au) false pe false) e = Some (DM au (concat au) false pe true).
Proof.
  intros H. unfold dmon_step, dm_all_out. cbn [dead last_seen written authed]. rewrite beq_refl.
  destruct e as [req got|req err| | | | | |]; cbn in H; try contradiction.
  - destruct got; [reflexivity|contradiction].
  - destruct H as [H _]. destruct err; try reflexivity. congruence.
Qed.

Lemma dmon_reads_ok n d au pe : rx_ok n d ->
  dmon_fold (DM au (concat au) false pe false) d = Some (DM au (concat au) false pe false).
Proof.
  induction 1 as [|e d He Hd IH]; [reflexivity|]. unfold dmon_fold in *. cbn [mon_fold].
  now rewrite (dmon_step_prog n).
Qed.

Lemma dmon_reads_err n d au pe : rx_err n d ->
  dmon_fold (DM au (concat au) false pe false) d = Some (DM au (concat au) false pe true).
Proof.
  intros (d' & e & -> & H1 & H2). unfold dmon_fold. rewrite mon_fold_app.
  fold dmon_fold. rewrite (dmon_reads_ok n) by assumption. cbn [dmon_fold mon_fold].
  now rewrite (dmon_step_term n).
Qed.

Lemma dmon_fold_app m a b :
  dmon_fold m (a ++ b) = match dmon_fold m a with Some m1 => dmon_fold m1 b | None => None end.
Proof. apply mon_fold_app. Qed.

Section DecMon.
Variable P : prims.
Variable key aad : bytes.
Variable cs : N.

Lemma dmon_pre n d ad ct r fin au pe : dec_pre P key aad cs n d ad ct r fin ->
  dmon_fold (DM au (concat au) false pe false) d =
  Some (match r with
        | None => DM au (concat au) false pe true
        | Some pt => DM (au ++ [pt]) (concat au) fin false false
        end).
Proof.
  intros (d1 & d2 & lastb & lenb & -> & Hx1 & Hx2 & _ & _ & Hl1 & Hl2 & -> & -> & _).
  rewrite dmon_fold_app, (dmon_reads_ok 16) by assumption. cbv beta iota.
  rewrite dmon_fold_app, (dmon_reads_ok _ d2) by eassumption. cbv beta iota.
  unfold dmon_fold. cbn [mon_fold]. unfold dmon_step, dm_all_out. cbn [dead last_seen written authed].
  rewrite beq_refl. cbn [negb]. rewrite ad_final_eq by assumption.
  destruct r; reflexivity.
Qed.

Lemma dmon_wa buf d r acc : wa_tr buf d r acc ->
  forall au w ls pe, negb ls || pe = true -> w ++ buf = concat au ->
  dmon_fold (DM au w ls pe false) d =
  Some (DM au (w ++ acc) ls pe (match r with None => false | Some _ => true end)).
Proof.
  induction 1 as [|buf d r acc Hne H IH|buf err Hne He|buf Hne|buf k d r acc Hne Hk H IH];
    intros au w ls pe Hmw Hoff.
  - cbn. now rewrite app_nil_r.
  - unfold dmon_fold. cbn [mon_fold]. unfold dmon_step at 1, dm_may_write, dm_offer_ok.
    cbn [dead last_seen written authed probed_eof]. rewrite Hmw, Hoff, beq_refl. cbn [negb].
    apply IH; assumption.
  - unfold dmon_fold. cbn [mon_fold]. unfold dmon_step at 1, dm_may_write, dm_offer_ok.
    cbn [dead last_seen written authed probed_eof]. rewrite Hmw, Hoff, beq_refl. cbn [negb].
    rewrite app_nil_r. destruct err; try reflexivity. congruence.
  - unfold dmon_fold. cbn [mon_fold]. unfold dmon_step at 1, dm_may_write, dm_offer_ok.
    cbn [dead last_seen written authed probed_eof]. rewrite Hmw, Hoff, beq_refl. cbn [negb firstn].
    reflexivity.
  - unfold dmon_fold. cbn [mon_fold]. unfold dmon_step at 1, dm_may_write, dm_offer_ok.
    cbn [dead last_seen written authed probed_eof]. rewrite Hmw, Hoff, beq_refl. cbn [negb].
    destruct (Nat.leb_spec k (length buf)) as [_|Hlt]; [|lia]. cbn [negb].
    destruct k as [|k']; [lia|]. unfold dm_written. cbn [dead last_seen written authed probed_eof].
    fold dmon_fold. rewrite (IH au (w ++ firstn (S k') buf) ls pe Hmw).
    + now rewrite <- app_assoc.
    + rewrite <- app_assoc, firstn_skipn. exact Hoff.
Qed.

Lemma dmon_wf buf d r acc : wf_tr buf d r acc ->
  forall au w ls pe, negb ls || pe = true -> w ++ buf = concat au ->
  dmon_fold (DM au w ls pe false) d =
  Some (DM au (w ++ acc) ls pe (match r with None => false | Some _ => true end)).
Proof.
  destruct 1 as [d err acc H|d H|d err H]; intros au w ls pe Hmw Hoff.
  - now apply (dmon_wa _ _ _ _ H).
  - rewrite dmon_fold_app. rewrite (dmon_wa _ _ _ _ H) by assumption.
    cbn [dmon_fold mon_fold]. unfold dmon_step, dm_may_write, dm_all_out.
    cbn [dead last_seen written authed probed_eof]. rewrite Hmw, Hoff, beq_refl. reflexivity.
  - rewrite dmon_fold_app. rewrite (dmon_wa _ _ _ _ H) by assumption.
    cbn [dmon_fold mon_fold]. unfold dmon_step, dm_may_write, dm_all_out.
    cbn [dead last_seen written authed probed_eof]. rewrite Hmw, Hoff, beq_refl. reflexivity.
Qed.

Lemma wf_tr_acc buf d r acc : wf_tr buf d r acc ->
  acc = buf \/ (exists j, j < length buf /\ acc = firstn j buf) /\ r <> None.
Proof.
  destruct 1 as [d err acc H|d H|d err H]; auto.
  right. split; [|discriminate]. eapply wa_tr_err; [exact H|discriminate].
Qed.

(* what the final monitor state says, given how the run ended *)
Definition dpost (res : outcome derr unit) (m : dmon) : Prop :=
  (res = Ok tt -> last_seen m = true /\ probed_eof m = true /\ written m = concat (authed m) /\ dead m = false) /\
  (forall e, res = Err e -> e <> DChunkLen -> dead m = true) /\
  (res <> Ok tt ->
     exists k tail, length (authed m) - 1 <= k <= length (authed m) /\
       written m = concat (firstn k (authed m)) ++ tail /\
       (tail = [] \/ exists ie c j, res = Err (DIOWrite ie) /\ nth_error (authed m) k = Some c /\
                                     j < length c /\ tail = firstn j c)).

(* all authenticated chunks are out *)
Lemma dpost_whole res au ls pe dd : res <> Ok tt ->
  (forall e, res = Err e -> e <> DChunkLen -> dd = true) ->
  dpost res (DM au (concat au) ls pe dd).
Proof.
  intros Hno Hd. split; [intros; contradiction|]. split; [exact Hd|].
  intros _. exists (length au), []. cbn [authed written]. rewrite firstn_all, app_nil_r.
  split; [lia|]. split; [reflexivity|]. now left.
Qed.

(* the newest authenticated chunk is held back entirely or in part *)
Lemma dpost_held e au pt j ls pe : j < length pt \/ (j = 0 /\ forall ie, e <> DIOWrite ie) ->
  (j <> 0 -> exists ie, e = DIOWrite ie) -> e <> DChunkLen ->
  dpost (Err e) (DM (au ++ [pt]) (concat au ++ firstn j pt) ls pe true).
Proof.
  intros Hj Hje Hcl. split; [discriminate|]. split; [reflexivity|].
  intros _. exists (length au), (firstn j pt). cbn [authed written].
  rewrite app_length. cbn [length]. split; [lia|]. rewrite firstn_app, Nat.sub_diag, firstn_all. cbn [firstn].
  rewrite app_nil_r. split; [reflexivity|].
  destruct (Nat.eq_dec j 0) as [->|Hnz]; [left; reflexivity|].
  right. destruct (Hje Hnz) as [ie ->]. exists ie, pt, j. split; [reflexivity|].
  split; [rewrite nth_error_app2, Nat.sub_diag by lia; reflexivity|].
  split; [|reflexivity]. destruct Hj as [Hj|[Hj _]]; [assumption|contradiction].
Qed.

Lemma d_read_err_cases ie : d_read_err ie <> DChunkLen /\ forall ie0, d_read_err ie <> DIOWrite ie0.
Proof. destruct ie; split; try intros ie0; discriminate. Qed.

Theorem dec_tr_dmon n d res out : dec_tr P key aad cs n d res out ->
  forall au pe, exists m,
    dmon_fold (DM au (concat au) false pe false) d = Some m /\
    written m = concat au ++ out /\ dpost res m.
Proof.
  induction 1 as [n|n d ie Hx|n d Hx|n d1 d2 len ie Hx1 Hlen Hx2|n d ad ct fin Hpre
                 |n d ad ct pt ie Hpre|n d ad ct pt x Hpre|n d ad ct pt d4 r acc Hpre Hwf
                 |n d ad ct pt d4 err acc Hpre Hwf|n d ad ct pt d4 d5 res out Hpre Hwf Htr IH];
    intros au pe.
  - (* out of fuel *)
    eexists. split; [reflexivity|]. cbn [written]. split; [now rewrite app_nil_r|].
    apply dpost_whole; [discriminate|discriminate].
  - (* header read failed *)
    eexists. split; [now apply (dmon_reads_err 16)|]. cbn [written]. split; [now rewrite app_nil_r|].
    apply dpost_whole; [discriminate|reflexivity].
  - (* chunk length *)
    eexists. split; [now apply (dmon_reads_ok 16)|]. cbn [written]. split; [now rewrite app_nil_r|].
    apply dpost_whole; [discriminate|]. intros e [= <-] Hne. congruence.
  - (* body read failed *)
    eexists. split.
    + rewrite dmon_fold_app. rewrite (dmon_reads_ok 16) by assumption.
      now apply (dmon_reads_err (N.to_nat len + 16)).
    + cbn [written]. split; [now rewrite app_nil_r|]. apply dpost_whole; [discriminate|reflexivity].
  - (* open failed *)
    eexists. split; [apply (dmon_pre _ _ _ _ _ _ _ _ Hpre)|]. cbn [written]. split; [now rewrite app_nil_r|].
    apply dpost_whole; [discriminate|reflexivity].
  - (* probe failed *)
    eexists. split.
    + rewrite dmon_fold_app. rewrite (dmon_pre _ _ _ _ _ _ _ _ Hpre).
      reflexivity.
    + cbn [written dm_kill]. split; [now rewrite app_nil_r|].
      destruct (d_read_err_cases ie) as [Hc Hw].
      rewrite <- (app_nil_r (concat au)). change (@nil N) with (firstn 0 pt) at 1.
      apply dpost_held; [right; auto|congruence|assumption].
  - (* probe found data *)
    eexists. split.
    + rewrite dmon_fold_app. rewrite (dmon_pre _ _ _ _ _ _ _ _ Hpre).
      reflexivity.
    + cbn [written dm_kill]. split; [now rewrite app_nil_r|].
      rewrite <- (app_nil_r (concat au)). change (@nil N) with (firstn 0 pt) at 1.
      apply dpost_held; [right; split; [reflexivity|discriminate]|congruence|discriminate].
  - (* final chunk: probe saw end of input, then write + flush *)
    eexists. split.
    + rewrite dmon_fold_app. rewrite (dmon_pre _ _ _ _ _ _ _ _ Hpre).
      cbn [dmon_fold mon_fold]. unfold dmon_step at 1. cbn [dead last_seen probed_eof Nat.eqb].
      unfold dm_probed. cbn [dead last_seen written authed probed_eof]. fold dmon_fold.
      apply (dmon_wf _ _ _ _ Hwf); [reflexivity|]. symmetry. apply concat_snoc.
    + cbn [written]. split; [reflexivity|].
      destruct (wf_tr_acc _ _ _ _ Hwf) as [->|((j & Hj & ->) & Hr)].
      * rewrite <- (concat_snoc au pt). destruct r as [err|].
        -- apply dpost_whole; [discriminate|reflexivity].
        -- split; [intros _; cbn; auto|]. split; [intros e; discriminate|intros Hc; congruence].
      * destruct r as [err|]; [|congruence].
        apply dpost_held; [left; assumption|eauto|discriminate].
  - (* non-final chunk, write or flush failed *)
    eexists. split.
    + rewrite dmon_fold_app. rewrite (dmon_pre _ _ _ _ _ _ _ _ Hpre).
      apply (dmon_wf _ _ _ _ Hwf); [reflexivity|]. symmetry. apply concat_snoc.
    + cbn [written]. split; [reflexivity|].
      destruct (wf_tr_acc _ _ _ _ Hwf) as [->|((j & Hj & ->) & Hr)].
      * rewrite <- (concat_snoc au pt). apply dpost_whole; [discriminate|reflexivity].
      * apply dpost_held; [left; assumption|eauto|discriminate].
  - (* non-final chunk written and flushed; next chunk *)
    destruct (IH (au ++ [pt]) false) as (m & Hm & Hw & Hp).
    exists m. split.
    + rewrite dmon_fold_app. rewrite (dmon_pre _ _ _ _ _ _ _ _ Hpre). cbv beta iota.
      rewrite dmon_fold_app.
      rewrite (dmon_wf _ _ _ _ Hwf (au ++ [pt]) (concat au) false false eq_refl)
        by (symmetry; apply concat_snoc).
      cbv beta iota. rewrite <- (concat_snoc au pt). exact Hm.
    + split; [|exact Hp]. rewrite Hw, (concat_snoc au pt). now rewrite <- app_assoc.
Qed.

End DecMon.

(* ---------- what acceptance by [dmon] means at every moment ---------- *)
(* the bytes accepted by the sink so far are a prefix of the authenticated plaintext *)
Definition dm_pref (m : dmon) : Prop := exists rest, written m ++ rest = concat (authed m).

Lemma dmon_step_pref m e m' : dmon_step m e = Some m' -> dm_pref m -> dm_pref m'.
Proof.
  unfold dmon_step, dm_pref. intros H [rest Hr].
  destruct (dead m); [discriminate|].
  destruct e as [req got|req err|off took|off err|fr|k n ad ct r|k n ad pt|pw salt n r p].
  - destruct (last_seen m).
    + destruct (probed_eof m); [discriminate|]. destruct (Nat.eqb req 1); [|discriminate].
      destruct got; injection H as <-; exists rest; exact Hr.
    + destruct (dm_all_out m); [|discriminate]. destruct got; injection H as <-; exists rest; exact Hr.
  - destruct (last_seen m).
    + destruct (probed_eof m); [discriminate|]. destruct (Nat.eqb req 1); [|discriminate].
      injection H as <-; exists rest; exact Hr.
    + destruct (dm_all_out m); [|discriminate]. destruct err; injection H as <-; exists rest; exact Hr.
  - destruct (negb (dm_may_write m)); [discriminate|].
    destruct (negb (dm_offer_ok m off)) eqn:Eo; [discriminate|].
    destruct (negb (took <=? length off)); [discriminate|].
    apply negb_false_iff in Eo. apply beq_eq in Eo.
    assert (Hgoal : exists rest0, (written m ++ firstn took off) ++ rest0 = concat (authed m)).
    { exists (skipn took off). rewrite <- app_assoc, firstn_skipn. exact Eo. }
    destruct took as [|took']; injection H as <-; exact Hgoal.
  - destruct (negb (dm_may_write m)); [discriminate|].
    destruct (negb (dm_offer_ok m off)); [discriminate|].
    destruct err; injection H as <-; exists rest; exact Hr.
  - destruct (negb (dm_may_write m)); [discriminate|].
    destruct (negb (dm_all_out m)); [discriminate|].
    destruct fr; injection H as <-; exists rest; exact Hr.
  - destruct (last_seen m); [discriminate|]. destruct (negb (dm_all_out m)); [discriminate|].
    destruct r as [pt|]; injection H as <-.
    + exists (rest ++ pt). cbn [written authed dm_open]. now rewrite concat_snoc, app_assoc, Hr.
    + exists rest; exact Hr.
  - discriminate.
  - discriminate.
Qed.

Lemma dmon_fold_pref d m m' : dmon_fold m d = Some m' -> dm_pref m -> dm_pref m'.
Proof. apply (mon_fold_inv dmon_step dm_pref). exact dmon_step_pref. Qed.

Lemma dmon_run_prefix pre post m : dmon_run (pre ++ post) = Some m ->
  exists m1, dmon_run pre = Some m1 /\ dm_pref m1.
Proof.
  unfold dmon_run, dmon_fold. intros H. apply mon_fold_prefix in H. destruct H as (m1 & H1 & _).
  exists m1. split; [exact H1|]. apply (dmon_fold_pref _ _ _ H1). exists []. reflexivity.
Qed.

(* ---------- headline theorems, part A ---------- *)
Section DecHeadline.
Variable P : prims.
Variable key aad : bytes.
Variable cs : N.
Hypothesis Hkey : length key = 32.

(* any fuel, any chunk counter, any initial log *)
Theorem dec_loop_monitor fuel n s res s' :
  decrypt_chunks_loop P fuel key aad cs n s = (res, s') ->
  exists d m, trace s' = trace s ++ d /\ dmon_run d = Some m /\
              w_out (wtr s') = w_out (wtr s) ++ written m /\ dpost res m /\
              (writer_ok (wtr s) -> forall ie, res <> Err (DIOWrite ie)).
Proof.
  intros E. destruct (dec_loop_tr P key aad cs Hkey _ _ _ _ _ E) as ((d & out & Htr & Ht & Ho) & Hnw).
  destruct (dec_tr_dmon P key aad cs _ _ _ _ Htr [] false) as (m & Hm & Hw & Hp).
  exists d, m. split; [exact Ht|]. split; [exact Hm|]. split; [rewrite Hw; exact Ho|].
  split; [exact Hp|exact Hnw].
Qed.

Theorem dec_monitor_accepts s res s' :
  log s = [] ->
  decrypt_chunks P key aad cs s = (res, s') ->
  exists m, dmon_run (trace s') = Some m /\
    w_out (wtr s') = w_out (wtr s) ++ written m /\
    (w_out (wtr s) = [] -> written m = w_out (wtr s')) /\
    (res = Ok tt -> last_seen m = true /\ probed_eof m = true /\ written m = concat (authed m)) /\
    (forall e, res = Err e -> e <> DChunkLen -> dead m = true) /\
    (forall e, res = Err e ->
       exists k tail, length (authed m) - 1 <= k <= length (authed m) /\
         written m = concat (firstn k (authed m)) ++ tail /\
         (tail = [] \/ exists ie c j, e = DIOWrite ie /\ nth_error (authed m) k = Some c /\
                                       j < length c /\ tail = firstn j c)).
Proof.
  intros Hlog E. unfold decrypt_chunks in E.
  destruct (dec_loop_monitor _ _ _ _ _ E) as (d & m & Ht & Hm & Ho & (Hok & Hdead & Herr) & _).
  assert (Htr : trace s' = d) by (rewrite Ht; unfold trace; rewrite Hlog; reflexivity).
  exists m. rewrite Htr. split; [exact Hm|]. split; [exact Ho|].
  split; [intros H0; now rewrite Ho, H0|].
  split; [intros Hr; destruct (Hok Hr) as (H1 & H2 & H3 & _); auto|].
  split; [exact Hdead|].
  intros e He. destruct Herr as (k & tail & Hk & Hw & Ht'); [rewrite He; discriminate|].
  exists k, tail. split; [exact Hk|]. split; [exact Hw|].
  destruct Ht' as [->|(ie & c & j & Hie & Hrest)]; [now left|right].
  exists ie, c, j. split; [congruence|exact Hrest].
Qed.

(* a sink that never fails receives whole authenticated chunks only *)
Corollary dec_whole_chunks s res s' :
  log s = [] -> writer_ok (wtr s) ->
  decrypt_chunks P key aad cs s = (res, s') ->
  exists m k, dmon_run (trace s') = Some m /\ w_out (wtr s') = w_out (wtr s) ++ written m /\
    length (authed m) - 1 <= k <= length (authed m) /\ written m = concat (firstn k (authed m)).
Proof.
  intros Hlog Hwok E. unfold decrypt_chunks in E.
  destruct (dec_loop_monitor _ _ _ _ _ E) as (d & m & Ht & Hm & Ho & (Hok & _ & Herr) & Hnw).
  assert (Htr : trace s' = d) by (rewrite Ht; unfold trace; rewrite Hlog; reflexivity).
  exists m. rewrite Htr.
  assert (Hdec : res = Ok tt \/ res <> Ok tt).
  { destruct res as [[]|e|w|]; [left; reflexivity|right; discriminate..]. }
  destruct Hdec as [Hr|Hr].
  - destruct (Hok Hr) as (_ & _ & Hw & _). exists (length (authed m)). rewrite firstn_all.
    repeat split; try assumption; lia.
  - destruct (Herr Hr) as (k & tail & Hk & Hw & Ht').
    exists k. repeat split; try assumption; try lia.
    destruct Ht' as [->|(ie & c & j & Hie & _)]; [now rewrite app_nil_r in Hw|].
    exfalso. exact (Hnw Hwok ie Hie).
Qed.

(* at every moment of the run (= after every prefix of the final trace) the monitor has not tripped and
   what the sink has accepted is a prefix of what has been authenticated up to that moment *)
Theorem dec_every_moment s res s' pre post :
  log s = [] ->
  decrypt_chunks P key aad cs s = (res, s') ->
  trace s' = pre ++ post ->
  exists m, dmon_run pre = Some m /\ exists rest, written m ++ rest = concat (authed m).
Proof.
  intros Hlog E Hsplit. destruct (dec_monitor_accepts _ _ _ Hlog E) as (m & Hm & _).
  rewrite Hsplit in Hm. apply dmon_run_prefix in Hm. exact Hm.
Qed.

End DecHeadline.

(* ================================================================================================
   B1. encrypt: at most two raw reads are ever "in flight" (the chunk held + the look-ahead)
   ================================================================================================ *)
Notation EM := Build_emon.

Lemma emon_fold_app m a b :
  emon_fold m (a ++ b) = match emon_fold m a with Some m1 => emon_fold m1 b | None => None end.
Proof. apply mon_fold_app. Qed.

Lemma emon_wa buf d r acc : wa_tr buf d r acc -> forall p o, length buf <= o ->
  emon_fold (EM p true o) d = Some (EM p true (o - length acc)).
Proof.
  induction 1 as [|buf d r acc Hne H IH|buf err Hne He|buf Hne|buf k d r acc Hne Hk H IH]; intros p o Ho.
  - cbn. now rewrite Nat.sub_0_r.
  - unfold emon_fold. cbn [mon_fold emon_step e_sealed]. apply IH. assumption.
  - cbn. now rewrite Nat.sub_0_r.
  - reflexivity.
  - unfold emon_fold. cbn [mon_fold emon_step e_sealed e_owed e_pend andb].
    destruct (Nat.leb_spec k o) as [_|Hlt]; [|lia]. fold emon_fold.
    rewrite IH by (rewrite skipn_length; lia).
    do 2 f_equal. rewrite app_length, firstn_length. lia.
Qed.

Lemma emon_wf buf d r acc : wf_tr buf d r acc -> forall p,
  emon_fold (EM p true (length buf)) d =
  Some (match r with None => EM (tl p) false 0 | Some _ => EM p true (length buf - length acc) end).
Proof.
  destruct 1 as [d err acc H|d H|d err H]; intros p.
  - apply (emon_wa _ _ _ _ H). lia.
  - rewrite emon_fold_app, (emon_wa _ _ _ _ H) by lia. cbv beta iota. rewrite Nat.sub_diag. reflexivity.
  - rewrite emon_fold_app, (emon_wa _ _ _ _ H) by lia. cbv beta iota. rewrite Nat.sub_diag. reflexivity.
Qed.

Lemma emon_rec hdr ct d r acc : rec_tr hdr ct d r acc -> forall p,
  emon_fold (EM p true (length hdr + length ct)) d =
  Some (match r with
        | None => EM (tl p) false 0
        | Some _ => EM p true (length hdr + length ct - length acc)
        end).
Proof.
  destruct 1 as [d err acc H|d1 d2 r acc H1 H2]; intros p.
  - apply (emon_wa _ _ _ _ H). lia.
  - rewrite emon_fold_app, (emon_wa _ _ _ _ H1) by lia. cbv beta iota.
    replace (length hdr + length ct - length hdr) with (length ct) by lia.
    rewrite (emon_wf _ _ _ _ H2). destruct r; [|reflexivity].
    do 2 f_equal. rewrite app_length. lia.
Qed.

Lemma emon_read_seal prev cur req k n ad o d :
  emon_fold (EM [prev] false o) (EvRead req cur :: EvSeal k n ad prev :: d) =
  emon_fold (EM [prev; cur] true (16 + (length prev + 16))) d.
Proof.
  unfold emon_fold. cbn [mon_fold emon_step e_pend e_sealed e_owed app length Nat.leb emon_bound].
  rewrite beq_refl. reflexivity.
Qed.

Section EncMon.
Variable P : prims.
Variable key aad : bytes.
Variable cs : N.
Hypothesis Haead : aead_ok P.

Lemma e_hdr_length n fin prev : length (e_hdr n fin prev) = 16.
Proof. reflexivity. Qed.
Lemma e_ct_length n fin prev : length (e_ct P key aad n fin prev) = length prev + 16.
Proof. apply (seal_len P Haead). Qed.

Lemma emon_record n fin prev cur d r acc :
  rec_tr (e_hdr n fin prev) (e_ct P key aad n fin prev) d r acc ->
  emon_fold (EM [prev; cur] true (16 + (length prev + 16))) d =
  Some (match r with
        | None => EM [cur] false 0
        | Some _ => EM [prev; cur] true (16 + (length prev + 16) - length acc)
        end).
Proof.
  intros H. pose proof (emon_rec _ _ _ _ _ H [prev; cur]) as H0.
  rewrite e_hdr_length, e_ct_length in H0. exact H0.
Qed.

Theorem enc_tr_emon n prev done d res out : enc_tr P key aad cs n prev done d res out ->
  exists m, emon_fold (EM [prev] false 0) d = Some m.
Proof.
  induction 1 as [n prev done|n prev done ie|n prev x xs Hl|n prev done cur w Hl
                 |n prev done cur d err acc Hl Hdc Hrec|n prev done cur d acc Hl Hfin Hrec
                 |n prev done cur d acc d2 res out Hl Hfin Hrec Htr IH].
  - eexists; reflexivity.
  - eexists; reflexivity.
  - eexists; reflexivity.
  - eexists; reflexivity.
  - rewrite emon_read_seal, (emon_record _ _ _ _ _ _ _ Hrec). eauto.
  - rewrite emon_read_seal, (emon_record _ _ _ _ _ _ _ Hrec). eauto.
  - rewrite emon_read_seal, emon_fold_app, (emon_record _ _ _ _ _ _ _ Hrec). cbv beta iota. exact IH.
Qed.

Theorem enc_top_emon d res out : enc_top P key aad cs d res out -> exists m, emon_run d = Some m.
Proof.
  destruct 1 as [ie|first d res out Hl Htr].
  - eexists; reflexivity.
  - destruct (enc_tr_emon _ _ _ _ _ _ Htr) as [m Hm]. exists m. exact Hm.
Qed.

End EncMon.

(* what acceptance by [emon] means on the trace itself *)
Lemma emon_step_count m e m' : emon_step m e = Some m' ->
  length (e_pend m) + (if is_read_evb e then 1 else 0) <=
  length (e_pend m') + (if is_flush_okb e then 1 else 0) /\ length (e_pend m') <= S (length (e_pend m)).
Proof.
  destruct e as [req got|req err|off took|off err|fr|k n ad ct r|k n ad pt|pw salt n r p];
    cbn [emon_step is_read_evb is_flush_okb].
  - destruct (_ <=? _); [|discriminate]. intros [= <-]. cbn [e_pend]. rewrite app_length. cbn. lia.
  - destruct (_ <=? _); [|discriminate]. intros [= <-]. cbn [e_pend]. rewrite app_length. cbn. lia.
  - destruct (_ && _); [|discriminate]. intros [= <-]. cbn [e_pend]. lia.
  - destruct (e_sealed m); [|discriminate]. intros [= <-]. lia.
  - destruct fr as [err|].
    + destruct (_ && _); [|discriminate]. intros [= <-]. lia.
    + destruct (_ && _); [|discriminate]. intros [= <-]. cbn [e_pend]. destruct (e_pend m); cbn; lia.
  - discriminate.
  - destruct (e_pend m) as [|h t]; [discriminate|]. destruct (_ && _); [|discriminate].
    intros [= <-]. cbn [e_pend]. lia.
  - discriminate.
Qed.

Lemma emon_step_bound m e m' : emon_step m e = Some m' ->
  length (e_pend m) <= emon_bound -> length (e_pend m') <= emon_bound.
Proof.
  destruct e as [req got|req err|off took|off err|fr|k n ad ct r|k n ad pt|pw salt n r p];
    cbn [emon_step].
  - destruct (Nat.leb_spec (length (e_pend m ++ [got])) emon_bound); [|discriminate]. now intros [= <-].
  - destruct (Nat.leb_spec (length (e_pend m ++ [[]])) emon_bound); [|discriminate]. now intros [= <-].
  - destruct (_ && _); [|discriminate]. now intros [= <-].
  - destruct (e_sealed m); [|discriminate]. now intros [= <-].
  - destruct fr as [err|].
    + destruct (_ && _); [|discriminate]. now intros [= <-].
    + destruct (_ && _); [|discriminate]. intros [= <-] H. cbn [e_pend]. destruct (e_pend m); cbn in *; lia.
  - discriminate.
  - destruct (e_pend m) as [|h t]; [discriminate|]. destruct (_ && _); [|discriminate]. now intros [= <-].
  - discriminate.
Qed.

Lemma emon_fold_bound d m m' : emon_fold m d = Some m' ->
  length (e_pend m) <= emon_bound -> length (e_pend m') <= emon_bound.
Proof. apply (mon_fold_inv emon_step (fun m => length (e_pend m) <= emon_bound)). exact emon_step_bound. Qed.

(* over any accepted stretch of trace: reads made <= successful flushes + free slots at its start *)
Lemma emon_fold_count : forall d m m', emon_fold m d = Some m' ->
  length (e_pend m) + count_ev is_read_evb d <= length (e_pend m') + count_ev is_flush_okb d.
Proof.
  induction d as [|e d IH]; intros m m' H.
  - cbn in H. injection H as <-. cbn. lia.
  - unfold emon_fold in H. cbn [mon_fold] in H. destruct (emon_step m e) as [m1|] eqn:E1; [|discriminate].
    apply emon_step_count in E1. apply IH in H. unfold count_ev in *. cbn [filter].
    destruct (is_read_evb e), (is_flush_okb e); cbn [length]; lia.
Qed.

(* THE look-ahead property on the trace: take any moment of an accepted trace (after prefix [a]) and any
   stretch [b] that follows it during which the data of the most recent read is still held, i.e. [b] has
   fewer successful flushes than there are pending reads after [a].  Then [b] contains at most
   [2 - pending] ... in particular, right after a read ([pending >= 1] counts that read) at most ONE
   further raw read call happens before that read's record has been flushed out. *)
Theorem emon_lookahead a b c m :
  emon_run (a ++ b ++ c) = Some m ->
  exists m1, emon_run a = Some m1 /\ length (e_pend m1) <= emon_bound /\
    (count_ev is_flush_okb b < length (e_pend m1) -> count_ev is_read_evb b <= 1).
Proof.
  unfold emon_run. intros H. rewrite emon_fold_app in H.
  destruct (emon_fold emon_init a) as [m1|] eqn:Ea; [|discriminate].
  rewrite emon_fold_app in H. destruct (emon_fold m1 b) as [m2|] eqn:Eb; [|discriminate].
  exists m1. split; [reflexivity|].
  assert (H1 : length (e_pend m1) <= emon_bound) by (apply (emon_fold_bound _ _ _ Ea); cbn; lia).
  assert (H2 : length (e_pend m2) <= emon_bound) by (apply (emon_fold_bound _ _ _ Eb); exact H1).
  split; [exact H1|]. intros Hfl. pose proof (emon_fold_count _ _ _ Eb) as Hc.
  unfold emon_bound in *. lia.
Qed.

(* a read event always leaves at least one pending read *)
Lemma emon_after_read a e m1 : emon_run (a ++ [e]) = Some m1 -> is_read_evb e = true ->
  1 <= length (e_pend m1).
Proof.
  unfold emon_run. rewrite emon_fold_app. destruct (emon_fold emon_init a) as [m0|]; [|discriminate].
  unfold emon_fold. cbn [mon_fold]. destruct (emon_step m0 e) as [m'|] eqn:E1; [|discriminate].
  intros [= <-] Hr. apply emon_step_count in E1. rewrite Hr in E1.
  assert (Hf : is_flush_okb e = false) by (destruct e; try discriminate Hr; reflexivity).
  rewrite Hf in E1. lia.
Qed.

Section EncHeadline.
Variable P : prims.
Variable key aad : bytes.
Variable cs : N.
Hypothesis Haead : aead_ok P.

Theorem enc_monitor_accepts s res s' :
  log s = [] ->
  encrypt_chunks P key aad cs s = (res, s') ->
  exists m, emon_run (trace s') = Some m /\ length (e_pend m) <= emon_bound.
Proof.
  intros Hlog E. destruct (enc_chunks_tr P key aad cs _ _ _ E) as (d & out & Htr & Ht & _).
  assert (Htr' : trace s' = d) by (rewrite Ht; unfold trace; rewrite Hlog; reflexivity).
  destruct (enc_top_emon P key aad cs Haead _ _ _ Htr) as [m Hm].
  exists m. rewrite Htr'. split; [exact Hm|].
  apply (emon_fold_bound _ _ _ Hm). cbn. lia.
Qed.

(* any initial log: the events the call adds are accepted *)
Theorem enc_monitor_accepts_gen s res s' :
  encrypt_chunks P key aad cs s = (res, s') ->
  exists d m, trace s' = trace s ++ d /\ emon_run d = Some m.
Proof.
  intros E. destruct (enc_chunks_tr P key aad cs _ _ _ E) as (d & out & Htr & Ht & _).
  destruct (enc_top_emon P key aad cs Haead _ _ _ Htr) as [m Hm]. eauto.
Qed.

(* trace-level statement: between a raw read call and the successful flush that completes the record of
   the data it returned there is at most one further raw read call.  [a ++ [r]] is the trace up to and
   including the read; [b] any continuation that has not yet flushed that data out. *)
Theorem enc_lookahead_one s res s' a r b c :
  log s = [] ->
  encrypt_chunks P key aad cs s = (res, s') ->
  trace s' = (a ++ [r]) ++ b ++ c -> is_read_evb r = true ->
  exists m1, emon_run (a ++ [r]) = Some m1 /\ 1 <= length (e_pend m1) <= 2 /\
    (count_ev is_flush_okb b < length (e_pend m1) -> count_ev is_read_evb b <= 1).
Proof.
  intros Hlog E Hsplit Hr. destruct (enc_monitor_accepts _ _ _ Hlog E) as (m & Hm & _).
  rewrite Hsplit in Hm. destruct (emon_lookahead _ _ _ _ Hm) as (m1 & H1 & H2 & H3).
  exists m1. split; [exact H1|]. split; [|exact H3].
  split; [apply (emon_after_read _ _ _ H1 Hr)|exact H2].
Qed.

End EncHeadline.

(* ================================================================================================
   B2. decrypt: nothing but the 1-byte probe is read between a successful open and the flush that
   completes the release of that chunk
   ================================================================================================ *)
Notation LM := Build_lmon.

Lemma lmon_fold_app m a b :
  lmon_fold m (a ++ b) = match lmon_fold m a with Some m1 => lmon_fold m1 b | None => None end.
Proof. apply mon_fold_app. Qed.

Lemma lmon_reads d pr : Forall is_read_ev d -> lmon_fold (LM None pr) d = Some (LM None pr).
Proof.
  induction 1 as [|e d He Hd IH]; [reflexivity|]. unfold lmon_fold in *. cbn [mon_fold].
  destruct e; cbn in He; try contradiction; cbn [lmon_step lmon_read l_owed]; exact IH.
Qed.

Lemma lmon_wa buf d r acc : wa_tr buf d r acc -> forall k, length buf <= k ->
  lmon_fold (LM (Some k) false) d = Some (LM (Some (k - length acc)) false).
Proof.
  induction 1 as [|buf d r acc Hne H IH|buf err Hne He|buf Hne|buf j d r acc Hne Hj H IH]; intros k Hk.
  - cbn. now rewrite Nat.sub_0_r.
  - unfold lmon_fold. cbn [mon_fold lmon_step l_owed l_probe]. apply IH. assumption.
  - cbn. now rewrite Nat.sub_0_r.
  - reflexivity.
  - unfold lmon_fold. cbn [mon_fold lmon_step l_owed l_probe negb andb].
    destruct (Nat.leb_spec j k) as [_|Hlt]; [|lia]. fold lmon_fold.
    rewrite IH by (rewrite skipn_length; lia).
    do 3 f_equal. rewrite app_length, firstn_length. lia.
Qed.

Lemma lmon_wf buf d r acc : wf_tr buf d r acc ->
  lmon_fold (LM (Some (length buf)) false) d =
  Some (match r with None => LM None false | Some _ => LM (Some (length buf - length acc)) false end).
Proof.
  destruct 1 as [d err acc H|d H|d err H].
  - apply (lmon_wa _ _ _ _ H). lia.
  - rewrite lmon_fold_app, (lmon_wa _ _ _ _ H) by lia. cbv beta iota. rewrite Nat.sub_diag. reflexivity.
  - rewrite lmon_fold_app, (lmon_wa _ _ _ _ H) by lia. cbv beta iota. rewrite Nat.sub_diag. reflexivity.
Qed.

Section DecLook.
Variable P : prims.
Variable key aad : bytes.
Variable cs : N.

Lemma lmon_pre n d ad ct r fin pr : dec_pre P key aad cs n d ad ct r fin ->
  lmon_fold (LM None pr) d =
  Some (match r with Some pt => LM (Some (length pt)) fin | None => LM None pr end).
Proof.
  intros (d1 & d2 & lastb & lenb & -> & Hx1 & Hx2 & _ & _ & Hl1 & Hl2 & -> & -> & _).
  rewrite lmon_fold_app, lmon_reads by (now apply (rx_ok_reads 16)). cbv beta iota.
  rewrite lmon_fold_app, lmon_reads by (eapply rx_ok_reads; eassumption). cbv beta iota.
  unfold lmon_fold. cbn [mon_fold lmon_step l_owed]. rewrite ad_final_eq by assumption.
  destruct r; reflexivity.
Qed.

Theorem dec_tr_lmon n d res out : dec_tr P key aad cs n d res out ->
  exists m, lmon_fold (LM None false) d = Some m.
Proof.
  induction 1 as [n|n d ie Hx|n d Hx|n d1 d2 len ie Hx1 Hlen Hx2|n d ad ct fin Hpre
                 |n d ad ct pt ie Hpre|n d ad ct pt x Hpre|n d ad ct pt d4 r acc Hpre Hwf
                 |n d ad ct pt d4 err acc Hpre Hwf|n d ad ct pt d4 d5 res out Hpre Hwf Htr IH].
  - eexists; reflexivity.
  - eexists. apply lmon_reads. now apply (rx_err_reads 16).
  - eexists. apply lmon_reads. now apply (rx_ok_reads 16).
  - eexists. apply lmon_reads. apply Forall_app. split; [now apply (rx_ok_reads 16)|eapply rx_err_reads; eassumption].
  - eexists. apply (lmon_pre _ _ _ _ _ _ _ Hpre).
  - eexists. rewrite lmon_fold_app, (lmon_pre _ _ _ _ _ _ _ Hpre). reflexivity.
  - eexists. rewrite lmon_fold_app, (lmon_pre _ _ _ _ _ _ _ Hpre). reflexivity.
  - eexists. rewrite lmon_fold_app, (lmon_pre _ _ _ _ _ _ _ Hpre). cbv beta iota.
    unfold lmon_fold. cbn [mon_fold lmon_step lmon_read l_owed l_probe andb Nat.eqb]. fold lmon_fold.
    apply (lmon_wf _ _ _ _ Hwf).
  - eexists. rewrite lmon_fold_app, (lmon_pre _ _ _ _ _ _ _ Hpre). cbv beta iota. apply (lmon_wf _ _ _ _ Hwf).
  - destruct IH as [m Hm]. exists m.
    rewrite lmon_fold_app, (lmon_pre _ _ _ _ _ _ _ Hpre). cbv beta iota.
    rewrite lmon_fold_app, (lmon_wf _ _ _ _ Hwf). cbv beta iota. exact Hm.
Qed.

End DecLook.

(* what acceptance by [lmon] means on the trace: while a chunk is pending (opened, not yet flushed out),
   the only read is the 1-byte probe, at most once, and only if the chunk carried the final flag *)
Lemma lmon_pending : forall b m m', lmon_fold m b = Some m' ->
  l_owed m <> None -> count_ev is_flush_okb b = 0 ->
  l_owed m' <> None /\
  count_ev is_read_evb b <= (if l_probe m then 1 else 0) /\
  (forall e, In e b -> is_read_evb e = true -> is_probe_evb e = true).
Proof.
  induction b as [|e b IH]; intros m m' H Hp Hc.
  - cbn in H. injection H as <-. cbn. split; [assumption|]. split; [destruct (l_probe m); lia|]. intros e [].
  - unfold lmon_fold in H. cbn [mon_fold] in H. destruct (lmon_step m e) as [m1|] eqn:E1; [|discriminate].
    fold lmon_fold in H.
    destruct (l_owed m) as [k|] eqn:Ek; [|congruence].
    unfold count_ev in *. cbn [filter] in *.
    assert (Hread : forall req, lmon_read m req = Some m1 ->
              l_owed m1 <> None /\ l_probe m = true /\ l_probe m1 = false /\ req = 1).
    { unfold lmon_read. rewrite Ek. intros req Hq. destruct (l_probe m); [|discriminate].
      cbn [andb] in Hq. destruct (Nat.eqb_spec req 1) as [Hreq|]; [|discriminate].
      injection Hq as <-. cbn [l_owed l_probe]. split; [discriminate|]. auto. }
    destruct e as [req got|req err|off took|off err|fr|k0 n ad ct r|k0 n ad pt|pw salt n r p];
      cbn [lmon_step is_read_evb is_flush_okb] in *.
    + destruct (Hread _ E1) as (Ho1 & Hp0 & Hp1 & ->).
      destruct (IH _ _ H Ho1 Hc) as (H1 & H2 & H3). rewrite Hp1 in H2. rewrite Hp0.
      split; [assumption|]. split; [cbn [length]; lia|].
      intros e [<-|Hin] He; [reflexivity|now apply H3].
    + destruct (Hread _ E1) as (Ho1 & Hp0 & Hp1 & ->).
      destruct (IH _ _ H Ho1 Hc) as (H1 & H2 & H3). rewrite Hp1 in H2. rewrite Hp0.
      split; [assumption|]. split; [cbn [length]; lia|].
      intros e [<-|Hin] He; [reflexivity|now apply H3].
    + rewrite Ek in E1. destruct (_ && _) eqn:Ec; [|discriminate]. injection E1 as <-.
      apply andb_true_iff in Ec. destruct Ec as [Ec _]. apply negb_true_iff in Ec. rewrite Ec.
      destruct (IH _ _ H) as (H1 & H2 & H3); [cbn; discriminate|assumption|]. cbn [l_probe] in H2.
      split; [assumption|]. split; [assumption|].
      intros e [<-|Hin] He; [discriminate He|now apply H3].
    + rewrite Ek in E1. destruct (l_probe m) eqn:Ec; [discriminate|]. injection E1 as <-.
      destruct (IH _ _ H) as (H1 & H2 & H3); [congruence|assumption|]. rewrite Ec in H2.
      split; [assumption|]. split; [assumption|].
      intros e [<-|Hin] He; [discriminate He|now apply H3].
    + rewrite Ek in E1. destruct k as [|k']; [|discriminate].
      destruct (l_probe m) eqn:Ec; [discriminate|].
      destruct fr as [err|]; [|cbn [length] in Hc; lia]. injection E1 as <-.
      destruct (IH _ _ H) as (H1 & H2 & H3); [congruence|assumption|]. rewrite Ec in H2.
      split; [assumption|]. split; [assumption|].
      intros e [<-|Hin] He; [discriminate He|now apply H3].
    + rewrite Ek in E1. discriminate.
    + discriminate.
    + discriminate.
Qed.

Theorem lmon_lookahead a k n ad ct pt b c m :
  lmon_run (a ++ [EvOpen k n ad ct (Some pt)] ++ b ++ c) = Some m ->
  count_ev is_flush_okb b = 0 ->
  count_ev is_read_evb b <= (if ad_final ad then 1 else 0) /\
  (forall e, In e b -> is_read_evb e = true -> is_probe_evb e = true).
Proof.
  unfold lmon_run. intros H Hc. rewrite lmon_fold_app in H.
  destruct (lmon_fold lmon_init a) as [m0|]; [|discriminate].
  rewrite lmon_fold_app in H. unfold lmon_fold at 1 in H. cbn [mon_fold lmon_step] in H.
  destruct (l_owed m0); [discriminate|]. rewrite lmon_fold_app in H.
  destruct (lmon_fold _ b) as [m2|] eqn:Eb; [|discriminate].
  destruct (lmon_pending _ _ _ Eb) as (_ & H2 & H3); [cbn; discriminate|assumption|].
  cbn [l_probe] in H2. auto.
Qed.

Section DecLookHeadline.
Variable P : prims.
Variable key aad : bytes.
Variable cs : N.
Hypothesis Hkey : length key = 32.

Theorem dec_lookahead_accepts_gen fuel n s res s' :
  decrypt_chunks_loop P fuel key aad cs n s = (res, s') ->
  exists d m, trace s' = trace s ++ d /\ lmon_run d = Some m.
Proof.
  intros E. destruct (dec_loop_tr P key aad cs Hkey _ _ _ _ _ E) as ((d & out & Htr & Ht & _) & _).
  destruct (dec_tr_lmon P key aad cs _ _ _ _ Htr) as [m Hm]. eauto.
Qed.

Theorem dec_lookahead_accepts s res s' :
  log s = [] ->
  decrypt_chunks P key aad cs s = (res, s') ->
  exists m, lmon_run (trace s') = Some m.
Proof.
  intros Hlog E. unfold decrypt_chunks in E.
  destruct (dec_lookahead_accepts_gen _ _ _ _ _ E) as (d & m & Ht & Hm).
  exists m. rewrite Ht. unfold trace at 1. rewrite Hlog. exact Hm.
Qed.

(* trace-level statement *)
Theorem dec_no_read_before_release s res s' a k n ad ct pt b c :
  log s = [] ->
  decrypt_chunks P key aad cs s = (res, s') ->
  trace s' = a ++ [EvOpen k n ad ct (Some pt)] ++ b ++ c ->
  count_ev is_flush_okb b = 0 ->
  count_ev is_read_evb b <= (if ad_final ad then 1 else 0) /\
  (forall e, In e b -> is_read_evb e = true -> is_probe_evb e = true).
Proof.
  intros Hlog E Hsplit Hc. destruct (dec_lookahead_accepts _ _ _ Hlog E) as [m Hm].
  rewrite Hsplit in Hm. exact (lmon_lookahead _ _ _ _ _ _ _ _ _ Hm Hc).
Qed.

End DecLookHeadline.

(* ================================================================================================
   B3. buffer sizes: every request, every offered buffer, every AEAD input is bounded by the chunk size
   ================================================================================================ *)
Definition evs_ok (f : event -> bool) (d : list event) : Prop := Forall (fun e => f e = true) d.

Lemma evs_ok_forallb f d : evs_ok f d -> forallb f d = true.
Proof. intros H. apply forallb_forall. intros e He. exact (proj1 (Forall_forall _ _) H e He). Qed.
Lemma evs_ok_app f a b : evs_ok f a -> evs_ok f b -> evs_ok f (a ++ b).
Proof. intros Ha Hb. apply Forall_app. now split. Qed.

Lemma leb_and a b c d : a <= b -> c <= d -> ((a <=? b) && (c <=? d))%nat = true.
Proof. intros H1 H2. apply andb_true_iff. split; now apply Nat.leb_le. Qed.

(* ---------- decrypt ---------- *)
Lemma dec_prog_ok c n e : n <= c + 16 -> rd_prog n e -> dec_ev_ok c e = true.
Proof.
  intros Hn. destruct e as [req got|req err| | | | | |]; cbn [rd_prog dec_ev_ok]; try contradiction.
  - destruct got as [|g got]; [contradiction|]. intros [H1 H2]. apply leb_and; lia.
  - destruct err; try contradiction. intros H. apply Nat.leb_le. lia.
Qed.
Lemma dec_term_ok c n e : n <= c + 16 -> rd_term n e -> dec_ev_ok c e = true.
Proof.
  intros Hn. destruct e as [req got|req err| | | | | |]; cbn [rd_term dec_ev_ok]; try contradiction.
  - destruct got as [|g got]; [|contradiction]. intros H. apply leb_and; cbn [length]; lia.
  - intros [_ H]. apply Nat.leb_le. lia.
Qed.
Lemma dec_rx_ok c n d : n <= c + 16 -> rx_ok n d -> evs_ok (dec_ev_ok c) d.
Proof. intros Hn H. eapply Forall_impl; [|exact H]. intros e. now apply dec_prog_ok. Qed.
Lemma dec_rx_err c n d : n <= c + 16 -> rx_err n d -> evs_ok (dec_ev_ok c) d.
Proof.
  intros Hn (d' & e & -> & H1 & H2). apply evs_ok_app; [now apply (dec_rx_ok c n)|].
  constructor; [now apply (dec_term_ok c n)|constructor].
Qed.

Lemma dec_wa_ok c buf d r acc : wa_tr buf d r acc -> length buf <= c -> evs_ok (dec_ev_ok c) d.
Proof.
  induction 1 as [|buf d r acc Hne H IH|buf err Hne He|buf Hne|buf k d r acc Hne Hk H IH]; intros Hl.
  - constructor.
  - constructor; [now apply Nat.leb_le|now apply IH].
  - constructor; [now apply Nat.leb_le|constructor].
  - constructor; [now apply Nat.leb_le|constructor].
  - constructor; [now apply Nat.leb_le|]. apply IH. rewrite skipn_length. lia.
Qed.
Lemma dec_wf_ok c buf d r acc : wf_tr buf d r acc -> length buf <= c -> evs_ok (dec_ev_ok c) d.
Proof.
  destruct 1 as [d err acc H|d H|d err H]; intros Hl.
  - now apply (dec_wa_ok _ _ _ _ _ H).
  - apply evs_ok_app; [now apply (dec_wa_ok _ _ _ _ _ H)|repeat constructor].
  - apply evs_ok_app; [now apply (dec_wa_ok _ _ _ _ _ H)|repeat constructor].
Qed.

Section Bounds.
Variable P : prims.
Variable key aad : bytes.
Variable cs : N.
Hypothesis Haead : aead_ok P.
Notation csn := (N.to_nat cs).

Lemma dec_pre_ok n d ad ct r fin : dec_pre P key aad cs n d ad ct r fin ->
  evs_ok (dec_ev_ok csn) d /\ forall pt, r = Some pt -> length pt <= csn.
Proof.
  intros (d1 & d2 & lastb & lenb & -> & Hx1 & Hx2 & Hlen & Hct & _ & _ & _ & _ & Hopen).
  assert (Hpt : forall pt, r = Some pt -> length pt <= csn).
  { intros pt Hr. apply Hopen in Hr. apply (open_len P Haead) in Hr. lia. }
  split; [|exact Hpt].
  apply evs_ok_app; [apply (dec_rx_ok _ 16); [lia|assumption]|].
  apply evs_ok_app; [eapply dec_rx_ok; [|eassumption]; lia|].
  constructor; [|constructor]. cbn [dec_ev_ok]. apply andb_true_iff. split; [apply Nat.leb_le; lia|].
  destruct r as [pt|]; [|reflexivity]. apply Nat.leb_le. now apply Hpt.
Qed.

Theorem dec_tr_bounded n d res out : dec_tr P key aad cs n d res out -> evs_ok (dec_ev_ok csn) d.
Proof.
  induction 1 as [n|n d ie Hx|n d Hx|n d1 d2 len ie Hx1 Hlen Hx2|n d ad ct fin Hpre
                 |n d ad ct pt ie Hpre|n d ad ct pt x Hpre|n d ad ct pt d4 r acc Hpre Hwf
                 |n d ad ct pt d4 err acc Hpre Hwf|n d ad ct pt d4 d5 res out Hpre Hwf Htr IH].
  - constructor.
  - apply (dec_rx_err _ 16); [lia|assumption].
  - apply (dec_rx_ok _ 16); [lia|assumption].
  - apply evs_ok_app; [apply (dec_rx_ok _ 16); [lia|assumption]|].
    eapply dec_rx_err; [|eassumption]. lia.
  - apply (dec_pre_ok _ _ _ _ _ _ Hpre).
  - apply evs_ok_app; [apply (dec_pre_ok _ _ _ _ _ _ Hpre)|].
    constructor; [apply Nat.leb_le; lia|constructor].
  - apply evs_ok_app; [apply (dec_pre_ok _ _ _ _ _ _ Hpre)|].
    constructor; [apply leb_and; cbn [length]; lia|constructor].
  - destruct (dec_pre_ok _ _ _ _ _ _ Hpre) as [H1 H2].
    apply evs_ok_app; [exact H1|]. constructor; [apply leb_and; cbn [length]; lia|].
    apply (dec_wf_ok _ _ _ _ _ Hwf). now apply H2.
  - destruct (dec_pre_ok _ _ _ _ _ _ Hpre) as [H1 H2].
    apply evs_ok_app; [exact H1|]. apply (dec_wf_ok _ _ _ _ _ Hwf). now apply H2.
  - destruct (dec_pre_ok _ _ _ _ _ _ Hpre) as [H1 H2].
    apply evs_ok_app; [exact H1|]. apply evs_ok_app; [|exact IH].
    apply (dec_wf_ok _ _ _ _ _ Hwf). now apply H2.
Qed.

(* ---------- encrypt ---------- *)
Lemma enc_wa_ok c buf d r acc : wa_tr buf d r acc -> length buf <= c + 16 -> evs_ok (enc_ev_ok c) d.
Proof.
  induction 1 as [|buf d r acc Hne H IH|buf err Hne He|buf Hne|buf k d r acc Hne Hk H IH]; intros Hl.
  - constructor.
  - constructor; [now apply Nat.leb_le|now apply IH].
  - constructor; [now apply Nat.leb_le|constructor].
  - constructor; [now apply Nat.leb_le|constructor].
  - constructor; [now apply Nat.leb_le|]. apply IH. rewrite skipn_length. lia.
Qed.
Lemma enc_wf_ok c buf d r acc : wf_tr buf d r acc -> length buf <= c + 16 -> evs_ok (enc_ev_ok c) d.
Proof.
  destruct 1 as [d err acc H|d H|d err H]; intros Hl.
  - now apply (enc_wa_ok _ _ _ _ _ H).
  - apply evs_ok_app; [now apply (enc_wa_ok _ _ _ _ _ H)|repeat constructor].
  - apply evs_ok_app; [now apply (enc_wa_ok _ _ _ _ _ H)|repeat constructor].
Qed.
Lemma enc_rec_ok n fin prev d r acc :
  rec_tr (e_hdr n fin prev) (e_ct P key aad n fin prev) d r acc -> length prev <= csn ->
  evs_ok (enc_ev_ok csn) d.
Proof.
  intros H Hl. pose proof (e_ct_length P key aad Haead n fin prev) as Hct.
  destruct H as [d err acc H|d1 d2 r acc H1 H2].
  - apply (enc_wa_ok _ _ _ _ _ H). rewrite e_hdr_length. lia.
  - apply evs_ok_app.
    + apply (enc_wa_ok _ _ _ _ _ H1). rewrite e_hdr_length. lia.
    + apply (enc_wf_ok _ _ _ _ _ H2). lia.
Qed.

Lemma enc_read_seal_ok cur prev k n ad : length cur <= csn -> length prev <= csn ->
  evs_ok (enc_ev_ok csn) [EvRead csn cur; EvSeal k n ad prev].
Proof.
  intros H1 H2. constructor; [apply leb_and; lia|]. constructor; [now apply Nat.leb_le|constructor].
Qed.

Theorem enc_tr_bounded n prev done d res out : enc_tr P key aad cs n prev done d res out ->
  length prev <= csn -> evs_ok (enc_ev_ok csn) d.
Proof.
  induction 1 as [n prev done|n prev done ie|n prev x xs Hl|n prev done cur w Hl
                 |n prev done cur d err acc Hl Hdc Hrec|n prev done cur d acc Hl Hfin Hrec
                 |n prev done cur d acc d2 res out Hl Hfin Hrec Htr IH]; intros Hp.
  - constructor.
  - constructor; [now apply Nat.leb_le|constructor].
  - constructor; [apply leb_and; lia|constructor].
  - constructor; [apply leb_and; lia|constructor].
  - apply (evs_ok_app _ [_; _]); [now apply enc_read_seal_ok|]. now apply (enc_rec_ok _ _ _ _ _ _ Hrec).
  - apply (evs_ok_app _ [_; _]); [now apply enc_read_seal_ok|]. now apply (enc_rec_ok _ _ _ _ _ _ Hrec).
  - apply (evs_ok_app _ [_; _]); [now apply enc_read_seal_ok|].
    apply evs_ok_app; [now apply (enc_rec_ok _ _ _ _ _ _ Hrec)|]. now apply IH.
Qed.

Theorem enc_top_bounded d res out : enc_top P key aad cs d res out -> evs_ok (enc_ev_ok csn) d.
Proof.
  destruct 1 as [ie|first d res out Hl Htr].
  - constructor; [now apply Nat.leb_le|constructor].
  - constructor; [apply leb_and; lia|]. now apply (enc_tr_bounded _ _ _ _ _ _ Htr).
Qed.

(* ---------- headline theorems, part B3 ---------- *)
Theorem enc_events_bounded s res s' :
  log s = [] -> encrypt_chunks P key aad cs s = (res, s') ->
  forallb (enc_ev_ok csn) (trace s') = true.
Proof.
  intros Hlog E. destruct (enc_chunks_tr P key aad cs _ _ _ E) as (d & out & Htr & Ht & _).
  rewrite Ht. unfold trace at 1. rewrite Hlog. apply evs_ok_forallb. now apply (enc_top_bounded _ _ _ Htr).
Qed.

Theorem enc_state_bounded s res s' :
  log s = [] -> encrypt_chunks P key aad cs s = (res, s') ->
  forall e, In e (trace s') ->
  match e with
  | EvRead req got => req <= Nat.max (csn + 16) 16 /\ req <= csn /\ length got <= csn
  | EvReadErr req _ => req <= Nat.max (csn + 16) 16 /\ req <= csn
  | EvWrite off _ | EvWriteErr off _ => length off <= csn + 16
  | EvSeal _ _ _ pt => length pt <= csn
  | EvFlush _ => True
  | EvOpen _ _ _ _ _ | EvKdf _ _ _ _ _ => False
  end.
Proof.
  intros Hlog E e He. pose proof (enc_events_bounded _ _ _ Hlog E) as H.
  rewrite forallb_forall in H. specialize (H e He).
  destruct e as [req got|req err|off took|off err|fr|k n ad ct r|k n ad pt|pw salt n r p];
    cbn [enc_ev_ok] in H; try discriminate; try exact I.
  - apply andb_true_iff in H. destruct H as [H1 H2]. apply Nat.leb_le in H1, H2. lia.
  - apply Nat.leb_le in H. lia.
  - now apply Nat.leb_le in H.
  - now apply Nat.leb_le in H.
  - now apply Nat.leb_le in H.
Qed.

Hypothesis Hkey : length key = 32.

Theorem dec_events_bounded s res s' :
  log s = [] -> decrypt_chunks P key aad cs s = (res, s') ->
  forallb (dec_ev_ok csn) (trace s') = true.
Proof.
  intros Hlog E. unfold decrypt_chunks in E.
  destruct (dec_loop_tr P key aad cs Hkey _ _ _ _ _ E) as ((d & out & Htr & Ht & _) & _).
  rewrite Ht. unfold trace at 1. rewrite Hlog. apply evs_ok_forallb. now apply (dec_tr_bounded _ _ _ _ Htr).
Qed.

Theorem dec_state_bounded s res s' :
  log s = [] -> decrypt_chunks P key aad cs s = (res, s') ->
  forall e, In e (trace s') ->
  match e with
  | EvRead req got => req <= Nat.max (csn + 16) 16 /\ length got <= req
  | EvReadErr req _ => req <= Nat.max (csn + 16) 16
  | EvWrite off _ | EvWriteErr off _ => length off <= csn
  | EvOpen _ _ _ ct r => length ct <= csn + 16 /\ forall pt, r = Some pt -> length pt <= csn
  | EvFlush _ => True
  | EvSeal _ _ _ _ | EvKdf _ _ _ _ _ => False
  end.
Proof.
  intros Hlog E e He. pose proof (dec_events_bounded _ _ _ Hlog E) as H.
  rewrite forallb_forall in H. specialize (H e He).
  destruct e as [req got|req err|off took|off err|fr|k n ad ct r|k n ad pt|pw salt n r p];
    cbn [dec_ev_ok] in H; try discriminate; try exact I.
  - apply andb_true_iff in H. destruct H as [H1 H2]. apply Nat.leb_le in H1, H2. lia.
  - apply Nat.leb_le in H. lia.
  - now apply Nat.leb_le in H.
  - now apply Nat.leb_le in H.
  - apply andb_true_iff in H. destruct H as [H1 H2]. apply Nat.leb_le in H1. split; [exact H1|].
    intros pt ->. now apply Nat.leb_le in H2.
Qed.

End Bounds.

(* ================================================================================================
   Non-vacuity: the monitors reject bad traces, and accept the traces the loops really produce
   (toy AEAD of Model/Monitors.v, short reads, interrupted and partial writes, a failing sink)
   ================================================================================================ *)
Definition ad_last : bytes := [0; 0; 0; 1; 0; 0; 0; 1]%N.
Definition ad_more : bytes := [0; 0; 0; 0; 0; 0; 0; 1]%N.

(* a write before any open *)
Example dmon_rejects_write_before_open : dmon_run [EvRead 16 [1%N]; EvWrite [7%N] 1] = None.
Proof. vm_compute. reflexivity. Qed.
(* bytes other than the authenticated ones are offered *)
Example dmon_rejects_foreign_bytes :
  dmon_run [EvOpen [] 0 ad_more [] (Some [7%N]); EvWrite [8%N] 1] = None.
Proof. vm_compute. reflexivity. Qed.
(* the final chunk is released before the end-of-input probe *)
Example dmon_rejects_release_before_probe :
  dmon_run [EvOpen [] 0 ad_last [] (Some [7%N]); EvWrite [7%N] 1] = None.
Proof. vm_compute. reflexivity. Qed.
Example dmon_accepts_release_after_probe :
  dmon_run [EvOpen [] 0 ad_last [] (Some [7%N]); EvRead 1 []; EvWrite [7%N] 1; EvFlush None] =
  Some (Build_dmon [[7%N]] [7%N] true true false).
Proof. vm_compute. reflexivity. Qed.
(* something is written after the event that determined the error *)
Example dmon_rejects_write_after_error :
  dmon_run [EvOpen [] 0 ad_more [] (Some [7%N; 8%N]); EvWriteErr [7%N; 8%N] OtherErr; EvWrite [7%N; 8%N] 2] = None.
Proof. vm_compute. reflexivity. Qed.
(* the next chunk is opened while part of the previous one is still held back *)
Example dmon_rejects_open_while_holding :
  dmon_run [EvOpen [] 0 ad_more [] (Some [7%N; 8%N]); EvWrite [7%N; 8%N] 1;
            EvOpen [] 1 ad_more [] (Some [9%N])] = None.
Proof. vm_compute. reflexivity. Qed.
(* three reads with nothing flushed out *)
Example emon_rejects_third_read : emon_run [EvRead 4 [1%N]; EvRead 4 [2%N]; EvRead 4 [3%N]] = None.
Proof. vm_compute. reflexivity. Qed.
(* the look-ahead chunk is sealed instead of the held one *)
Example emon_rejects_wrong_seal : emon_run [EvRead 4 [1%N]; EvRead 4 [2%N]; EvSeal [] 0 [] [2%N]] = None.
Proof. vm_compute. reflexivity. Qed.
(* input is consumed between an open and the release of its plaintext *)
Example lmon_rejects_read_before_release :
  lmon_run [EvOpen [] 0 ad_more [] (Some [7%N]); EvRead 16 [1%N]] = None.
Proof. vm_compute. reflexivity. Qed.
Example lmon_rejects_flush_before_all_written :
  lmon_run [EvOpen [] 0 ad_more [] (Some [7%N; 8%N]); EvWrite [7%N; 8%N] 1; EvFlush None] = None.
Proof. vm_compute. reflexivity. Qed.

(* real runs *)
Definition ex_key : bytes := zeros 32.
Definition ex_pt : bytes := [1; 2; 3; 4; 5; 6; 7; 8; 9; 10]%N.
Definition ex_enc := encrypt_chunks toy_prims ex_key [9%N] 4
  (mk_io ex_pt [RCap 4; RCap 9; RCap 2] [WCap 5; WFail Interrupted; WCap 100; WCap 1] [FOk]).
Definition ex_ct : bytes := let '(_, s') := ex_enc in w_out (wtr s').
Definition ex_dec := decrypt_chunks toy_prims ex_key [9%N] 4
  (mk_io ex_ct [RCap 5; RFail Interrupted; RCap 1; RCap 100; RCap 7] [WCap 1; WCap 2; WFail Interrupted] []).
Definition ex_dec_fault := decrypt_chunks toy_prims ex_key [9%N] 4
  (mk_io ex_ct [] [WCap 100; WCap 3; WFail OtherErr] []).
Definition ex_dec_trunc := decrypt_chunks toy_prims ex_key [9%N] 4 (mk_io (firstn 60 ex_ct) [] [] []).

Example ex_enc_monitored :
  (let '(r, s') := ex_enc in (r, emon_run (trace s'), forallb (enc_ev_ok 4) (trace s'))) =
  (Ok tt, Some (Build_emon [[]] false 0), true).
Proof. vm_compute. reflexivity. Qed.
Example ex_dec_monitored :
  (let '(r, s') := ex_dec in
   (r, dmon_run (trace s'), lmon_run (trace s'), forallb (dec_ev_ok 4) (trace s'), w_out (wtr s'))) =
  (Ok tt, Some (Build_dmon [[1; 2; 3; 4]; [5; 6; 7; 8]; [9; 10]]%N ex_pt true true false),
   Some (Build_lmon None false), true, ex_pt).
Proof. vm_compute. reflexivity. Qed.
Example ex_dec_fault_monitored :
  (let '(r, s') := ex_dec_fault in (r, dmon_run (trace s'), lmon_run (trace s'), w_out (wtr s'))) =
  (Err (DIOWrite OtherErr),
   Some (Build_dmon [[1; 2; 3; 4]; [5; 6; 7; 8]]%N [1; 2; 3; 4; 5; 6; 7]%N false false true),
   Some (Build_lmon (Some 1) false), [1; 2; 3; 4; 5; 6; 7]%N).
Proof. vm_compute. reflexivity. Qed.
Example ex_dec_trunc_monitored :
  (let '(r, s') := ex_dec_trunc in (r, dmon_run (trace s'), w_out (wtr s'))) =
  (Err (DIORead OtherErr), Some (Build_dmon [[1; 2; 3; 4]]%N [1; 2; 3; 4]%N false false true), [1; 2; 3; 4]%N).
Proof. vm_compute. reflexivity. Qed.

Section Closed.
Print Assumptions dec_loop_tr.
Print Assumptions enc_chunks_tr.
Print Assumptions dec_loop_monitor.
Print Assumptions dec_monitor_accepts.
Print Assumptions dec_whole_chunks.
Print Assumptions dec_every_moment.
Print Assumptions enc_monitor_accepts.
Print Assumptions enc_lookahead_one.
Print Assumptions emon_lookahead.
Print Assumptions dec_lookahead_accepts.
Print Assumptions dec_no_read_before_release.
Print Assumptions enc_state_bounded.
Print Assumptions enc_events_bounded.
Print Assumptions dec_state_bounded.
Print Assumptions dec_events_bounded.
End Closed.
