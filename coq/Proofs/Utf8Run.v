(* Proofs/Utf8Run.v — Model/Utf8.v computes the same functions as the executable codec used by the correspondence
   check (Run/RunKeyring.v::utf8_char / utf8, Run/RunCli.v::utf8_dec / utf8_decode, the latter with fuel). *)
From Kestrel Require Import Bytes BytesFacts.
From Kestrel.Model Require Import KeyringText.
From Kestrel.Model Require Utf8.
From Kestrel.Run Require RunKeyring RunCli.
From Coq Require Import ZifyBool ZifyNat ZifyN.
Local Open Scope N_scope.

Lemma run_utf8_char_eq c : RunKeyring.utf8_char c = Utf8.utf8_char c.
Proof. reflexivity. Qed.

Theorem run_utf8_eq t : RunKeyring.utf8 t = Utf8.utf8_encode t.
Proof. reflexivity. Qed.

(* any fuel above the length computes the fuel-free decoder *)
Lemma run_utf8_dec_eq : forall fuel b, (length b < fuel)%nat -> RunCli.utf8_dec fuel b = Utf8.utf8_decode b.
Proof.
  induction fuel as [|f IH]; intros b Hl; [lia|].
  destruct b as [|b0 r]; [reflexivity|]. cbn [length] in Hl.
  cbn [RunCli.utf8_dec Utf8.utf8_decode]. change RunCli.cont with Utf8.cont.
  destruct (b0 <? 128). { rewrite IH by lia. reflexivity. }
  destruct ((194 <=? b0) && (b0 <=? 223)).
  { destruct r as [|b1 r']; [reflexivity|]. cbn [length] in Hl. rewrite IH by lia. reflexivity. }
  destruct ((224 <=? b0) && (b0 <=? 239)).
  { destruct r as [|b1 [|b2 r']]; [reflexivity|reflexivity|]. cbn [length] in Hl. rewrite IH by lia. reflexivity. }
  destruct ((240 <=? b0) && (b0 <=? 244)); [|reflexivity].
  destruct r as [|b1 [|b2 [|b3 r']]]; [reflexivity|reflexivity|reflexivity|]. cbn [length] in Hl.
  rewrite IH by lia. reflexivity.
Qed.

Theorem run_utf8_decode_eq b : RunCli.utf8_decode b = Utf8.utf8_decode b.
Proof. unfold RunCli.utf8_decode. apply run_utf8_dec_eq. lia. Qed.

Print Assumptions run_utf8_eq.
Print Assumptions run_utf8_decode_eq.
