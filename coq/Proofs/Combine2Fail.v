(* Proofs/Combine2Fail.v — C13: the link between the library theorems ("nothing is written before an AEAD open has
   succeeded", Proofs/ChunksOpen.v; "a refused key exchange leaves the state untouched", Proofs/FilesFacts.v) and the
   CLI theorems ("a run without a write/flush call leaves the file system alone", Proofs/CliFacts.v).

   Part 1 lifts dec_no_open_no_output through the headers of pass_decrypt / key_decrypt DIRECTLY on the definitions
   (not through pass_decrypt_header / key_decrypt_header, which need the input to have a complete header): the
   statements hold for EVERY io state, every input, every read script — a short or malformed header, a wrong mode,
   an unknown magic, a handshake that does not verify are all covered by the same theorem.
   Part 2 composes with the CLI. *)
From Kestrel Require Import Bytes BytesFacts Outcome IO IOFacts Prims.
From Kestrel.gen Require Import Extracted.
From Kestrel.Model Require Import AeadWrap Chunks Noise Files EventPreds KeyringText Cli Combine2Defs.
From Kestrel.Proofs Require Import MonadFacts ChunksDec ChunksAuth ChunksOpen FilesFacts CliFacts.
From Coq Require Import ZifyBool ZifyNat ZifyN.
Local Open Scope N_scope.

Lemma no_open_ok_app a b : no_open_ok (a ++ b) -> no_open_ok a /\ no_open_ok b.
Proof.
  intros H. split; intros k m ad ct pt Hin; apply (H k m ad ct pt); apply in_or_app; auto.
Qed.

Lemma no_out_sink_ev e : no_out_ev e -> sink_ev e = false.
Proof. destruct e; cbn; intros H; try reflexivity; contradiction. Qed.

Lemma no_out_untouched s : Forall no_out_ev (log s) -> sink_touched s = false.
Proof.
  unfold sink_touched. generalize (log s) as l. induction l as [|e l IH]; intros H; [reflexivity|].
  inversion H as [|e' l' He Hl]; subst. cbn [existsb]. rewrite (no_out_sink_ev _ He), (IH Hl). reflexivity.
Qed.

Lemma decrypt_chunks_log_mono (P : prims) key aad cs : length key = 32%nat ->
  forall s r s', decrypt_chunks P key aad cs s = (r, s') -> exists d, log s' = d ++ log s.
Proof. intros Hk s r s' E. unfold decrypt_chunks in E. exact (dec_loop_log_mono P key aad cs Hk _ _ _ _ _ E). Qed.

Section Lib.
Variable P : prims.
Hypothesis HH : hash_ok P.

Lemma read_err_shape {A} (ie : ioerr) : exists e, @Err derr A (d_read_err ie) = Err (DIORead e).
Proof. unfold d_read_err. destruct ie; eauto. Qed.

(* ---------- pass_decrypt ---------- *)
Theorem pass_decrypt_no_open_no_output pw s res s' d :
  pass_decrypt P pw s = (res, s') -> log s' = d ++ log s -> no_open_ok d ->
  w_out (wtr s') = w_out (wtr s) /\ Forall no_out_ev d /\
  (res = Err DChaPolyDecrypt \/ res = Err DChunkLen \/ (exists e, res = Err (DIORead e)) \/
   res = Err DOtherFormat \/ res = Err DOtherWrongMode).
Proof.
  unfold pass_decrypt. intros E Hd Hno.
  unfold bind at 1 in E.
  destruct (m_read_exact d_read_err (N.to_nat x_dec_magic_len) s) as [r1 s1] eqn:E1.
  pose proof (m_read_exact_cases _ _ _ _ _ E1) as (Hw1 & d1 & Hl1 & Hev1 & Hr1).
  destruct r1 as [magic|e|w|]; try contradiction.
  2:{ injection E as <- <-. rewrite Hl1 in Hd. apply app_inv_tail in Hd. subst d1.
      split; [now rewrite Hw1|]. split; [now apply read_evs_no_out|].
      destruct Hr1 as ((ie & ->) & _). right. right. left. destruct (@read_err_shape unit ie) as (e' & He').
      exists e'. exact He'. }
  clear Hr1.
  destruct (valid_file_format magic) as [[|]|].
  - (* asymmetric file given to password decrypt *)
    injection E as <- <-. rewrite Hl1 in Hd. apply app_inv_tail in Hd. subst d1.
    split; [now rewrite Hw1|]. split; [now apply read_evs_no_out|]. tauto.
  - unfold bind at 1 in E.
    destruct (m_read_exact d_read_err (N.to_nat x_dec_salt_len) s1) as [r2 s2] eqn:E2.
    pose proof (m_read_exact_cases _ _ _ _ _ E2) as (Hw2 & d2 & Hl2 & Hev2 & Hr2).
    destruct r2 as [salt|e|w|]; try contradiction.
    2:{ injection E as <- <-. rewrite Hl2, Hl1, app_assoc in Hd. apply app_inv_tail in Hd. subst d.
        split; [now rewrite Hw2, Hw1|]. split; [apply Forall_app; split; now apply read_evs_no_out|].
        destruct Hr2 as ((ie & ->) & _). right. right. left. destruct (@read_err_shape unit ie) as (e' & He').
        exists e'. exact He'. }
    clear Hr2. cbv zeta in E.
    set (ev := EvKdf pw salt x_lib_scrypt_n x_lib_scrypt_r x_lib_scrypt_p) in *.
    set (key := p_scrypt P pw salt x_lib_scrypt_n x_lib_scrypt_r x_lib_scrypt_p (N.to_nat x_dec_scrypt_len)) in *.
    assert (Hkey : length key = 32%nat) by (unfold key; rewrite (scrypt_len P HH); reflexivity).
    assert (Ee : @emit derr ev s2 = (Ok tt, with_log s2 ev)) by reflexivity.
    rewrite (bind_ok _ _ _ _ _ Ee) in E.
    destruct (decrypt_chunks_log_mono P key magic cs_const Hkey _ _ _ E) as [d3 Hd3].
    assert (Hdd : d = d3 ++ ev :: d2 ++ d1).
    { apply (app_inv_tail (log s)). rewrite <- Hd, Hd3. cbn [log with_log]. rewrite Hl2, Hl1.
      rewrite <- !app_assoc. cbn [app]. now rewrite <- app_assoc. }
    assert (Hno3 : forall m ad ct pt, ~ In (EvOpen key m ad ct (Some pt)) d3).
    { intros m ad ct pt Hin. apply (Hno key m ad ct pt). rewrite Hdd. apply in_or_app. now left. }
    destruct (wrong_key_rejected_gen P key magic cs_const Hkey _ _ _ d3 E Hd3 Hno3) as (Hres & Ho & Hev3).
    split; [cbn [wtr with_log] in Ho; now rewrite Ho, Hw2, Hw1|]. split.
    + rewrite Hdd. apply Forall_app. split; [exact Hev3|]. constructor; [exact I|].
      apply Forall_app; split; now apply read_evs_no_out.
    + destruct Hres as [->|[->|[e ->]]]; eauto 6.
  - injection E as <- <-. rewrite Hl1 in Hd. apply app_inv_tail in Hd. subst d1.
    split; [now rewrite Hw1|]. split; [now apply read_evs_no_out|]. tauto.
Qed.

(* ---------- key_decrypt ---------- *)
Theorem key_decrypt_no_open_no_output r rpk s res s' d :
  key_decrypt P r rpk s = (res, s') -> log s' = d ++ log s -> no_open_ok d ->
  w_out (wtr s') = w_out (wtr s) /\ Forall no_out_ev d /\
  (res = Err DChaPolyDecrypt \/ res = Err DChunkLen \/ (exists e, res = Err (DIORead e)) \/
   res = Err DOtherFormat \/ res = Err DOtherWrongMode \/ (exists ne, res = Err (DOtherNoise ne)) \/
   (exists w, res = Panic w) \/ res = OutOfFuel).
Proof.
  unfold key_decrypt. intros E Hd Hno.
  unfold bind at 1 in E.
  destruct (m_read_exact d_read_err (N.to_nat x_dec_prologue_len) s) as [r1 s1] eqn:E1.
  pose proof (m_read_exact_cases _ _ _ _ _ E1) as (Hw1 & d1 & Hl1 & Hev1 & Hr1).
  destruct r1 as [prologue|e|w|]; try contradiction.
  2:{ injection E as <- <-. rewrite Hl1 in Hd. apply app_inv_tail in Hd. subst d1.
      split; [now rewrite Hw1|]. split; [now apply read_evs_no_out|].
      destruct Hr1 as ((ie & ->) & _). right. right. left. destruct (@read_err_shape bytes ie) as (e' & He').
      exists e'. exact He'. }
  clear Hr1.
  destruct (valid_file_format prologue) as [[|]|].
  - unfold bind at 1 in E.
    destruct (m_read_exact d_read_err (N.to_nat x_dec_handshake_len) s1) as [r2 s2] eqn:E2.
    pose proof (m_read_exact_cases _ _ _ _ _ E2) as (Hw2 & d2 & Hl2 & Hev2 & Hr2).
    destruct r2 as [hm|e|w|]; try contradiction.
    2:{ injection E as <- <-. rewrite Hl2, Hl1, app_assoc in Hd. apply app_inv_tail in Hd. subst d.
        split; [now rewrite Hw2, Hw1|]. split; [apply Forall_app; split; now apply read_evs_no_out|].
        destruct Hr2 as ((ie & ->) & _). right. right. left. destruct (@read_err_shape bytes ie) as (e' & He').
        exists e'. exact He'. }
    clear Hr2.
    assert (Hd12 : log s2 = (d2 ++ d1) ++ log s) by (rewrite Hl2, Hl1; now rewrite app_assoc).
    assert (Hev12 : Forall no_out_ev (d2 ++ d1)) by (apply Forall_app; split; now apply read_evs_no_out).
    destruct (noise_decrypt P r rpk prologue hm) as [[[payload spk] hh]|ne|w|].
    + set (key := p_hkdf P [] payload hh (N.to_nat x_dec_hkdf_len)) in *.
      assert (Hkey : length key = 32%nat) by (unfold key; rewrite (hkdf_len P HH); [reflexivity|cbn; lia]).
      unfold bind at 1 in E.
      destruct (decrypt_chunks P key [] cs_const s2) as [r3 s3] eqn:E3.
      destruct (decrypt_chunks_log_mono P key [] cs_const Hkey _ _ _ E3) as [d3 Hd3].
      assert (Hs3 : s' = s3) by (destruct r3 as [u|e|w|]; injection E as <- <-; reflexivity).
      subst s'.
      assert (Hdd : d = d3 ++ d2 ++ d1).
      { apply (app_inv_tail (log s)). rewrite <- Hd, Hd3, Hd12. now rewrite <- !app_assoc. }
      assert (Hno3 : forall m ad ct pt, ~ In (EvOpen key m ad ct (Some pt)) d3).
      { intros m ad ct pt Hin. apply (Hno key m ad ct pt). rewrite Hdd. apply in_or_app. now left. }
      destruct (wrong_key_rejected_gen P key [] cs_const Hkey _ _ _ d3 E3 Hd3 Hno3) as (Hres & Ho & Hev3).
      split; [now rewrite Ho, Hw2, Hw1|]. split.
      * rewrite Hdd. apply Forall_app. split; assumption.
      * destruct Hres as [->|[->|[e ->]]]; injection E as <-; eauto 8.
    + injection E as <- <-. rewrite Hd12 in Hd. apply app_inv_tail in Hd. subst d.
      split; [now rewrite Hw2, Hw1|]. split; [assumption|]. do 5 right. left. eauto.
    + injection E as <- <-. rewrite Hd12 in Hd. apply app_inv_tail in Hd. subst d.
      split; [now rewrite Hw2, Hw1|]. split; [assumption|]. do 6 right. left. eauto.
    + injection E as <- <-. rewrite Hd12 in Hd. apply app_inv_tail in Hd. subst d.
      split; [now rewrite Hw2, Hw1|]. split; [assumption|]. do 7 right. reflexivity.
  - injection E as <- <-. rewrite Hl1 in Hd. apply app_inv_tail in Hd. subst d1.
    split; [now rewrite Hw1|]. split; [now apply read_evs_no_out|]. tauto.
  - injection E as <- <-. rewrite Hl1 in Hd. apply app_inv_tail in Hd. subst d1.
    split; [now rewrite Hw1|]. split; [now apply read_evs_no_out|]. tauto.
Qed.

End Lib.

(* ====================================================================================== *)
(* Header / chunk-stream decomposition of the two decryptors, for EVERY io state and script:
   either the header phase failed (not Ok, the writer untouched, only read events), or the header was read —
   the input starts with the magic and the salt / handshake message — and the result is that of decrypt_chunks on the
   state after the header.  (Used to carry the chunk-layer authenticity theorem dec_auth_file up to the file level.) *)
Section Decompose.
Variable P : prims.

Theorem pass_decrypt_decompose pw s res s' :
  pass_decrypt P pw s = (res, s') ->
  ((forall a, res <> Ok a) /\ wtr s' = wtr s /\ exists d, log s' = d ++ log s /\ Forall is_read_ev d)
  \/
  (exists salt s1 d,
     length salt = 32%nat /\ wtr s1 = wtr s /\ log s1 = d ++ log s /\ Forall is_read_ev d /\
     r_data (rdr s) = x_pass_file_magic ++ salt ++ r_data (rdr s1) /\
     decrypt_chunks P (kdf P pw salt) x_pass_file_magic cs_const
       (with_log s1 (EvKdf pw salt x_lib_scrypt_n x_lib_scrypt_r x_lib_scrypt_p)) = (res, s')).
Proof.
  unfold pass_decrypt. intros E.
  unfold bind at 1 in E.
  destruct (m_read_exact d_read_err (N.to_nat x_dec_magic_len) s) as [r1 s1] eqn:E1.
  pose proof (m_read_exact_cases _ _ _ _ _ E1) as (Hw1 & d1 & Hl1 & Hev1 & Hr1).
  destruct r1 as [magic|e|w|]; try contradiction.
  2:{ injection E as <- <-. left. split; [discriminate|]. split; [exact Hw1|]. eauto. }
  destruct Hr1 as (Hlm & Hdata1 & _).
  destruct (valid_file_format magic) as [[|]|] eqn:Ev.
  - injection E as <- <-. left. split; [discriminate|]. split; [exact Hw1|]. eauto.
  - apply vff_pass_iff in Ev. subst magic.
    unfold bind at 1 in E.
    destruct (m_read_exact d_read_err (N.to_nat x_dec_salt_len) s1) as [r2 s2] eqn:E2.
    pose proof (m_read_exact_cases _ _ _ _ _ E2) as (Hw2 & d2 & Hl2 & Hev2 & Hr2).
    destruct r2 as [salt|e|w|]; try contradiction.
    2:{ injection E as <- <-. left. split; [discriminate|]. split; [now rewrite Hw2|].
        exists (d2 ++ d1). split; [rewrite Hl2, Hl1; now rewrite app_assoc|]. apply Forall_app; split; assumption. }
    destruct Hr2 as (Hls & Hdata2 & _). cbv zeta in E.
    set (ev := EvKdf pw salt x_lib_scrypt_n x_lib_scrypt_r x_lib_scrypt_p) in *.
    assert (Ee : @emit derr ev s2 = (Ok tt, with_log s2 ev)) by reflexivity.
    rewrite (bind_ok _ _ _ _ _ Ee) in E. rewrite kdf_dec in E.
    right. exists salt, s2, (d2 ++ d1). split; [exact Hls|]. split; [now rewrite Hw2|].
    split; [rewrite Hl2, Hl1; now rewrite app_assoc|]. split; [apply Forall_app; split; assumption|].
    split; [rewrite Hdata1, Hdata2; reflexivity|exact E].
  - injection E as <- <-. left. split; [discriminate|]. split; [exact Hw1|]. eauto.
Qed.

Theorem key_decrypt_decompose r rpk s res s' :
  key_decrypt P r rpk s = (res, s') ->
  ((forall a, res <> Ok a) /\ wtr s' = wtr s /\ exists d, log s' = d ++ log s /\ Forall is_read_ev d)
  \/
  (exists msg payload spk hh s1 d r3,
     length msg = 128%nat /\ noise_decrypt P r rpk x_prologue msg = Ok (payload, spk, hh) /\
     wtr s1 = wtr s /\ log s1 = d ++ log s /\ Forall is_read_ev d /\
     r_data (rdr s) = x_prologue ++ msg ++ r_data (rdr s1) /\
     decrypt_chunks P (file_key P payload hh) [] cs_const s1 = (r3, s') /\
     res = obind r3 (fun _ => Ok spk)).
Proof.
  unfold key_decrypt. intros E.
  unfold bind at 1 in E.
  destruct (m_read_exact d_read_err (N.to_nat x_dec_prologue_len) s) as [r1 s1] eqn:E1.
  pose proof (m_read_exact_cases _ _ _ _ _ E1) as (Hw1 & d1 & Hl1 & Hev1 & Hr1).
  destruct r1 as [prologue|e|w|]; try contradiction.
  2:{ injection E as <- <-. left. split; [discriminate|]. split; [exact Hw1|]. eauto. }
  destruct Hr1 as (Hlm & Hdata1 & _).
  destruct (valid_file_format prologue) as [[|]|] eqn:Ev.
  - apply vff_asym_iff in Ev. subst prologue.
    unfold bind at 1 in E.
    destruct (m_read_exact d_read_err (N.to_nat x_dec_handshake_len) s1) as [r2 s2] eqn:E2.
    pose proof (m_read_exact_cases _ _ _ _ _ E2) as (Hw2 & d2 & Hl2 & Hev2 & Hr2).
    assert (Hd12 : log s2 = (d2 ++ d1) ++ log s) by (rewrite Hl2, Hl1; now rewrite app_assoc).
    assert (Hev12 : Forall is_read_ev (d2 ++ d1)) by (apply Forall_app; split; assumption).
    destruct r2 as [hm|e|w|]; try contradiction.
    2:{ injection E as <- <-. left. split; [discriminate|]. split; [now rewrite Hw2|]. eauto. }
    destruct Hr2 as (Hlh & Hdata2 & _).
    destruct (noise_decrypt P r rpk x_prologue hm) as [[[payload spk] hh]|ne|w|] eqn:En.
    + right. unfold bind at 1 in E. rewrite file_key_dec in E.
      destruct (decrypt_chunks P (file_key P payload hh) [] cs_const s2) as [r3 s3] eqn:E3.
      exists hm, payload, spk, hh, s2, (d2 ++ d1), r3.
      split; [exact Hlh|]. split; [exact En|]. split; [now rewrite Hw2|]. split; [exact Hd12|].
      split; [exact Hev12|]. split; [rewrite Hdata1, Hdata2; reflexivity|].
      destruct r3 as [u|e|w|]; injection E as <- <-; (split; [exact E3|reflexivity]).
    + injection E as <- <-. left. split; [discriminate|]. split; [now rewrite Hw2|]. eauto.
    + injection E as <- <-. left. split; [discriminate|]. split; [now rewrite Hw2|]. eauto.
    + injection E as <- <-. left. split; [discriminate|]. split; [now rewrite Hw2|]. eauto.
  - injection E as <- <-. left. split; [discriminate|]. split; [exact Hw1|]. eauto.
  - injection E as <- <-. left. split; [discriminate|]. split; [exact Hw1|]. eauto.
Qed.

(* ---------- authenticity at file level (C03 lifted through the headers) ---------- *)
Hypothesis HA : aead_ok P.
Hypothesis HH : hash_ok P.

(* password file: every input, every script.  salt is determined by the input (bytes 4..35). *)
Theorem pass_decrypt_auth_file pw s res s' :
  pass_decrypt P pw s = (res, s') ->
  (* header failed: nothing written *)
  ((forall a, res <> Ok a) /\ w_out (wtr s') = w_out (wtr s))
  \/
  (exists salt rest, length salt = 32%nat /\ r_data (rdr s) = x_pass_file_magic ++ salt ++ rest /\
     forall chunks, ChunksAuth.no_forgery P (kdf P pw salt) x_pass_file_magic chunks (log s') ->
       (exists written tl, w_out (wtr s') = w_out (wtr s) ++ written /\ written ++ tl = concat chunks) /\
       (res = Ok tt -> w_out (wtr s') = w_out (wtr s) ++ concat chunks)).
Proof.
  intros E. destruct (pass_decrypt_decompose _ _ _ _ E) as [(Hn & Hw & _)|(salt & s1 & d & Hls & Hw & _ & _ & Hdata & E3)].
  - left. split; [exact Hn|now rewrite Hw].
  - right. exists salt, (r_data (rdr s1)). split; [exact Hls|]. split; [exact Hdata|]. intros chunks NF.
    assert (Hkey : length (kdf P pw salt) = 32%nat) by (unfold kdf; rewrite (scrypt_len P HH); reflexivity).
    pose proof (dec_auth_file P (kdf P pw salt) x_pass_file_magic cs_const Hkey HA chunks _ _ _ _ E3 NF) as H.
    cbn [wtr with_log] in H. rewrite Hw in H. exact H.
Qed.

Theorem key_decrypt_auth_file r rpk s res s' :
  key_decrypt P r rpk s = (res, s') ->
  ((forall a, res <> Ok a) /\ w_out (wtr s') = w_out (wtr s))
  \/
  (exists msg rest payload spk hh, length msg = 128%nat /\ r_data (rdr s) = x_prologue ++ msg ++ rest /\
     noise_decrypt P r rpk x_prologue msg = Ok (payload, spk, hh) /\
     (forall a, res = Ok a -> a = spk) /\
     forall chunks, ChunksAuth.no_forgery P (file_key P payload hh) [] chunks (log s') ->
       (exists written tl, w_out (wtr s') = w_out (wtr s) ++ written /\ written ++ tl = concat chunks) /\
       (forall a, res = Ok a -> w_out (wtr s') = w_out (wtr s) ++ concat chunks)).
Proof.
  intros E. destruct (key_decrypt_decompose _ _ _ _ _ E)
    as [(Hn & Hw & _)|(msg & payload & spk & hh & s1 & d & r3 & Hlm & En & Hw & _ & _ & Hdata & E3 & Hres)].
  - left. split; [exact Hn|now rewrite Hw].
  - right. exists msg, (r_data (rdr s1)), payload, spk, hh. split; [exact Hlm|]. split; [exact Hdata|].
    split; [exact En|]. split.
    { intros a Ha. rewrite Hres in Ha. destruct r3 as [u|e|w|]; cbn [obind] in Ha; try discriminate. now injection Ha. }
    intros chunks NF.
    assert (Hkey : length (file_key P payload hh) = 32%nat).
    { unfold file_key. rewrite (hkdf_len P HH); [reflexivity|cbn; lia]. }
    pose proof (dec_auth_file P (file_key P payload hh) [] cs_const Hkey HA chunks _ _ _ _ E3 NF) as [H1 H2].
    rewrite Hw in H1, H2. split; [exact H1|]. intros a Ha. apply H2.
    rewrite Hres in Ha. destruct r3 as [[]|e|w|]; cbn [obind] in Ha; try discriminate. reflexivity.
Qed.

End Decompose.
