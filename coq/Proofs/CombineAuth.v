(* Proofs/CombineAuth.v — authenticity lifted (1) to SEVERAL honest chunk streams under pairwise distinct
   keys and (2) through the file headers, for EVERY io state (any offered bytes, any script, faults).
   Premise throughout: every successful AEAD open of the run opened an honest seal under the honest
   stream's key ([honest_open], the no-forgery idealisation).  No premise relates the offered bytes to
   the honest files. *)
From Kestrel Require Import Bytes BytesFacts Outcome IO IOFacts Prims.
From Kestrel.gen Require Import Extracted.
From Kestrel.Model Require Import AeadWrap Chunks Noise NoiseSpec Files EventPreds FilesSpec ChunksRobustDefs CombineDefs.
From Kestrel.Proofs Require Import MonadFacts ChunksDec ChunksAuth ChunksOpen ChunksRobust NoiseFacts FilesFacts
  CombineFiles CombineRobust CombineHeader.
From Coq Require Import ZifyBool ZifyNat ZifyN.
Local Open Scope N_scope.

Lemma bytes_eq_dec (a b : bytes) : {a = b} + {a <> b}.
Proof. apply list_eq_dec. exact N.eq_dec. Qed.

Lemma nodup_fst_inj {B} (l : list (bytes * B)) k v1 v2 :
  NoDup (map fst l) -> In (k, v1) l -> In (k, v2) l -> v1 = v2.
Proof.
  induction l as [|[k0 v0] l IH]; intros Hnd H1 H2; [contradiction|].
  cbn [map fst] in Hnd. inversion Hnd as [|? ? Hnin Hnd']; subst.
  destruct H1 as [H1|H1], H2 as [H2|H2].
  - congruence.
  - injection H1 as -> ->. exfalso. apply Hnin. apply (in_map fst) in H2. exact H2.
  - injection H2 as -> ->. exfalso. apply Hnin. apply (in_map fst) in H1. exact H1.
  - now apply IH.
Qed.

Lemma in_keys_dec {B} (l : list (bytes * B)) k : (exists v, In (k, v) l) \/ (forall v, ~ In (k, v) l).
Proof.
  induction l as [|[k0 v0] l IH]; [right; intros v []|].
  destruct (bytes_eq_dec k0 k) as [->|Hne]; [left; exists v0; now left|].
  destruct IH as [(v & Hv)|Hno]; [left; exists v; now right|].
  right. intros v [Hv|Hv]; [congruence|exact (Hno v Hv)].
Qed.

Lemma released_prefix_unfold (s s' : io) (res : outcome derr unit) (chunks : list bytes) :
  released_prefix s s' res chunks <->
  (exists written rest, w_out (wtr s') = w_out (wtr s) ++ written /\ written ++ rest = concat chunks) /\
  (res = Ok tt -> w_out (wtr s') = w_out (wtr s) ++ concat chunks).
Proof. reflexivity. Qed.

Lemma honest_open_unfold (P : prims) files aad key n ad ct pt :
  honest_open P files aad (EvOpen key n ad ct (Some pt)) <->
  exists chunks, In (key, chunks) files /\ In (n, ad, ct) (seal_log_from P key aad 0 chunks).
Proof. reflexivity. Qed.

Section AuthMulti.
Variable P : prims.
Hypothesis Haead : aead_ok P.

(* one honest stream, stated for the entry point decrypt_chunks *)
Theorem dec_auth_top key aad cs chunks s res s' :
  length key = 32%nat ->
  decrypt_chunks P key aad cs s = (res, s') ->
  no_forgery P key aad chunks (log s') ->
  (exists written rest, w_out (wtr s') = w_out (wtr s) ++ written /\ written ++ rest = concat chunks) /\
  (res = Ok tt -> w_out (wtr s') = w_out (wtr s) ++ concat chunks).
Proof. intros Hk E NF. unfold decrypt_chunks in E. exact (dec_auth_file P key aad cs Hk Haead chunks _ s res s' E NF). Qed.

(* the chunk layer with several honest streams: the run is either under a key of no honest stream —
   then it fails and releases nothing — or under the key of exactly one honest stream, and then what it
   released is a prefix of THAT stream's plaintext, all of it if the result is Ok.  Records of other
   streams cannot be mixed in. *)
Theorem dec_auth_multi files key' aad cs s res s' :
  length key' = 32%nat -> NoDup (map fst files) ->
  decrypt_chunks P key' aad cs s = (res, s') ->
  Forall (honest_open P files aad) (log s') ->
  ((forall chunks, ~ In (key', chunks) files) /\ (exists e, res = Err e) /\ w_out (wtr s') = w_out (wtr s)) \/
  (exists chunks, In (key', chunks) files /\ released_prefix s s' res chunks).
Proof.
  intros Hk Hnd E Hhon. rewrite Forall_forall in Hhon.
  destruct (in_keys_dec files key') as [(chunks & Hin)|Hno].
  - right. exists chunks. split; [exact Hin|].
    unfold decrypt_chunks in E.
    apply (dec_auth_file P key' aad cs Hk Haead chunks _ s res s' E).
    intros n ad ct pt Hev. specialize (Hhon _ Hev). cbn in Hhon. destruct Hhon as (chunks0 & Hin0 & Hlog).
    rewrite (nodup_fst_inj files key' chunks chunks0 Hnd Hin Hin0). exact Hlog.
  - left. split; [exact Hno|].
    destruct (decrypt_chunks_event_classes P _ _ _ _ _ _ E) as (d & Hl & _).
    destruct (wrong_key_rejected_gen P key' aad cs Hk s res s' d E Hl) as (Hres & Ho & _).
    { intros m ad ct pt Hev. assert (Hev' : In (EvOpen key' m ad ct (Some pt)) (log s')) by (rewrite Hl; apply in_or_app; now left).
      specialize (Hhon _ Hev'). cbn in Hhon. destruct Hhon as (chunks0 & Hin0 & _). exact (Hno chunks0 Hin0). }
    split; [|exact Ho]. destruct Hres as [->|[->|[ie ->]]]; eauto.
Qed.

End AuthMulti.

Section AuthFiles.
Variable P : prims.
Hypothesis Haead : aead_ok P.
Hypothesis Hh : hash_ok P.

Lemma honest_open_mono files aad l1 l2 :
  Forall (honest_open P files aad) (l1 ++ l2) -> Forall (honest_open P files aad) l1.
Proof. intros H. apply Forall_app in H. tauto. Qed.

(* password files: EVERY io state.  The run fails with the sink untouched, or the offered bytes begin
   magic ++ salt' and scrypt(pw, salt') is the key of exactly one honest file, a prefix of whose
   plaintext was released — all of it if the result is Ok. *)
Theorem pass_decrypt_authentic files pw s res s' :
  NoDup (map fst (pass_keyed P files)) ->
  pass_decrypt P pw s = (res, s') ->
  Forall (honest_open P (pass_keyed P files) x_pass_file_magic) (log s') ->
  ((exists e, res = Err e) /\ w_out (wtr s') = w_out (wtr s)) \/
  (exists pwi salti chunks salt' rest,
     In (pwi, salti, chunks) files /\
     r_data (rdr s) = x_pass_file_magic ++ salt' ++ rest /\ length salt' = 32%nat /\
     kdf P pw salt' = kdf P pwi salti /\
     released_prefix s s' res chunks).
Proof.
  intros Hnd E Hhon.
  destruct (pass_decrypt_inv P pw s res s' E) as [(e & d0 & -> & _ & Hw & _)|
    (salt' & sb & d0 & Hls & Hd & Hw & Hl & _ & _ & Ec)].
  - left. split; [eauto|now rewrite Hw].
  - destruct (dec_auth_multi P Haead (pass_keyed P files) (kdf P pw salt') x_pass_file_magic cs_const sb res s'
                (kdf_len P pw salt' Hh) Hnd Ec Hhon) as [(_ & He & Ho)|(chunks & Hin & Hrel)].
    + left. split; [exact He|now rewrite Ho, Hw].
    + right. unfold pass_keyed in Hin. apply in_map_iff in Hin. destruct Hin as ([[pwi salti] chunks0] & Heq & Hin).
      cbn [fst snd] in Heq. injection Heq as Hkeq <-.
      exists pwi, salti, chunks0, salt', (r_data (rdr sb)).
      split; [exact Hin|]. split; [exact Hd|]. split; [exact Hls|]. split; [now symmetry|].
      unfold released_prefix in *. rewrite Hw in Hrel. exact Hrel.
Qed.

(* one honest password file (pw, salt, chunks): whatever is offered and however I/O behaves, what
   pass_decrypt pw' releases — for ANY password pw' — is a prefix of the honest plaintext, and Ok means
   exactly the honest plaintext *)
Theorem pass_file_authentic pw salt chunks pw' s res s' :
  pass_decrypt P pw' s = (res, s') ->
  Forall (honest_open P [(kdf P pw salt, chunks)] x_pass_file_magic) (log s') ->
  released_prefix s s' res chunks.
Proof.
  intros E Hhon.
  destruct (pass_decrypt_authentic [(pw, salt, chunks)] pw' s res s') as [((e & ->) & Ho)|
    (pwi & salti & chunks0 & salt' & rest & Hin & _ & _ & _ & Hrel)].
  - cbn. constructor; [intros []|constructor].
  - exact E.
  - exact Hhon.
  - split; [|discriminate]. exists [], (concat chunks). now rewrite Ho, app_nil_r.
  - destruct Hin as [Hin|[]]. injection Hin as _ _ <-. exact Hrel.
Qed.

(* key files, chunk part (PARTIAL w.r.t. the handshake): EVERY io state.  Either no sender is reported
   and the sink is untouched, or the offered bytes begin prologue ++ msg, msg verified as a handshake
   under (r, rpk) yielding (payload, spk, hh), the derived file key is the key of exactly one honest
   stream, a prefix of whose plaintext was released; Ok reports spk and means all of it was released. *)
Theorem key_decrypt_chunks_authentic files r rpk s res s' :
  NoDup (map fst files) ->
  key_decrypt P r rpk s = (res, s') ->
  Forall (honest_open P files []) (log s') ->
  ((forall spk, res <> Ok spk) /\ w_out (wtr s') = w_out (wtr s)) \/
  (exists msg rest payload spk hh chunks,
     r_data (rdr s) = x_prologue ++ msg ++ rest /\ length msg = 128%nat /\
     noise_decrypt P r rpk x_prologue msg = Ok (payload, spk, hh) /\
     In (file_key P payload hh, chunks) files /\
     (exists written more, w_out (wtr s') = w_out (wtr s) ++ written /\ written ++ more = concat chunks) /\
     (forall spk', res = Ok spk' -> spk' = spk /\ w_out (wtr s') = w_out (wtr s) ++ concat chunks)).
Proof.
  intros Hnd E Hhon.
  destruct (key_decrypt_inv P r rpk s res s' E) as
    [(e & d & -> & _ & Hw & _)|[(msg0 & d & _ & _ & Hnok & Hres & Hw & _)|
     (msg & sb & d & payload & spk & hh & r3 & Hlm & Hd & Hn & Hw & _ & _ & _ & Ec & Hres)]].
  - left. split; [discriminate|now rewrite Hw].
  - left. split; [|now rewrite Hw]. intros spk0 Hspk. rewrite Hspk in Hres.
    destruct (noise_decrypt P r rpk x_prologue msg0) as [x| | |]; discriminate Hres.
  - destruct (dec_auth_multi P Haead files (file_key P payload hh) [] cs_const sb r3 s'
                (file_key_len P payload hh Hh) Hnd Ec Hhon) as [(_ & (e & ->) & Ho)|(chunks & Hin & Hpre & Hok)].
    + left. subst res. split; [discriminate|now rewrite Ho, Hw].
    + right. exists msg, (r_data (rdr sb)), payload, spk, hh, chunks.
      split; [exact Hd|]. split; [exact Hlm|]. split; [exact Hn|]. split; [exact Hin|].
      rewrite Hw in Hpre, Hok. split; [exact Hpre|].
      intros spk' Hspk. subst res. destruct r3 as [[]|e|w|]; cbn in Hspk; try discriminate Hspk.
      injection Hspk as <-. split; [reflexivity|]. now apply Hok.
Qed.

End AuthFiles.

Section Closure.
Print Assumptions dec_auth_top.
Print Assumptions dec_auth_multi.
Print Assumptions pass_decrypt_authentic.
Print Assumptions pass_file_authentic.
Print Assumptions key_decrypt_chunks_authentic.
End Closure.
