(* Proofs/CombineRand.v — the random-stream model of Model/Rand.v: a history of operations consumes
   consecutive, pairwise disjoint blocks of the stream, one block per drawn value; if the blocks of the
   stream are pairwise distinct, so are all values drawn in the history. *)
From Kestrel Require Import Bytes.
From Kestrel.Model Require Import Rand.
From Coq Require Import Lia.

Lemma draw_roles_spec stream : forall rs c,
  map d_index (fst (draw_roles stream c rs)) = seq c (length rs) /\
  map d_role (fst (draw_roles stream c rs)) = rs /\
  Forall (fun d => d_value d = stream (d_index d)) (fst (draw_roles stream c rs)) /\
  snd (draw_roles stream c rs) = c + length rs.
Proof.
  induction rs as [|r rest IH]; intros c; cbn [draw_roles].
  - cbn. repeat split; [constructor|lia].
  - specialize (IH (S c)). destruct (draw_roles stream (S c) rest) as [ds c'].
    cbn [fst snd] in *. destruct IH as (Hi & Hr & Hv & Hc). cbn [map length seq d_index d_role].
    rewrite Hi, Hr. repeat split; [constructor; [reflexivity|exact Hv]|lia].
Qed.

Lemma total_draws_cons o ops : total_draws (o :: ops) = length (op_roles o) + total_draws ops.
Proof. reflexivity. Qed.

Lemma total_draws_app a b : total_draws (a ++ b) = total_draws a + total_draws b.
Proof.
  induction a as [|o a IH]; [reflexivity|]. cbn [app]. rewrite !total_draws_cons, IH. lia.
Qed.

(* all draws of a history, in order, consume exactly the blocks c, c+1, ..., c + total - 1 *)
Theorem run_history_indices stream : forall ops c,
  map d_index (all_draws (fst (run_history stream c ops))) = seq c (total_draws ops) /\
  snd (run_history stream c ops) = c + total_draws ops.
Proof.
  induction ops as [|o rest IH]; intros c; cbn [run_history].
  - cbn. split; [reflexivity|lia].
  - destruct (draw_roles_spec stream (op_roles o) c) as (Hi & _ & _ & Hc).
    destruct (draw_roles stream c (op_roles o)) as [ds c1]. cbn [fst snd] in Hi, Hc.
    specialize (IH c1). destruct (run_history stream c1 rest) as [hs c2]. cbn [fst snd] in *.
    destruct IH as (Hih & Hc2). unfold all_draws in *. cbn [flat_map snd].
    rewrite map_app, Hi, Hih, Hc, total_draws_cons, seq_app. split; [reflexivity|lia].
Qed.

(* every drawn value is the stream block at its index; every operation draws the roles listed for
   it, in program order *)
Theorem run_history_values stream : forall ops c,
  Forall (fun d => d_value d = stream (d_index d)) (all_draws (fst (run_history stream c ops))) /\
  map fst (fst (run_history stream c ops)) = ops /\
  Forall (fun od => map d_role (snd od) = op_roles (fst od)) (fst (run_history stream c ops)).
Proof.
  induction ops as [|o rest IH]; intros c; cbn [run_history].
  - cbn. repeat split; constructor.
  - destruct (draw_roles_spec stream (op_roles o) c) as (_ & Hr & Hv & _).
    destruct (draw_roles stream c (op_roles o)) as [ds c1]. cbn [fst snd] in Hr, Hv.
    specialize (IH c1). destruct (run_history stream c1 rest) as [hs c2]. cbn [fst snd] in *.
    destruct IH as (Hvs & Hops & Hroles). unfold all_draws in *. cbn [flat_map snd map fst].
    repeat split.
    + apply Forall_app. split; assumption.
    + now rewrite Hops.
    + constructor; [exact Hr|exact Hroles].
Qed.

(* the segment of each operation: the i-th operation consumes exactly the blocks
   [c + draws of the earlier operations, + its own number of draws) *)
Theorem run_history_segment stream : forall ops c i o ds,
  nth_error (fst (run_history stream c ops)) i = Some (o, ds) ->
  nth_error ops i = Some o /\
  map d_index ds = seq (c + total_draws (firstn i ops)) (length (op_roles o)).
Proof.
  induction ops as [|o0 rest IH]; intros c i o ds H; cbn [run_history] in H.
  - destruct i; discriminate H.
  - destruct (draw_roles_spec stream (op_roles o0) c) as (Hi & _ & _ & Hc).
    destruct (draw_roles stream c (op_roles o0)) as [ds0 c1]. cbn [fst snd] in Hi, Hc.
    specialize (IH c1). destruct (run_history stream c1 rest) as [hs c2]. cbn [fst snd] in *.
    destruct i as [|i]; cbn [nth_error] in H.
    + injection H as <- <-. split; [reflexivity|]. cbn [firstn]. cbn. rewrite Hi. f_equal. lia.
    + destruct (IH i o ds H) as (Hn & Hseg). split; [exact Hn|].
      rewrite Hseg. cbn [firstn]. rewrite total_draws_cons, Hc. f_equal. lia.
Qed.

(* no block is consumed twice in a history: neither by two operations nor twice within one *)
Theorem draws_disjoint stream ops c :
  NoDup (map d_index (all_draws (fst (run_history stream c ops)))).
Proof. destruct (run_history_indices stream ops c) as (-> & _). apply seq_NoDup. Qed.

(* explicit pairwise form: the blocks of an earlier operation all precede those of a later one *)
Theorem draws_ordered stream ops c i j oi dsi oj dsj x y :
  i < j ->
  nth_error (fst (run_history stream c ops)) i = Some (oi, dsi) ->
  nth_error (fst (run_history stream c ops)) j = Some (oj, dsj) ->
  In x dsi -> In y dsj -> d_index x < d_index y.
Proof.
  intros Hij Hi Hj Hx Hy.
  destruct (run_history_segment stream ops c i oi dsi Hi) as (Hoi & Hsi).
  destruct (run_history_segment stream ops c j oj dsj Hj) as (Hoj & Hsj).
  assert (Hxi : In (d_index x) (map d_index dsi)) by (now apply in_map).
  assert (Hyj : In (d_index y) (map d_index dsj)) by (now apply in_map).
  rewrite Hsi in Hxi. rewrite Hsj in Hyj. apply in_seq in Hxi. apply in_seq in Hyj.
  (* total_draws (firstn j ops) >= total_draws (firstn (S i) ops) *)
  assert (Hmono : total_draws (firstn i ops) + length (op_roles oi) <= total_draws (firstn j ops)).
  { assert (Hsplit : firstn j ops = firstn (S i) ops ++ firstn (j - S i) (skipn (S i) ops)).
    { replace j with (S i + (j - S i)) at 1 by lia. clear. generalize (S i) as a, (j - S i) as b.
      induction a as [|a IHa]; intros b; [reflexivity|]. destruct ops as [|o ops']; [now destruct b|].
      cbn [plus firstn skipn app]. f_equal.
      revert b. clear IHa. revert ops'. induction a as [|a IHa]; intros ops' b; [reflexivity|].
      destruct ops' as [|o' ops'']; [now destruct b|]. cbn [plus firstn skipn app]. f_equal. apply IHa. }
    rewrite Hsplit, total_draws_app.
    assert (Hsi' : firstn (S i) ops = firstn i ops ++ [oi]).
    { clear - Hoi. revert ops Hoi. induction i as [|i IHi]; intros ops Hoi; destruct ops as [|o ops']; try discriminate.
      - cbn in Hoi. injection Hoi as ->. reflexivity.
      - cbn [nth_error] in Hoi. cbn [firstn app]. f_equal. now apply IHi. }
    rewrite Hsi', total_draws_app. cbn. lia. }
  lia.
Qed.

(* if the stream's blocks in the consumed range are pairwise distinct, all values drawn in the history
   are pairwise distinct — across operations and within each, also for identical operations *)
Theorem drawn_values_distinct stream ops c :
  (forall i j, c <= i < c + total_draws ops -> c <= j < c + total_draws ops -> stream i = stream j -> i = j) ->
  NoDup (map d_value (all_draws (fst (run_history stream c ops)))).
Proof.
  intros Hinj.
  destruct (run_history_indices stream ops c) as (Hidx & _).
  destruct (run_history_values stream ops c) as (Hval & _ & _).
  set (ds := all_draws (fst (run_history stream c ops))) in *.
  assert (Hmap : map d_value ds = map stream (map d_index ds)).
  { rewrite map_map. clear - Hval. induction Hval as [|d l Hd _ IH]; [reflexivity|]. cbn [map]. now rewrite Hd, IH. }
  rewrite Hmap, Hidx. clear - Hinj.
  assert (Hgen : forall n a, c <= a -> a + n <= c + total_draws ops -> NoDup (map stream (seq a n))).
  { induction n as [|n IH]; intros a Ha Hb; [constructor|]. cbn [seq map]. constructor.
    - intros Hin. apply in_map_iff in Hin. destruct Hin as (j & Hj & Hjin). apply in_seq in Hjin.
      assert (j = a) by (apply Hinj; [lia|lia|exact Hj]). lia.
    - apply IH; lia. }
  apply Hgen; lia.
Qed.

Section Closure.
Print Assumptions run_history_indices.
Print Assumptions run_history_values.
Print Assumptions run_history_segment.
Print Assumptions draws_disjoint.
Print Assumptions draws_ordered.
Print Assumptions drawn_values_distinct.
End Closure.
